# Seeded source mutations used by tools/selftest.py to test the checker both ways.
# Each mutant still compiles (verified by the runner) and breaks one rule instance.
# edits are exact-text replacements (text must occur exactly once; otherwise the
# mutant is skipped and counted, e.g. after an upstream refactor).
MUTANTS = []

def M(name, props, rules, file, old, new, expect=None, more=None):
    edits = [{"file": file, "old": old, "new": new}]
    if more:
        edits += more
    MUTANTS.append({"name": name, "props": props, "rules": rules, "edits": edits, "expect": expect})

# ---------------------------------------------------------------- C02
M("c02-drop-ensure-in-deleteObject", ["C02"], {"C02": ["R02.1"]}, "gofakes3.go",
  """	g.log.Print(LogInfo, "DELETE:", bucket, object)
	if err := g.ensureBucketExists(bucket); err != nil {
		return err
	}
""", """	g.log.Print(LogInfo, "DELETE:", bucket, object)
""", expect="deleteObject")

M("c02-ensure-unchecked-in-getObject", ["C02"], {"C02": ["R02.1"]}, "gofakes3.go",
  """	g.log.Print(LogInfo, "GET OBJECT", "Bucket:", bucket, "Object:", object)

	if err := g.ensureBucketExists(bucket); err != nil {
		return err
	}
""", """	g.log.Print(LogInfo, "GET OBJECT", "Bucket:", bucket, "Object:", object)

	if err := g.ensureBucketExists(bucket); err != nil {
		g.log.Print(LogErr, err)
	}
""", expect="getObject")

M("c02-rm-returns-keynotfound", ["C02"], {"C02": ["R02.3"]}, "backend/s3mem/bucket.go",
  """	if object == nil {
		// S3 does not report an error when attemping to delete a key that does not exist
		return result, nil
	}

	if b.versioning""", """	if object == nil {
		return result, gofakes3.KeyNotFound(name)
	}

	if b.versioning""")

M("c02-bolt-create-no-already-exists", ["C02"], {"C02": ["R02.2"]}, "backend/s3bolt/backend.go",
  """			if tx.Bucket(nameBts) != nil {
				return gofakes3.ResourceError(gofakes3.ErrBucketAlreadyExists, name)
			}
""", """			if tx.Bucket(nameBts) != nil {
				return nil
			}
""", expect="BucketAlreadyExists")

M("c02-multi-deletebucket-skips-emptiness-when-hidden", ["C02"], {"C02": ["R02.6"]}, "backend/s3afero/multi.go",
  """	if len(entries) > 0 {
		// This check is slightly racy.""", """	if len(entries) > 0 && !strings.HasPrefix(entries[0].Name(), ".") {
		// This check is slightly racy.""")

M("c02-mem-deletebucket-no-emptiness", ["C02"], {"C02": ["R02.6", "R02.2"]}, "backend/s3mem/backend.go",
  """	if db.buckets[name].objects.Len() > 0 {
		return gofakes3.ResourceError(gofakes3.ErrBucketNotEmpty, name)
	}

	delete(db.buckets, name)

	return nil
}

func (db *Backend) ForceDeleteBucket""", """	delete(db.buckets, name)

	return nil
}

func (db *Backend) ForceDeleteBucket""")

M("c02-status-nosuchkey-400", ["C02"], {"C02": ["R02.4"]}, "error.go",
  """		ErrMalformedXML,
		ErrTooManyBuckets:
		return http.StatusBadRequest""", """		ErrMalformedXML,
		ErrNoSuchKey,
		ErrTooManyBuckets:
		return http.StatusBadRequest""", more=[{"file": "error.go", "old": """	case ErrNoSuchBucket,
		ErrNoSuchKey,
""", "new": """	case ErrNoSuchBucket,
"""}])

M("c02-copy-size-from-meta", ["C02"], {"C02": ["R02.5"]}, "backend.go",
  """	_, err = db.PutObject(dstBucket, dstKey, meta, c.Contents, c.Size)""",
  """	_, err = db.PutObject(dstBucket, dstKey, meta, c.Contents, c.Size-int64(len(meta["X-Amz-Skip"])))""")

M("c02-route-version-error-dropped", ["C02"], {"C02": ["R02.4"]}, "routing.go",
  """		err = g.routeVersions(bucket, w, r)
""", """		_ = g.routeVersions(bucket, w, r)
""")
