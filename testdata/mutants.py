# Seeded source mutations used by tools/selftest.py to test the checker both ways.
# Each mutant still compiles (verified by the runner) and breaks one rule instance.
# edits are exact-text replacements (text must occur exactly once; otherwise the
# mutant is skipped and counted, e.g. after an upstream refactor).
MUTANTS = []

def M(name, props, rules, file, old, new, expect=None, more=None):
    edits = [{"file": file, "old": old, "new": new}]
    if more:
        edits += more
    MUTANTS.append({"name": name, "props": props, "rules": rules, "edits": edits, "expect": expect})

def REVERT(name, props, rules, patch, expect=None):
    """Regression mutant: the reverse of a genuine-defect repair (design/fix-drafts)."""
    MUTANTS.append({"name": name, "props": props, "rules": rules, "edits": [], "revert": "design/fix-drafts/" + patch, "expect": expect})

# ---------------------------------------------------------------- C02
M("c02-drop-ensure-in-deleteObject", ["C02"], {"C02": ["R02.1"]}, "gofakes3.go",
  """	g.log.Print(LogInfo, "DELETE:", bucket, object)
	if err := g.ensureBucketExists(bucket); err != nil {
		return err
	}
""", """	g.log.Print(LogInfo, "DELETE:", bucket, object)
""", expect="deleteObject")

M("c02-ensure-unchecked-in-getObject", ["C02"], {"C02": ["R02.1"]}, "gofakes3.go",
  """	g.log.Print(LogInfo, "GET OBJECT", "Bucket:", bucket, "Object:", object)

	if err := g.ensureBucketExists(bucket); err != nil {
		return err
	}
""", """	g.log.Print(LogInfo, "GET OBJECT", "Bucket:", bucket, "Object:", object)

	if err := g.ensureBucketExists(bucket); err != nil {
		g.log.Print(LogErr, err)
	}
""", expect="getObject")

M("c02-rm-returns-keynotfound", ["C02"], {"C02": ["R02.3"]}, "backend/s3mem/bucket.go",
  """	if object == nil {
		// S3 does not report an error when attemping to delete a key that does not exist
		return result, nil
	}

	if b.versioning""", """	if object == nil {
		return result, gofakes3.KeyNotFound(name)
	}

	if b.versioning""")

M("c02-bolt-create-no-already-exists", ["C02"], {"C02": ["R02.2"]}, "backend/s3bolt/backend.go",
  """			if tx.Bucket(nameBts) != nil {
				return gofakes3.ResourceError(gofakes3.ErrBucketAlreadyExists, name)
			}
""", """			if tx.Bucket(nameBts) != nil {
				return nil
			}
""", expect="BucketAlreadyExists")

M("c02-multi-deletebucket-skips-emptiness-when-hidden", ["C02"], {"C02": ["R02.6"]}, "backend/s3afero/multi.go",
  """	if len(entries) > 0 {
		// This check is slightly racy.""", """	if len(entries) > 0 && !strings.HasPrefix(entries[0].Name(), ".") {
		// This check is slightly racy.""")

M("c02-mem-deletebucket-no-emptiness", ["C02"], {"C02": ["R02.6", "R02.2"]}, "backend/s3mem/backend.go",
  """	if db.buckets[name].objects.Len() > 0 {
		return gofakes3.ResourceError(gofakes3.ErrBucketNotEmpty, name)
	}

	delete(db.buckets, name)

	return nil
}

func (db *Backend) ForceDeleteBucket""", """	delete(db.buckets, name)

	return nil
}

func (db *Backend) ForceDeleteBucket""")

M("c02-status-nosuchkey-400", ["C02"], {"C02": ["R02.4"]}, "error.go",
  """		ErrMalformedXML,
		ErrTooManyBuckets:
		return http.StatusBadRequest""", """		ErrMalformedXML,
		ErrNoSuchKey,
		ErrTooManyBuckets:
		return http.StatusBadRequest""", more=[{"file": "error.go", "old": """	case ErrNoSuchBucket,
		ErrNoSuchKey,
""", "new": """	case ErrNoSuchBucket,
"""}])

M("c02-copy-size-from-meta", ["C02"], {"C02": ["R02.5"]}, "backend.go",
  """	_, err = db.PutObject(dstBucket, dstKey, meta, c.Contents, c.Size)""",
  """	_, err = db.PutObject(dstBucket, dstKey, meta, c.Contents, c.Size-int64(len(meta["X-Amz-Skip"])))""")

M("c02-route-version-error-dropped", ["C02"], {"C02": ["R02.4"]}, "routing.go",
  """		err = g.routeVersions(bucket, w, r)
""", """		_ = g.routeVersions(bucket, w, r)
""")

# ---------------------------------------------------------------- C07
M("c07-L1-drop-defer-runlock-listbuckets", ["C07"], {"C07": ["L1"]}, "backend/s3mem/backend.go",
  """func (db *Backend) ListBuckets() ([]gofakes3.BucketInfo, error) {
	db.lock.RLock()
	defer db.lock.RUnlock()
""", """func (db *Backend) ListBuckets() ([]gofakes3.BucketInfo, error) {
	db.lock.RLock()
""")

M("c07-L1-early-return-holding-versiongen-mu", ["C07"], {"C07": ["L1"]}, "backend/s3mem/versionid.go",
  """	scratchLen := len(idb) + neat + 1
""", """	scratchLen := len(idb) + neat + 1
	if cap(scratch) > 1<<20 {
		return gofakes3.VersionID(idb), nil
	}
""")

M("c07-L2-read-buckets-before-lock", ["C07"], {"C07": ["L2"]}, "backend/s3mem/backend.go",
  """func (db *Backend) DeleteBucket(name string) error {
	db.lock.Lock()
	defer db.lock.Unlock()

	if db.buckets[name] == nil {
		return gofakes3.ErrNoSuchBucket
	}
""", """func (db *Backend) DeleteBucket(name string) error {
	if db.buckets[name] == nil {
		return gofakes3.ErrNoSuchBucket
	}
	db.lock.Lock()
	defer db.lock.Unlock()
""", expect="DeleteBucket")

M("c07-L2-write-under-rlock", ["C07"], {"C07": ["L2"]}, "backend/s3mem/backend.go",
  """	result, err := obj.data.toObject(rangeRequest, true)
	if err != nil {
		return nil, err
	}
""", """	result, err := obj.data.toObject(rangeRequest, true)
	if err != nil {
		return nil, err
	}
	if obj.data.etag == "" {
		obj.data.etag = `"` + hex.EncodeToString(obj.data.hash) + `"`
	}
""", expect="GetObject")

M("c07-L2-listparts-only-mpu-lock", ["C07"], {"C07": ["L2"]}, "uploader.go",
  """func (u *uploader) ListParts(bucket, object string, uploadID UploadID, marker int, limit int64) (*ListMultipartUploadPartsResult, error) {
	u.mu.Lock()
	defer u.mu.Unlock()

	mpu, err := u.getUnlocked(bucket, object, uploadID)
	if err != nil {
		return nil, err
	}
""", """func (u *uploader) ListParts(bucket, object string, uploadID UploadID, marker int, limit int64) (*ListMultipartUploadPartsResult, error) {
	u.mu.Lock()
	mpu, err := u.getUnlocked(bucket, object, uploadID)
	u.mu.Unlock()
	if err != nil {
		return nil, err
	}
""", expect="ListParts")

M("c07-L2-afero-stat-before-lock", ["C07"], {"C07": ["L2"]}, "backend/s3afero/single.go",
  """	db.lock.Lock()
	defer db.lock.Unlock()

	stat, err := db.fs.Stat(filepath.FromSlash(objectName))
	if os.IsNotExist(err) {""", """	stat, err := db.fs.Stat(filepath.FromSlash(objectName))

	db.lock.Lock()
	defer db.lock.Unlock()

	if os.IsNotExist(err) {""", expect="HeadObject")

M("c07-L2-helper-called-unlocked", ["C07"], {"C07": ["L2"]}, "backend/s3afero/multi.go",
  """	return result, gofakes3.BucketNotFound(bucketName)
	}
	db.lock.Lock()
	defer db.lock.Unlock()

	// Another slighly racy check:
	exists, err := afero.Exists(db.bucketFs, bucketName)
	if err != nil {
		return result, err
	} else if !exists {
		return result, gofakes3.BucketNotFound(bucketName)
	}

	return result, db.deleteObjectLocked(bucketName, objectName)""", """	return result, gofakes3.BucketNotFound(bucketName)
	}
	db.lock.Lock()

	// Another slighly racy check:
	exists, err := afero.Exists(db.bucketFs, bucketName)
	db.lock.Unlock()
	if err != nil {
		return result, err
	} else if !exists {
		return result, gofakes3.BucketNotFound(bucketName)
	}

	return result, db.deleteObjectLocked(bucketName, objectName)""", expect="deleteObjectLocked")

M("c07-L3-mergemetadata-under-lock", ["C07"], {"C07": ["L3"]}, "backend/s3mem/backend.go",
  """	err = gofakes3.MergeMetadata(db, bucketName, objectName, meta)
	if err != nil {
		return result, err
	}

	db.lock.Lock()
	defer db.lock.Unlock()

	bucket := db.buckets[bucketName]
	if bucket == nil {
		return result, gofakes3.BucketNotFound(bucketName)
	}

	hash := md5.Sum(bts)""", """	db.lock.Lock()
	defer db.lock.Unlock()

	err = gofakes3.MergeMetadata(db, bucketName, objectName, meta)
	if err != nil {
		return result, err
	}

	bucket := db.buckets[bucketName]
	if bucket == nil {
		return result, gofakes3.BucketNotFound(bucketName)
	}

	hash := md5.Sum(bts)""")

M("c07-L5-lazy-uploader-init-in-handler", ["C07"], {"C07": ["L5"]}, "gofakes3.go",
  """	g.log.Print(LogInfo, "initiate multipart upload", bucket, object)
""", """	g.log.Print(LogInfo, "initiate multipart upload", bucket, object)
	if g.uploader == nil {
		g.uploader = newUploader(g.storage, g.timeSource)
	}
""")

M("c07-L5-requestid-plain-increment", ["C07"], {"C07": ["L5"]}, "gofakes3.go",
  """	return atomic.AddUint64(&g.requestID, 1)""", """	g.requestID++
	return atomic.LoadUint64(&g.requestID)""")

M("c07-R016-complete-reuses-first-part-buffer", ["C07"], {"C07": ["R01.6"]}, "uploader.go",
  """	body := make([]byte, 0, size)
	hash := md5.New()
	for _, inPart := range input.Parts {
		upPart := mpu.parts[inPart.PartNumber]
		body = append(body, upPart.Body...)""", """	var body []byte
	hash := md5.New()
	for i, inPart := range input.Parts {
		upPart := mpu.parts[inPart.PartNumber]
		if i == 0 {
			body = upPart.Body
			goto hashit
		}
		body = append(body, upPart.Body...)
	hashit:""")

M("c07-L7-bolt-bucket-escapes-tx", ["C07"], {"C07": ["L7"]}, "backend/s3bolt/backend.go",
  """func (db *Backend) BucketExists(name string) (exists bool, err error) {
	err = db.bolt.View(func(tx *bolt.Tx) error {
		b := db.s3Bucket(tx, name)
		exists = b != nil
		return nil
	})
	return exists, err
}""", """func (db *Backend) BucketExists(name string) (exists bool, err error) {
	var b *bolt.Bucket
	err = db.bolt.View(func(tx *bolt.Tx) error {
		b = db.s3Bucket(tx, name)
		return nil
	})
	exists = b != nil && b.Stats().KeyN >= 0
	return exists, err
}""")

# ---------------------------------------------------------------- C11
REVERT("f5-revert-range-overflow-fix", ["C11"], {"C11": ["R11.1"]}, "0005-fix-clip-ranges-without-overflowing-for-ends-near-th.patch")

M("c11-drop-start-ge-size-guard", ["C11"], {"C11": ["R11.1"]}, "range.go",
  """	if start < 0 || length < 0 || start >= size {""", """	if start < 0 || length < 0 {""")

M("c11-bolt-slice-off-by-one", ["C11"], {"C11": ["R11.2"]}, "backend/s3bolt/schema.go",
  """		data = data[rnge.Start : rnge.Start+rnge.Length]""", """		data = data[rnge.Start : rnge.Start+rnge.Length-1]""")

M("c11-afero-limit-plus-one", ["C11"], {"C11": ["R11.2"]}, "backend/s3afero/single.go",
  """		rdr = limitReadCloser(rdr, f.Close, rnge.Length)""", """		rdr = limitReadCloser(rdr, f.Close, rnge.Length+1)""")

M("c11-mem-range-on-wrong-size", ["C11"], {"C11": ["R11.2"]}, "backend/s3mem/bucket.go",
  """		rnge, err = rangeRequest.Range(sz)""", """		rnge, err = rangeRequest.Range(sz + 1)""")

M("c11-content-length-whole-on-range", ["C11"], {"C11": ["R11.3"]}, "range.go",
  """		w.Header().Set("Content-Length", fmt.Sprintf("%d", o.Length))""", """		w.Header().Set("Content-Length", fmt.Sprintf("%d", sz))""")

M("c11-parse-end-error-ignored", ["C11"], {"C11": ["R11.4"]}, "range.go",
  """			i, err := strconv.ParseInt(end, 10, 64)
			if err != nil || o.Start > i {
				return nil, ErrInvalidRange
			}
			o.End = i""", """			i, _ := strconv.ParseInt(end, 10, 64)
			if o.Start > i {
				return nil, ErrInvalidRange
			}
			o.End = i""")

M("c11-negative-start-accepted", ["C11"], {"C11": ["R11.4"]}, "range.go",
  """		if err != nil || i < 0 {
			return nil, ErrInvalidRange
		}
		o.Start = i""", """		if err != nil {
			return nil, ErrInvalidRange
		}
		o.Start = i""")

M("c11-mem-error-of-range-swallowed", ["C11"], {"C11": ["R11.2"]}, "backend/s3mem/bucket.go",
  """		rnge, err = rangeRequest.Range(sz)
		if err != nil {
			return nil, err
		}
""", """		rnge, err = rangeRequest.Range(sz)
		if err != nil {
			rnge, err = nil, nil
		}
""")

M("c11-invalidrange-status-400", ["C11"], {"C11": ["R11.4"]}, "error.go",
  """	case ErrInvalidRange:
		return http.StatusRequestedRangeNotSatisfiable
""", """	case ErrInvalidRange:
		return http.StatusBadRequest
""")

# ---------------------------------------------------------------- C09
REVERT("f1-revert-copy-source-guard", ["C09"], {"C09": ["R09.1b"]}, "0001-fix-reject-a-copy-source-without-a-key-instead-of-pa.patch", expect="copyObject")
REVERT("f4-revert-nonpositive-part-number", ["C09"], {"C09": ["R09.1b"]}, "0003-fix-reject-non-positive-part-numbers-in-a-complete-r.patch", expect="CompleteMultipartUpload")
REVERT("f2-revert-listparts-marker", ["C09"], {"C09": ["R09.1b"]}, "0004-fix-list-parts-by-their-real-part-numbers-and-tolera.patch", expect="ListParts")
REVERT("f5-revert-range-overflow-fix-c09", ["C09"], {"C09": ["R11.1"]}, "0005-fix-clip-ranges-without-overflowing-for-ends-near-th.patch")
REVERT("f6-revert-version-seek-nil-iter", ["C09"], {"C09": ["R09.1n"]}, "0006-fix-seeking-a-version-in-an-object-without-archived-.patch", expect="Seek")
REVERT("f9-revert-current-version-nil", ["C09"], {"C09": ["R09.1n"]}, "0011-fix-deleting-the-current-version-leaves-the-key-with.patch", expect="bucketObject.data")
REVERT("f11-revert-declared-length-alloc", ["C09"], {"C09": ["R09.1a"]}, "0012-fix-a-negative-or-absurd-declared-length-cannot-pani.patch", expect="ReadAll")

M("c09-versioned-nil-guard-removed", ["C09"], {"C09": ["R09.1n"]}, "gofakes3.go",
  """func (g *GoFakeS3) deleteObjectVersion(bucket, object string, version VersionID, w http.ResponseWriter, r *http.Request) error {
	if g.versioned == nil {
		return ErrNotImplemented
	}
""", """func (g *GoFakeS3) deleteObjectVersion(bucket, object string, version VersionID, w http.ResponseWriter, r *http.Request) error {
""", expect="deleteObjectVersion")

M("c09-route-default-arm-removed", ["C09"], {"C09": ["R09.2"]}, "routing.go",
  """	case "GET":
		return g.listBucketVersions(bucket, w, r)
	default:
		return ErrMethodNotAllowed
	}
}""", """	case "GET":
		return g.listBucketVersions(bucket, w, r)
	}
	return nil
}""")

M("c09-routebase-object-without-len-check", ["C09"], {"C09": ["R09.1b"]}, "routing.go",
  """	if len(parts) == 2 {
		object = parts[1]
	}
""", """	if r.Method != "OPTIONS" {
		object = parts[1]
	}
""", expect="routeBase")

M("c09-middleware-silent-return", ["C09"], {"C09": ["R09.6"]}, "gofakes3.go",
  """		if timeHdr != "" {
			rqTime, _ := time.Parse("20060102T150405Z", timeHdr)""", """		if timeHdr == "0" {
			return
		}
		if timeHdr != "" {
			rqTime, _ := time.Parse("20060102T150405Z", timeHdr)""")

M("c09-middleware-next-twice", ["C09"], {"C09": ["R09.6"]}, "gofakes3.go",
  """		bucket, ok := matchBucket(rq.Host)
		if !ok {
			handler.ServeHTTP(w, rq)
			return
		}""", """		bucket, ok := matchBucket(rq.Host)
		if !ok {
			handler.ServeHTTP(w, rq)
		}""")

M("c09-sleep-in-handler", ["C09"], {"C09": ["R09.7"]}, "gofakes3.go",
  """	g.log.Print(LogInfo, "HEAD BUCKET", bucket)
""", """	g.log.Print(LogInfo, "HEAD BUCKET", bucket)
	if r.Header.Get("x-amz-wait") != "" {
		done := make(chan struct{})
		<-done
	}
""")

M("c09-wrong-type-assert-in-listbucket", ["C09"], {"C09": ["R09.1t"]}, "backend/s3mem/backend.go",
  """		object := iter.Value().(*bucketObject)

		if !prefix.Match(object.name, &match) {""", """		if _, isData := iter.Value().(*bucketData); isData {
			continue
		}
		object := iter.Value().(*bucketObject)
		_ = iter.Key().(gofakes3.VersionID)

		if !prefix.Match(object.name, &match) {""")

M("c09-new-panic-in-handler", ["C09"], {"C09": ["R09.1p"]}, "gofakes3.go",
  """	etag := `"` + hex.EncodeToString(obj.Hash) + `"`
	w.Header().Set("ETag", etag)
""", """	if len(obj.Hash) != 16 {
		panic("unexpected hash length")
	}
	etag := `"` + hex.EncodeToString(obj.Hash) + `"`
	w.Header().Set("ETag", etag)
""")

M("c09-call-under-explicit-unlock", ["C09"], {"C09": ["R09.4"]}, "backend/s3mem/versionid.go",
  """	v.next.Add(v.next, add1)
	idb := []byte(fmt.Sprintf("%030d", v.next))
""", """	v.next.Add(v.next, add1)
	idb := []byte(fmt.Sprintf("%030d", v.next))
	if v.next.BitLen() > 90 {
		panic("version counter overflow")
	}
""")

M("c09-marker-indexes-keys", ["C09"], {"C09": ["R09.1b"]}, "gofakes3.go",
  """	srcKey, err = url.QueryUnescape(srcKey)
	if err != nil {
		return err
	}""", """	srcKey, err = url.QueryUnescape(srcKey)
	if err != nil {
		return err
	}
	if srcKey[0] == '/' {
		srcKey = srcKey[1:]
	}""", expect="copyObject")

M("c09-alloc-from-request-number", ["C09"], {"C09": ["R09.1a"]}, "gofakes3.go",
  """	out, err := g.uploader.ListParts(bucket, object, uploadID, int(marker), maxParts)""",
  """	seen := make([]bool, marker+1)
	_ = seen
	out, err := g.uploader.ListParts(bucket, object, uploadID, int(marker), maxParts)""")

# ---------------------------------------------------------------- C06
REVERT("f3-revert-sorted-copy", ["C06"], {"C06": ["R06.1"]}, "0002-fix-check-the-order-of-the-part-list-as-sent-not-of-.patch")
REVERT("f4-revert-nonpositive-part-number-c06", ["C06"], {"C06": ["R06.3"]}, "0003-fix-reject-non-positive-part-numbers-in-a-complete-r.patch")

M("c06-remove-before-putobject", ["C06"], {"C06": ["R06.2"]}, "uploader.go",
  """	result, err := u.storage.PutObject(bucket, object, mpu.Meta, bytes.NewReader(body), int64(len(body)))
	if err != nil {
		return "", "", err
	}

	// if getUnlocked succeeded, so will this:
	u.buckets[bucket].remove(id)
	return result.VersionID, etag, nil""", """	// if getUnlocked succeeded, so will this:
	u.buckets[bucket].remove(id)

	result, err := u.storage.PutObject(bucket, object, mpu.Meta, bytes.NewReader(body), int64(len(body)))
	if err != nil {
		return "", "", err
	}
	return result.VersionID, etag, nil""")

M("c06-etag-compare-dropped", ["C06"], {"C06": ["R06.4"]}, "uploader.go",
  """		if strings.Trim(inPart.ETag, "\\"") != strings.Trim(upPart.ETag, "\\"") {
			return "", "", ErrorMessagef(ErrInvalidPart, "unexpected part etag for number %d in complete request", inPart.PartNumber)
		}
""", """		if inPart.ETag == "" {
			return "", "", ErrorMessagef(ErrInvalidPart, "unexpected part etag for number %d in complete request", inPart.PartNumber)
		}
""")

M("c06-etag-compared-against-first-part", ["C06"], {"C06": ["R06.4"]}, "uploader.go",
  """		upPart := mpu.parts[inPart.PartNumber]
		if strings.Trim(inPart.ETag, "\\"") != strings.Trim(upPart.ETag, "\\"") {""",
  """		upPart := mpu.parts[inPart.PartNumber]
		if strings.Trim(inPart.ETag, "\\"") != strings.Trim(input.Parts[0].ETag, "\\"") {""")

M("c06-abort-deletes-object", ["C06"], {"C06": ["R06.5"]}, "uploader.go",
  """	// if getUnlocked succeeded, so will this:
	u.buckets[bucket].remove(id)

	return nil
}""", """	// if getUnlocked succeeded, so will this:
	u.buckets[bucket].remove(id)
	if len(u.buckets[bucket].uploads) == 0 {
		u.storage.DeleteObject(bucket, object+".part")
	}

	return nil
}""")

M("c06-uploadpart-locks-before-read", ["C06"], {"C06": ["R06.6"]}, "uploader.go",
  """	body, err := io.ReadAll(input)
	if err != nil {
		return "", err
	}
	if len(body) != int(contentLength) {
		return "", ErrIncompleteBody
	}
	u.mu.Lock()
	defer u.mu.Unlock()
	mpu, err := u.getUnlocked(bucket, object, id)
	if err != nil {
		return "", err
	}
""", """	u.mu.Lock()
	defer u.mu.Unlock()
	mpu, err := u.getUnlocked(bucket, object, id)
	if err != nil {
		return "", err
	}
	body, err := io.ReadAll(input)
	if err != nil {
		return "", err
	}
	if len(body) != int(contentLength) {
		return "", ErrIncompleteBody
	}
""")

M("c06-uploadpart-length-check-dropped", ["C06"], {"C06": ["R06.6"]}, "uploader.go",
  """	if len(body) != int(contentLength) {
		return "", ErrIncompleteBody
	}
	u.mu.Lock()""", """	if len(body) > int(contentLength) {
		return "", ErrIncompleteBody
	}
	u.mu.Lock()""")

M("c06-complete-drops-meta", ["C06"], {"C06": ["R06.7"]}, "uploader.go",
  """	result, err := u.storage.PutObject(bucket, object, mpu.Meta, bytes.NewReader(body), int64(len(body)))""",
  """	result, err := u.storage.PutObject(bucket, object, map[string]string{}, bytes.NewReader(body), int64(len(body)))""")

M("c06-etag-count-from-stored-parts", ["C06"], {"C06": ["R06.7"]}, "uploader.go",
  """	etag = fmt.Sprintf(`"%s-%d"`, hex.EncodeToString(hash.Sum(nil)), len(input.Parts))""",
  """	etag = fmt.Sprintf(`"%s-%d"`, hex.EncodeToString(hash.Sum(nil)), mpuPartsLen-1)""")

M("c06-validation-after-putobject", ["C06"], {"C06": ["R06.2"]}, "uploader.go",
  """	if !input.partsAreSorted() {
		return "", "", ErrInvalidPartOrder
	}

	var size int64
""", """	var size int64
""", more=[{"file": "uploader.go", "old": """	// if getUnlocked succeeded, so will this:
	u.buckets[bucket].remove(id)
	return result.VersionID, etag, nil""", "new": """	if !input.partsAreSorted() {
		return "", "", ErrInvalidPartOrder
	}
	// if getUnlocked succeeded, so will this:
	u.buckets[bucket].remove(id)
	return result.VersionID, etag, nil"""}])

# ---------------------------------------------------------------- C01
REVERT("f17a-revert-hashfile-error", ["C01"], {"C01": ["R01.7"]}, "0009-fix-a-read-error-while-hashing-a-file-is-reported-no.patch", expect="hashFile")

M("c01-etag-from-second-hasher", ["C01"], {"C01": ["R01.1"]}, "gofakes3.go",
  """	w.Header().Set("ETag", `"`+hex.EncodeToString(rdr.Sum(nil))+`"`)

	return nil
}

// CopyObject copies""", """	if md5Base64 != "" {
		if sum, derr := base64.StdEncoding.DecodeString(md5Base64); derr == nil {
			w.Header().Set("ETag", `"`+hex.EncodeToString(sum)+`"`)
			return nil
		}
	}
	w.Header().Set("ETag", `"`+hex.EncodeToString(rdr.Sum(nil))+`"`)

	return nil
}

// CopyObject copies""")

M("c01-mem-hash-of-trimmed-body", ["C01"], {"C01": ["R01.2"]}, "backend/s3mem/backend.go",
  """	hash := md5.Sum(bts)

	item := &bucketData{""", """	hash := md5.Sum(bytes.TrimRight(bts, "\\x00"))

	item := &bucketData{""", more=[{"file": "backend/s3mem/backend.go", "old": """import (
	"crypto/md5\"""", "new": """import (
	"bytes"
	"crypto/md5\""""}])

M("c01-bolt-stores-capacity-slice", ["C01"], {"C01": ["R01.2"]}, "backend/s3bolt/backend.go",
  """			Contents:     bts,
			Hash:         hash[:],""", """			Contents:     bts[:cap(bts)],
			Hash:         hash[:],""")

M("c01-fs-hash-before-copy-separate-pass", ["C01"], {"C01": ["R01.2"]}, "backend/s3afero/single.go",
  """	hasher := md5.New()
	w := io.MultiWriter(f, hasher)
	if _, err := io.Copy(w, input); err != nil {
		return result, err
	}

	// We have to close here before we stat the file as some filesystems don't update the
	// mtime until after close:
	if err := f.Close(); err != nil {
		return result, err
	}

	closed = true
""", """	hasher := md5.New()
	if _, err := io.Copy(f, io.TeeReader(io.LimitReader(input, 1<<30), hasher)); err != nil {
		return result, err
	}

	// We have to close here before we stat the file as some filesystems don't update the
	// mtime until after close:
	if err := f.Close(); err != nil {
		return result, err
	}

	closed = true
""")

M("c01-head-content-length-from-range", ["C01"], {"C01": ["R01.3"]}, "gofakes3.go",
  """	w.Header().Set("Content-Length", fmt.Sprintf("%d", obj.Size))

	return nil
}""", """	w.Header().Set("Content-Length", fmt.Sprintf("%d", len(obj.Hash)))

	return nil
}""")

M("c01-content-encoding-not-persisted", ["C01"], {"C01": ["R01.4"]}, "gofakes3.go",
  """			hk == "Content-Disposition" ||
			hk == "Content-Encoding" {""", """			hk == "Content-Disposition" {""")

M("c01-noncanonical-header-constant", ["C01"], {"C01": ["R01.4"]}, "gofakes3.go",
  """			hk == "Content-Disposition" ||""", """			hk == "Content-disposition" ||""")

M("c01-metadata-replay-skips-amz", ["C01"], {"C01": ["R01.5"]}, "gofakes3.go",
  """	for mk, mv := range obj.Metadata {
		w.Header().Set(mk, mv)
	}""", """	for mk, mv := range obj.Metadata {
		if strings.HasPrefix(mk, "X-Amz-Meta-") && len(mv) > 1024 {
			continue
		}
		w.Header().Set(mk, mv)
	}""")

M("c01-head-skips-shared-response", ["C01"], {"C01": ["R01.5"]}, "gofakes3.go",
  """	if err := g.writeGetOrHeadObjectResponse(obj, w, r); err != nil {
		return err
	}

	w.Header().Set("Content-Length", fmt.Sprintf("%d", obj.Size))""", """	if r.Header.Get("If-None-Match") != "" {
		if err := g.writeGetOrHeadObjectResponse(obj, w, r); err != nil {
			return err
		}
	}

	w.Header().Set("Content-Length", fmt.Sprintf("%d", obj.Size))""")

M("c01-savemeta-error-dropped", ["C01"], {"C01": ["R01.7"]}, "backend/s3afero/meta.go",
  """		if err := ms.saveMeta(metaPath, &meta); err != nil {
			return nil, err
		}
	}

	return &meta, nil""", """		ms.fs.MkdirAll(filepath.Dir(fullPath), 0777)
		if err := ms.saveMeta(metaPath, &meta); err != nil {
			return nil, err
		}
	}

	return &meta, nil""")

M("c01-toobject-mutates-body", ["C01"], {"C01": ["R01.6"]}, "backend/s3mem/bucket.go",
  """		if rnge != nil {
			data = data[rnge.Start : rnge.Start+rnge.Length]
		}
""", """		if rnge != nil {
			data = data[rnge.Start : rnge.Start+rnge.Length]
		} else if len(data) > 0 && data[len(data)-1] == 0 {
			data[len(data)-1] = '\\n'
		}
""")

# ---------------------------------------------------------------- C10
MUTANTS.append({"name": "f13-revert-key-containment", "props": ["C10"], "rules": {"C10": ["R10.1"]}, "edits": [],
                "patchfile": __import__("os").path.join(__import__("os").path.dirname(__import__("os").path.abspath(__file__)), "f13-revert-current.diff"), "expect": None})
REVERT("f16-revert-bolt-meta-bucket", ["C10"], {"C10": ["R10.2"]}, "0015-fix-the-bolt-bookkeeping-bucket-is-not-addressable-a.patch")

M("c10-multi-head-skips-key-check", ["C10"], {"C10": ["R10.1"]}, "backend/s3afero/multi.go",
  """		return nil, gofakes3.BucketNotFound(bucketName)
	}
	if err := checkObjectName(objectName); err != nil {
		return nil, err
	}

	db.lock.Lock()
	defer db.lock.Unlock()

	// Another slighly racy check:
	exists, err := afero.Exists(db.bucketFs, bucketName)
	if err != nil {
		return nil, err
	} else if !exists {
		return nil, gofakes3.BucketNotFound(bucketName)
	}

	fullPath := path.Join(bucketName, objectName)

	stat, err := db.bucketFs.Stat(filepath.FromSlash(fullPath))""", """		return nil, gofakes3.BucketNotFound(bucketName)
	}

	db.lock.Lock()
	defer db.lock.Unlock()

	// Another slighly racy check:
	exists, err := afero.Exists(db.bucketFs, bucketName)
	if err != nil {
		return nil, err
	} else if !exists {
		return nil, gofakes3.BucketNotFound(bucketName)
	}

	fullPath := path.Join(bucketName, objectName)

	stat, err := db.bucketFs.Stat(filepath.FromSlash(fullPath))""")

M("c10-sanitiser-weakened-to-prefix-test", ["C10"], {"C10": ["R10.1"]}, "backend/s3afero/util.go",
  """	if objectName == "" || path.Clean("/"+objectName) != "/"+objectName {""",
  """	if objectName == "" || strings.HasPrefix(path.Clean(objectName), "../") {""",
  more=[{"file": "backend/s3afero/util.go", "old": """	"path/filepath"
	"strings"
""", "new": """	"path/filepath"
	"strings"
"""}])

M("c10-bolt-delete-uses-raw-bucket", ["C10"], {"C10": ["R10.2"]}, "backend/s3bolt/backend.go",
  """	return result, db.bolt.Update(func(tx *bolt.Tx) error {
		b := db.s3Bucket(tx, bucketName)
		if b == nil {
			return gofakes3.BucketNotFound(bucketName)
		}
		if err := b.Delete([]byte(objectName)); err != nil {""", """	return result, db.bolt.Update(func(tx *bolt.Tx) error {
		b := tx.Bucket([]byte(bucketName))
		if b == nil {
			return gofakes3.BucketNotFound(bucketName)
		}
		if err := b.Delete([]byte(objectName)); err != nil {""")

M("c10-single-deleteobject-no-name-guard", ["C10"], {"C10": ["R10.3"]}, "backend/s3afero/single.go",
  """func (db *SingleBucketBackend) DeleteObject(bucketName, objectName string) (result gofakes3.ObjectDeleteResult, rerr error) {
	if bucketName != db.name {
		return result, gofakes3.BucketNotFound(bucketName)
	}
""", """func (db *SingleBucketBackend) DeleteObject(bucketName, objectName string) (result gofakes3.ObjectDeleteResult, rerr error) {
""")

M("c10-multi-put-creates-missing-bucket", ["C10"], {"C10": ["R10.4"]}, "backend/s3afero/multi.go",
  """	// Another slighly racy check:
	exists, err := afero.Exists(db.bucketFs, bucketName)
	if err != nil {
		return result, err
	} else if !exists {
		return result, gofakes3.BucketNotFound(bucketName)
	}

	objectPath := path.Join(bucketName, objectName)""", """	// Another slighly racy check:
	exists, err := afero.Exists(db.bucketFs, bucketName)
	if err != nil {
		return result, err
	} else if !exists && size == 0 {
		return result, gofakes3.BucketNotFound(bucketName)
	}

	objectPath := path.Join(bucketName, objectName)""")

M("c10-metapath-hashes-flattened-key", ["C10"], {"C10": ["R10.5"]}, "backend/s3afero/meta.go",
  """	h := fnv.New128a()
	h.Write([]byte(object))
	object = strings.Replace(object, "/", "_", -1)
	object = strings.Replace(object, "\\\\", "_", -1)
""", """	h := fnv.New128a()
	object = strings.Replace(object, "/", "_", -1)
	object = strings.Replace(object, "\\\\", "_", -1)
	h.Write([]byte(object))
""")

M("c10-route-lowercases-bucket", ["C10"], {"C10": ["R10.6"]}, "routing.go",
  """		err = g.routeObject(bucket, object, w, r)
""", """		err = g.routeObject(strings.ToLower(bucket), object, w, r)
""")

M("c10-removeall-on-object-path", ["C10"], {"C10": ["R10.7"]}, "backend/s3afero/multi.go",
  """	if err := db.bucketFs.Remove(filepath.FromSlash(fullPath)); err != nil && !os.IsNotExist(err) {
		return err
	}""", """	if err := db.bucketFs.RemoveAll(filepath.FromSlash(fullPath)); err != nil {
		return err
	}""")

REVERT("f22-revert-prune-empty-dirs", ["C02"], {"C02": ["R02.7"]}, "0016-fix-deleting-a-nested-key-on-the-fs-backends-removes.patch")

M("c02-prune-nonempty-dir", ["C02"], {"C02": ["R02.7"]}, "backend/s3afero/util.go",
  """		if len(entries) > 0 {
			return nil
		}
		if err := fs.Remove(""", """		if len(entries) > 1 {
			return nil
		}
		if err := fs.Remove(""")

# ---------------------------------------------------------------- C05
REVERT("f7-revert-head-versionid", ["C05"], {"C05": ["R05.1"]}, "0007-fix-HEAD-with-a-versionId-answers-for-that-version.patch", expect="headObject")
REVERT("f9-revert-current-version-nil-c05", ["C05"], {"C05": ["R09.1n"]}, "0011-fix-deleting-the-current-version-leaves-the-key-with.patch")

M("c05-get-version-falls-back-to-current", ["C05"], {"C05": ["R05.1"]}, "gofakes3.go",
  """			obj, err = g.versioned.GetObjectVersion(bucket, object, versionID, rnge)
			if err != nil {
				return err
			}""", """			obj, err = g.versioned.GetObjectVersion(bucket, object, versionID, rnge)
			if HasErrorCode(err, ErrNoSuchVersion) {
				obj, err = g.storage.GetObject(bucket, object, rnge)
			}
			if err != nil {
				return err
			}""")

M("c05-archive-under-new-id", ["C05"], {"C05": ["R05.2"]}, "backend/s3mem/bucket.go",
  """			object.versions.Set(object.data.versionID, object.data)""",
  """			object.versions.Set(item.versionID, object.data)""")

M("c05-archive-skipped-for-delete-markers", ["C05"], {"C05": ["R05.2"]}, "backend/s3mem/bucket.go",
  """			object.versions.Set(object.data.versionID, object.data)
		}""", """			if !object.data.deleteMarker {
				object.versions.Set(object.data.versionID, object.data)
			}
		}""")

M("c05-rmversion-deletes-wrong-key", ["C05"], {"C05": ["R05.4"]}, "backend/s3mem/bucket.go",
  """		versionIface, ok := object.versions.Delete(versionID)""",
  """		versionIface, ok := object.versions.Delete(object.data.versionID)""")

M("c05-rm-removes-key-despite-archive", ["C05"], {"C05": ["R05.4"]}, "backend/s3mem/bucket.go",
  """	} else if object.versions != nil && object.versions.Len() > 0 {
		// Versions archived""", """	} else if object.versions != nil && object.versions.Len() > 1 {
		// Versions archived""")

M("c05-rmversion-promotes-without-id-match", ["C05"], {"C05": ["R05.4"]}, "backend/s3mem/bucket.go",
  """	} else if object.data != nil && object.data.versionID == versionID {
		result.VersionID = versionID""", """	} else if object.data != nil && (object.data.versionID == versionID || object.data.deleteMarker) {
		result.VersionID = versionID""")

M("c05-setversioning-clears-archive", ["C05"], {"C05": ["R05.4"]}, "backend/s3mem/bucket.go",
  """	} else if b.versioning == gofakes3.VersioningEnabled {
		b.versioning = gofakes3.VersioningSuspended
	}""", """	} else if b.versioning == gofakes3.VersioningEnabled {
		b.versioning = gofakes3.VersioningSuspended
		b.objects = skiplist.NewStringMap()
	}""")

M("c05-version-id-reused-for-same-item", ["C05"], {"C05": ["R05.5"]}, "backend/s3mem/bucket.go",
  """	item.versionID = b.versionGen()
""", """	if item.versionID == "" {
		item.versionID = b.versionGen()
	}
""")

M("c05-version-id-without-counter", ["C05"], {"C05": ["R05.5"]}, "backend/s3mem/versionid.go",
  """	v.next.Add(v.next, add1)
	idb := []byte(fmt.Sprintf("%030d", v.next))""", """	v.next.Add(v.next, add1)
	idb := []byte(fmt.Sprintf("%030d", v.state))""")

M("c05-put-never-archives", ["C05"], {"C05": ["R05.6"]}, "backend/s3mem/bucket.go",
  """	if b.versioning == gofakes3.VersioningEnabled {
		if object.data != nil {
			if object.versions == nil {""", """	if b.versioning == gofakes3.VersioningEnabled && len(item.body) > 0 {
		if object.data != nil {
			if object.versions == nil {""")

# ---------------------------------------------------------------- C13
REVERT("f8-revert-version-list-markers", ["C13"], {"C13": ["R13.1"]}, "0013-fix-a-truncated-version-listing-tells-the-client-whe.patch")
REVERT("f6-revert-version-seek-nil-iter-c13", ["C13"], {"C13": ["R09.1n"]}, "0006-fix-seeking-a-version-in-an-object-without-archived-.patch")

M("c13-islatest-by-position", ["C13"], {"C13": ["R13.2"]}, "backend/s3mem/backend.go",
  """				resultVer := &gofakes3.Version{
					Key:          version.name,
					IsLatest:     version == object.data,""", """				resultVer := &gofakes3.Version{
					Key:          version.name,
					IsLatest:     version.versionID == object.data.versionID || last == nil,""")

M("c13-markers-only-when-more-keys", ["C13"], {"C13": ["R13.1"]}, "backend/s3mem/backend.go",
  """	result.IsTruncated = truncated || iter.Next()
	if result.IsTruncated && last != nil {""", """	more := iter.Next()
	result.IsTruncated = truncated || more
	if more && last != nil {""")

M("c13-null-substitution-first-only", ["C13"], {"C13": ["R13.4"]}, "gofakes3.go",
  """		if ver.GetVersionID() == "" {
			ver.setVersionID("null")
		}""", """		if ver.GetVersionID() == "" && !bucket.IsTruncated {
			ver.setVersionID("null")
		}""")

M("c13-versionid-shown-only-when-enabled", ["C13"], {"C13": ["R13.4"]}, "backend/s3mem/backend.go",
  """				if bucket.versioning != gofakes3.VersioningNone { // S300005
					resultVer.VersionID = version.versionID
				}""", """				if bucket.versioning == gofakes3.VersioningEnabled { // S300005
					resultVer.VersionID = version.versionID
				}""")

M("c13-page-bound-off-by-one", ["C13"], {"C13": ["R13.5"]}, "backend/s3mem/backend.go",
  """			if page.MaxKeys > 0 && cnt >= page.MaxKeys {
				truncated = versions.Next()
				goto done
			}""", """			if page.MaxKeys > 0 && cnt > page.MaxKeys {
				truncated = versions.Next()
				goto done
			}""")

M("c13-delete-markers-not-counted", ["C13"], {"C13": ["R13.5"]}, "backend/s3mem/backend.go",
  """				result.Versions = append(result.Versions, marker)

			} else {""", """				result.Versions = append(result.Versions, marker)
				last = version
				continue

			} else {""")

M("c13-marker-guard-after-backend", ["C13"], {"C13": ["R13.6"]}, "gofakes3.go",
  """		if page.VersionIDMarker == "" {
			return ErrorInvalidArgument("version-id-marker", "", "A version-id marker cannot be empty.")
		} else if !page.HasKeyMarker {""", """		if !page.HasKeyMarker {""")

M("c13-version-size-from-current", ["C13"], {"C13": ["R13.7"]}, "backend/s3mem/backend.go",
  """					Size:         int64(len(version.body)),
					ETag:         version.etag,""", """					Size:         int64(len(object.data.body)),
					ETag:         version.etag,""")

M("c13-delete-markers-listed-as-versions", ["C13"], {"C13": ["R13.7"]}, "backend/s3mem/backend.go",
  """			if version.deleteMarker {
				marker := &gofakes3.DeleteMarker{""", """			if version.deleteMarker && version == object.data {
				marker := &gofakes3.DeleteMarker{""")

REVERT("f23-revert-bolt-private-copy", ["C07", "C01"], {"C07": ["L8"], "C01": ["L8"]}, "0017-fix-the-bolt-backend-hands-out-a-private-copy-of-an-.patch")

# ---------------------------------------------------------------- C14
REVERT("f2-revert-listparts-marker-c14", ["C14"], {"C14": ["R14.1"]}, "0004-fix-list-parts-by-their-real-part-numbers-and-tolera.patch")

M("c14-nextmarker-is-count", ["C14"], {"C14": ["R14.1"]}, "uploader.go",
  """			result.IsTruncated = true
			result.NextPartNumberMarker = last
			break""", """			result.IsTruncated = true
			result.NextPartNumberMarker = marker + int(cnt)
			_ = last
			break""")

M("c14-listparts-truncated-without-marker", ["C14"], {"C14": ["R14.3"]}, "uploader.go",
  """			result.IsTruncated = true
			result.NextPartNumberMarker = last
			break""", """			result.IsTruncated = true
			if last > marker {
				result.NextPartNumberMarker = last
			}
			break""")

M("c14-uploads-truncated-without-upload-marker", ["C14"], {"C14": ["R14.3"]}, "uploader.go",
  """				truncated = true

				// This is not especially defensive; it assumes the rest of the code works
				// as it should. Could be something to clean up later:
				result.NextUploadIDMarker = iter.Value().([]*multipartUpload)[0].ID
				result.NextKeyMarker = object""", """				truncated = true
				result.NextKeyMarker = object""")

M("c14-remove-skips-index", ["C14"], {"C14": ["R14.4"]}, "uploader.go",
  """	if len(uploads) == 0 {
		bu.objectIndex.Delete(upload.Object)
	} else {
		bu.objectIndex.Set(upload.Object, uploads)
	}""", """	bu.objectIndex.Set(upload.Object, uploads)""")

M("c14-abort-deletes-map-directly", ["C14"], {"C14": ["R14.4"]}, "uploader.go",
  """	// if getUnlocked succeeded, so will this:
	u.buckets[bucket].remove(id)

	return nil
}""", """	delete(u.buckets[bucket].uploads, id)

	return nil
}""")

M("c14-uploads-listed-ignoring-prefix-on-retry", ["C14"], {"C14": ["R14.5"]}, "uploader.go",
  """		matched := prefix.Match(object, &match)
		if !matched {
			continue
		}
""", """		matched := prefix.Match(object, &match)
		if !matched && firstFound {
			continue
		}
""")

M("c14-limit-tested-before-increment", ["C14"], {"C14": ["R14.5"]}, "uploader.go",
  """					cnt++
					if cnt >= limit {""", """					if cnt >= limit {""", more=[{"file": "uploader.go", "old": """						goto done
					}
				}""", "new": """						goto done
					}
					cnt++
				}"""}])

M("c14-max-parts-unclamped", ["C14"], {"C14": ["R14.6"]}, "gofakes3.go",
  """	maxParts, err := parseClampedInt(query.Get("max-parts"), DefaultMaxUploadParts, 0, MaxUploadPartsLimit)""",
  """	maxParts, err := parseClampedInt(query.Get("max-parts"), DefaultMaxUploadParts, -1, math.MaxInt64)""")

M("c14-listparts-reads-parts-unlocked", ["C14"], {"C14": ["L2"]}, "uploader.go",
  """func (u *uploader) ListParts(bucket, object string, uploadID UploadID, marker int, limit int64) (*ListMultipartUploadPartsResult, error) {
	u.mu.Lock()
	defer u.mu.Unlock()

	mpu, err := u.getUnlocked(bucket, object, uploadID)
	if err != nil {
		return nil, err
	}
""", """func (u *uploader) ListParts(bucket, object string, uploadID UploadID, marker int, limit int64) (*ListMultipartUploadPartsResult, error) {
	u.mu.Lock()
	mpu, err := u.getUnlocked(bucket, object, uploadID)
	u.mu.Unlock()
	if err != nil {
		return nil, err
	}
	mpu.mu.Lock()
	defer mpu.mu.Unlock()
""")

# ---------------------------------------------------------------- C03
REVERT("f20-revert-partial-prefix-commonprefix", ["C03"], {"C03": ["R03.4"]}, "0010-fix-common-prefix-of-a-partially-matched-directory-i.patch")
REVERT("f22-revert-prune-empty-dirs-c03", ["C03"], {"C03": ["R02.7"]}, "0016-fix-deleting-a-nested-key-on-the-fs-backends-removes.patch")

M("c03-mem-lists-delete-markers", ["C03"], {"C03": ["R03.1"]}, "backend/s3mem/backend.go",
  """		case item.data.deleteMarker:
			continue
		case match.CommonPrefix:""", """		case item.data.deleteMarker && !match.CommonPrefix && page.HasMarker:
			continue
		case match.CommonPrefix:""")

M("c03-bolt-lists-without-match", ["C03"], {"C03": ["R03.1"]}, "backend/s3bolt/backend.go",
  """			if !prefix.Match(key, &match) {
				continue

			} else if match.CommonPrefix {""", """			if !prefix.Match(key, &match) && prefix.HasDelimiter {
				continue

			} else if match.CommonPrefix {""")

M("c03-mem-commonprefix-also-in-contents", ["C03"], {"C03": ["R03.1"]}, "backend/s3mem/backend.go",
  """			response.AddPrefix(match.MatchedPart)
			lastMatchedPart = match.MatchedPart
		default:""", """			response.AddPrefix(match.MatchedPart)
			lastMatchedPart = match.MatchedPart
			if item.data.name == match.MatchedPart {
				response.Add(&gofakes3.Content{Key: item.data.name, ETag: item.data.etag, Size: int64(len(item.data.body))})
			}
		default:""")

M("c03-single-lists-dirs-as-objects", ["C03"], {"C03": ["R03.1"]}, "backend/s3afero/single.go",
  """		if entry.IsDir() {
			response.AddPrefix(path.Join(prefixPath, entry.Name()) + "/")

		} else {""", """		if entry.IsDir() && prefixPart == "" {
			response.AddPrefix(path.Join(prefixPath, entry.Name()) + "/")

		} else {""")

M("c03-multi-hasprefix-skip-dropped", ["C03"], {"C03": ["R03.1"]}, "backend/s3afero/multi.go",
  """		if prefixPart != "" && !strings.HasPrefix(object, prefixPart) {
			continue
		}

		if entry.IsDir() {
			response.AddPrefix(path.Join(prefixPath, entry.Name()) + "/")""", """		if prefixPart != "" && !strings.HasPrefix(object, prefixPart) && !entry.IsDir() {
			continue
		}

		if entry.IsDir() {
			response.AddPrefix(path.Join(prefixPath, entry.Name()) + "/")""")

M("c03-mem-etag-from-wrong-field", ["C03"], {"C03": ["R03.3"]}, "backend/s3mem/backend.go",
  """				ETag:         `"` + hex.EncodeToString(item.data.hash) + `"`,
				Size:         int64(len(item.data.body)),
			})
		}

		cnt++""", """				ETag:         `"` + hex.EncodeToString(item.data.hash) + `"`,
				Size:         int64(cap(item.data.body)),
			})
		}

		cnt++""")

M("c03-multi-meta-for-other-key", ["C03"], {"C03": ["R03.3"]}, "backend/s3afero/multi.go",
  """			meta, err := db.metaStore.loadMeta(bucket, objectPath, size, mtime)
			if err != nil {
				return nil, err
			}

			response.Add(&gofakes3.Content{
				Key:          objectPath,""", """			meta, err := db.metaStore.loadMeta(bucket, object, size, mtime)
			if err != nil {
				return nil, err
			}

			response.Add(&gofakes3.Content{
				Key:          objectPath,""")

M("c03-addprefix-dedupe-lost", ["C03"], {"C03": ["R03.5"]}, "backend.go",
  """	if b.prefixes == nil {
		b.prefixes = map[string]bool{}
	} else if b.prefixes[prefix] {
		return
	}
	b.prefixes[prefix] = true
	b.CommonPrefixes = append(b.CommonPrefixes, CommonPrefix{Prefix: prefix})""", """	if b.prefixes == nil {
		b.prefixes = map[string]bool{}
	}
	b.prefixes[prefix] = true
	b.CommonPrefixes = append(b.CommonPrefixes, CommonPrefix{Prefix: prefix})""")

M("c03-single-arbitrary-size-from-meta", ["C03"], {"C03": ["R03.4"]}, "backend/s3afero/single.go",
  """		response.Add(&gofakes3.Content{
			Key:          objectPath,
			LastModified: gofakes3.NewContentTime(mtime),
			ETag:         `"` + hex.EncodeToString(meta.Hash) + `"`,
			Size:         size,
		})

		return nil

	}); err != nil {""", """		response.Add(&gofakes3.Content{
			Key:          objectPath,
			LastModified: gofakes3.NewContentTime(mtime),
			ETag:         `"` + hex.EncodeToString(meta.Hash) + `"`,
			Size:         meta.Size,
		})

		return nil

	}); err != nil {""")

M("c03-mem-skips-empty-objects", ["C03"], {"C03": ["R03.6"]}, "backend/s3mem/backend.go",
  """		case item.data.deleteMarker:
			continue
		case match.CommonPrefix:""", """		case item.data.deleteMarker:
			continue
		case len(item.data.body) == 0 && strings.HasSuffix(item.data.name, "/"):
			continue // directory placeholder
		case match.CommonPrefix:""", more=[{"file": "backend/s3mem/backend.go", "old": """	"io"
	"sync"
""", "new": """	"io"
	"strings"
	"sync"
"""}])

M("c03-bolt-skips-dotfiles", ["C03"], {"C03": ["R03.6"]}, "backend/s3bolt/backend.go",
  """			if !prefix.Match(key, &match) {
				continue

			} else if match.CommonPrefix {""", """			if !prefix.Match(key, &match) || (len(key) > 0 && key[0] == '.') {
				continue

			} else if match.CommonPrefix {""")

# ---------------------------------------------------------------- C04
M("c04-prefixes-not-counted", ["C04"], {"C04": ["R04.1"]}, "backend/s3mem/backend.go",
  """			response.AddPrefix(match.MatchedPart)
			lastMatchedPart = match.MatchedPart
		default:""", """			response.AddPrefix(match.MatchedPart)
			lastMatchedPart = match.MatchedPart
			continue
		default:""")

M("c04-bound-greater-than", ["C04"], {"C04": ["R04.1"]}, "backend/s3mem/backend.go",
  """		if page.MaxKeys > 0 && cnt >= page.MaxKeys {
			response.NextMarker = item.data.name""", """		if page.MaxKeys > 0 && cnt > page.MaxKeys {
			response.NextMarker = item.data.name""")

M("c04-truncated-without-nextmarker", ["C04"], {"C04": ["R04.2"]}, "backend/s3mem/backend.go",
  """			response.NextMarker = item.data.name
			response.IsTruncated = iter.Next()
			break""", """			response.IsTruncated = iter.Next()
			if response.IsTruncated && match.CommonPrefix {
				response.NextMarker = match.MatchedPart
			}
			break""")

M("c04-token-std-encoding-on-decode", ["C04"], {"C04": ["R04.3"]}, "gofakes3.go",
  """		tok, err := base64.URLEncoding.DecodeString(query.Get("continuation-token"))""",
  """		tok, err := base64.StdEncoding.DecodeString(query.Get("continuation-token"))""")

M("c04-bad-token-ignored", ["C04"], {"C04": ["R04.3"]}, "gofakes3.go",
  """		if err != nil {
			// FIXME: log
			return page, ErrInvalidToken // FIXME: confirm for sure what AWS does here
		}
		page.Marker = string(tok)""", """		if err != nil {
			tok = nil
		}
		page.Marker = string(tok)""")

M("c04-marker-entry-not-skipped", ["C04"], {"C04": ["R04.4"]}, "backend/s3mem/backend.go",
  """		// If the current item is the Marker, move to the next item.
		if iter.Key() == page.Marker {
			iter.Next()
		}""", """		// If the current item is the Marker, move to the next item.
		if iter.Key() == page.Marker && page.HasMarker {
			iter.Next()
		}""")

M("c04-bolt-accepts-page", ["C04"], {"C04": ["R04.5"]}, "backend/s3bolt/backend.go",
  """	if !page.IsEmpty() {
		return nil, gofakes3.ErrInternalPageNotImplemented
	}

	objects := gofakes3.NewObjectList()""", """	if !page.IsEmpty() && page.Marker != "" {
		return nil, gofakes3.ErrInternalPageNotImplemented
	}

	objects := gofakes3.NewObjectList()""")

M("c04-retry-keeps-page", ["C04"], {"C04": ["R04.5"]}, "gofakes3.go",
  """			objects, err = g.storage.ListBucket(bucketName, &prefix, ListBucketPage{})""",
  """			objects, err = g.storage.ListBucket(bucketName, &prefix, ListBucketPage{MaxKeys: page.MaxKeys})""")

M("c04-start-after-ignored", ["C04"], {"C04": ["R04.6"]}, "gofakes3.go",
  """	} else if _, page.HasMarker = query["start-after"]; page.HasMarker {
		// List Objects V2 uses start-after if continuation-token is missing:
		page.Marker = query.Get("start-after")
	}""", """	}""")

M("c04-max-keys-unclamped", ["C04"], {"C04": ["R04.6"]}, "gofakes3.go",
  """	maxKeys, err := parseClampedInt(query.Get("max-keys"), DefaultMaxBucketKeys, 0, MaxBucketKeys)
	if err != nil {
		return page, err
	}

	page.MaxKeys = maxKeys

	if _, page.HasMarker = query["marker"]""", """	maxKeys, err := parseClampedInt(query.Get("max-keys"), DefaultMaxBucketKeys, 0, math.MaxInt32)
	if err != nil {
		return page, err
	}

	page.MaxKeys = maxKeys

	if _, page.HasMarker = query["marker"]""")

# ---------------------------------------------------------------- C08
M("c08-keylimit-after-store", ["C08"], {"C08": ["R08.1", "R08.5"]}, "gofakes3.go",
  """	if len(object) > KeySizeLimit {
		return ResourceError(ErrKeyTooLong, object)
	}

	var md5Base64 string""", """	var md5Base64 string""", more=[{"file": "gofakes3.go", "old": """	if result.VersionID != "" {
		g.log.Print(LogInfo, "CREATED VERSION:", bucket, object, result.VersionID)""", "new": """	if len(object) > KeySizeLimit {
		return ResourceError(ErrKeyTooLong, object)
	}
	if result.VersionID != "" {
		g.log.Print(LogInfo, "CREATED VERSION:", bucket, object, result.VersionID)"""}])

M("c08-mem-lock-before-readall", ["C08"], {"C08": ["R08.2"]}, "backend/s3mem/backend.go",
  """	bts, err := gofakes3.ReadAll(input, size)
	if err != nil {
		return result, err
	}

	err = gofakes3.MergeMetadata(db, bucketName, objectName, meta)
	if err != nil {
		return result, err
	}

	db.lock.Lock()
	defer db.lock.Unlock()

	bucket := db.buckets[bucketName]
	if bucket == nil {
		return result, gofakes3.BucketNotFound(bucketName)
	}

	hash := md5.Sum(bts)
""", """	err = gofakes3.MergeMetadata(db, bucketName, objectName, meta)
	if err != nil {
		return result, err
	}

	db.lock.Lock()
	defer db.lock.Unlock()

	bucket := db.buckets[bucketName]
	if bucket == nil {
		return result, gofakes3.BucketNotFound(bucketName)
	}
	placeholder := &bucketData{name: objectName, metadata: meta, lastModified: db.timeSource.Now()}
	bucket.put(objectName, placeholder)

	bts, err := gofakes3.ReadAll(input, size)
	if err != nil {
		return result, err
	}

	hash := md5.Sum(bts)
""")

M("c08-bolt-readall-size-from-len", ["C08"], {"C08": ["R08.3"]}, "backend/s3bolt/backend.go",
  """	bts, err := gofakes3.ReadAll(input, size)
	if err != nil {
		return result, err
	}
""", """	bts, err := io.ReadAll(input)
	if err != nil {
		return result, err
	}
	_ = size
""")

M("c08-readall-tolerates-trailing-bytes", ["C08"], {"C08": ["R08.3"]}, "util.go",
  """	if extra, err := ioutil.ReadAll(r); err != nil {
		return nil, err
	} else if len(extra) > 0 {
		return nil, ErrIncompleteBody
	}
""", """	if _, err := io.Copy(ioutil.Discard, r); err != nil {
		return nil, err
	}
""")

M("c08-digest-check-only-when-sum-set", ["C08"], {"C08": ["R08.4"]}, "hash.go",
  """			if h.expected != nil && !bytes.Equal(h.sum, h.expected) {""",
  """			if h.expected != nil && n > 0 && !bytes.Equal(h.sum, h.expected) {""")

M("c08-part-digest-not-wired", ["C08"], {"C08": ["R08.4"]}, "gofakes3.go",
  """			rdr, err = newHashingReader(rdr, md5Base64)
			if err != nil {
				return err
			}""", """			if _, err = newHashingReader(rdr, md5Base64); err != nil {
				return err
			}""")

M("c08-hash-before-read-count", ["C08"], {"C08": ["R08.4"]}, "hash.go",
  """		wn, _ := h.hash.Write(p[:n]) // Hash.Write never returns an error.""",
  """		wn, _ := h.hash.Write(p[:len(p)]) // Hash.Write never returns an error.
		wn = n""")

M("c08-metadata-limit-off-by-factor", ["C08"], {"C08": ["R08.5"]}, "gofakes3.go",
  """	if sizeLimit > 0 && metadataSize(meta) > sizeLimit {""", """	if sizeLimit > 0 && len(meta) > sizeLimit {""")

M("c08-initiate-ignores-metadata-error", ["C08"], {"C08": ["R08.5"]}, "gofakes3.go",
  """	meta, err := metadataHeaders(r.Header, g.timeSource.Now(), g.metadataSizeLimit)
	if err != nil {
		return err
	}
	if err := g.ensureBucketExists(bucket); err != nil {
		return err
	}

	uploadID, err := g.uploader.CreateMultipartUpload(bucket, object, meta)""", """	meta, _ := metadataHeaders(r.Header, g.timeSource.Now(), g.metadataSizeLimit)
	if err := g.ensureBucketExists(bucket); err != nil {
		return err
	}

	uploadID, err := g.uploader.CreateMultipartUpload(bucket, object, meta)""")

M("c08-browser-upload-no-key-limit", ["C08"], {"C08": ["R08.5"]}, "gofakes3.go",
  """	if len(key) > KeySizeLimit {
		return ResourceError(ErrKeyTooLong, key)
	}

	// FIXME: how does Content-MD5""", """	// FIXME: how does Content-MD5""")

# ---------------------------------------------------------------- C12
REVERT("f12-revert-chunk-accounting", ["C12"], {"C12": ["R12.1"]}, "0008-fix-chunked-reader-accounts-for-the-bytes-actually-r.patch")
REVERT("f11-revert-declared-length-alloc-c12", ["C12"], {"C12": ["R09.1a"]}, "0012-fix-a-negative-or-absurd-declared-length-cannot-pani.patch")

M("c12-branch2-counts-requested", ["C12"], {"C12": ["R12.1"]}, "chunk.go",
  """			innerN, err := r.inner.Read(p[n : n+r.chunkRemain])
			r.chunkRemain -= innerN
			n += innerN
			sizeToRead -= innerN""", """			innerN, err := r.inner.Read(p[n : n+r.chunkRemain])
			n += innerN
			sizeToRead -= r.chunkRemain
			r.chunkRemain -= innerN""")

M("c12-reads-across-chunk-boundary", ["C12"], {"C12": ["R12.1", "R12.4"]}, "chunk.go",
  """		} else if r.chunkRemain > 0 {
			// read until this chunk ends
			innerN, err := r.inner.Read(p[n : n+r.chunkRemain])""", """		} else if r.chunkRemain > 0 {
			// read until this chunk ends
			innerN, err := r.inner.Read(p[n : n+sizeToRead])""")

M("c12-header-parse-error-ignored", ["C12"], {"C12": ["R12.2"]}, "chunk.go",
  """			_, err = fmt.Fscanf(r.inner, "%x;", &chunkSize)
			if err != nil {
				return n, err
			}
			r.chunkRemain = chunkSize""", """			_, err = fmt.Fscanf(r.inner, "%x;", &chunkSize)
			if err != nil && err != io.EOF {
				return n, err
			}
			r.chunkRemain = chunkSize""")

M("c12-signature-skip-error-dropped", ["C12"], {"C12": ["R12.2"]}, "chunk.go",
  """			_, err = io.CopyN(ioutil.Discard, r.inner, 16+64+2) // "chunk-signature=" + sizeOfHash + "\\r\\n"
			if err != nil {
				return n, err
			}""", """			io.CopyN(ioutil.Discard, r.inner, 16+64+2) // "chunk-signature=" + sizeOfHash + "\\r\\n\"""")

M("c12-detection-lowercase-header-key", ["C12"], {"C12": ["R12.3"]}, "gofakes3.go",
  """	if sha, ok := meta["X-Amz-Content-Sha256"]; ok && sha == "STREAMING-AWS4-HMAC-SHA256-PAYLOAD" {""",
  """	if sha, ok := meta["x-amz-content-sha256"]; ok && sha == "STREAMING-AWS4-HMAC-SHA256-PAYLOAD" {""")

M("c12-decoded-length-ignored", ["C12"], {"C12": ["R12.3"]}, "gofakes3.go",
  """		reader = newChunkedReader(r.Body)
		size, err = strconv.ParseInt(meta["X-Amz-Decoded-Content-Length"], 10, 64)
		if err != nil || size < 0 {
			w.WriteHeader(http.StatusBadRequest) // XXX: no code for this, according to s3tests
			return nil
		}""", """		reader = newChunkedReader(r.Body)
		if dl, derr := strconv.ParseInt(meta["X-Amz-Decoded-Content-Length"], 10, 64); derr == nil && dl < size {
			size = dl
		}""")

M("c12-decoder-always-on-for-sha-header", ["C12"], {"C12": ["R12.3"]}, "gofakes3.go",
  """	if sha, ok := meta["X-Amz-Content-Sha256"]; ok && sha == "STREAMING-AWS4-HMAC-SHA256-PAYLOAD" {""",
  """	if sha, ok := meta["X-Amz-Content-Sha256"]; ok && strings.HasPrefix(sha, "STREAMING-") {""")

# ---------------------------------------------------------------- C15
M("c15-bolt-put-outside-update", ["C15"], {"C15": ["R15.1"]}, "backend/s3bolt/backend.go",
  """	return result, db.bolt.Update(func(tx *bolt.Tx) error {
		b := db.s3Bucket(tx, bucketName)
		if b == nil {
			return gofakes3.BucketNotFound(bucketName)
		}
		if err := b.Delete([]byte(objectName)); err != nil {
			return fmt.Errorf("gofakes3: delete failed for object %q in bucket %q", objectName, bucketName)
		}
		return nil
	})""", """	return result, db.bolt.View(func(tx *bolt.Tx) error {
		b := db.s3Bucket(tx, bucketName)
		if b == nil {
			return gofakes3.BucketNotFound(bucketName)
		}
		if err := b.Delete([]byte(objectName)); err != nil {
			return fmt.Errorf("gofakes3: delete failed for object %q in bucket %q", objectName, bucketName)
		}
		return nil
	})""")

M("c15-bolt-nosync", ["C15"], {"C15": ["R15.1"]}, "backend/s3bolt/backend.go",
  """	db, err := bolt.Open(file, 0600, nil)
	if err != nil {
		return nil, err
	}""", """	db, err := bolt.Open(file, 0600, nil)
	if err != nil {
		return nil, err
	}
	db.NoSync = true""")

M("c15-bolt-update-error-dropped", ["C15"], {"C15": ["R15.1"]}, "backend/s3bolt/backend.go",
  """	return result, db.bolt.Update(func(tx *bolt.Tx) error {
		b := db.s3Bucket(tx, bucketName)
		if b == nil {
			return gofakes3.BucketNotFound(bucketName)
		}

		data, err := bson.Marshal(&boltObject{""", """	var notFound error
	db.bolt.Update(func(tx *bolt.Tx) error {
		b := db.s3Bucket(tx, bucketName)
		if b == nil {
			notFound = gofakes3.BucketNotFound(bucketName)
			return notFound
		}

		data, err := bson.Marshal(&boltObject{""", more=[{"file": "backend/s3bolt/backend.go", "old": """		if err := b.Put([]byte(objectName), data); err != nil {
			return err
		}
		return nil
	})
}""", "new": """		if err := b.Put([]byte(objectName), data); err != nil {
			return err
		}
		return nil
	})
	return result, notFound
}"""}])

M("c15-boltobject-hash-unexported", ["C15"], {"C15": ["R15.2"]}, "backend/s3bolt/schema.go",
  """	Contents     []byte
	Hash         []byte
}""", """	Contents     []byte
	Hash         []byte `bson:"-"`
}""")

M("c15-metadata-size-not-saved", ["C15"], {"C15": ["R15.2"]}, "backend/s3afero/single.go",
  """		Meta:    meta,
		Size:    stat.Size(),
		ModTime: stat.ModTime(),
	}
	if err := db.metaStore.saveMeta(db.metaStore.metaPath(bucketName, objectName), storedMeta); err != nil {""", """		Meta:    meta,
		ModTime: stat.ModTime(),
	}
	if err := db.metaStore.saveMeta(db.metaStore.metaPath(bucketName, objectName), storedMeta); err != nil {""")

M("c15-single-ensuremeta-hashes-meta-fs", ["C15"], {"C15": ["R15.3"]}, "backend/s3afero/single.go",
  """		f, err := db.fs.Open(filepath.FromSlash(objectPath))
		if err != nil {
			return nil, err
		}
		defer f.Close()

		hasher := md5.New()""", """		f, err := db.metaStore.fs.Open(filepath.FromSlash(objectPath))
		if err != nil {
			return nil, err
		}
		defer f.Close()

		hasher := md5.New()""")

M("c15-fs-put-acks-before-savemeta", ["C15"], {"C15": ["R15.6"]}, "backend/s3afero/multi.go",
  """	if err := db.metaStore.saveMeta(db.metaStore.metaPath(bucketName, objectName), storedMeta); err != nil {
		return result, err
	}

	return result, nil
}

func (db *MultiBucketBackend) CopyObject""", """	if err := db.metaStore.saveMeta(db.metaStore.metaPath(bucketName, objectName), storedMeta); err != nil {
		log.Println("metadata not saved:", err)
	}

	return result, nil
}

func (db *MultiBucketBackend) CopyObject""")

M("c15-fs-delete-leaves-metadata", ["C15"], {"C15": ["R15.6"]}, "backend/s3afero/single.go",
  """	if err := db.metaStore.deleteMeta(db.metaStore.metaPath(bucketName, objectName)); err != nil {
		return err
	}

	return nil
}

// CreateBucket cannot""", """	return nil
}

// CreateBucket cannot""")

M("c15-cmd-fs-uses-directfs-path", ["C15"], {"C15": ["R15.5"]}, "cmd/gofakes3/main.go",
  """		baseFs, err := s3afero.FsPath(values.fsPath, values.fsPathFlags())
		if err != nil {
			return fmt.Errorf("gofakes3: could not create -fs.path: %v", err)
		}""", """		baseFs, err := s3afero.FsPath(values.directFsPath, values.fsPathFlags())
		if err != nil {
			return fmt.Errorf("gofakes3: could not create -fs.path: %v", err)
		}""")

M("c15-savemeta-close-error-ignored", ["C15"], {"C15": ["R15.6", "R01.7"]}, "backend/s3afero/single.go",
  """	if err := f.Close(); err != nil {
		return result, err
	}

	closed = true

	stat, err := db.fs.Stat(objectFilePath)""", """	f.Close()

	closed = true

	stat, err := db.fs.Stat(objectFilePath)""")

# ---------------------------------------------------------------- C17
M("c17-create-without-validation-on-header", ["C17"], {"C17": ["R17.1"]}, "gofakes3.go",
  """	if err := ValidateBucketName(bucket); err != nil {
		return err
	}
	if err := g.storage.CreateBucket(bucket); err != nil {""", """	if err := ValidateBucketName(bucket); err != nil && r.Header.Get("x-amz-bucket-object-lock-enabled") == "" {
		return err
	}
	if err := g.storage.CreateBucket(bucket); err != nil {""")

M("c17-length-64-accepted", ["C17"], {"C17": ["R17.2"]}, "validation.go",
  """	if len(name) < 3 || len(name) > 63 {""", """	if len(name) < 3 || len(name) > 64 {""")

M("c17-label-check-skips-last", ["C17"], {"C17": ["R17.2"]}, "validation.go",
  """	for _, label := range labels {
		if !bucketNamePattern.MatchString(label) {""", """	for i, label := range labels {
		if i == len(labels)-1 && len(labels) > 1 {
			break
		}
		if !bucketNamePattern.MatchString(label) {""")

M("c17-ip-check-dropped", ["C17"], {"C17": ["R17.2"]}, "validation.go",
  """	if net.ParseIP(name) != nil {
		return ErrorMessage(ErrInvalidBucketName, "bucket names must not be formatted as an IP address")
	}
""", """	if ip := net.ParseIP(name); ip != nil && ip.To4() == nil {
		return ErrorMessage(ErrInvalidBucketName, "bucket names must not be formatted as an IP address")
	}
""")

M("c17-pattern-allows-underscore", ["C17"], {"C17": ["R17.4"]}, "validation.go",
  """var bucketNamePattern = regexp.MustCompile(`^[a-z0-9]([a-z0-9\\.-]+)[a-z0-9]$`)""",
  """var bucketNamePattern = regexp.MustCompile(`^[a-z0-9]([a-z0-9_\\.-]+)[a-z0-9]$`)""")

M("c17-pattern-two-char-labels", ["C17"], {"C17": ["R17.4"]}, "validation.go",
  """var bucketNamePattern = regexp.MustCompile(`^[a-z0-9]([a-z0-9\\.-]+)[a-z0-9]$`)""",
  """var bucketNamePattern = regexp.MustCompile(`^[a-z0-9]([a-z0-9\\.-]*)[a-z0-9]$`)""")

M("c17-pattern-unanchored", ["C17"], {"C17": ["R17.4"]}, "validation.go",
  """var bucketNamePattern = regexp.MustCompile(`^[a-z0-9]([a-z0-9\\.-]+)[a-z0-9]$`)""",
  """var bucketNamePattern = regexp.MustCompile(`^[a-z0-9]([a-z0-9\\.-]+)[a-z0-9]`)""")

M("c17-rejection-wrong-code", ["C17"], {"C17": ["R17.1"]}, "validation.go",
  """		return ErrorMessage(ErrInvalidBucketName, "bucket name must be >= 3 characters and <= 63")""",
  """		return ErrorMessage(ErrInvalidArgument, "bucket name must be >= 3 characters and <= 63")""")

M("c17-listbuckets-unfiltered", ["C17"], {"C17": ["R17.3"]}, "backend/s3afero/multi.go",
  """		if err := gofakes3.ValidateBucketName(dirEntry.Name()); err != nil {
			continue
		}
""", """		if err := gofakes3.ValidateBucketName(dirEntry.Name()); err != nil && !dirEntry.IsDir() {
			continue
		}
""")

# ---------------------------------------------------------------- C16
REVERT("f24-revert-location-follows-request", ["C16"], {"C16": ["R16.6"]}, "0018-fix-CompleteMultipartUpload-Location-follows-how-the.patch")

M("c16-base-mw-drops-single-label-test", ["C16"], {"C16": ["R16.7"]}, "gofakes3.go",
  """			bucket = host[:len(host)-len(base)]
			if idx := strings.IndexByte(bucket, '.'); idx >= 0 {
				continue
			}
			return bucket, true""", """			bucket = host[:len(host)-len(base)]
			return bucket, true""")

M("c16-rewrite-cleans-path", ["C16"], {"C16": ["R16.3"]}, "gofakes3.go",
  """		parts := strings.SplitN(rq.Host, ".", 2)
		bucket := parts[0]

		p := rq.URL.Path
		rq.URL.Path = "/" + bucket
		if p != "/" {
			rq.URL.Path += p
		}""", """		parts := strings.SplitN(rq.Host, ".", 2)
		bucket := parts[0]

		p := rq.URL.Path
		rq.URL.Path = "/" + bucket
		if p != "/" {
			rq.URL.Path += "/" + strings.TrimLeft(p, "/")
		}""")

M("c16-bucket-from-forwarded-host", ["C16"], {"C16": ["R16.3"]}, "gofakes3.go",
  """		parts := strings.SplitN(rq.Host, ".", 2)
		bucket := parts[0]
""", """		host := rq.Host
		if fwd := rq.Header.Get("X-Forwarded-Host"); fwd != "" {
			host = fwd
		}
		parts := strings.SplitN(host, ".", 2)
		bucket := parts[0]
""")

M("c16-mw-rewrites-rawquery", ["C16"], {"C16": ["R16.2"]}, "gofakes3.go",
  """		g.log.Print(LogInfo, p, "=>", rq.URL)

		handler.ServeHTTP(w, withHostBucket(rq))
	})
}

// hostBucketCtxKey""", """		g.log.Print(LogInfo, p, "=>", rq.URL)
		rq.URL.RawQuery = strings.TrimSuffix(rq.URL.RawQuery, "&")

		handler.ServeHTTP(w, withHostBucket(rq))
	})
}

// hostBucketCtxKey""")

M("c16-routebase-trimleft-only", ["C16"], {"C16": ["R16.5"]}, "routing.go",
  """		path   = strings.Trim(r.URL.Path, "/")""", """		path   = strings.TrimLeft(r.URL.Path, "/")""")

M("c16-handler-reads-hostbucket", ["C16"], {"C16": ["R16.4"]}, "gofakes3.go",
  """func (g *GoFakeS3) listBuckets(w http.ResponseWriter, r *http.Request) error {
""", """func (g *GoFakeS3) listBuckets(w http.ResponseWriter, r *http.Request) error {
	if g.hostBucket {
		return ErrNotImplemented
	}
""")

M("c16-handler-rereads-path", ["C16"], {"C16": ["R16.4"]}, "gofakes3.go",
  """func (g *GoFakeS3) headObject(
	bucket, object string,
	versionID VersionID,
	w http.ResponseWriter,
	r *http.Request,
) error {
""", """func (g *GoFakeS3) headObject(
	bucket, object string,
	versionID VersionID,
	w http.ResponseWriter,
	r *http.Request,
) error {
	if strings.HasSuffix(r.URL.Path, "/") {
		object += "/"
	}
""")

M("c16-server-swaps-option-tests", ["C16"], {"C16": ["R16.1"]}, "gofakes3.go",
  """	if len(g.hostBucketBases) > 0 {
		handler = g.hostBucketBaseMiddleware(handler)
	} else if g.hostBucket {
		handler = g.hostBucketMiddleware(handler)
	}""", """	if g.hostBucket {
		handler = g.hostBucketBaseMiddleware(handler)
	} else if len(g.hostBucketBases) > 0 {
		handler = g.hostBucketMiddleware(handler)
	}""")

M("c16-base-fallback-rewrites-anyway", ["C16"], {"C16": ["R16.2"]}, "gofakes3.go",
  """		bucket, ok := matchBucket(rq.Host)
		if !ok {
			handler.ServeHTTP(w, rq)
			return
		}
		p := rq.URL.Path""", """		bucket, ok := matchBucket(rq.Host)
		if !ok {
			bucket = strings.SplitN(rq.Host, ".", 2)[0]
		}
		p := rq.URL.Path""")

M("c16-unmarked-forward-after-rewrite", ["C16"], {"C16": ["R16.6"]}, "gofakes3.go",
  """		g.log.Print(LogInfo, p, "=>", rq.URL)

		handler.ServeHTTP(w, withHostBucket(rq))
	})
}

func (g *GoFakeS3) httpError""", """		g.log.Print(LogInfo, p, "=>", rq.URL)

		handler.ServeHTTP(w, rq)
	})
}

func (g *GoFakeS3) httpError""")

# ---------------------------------------------------------------- F25 / F26
REVERT("f25-revert-prefix-once-across-pages", ["C04"], {"C04": ["R04.7"]}, "0019-fix-a-common-prefix-is-reported-once-when-a-page-bou.patch")
REVERT("f26-revert-fs-walk-sorted", ["C03"], {"C03": ["R03.8"]}, "0020-fix-fs-backends-list-keys-in-byte-order-when-they-ha.patch")

M("c03-walk-sorted-by-size", ["C03"], {"C03": ["R03.8"]}, "backend/s3afero/single.go",
  """		return response.Contents[i].Key < response.Contents[j].Key""", """		return response.Contents[i].Size < response.Contents[j].Size""")

M("c04-marker-group-seeded-unconditionally", ["C04"], {"C04": ["R04.7"]}, "backend/s3mem/backend.go",
  """		if prefix.Match(page.Marker, &match) && match.CommonPrefix {
			lastMatchedPart = match.MatchedPart
		}""", """		if prefix.Match(page.Marker, &match) && match.CommonPrefix {
			lastMatchedPart = ""
		}""")

# ---------------------------------------------------------------- F27
REVERT("f27-revert-upload-listing-lookahead", ["C14"], {"C14": ["R14.8"]}, "0021-fix-a-multipart-upload-listing-is-truncated-while-un.patch")

# ---------------------------------------------------------------- F28 / F29
REVERT("f28-revert-prefix-directory-contained", ["C10"], {"C10": ["R10.10"]}, "0022-fix-an-fs-listing-prefix-with-.-or-.-segments-cannot.patch")
REVERT("f29-revert-multi-bucket-name-validation", ["C10"], {"C10": ["R10.10"]}, "0023-fix-the-multi-bucket-fs-backend-treats-only-valid-bu.patch")

M("c10-multi-forcedelete-skips-name-check", ["C10"], {"C10": ["R10.10"]}, "backend/s3afero/multi.go",
  """func (db *MultiBucketBackend) ForceDeleteBucket(name string) error {
	if err := gofakes3.ValidateBucketName(name); err != nil {
		return gofakes3.BucketNotFound(name)
	}
""", """func (db *MultiBucketBackend) ForceDeleteBucket(name string) error {
""")

# ---------------------------------------------------------------- F30
REVERT("f30-revert-directory-is-not-a-key", ["C02"], {"C02": ["R02.9"]}, "0024-fix-deleting-a-key-that-is-only-a-directory-on-disk-.patch")
REVERT("f31-revert-modtime-probe-exclusive", ["C10"], {"C10": ["R10.11"]}, "0025-fix-the-mod-time-probe-of-the-fs-backends-never-touc.patch")
# ---------------------------------------------------------------- F32
REVERT("f32-revert-removeall-bucket-name", ["C10", "C02"], {"C10": ["R10.14"], "C02": ["R10.14"]}, "0026-fix-multi-bucket-fs-backend-deleting-a-bucket-no-lon.patch")
