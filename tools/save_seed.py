#!/usr/bin/env python3
"""save_seed.py <id> <srcdir> <props,comma> <breaks> <needs> [flag]  — copies a confirmed sub-agent seed into /verif/seeded/<id>/ with meta.json"""
import os, sys, shutil, json
sid, src, props, breaks, needs = sys.argv[1:6]
flag = sys.argv[6] if len(sys.argv) > 6 else ""
d = os.path.join("/verif/seeded", sid); os.makedirs(d, exist_ok=True)
for f in os.listdir(src):
    if os.path.isfile(os.path.join(src, f)):
        shutil.copy(os.path.join(src, f), d)
files = [l.split()[-1][2:] for l in open(os.path.join(d, "patch.diff")) if l.startswith("+++ ")]
json.dump({"id": sid, "properties": props.split(","), "detected_by": props.split(","),
  "source": "independent sub-agent given only the property text and a scratch worktree",
  "breaks": breaks, "needs": needs,
  "confirmed": "tools/verify_seed.sh %s: patch applies to HEAD, builds, unedited suite passes, demo fails with the patch and passes without" % flag,
  "files": files}, open(os.path.join(d, "meta.json"), "w"), indent=1)
print("saved", sid)
