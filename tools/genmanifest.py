#!/usr/bin/env python3
"""Generates /verif/MANIFEST.json from the claim table below (single source of
truth for what is claimed). Properties without a built check are listed under
not_applicable with the reason."""
import json, os

VERIF = os.path.dirname(os.path.dirname(os.path.abspath(__file__)))
TECH = "static analysis: "

CLAIMS = {
 "C02": dict(
  text="Static analysis of structural necessary conditions (not the behavioural model equivalence): a checked bucket-existence test dominates every bucket-scoped storage call in every handler; every Backend/VersionedBackend method of all four implementations can return the error code its contract mandates; deletes never return NoSuchKey; the status table is exhaustive and maps the property's codes to 404/409; every handler error reaches httpError; CopyObject wiring; bucket removal only on the empty arm of the BucketNotEmpty test; directories pruned only after an emptiness test of that very directory; the auto-creating existence check only on the addressed bucket. Holds for all paths and call sites rather than sampled histories.",
  note="trusted: go/types, go/ssa, the contract table transcribed from backend.go comments and the property text. Not decided: read-your-writes, copy/overwrite value semantics, agreement with a reference model.",
  tech="SSA dominance/guard queries + interprocedural provenance slices + contract tables", ref="DESIGN.md §4 C02"),
 "C07": dict(
  text="Static lockset analysis (Eraser-style, computed statically over SSA and the VTA call graph): every mutex acquire is released on all paths (L1); every access to guarded state — memory-backend maps/skiplists/version data, version generator, uploader bookkeeping, every afero.Fs use of the fs backends — holds the owning lock in the needed mode on every call path from every entry point (L2); lock-order graph acyclic, no re-acquire of a held lock (L3); config fields written only during construction, requestID only via sync/atomic (L5); bolt handles only inside transactions (L7); stored bodies never mutated (R01.6). This is data-race/deadlock freedom w.r.t. the lock abstraction for all schedules; linearizability of histories is not decided.",
  note="trusted: guard table confirmed by reading (DESIGN.md §2.5), lock identity abstracted per (type, field), VTA over-approximation of dynamic calls. Not decided: linearizability, lost updates at S3 level, torn reads on a real directory.",
  tech="static lockset / lock-order analysis over SSA + call graph; read-only-use check of shared byte slices", ref="DESIGN.md §2.5, §4 C07"),
 "C09": dict(
  text="Panic-obligation discharge by static analysis over everything reachable from the router and middlewares: the compiler's own list of unproven bounds checks (-d=ssa/check_bce) is mapped to SSA and each site is discharged by structural rules (len guards, library post-conditions, induction variables, the Range() envelope) or a reviewed table with re-checked premises; nilable fields (versioned backend, version skiplists, iterator fields, bucketObject.data invariant) are dereferenced only where established non-nil on every path; unchecked type assertions only on homogeneous skiplist classes; explicit panics reviewed; request-sized allocations bounded; route switches total with an S3 error default; every handler error reaches httpError and has a status; no lock wedge under explicit unlock; middlewares answer or forward exactly once; no blocking primitive. Decides absence of these panic/hang causes for all request values, not that responses are semantically right.",
  note="trusted: gc's prove pass for completeness of the bounds list, the library post-condition table, the reviewed discharge table (rules/c09.go), VTA reachability. Not decided: panics inside dependencies, nil results of backend calls/map lookups, memory exhaustion, non-terminating loops, post-request canary.",
  tech="obligation enumeration (compiler BCE list, SSA scan) + guard/fact dominance, nil-ness dataflow, container-homogeneity and reviewed-table discharge", ref="DESIGN.md §2.6, §4 C09"),
 "C11": dict(
  text="Static analysis of the range-read safety envelope and wiring: every non-nil result of ObjectRangeRequest.Range(size) is dominated by guards entailing 0<=Start<size and 0<=Length<=size-Start with wrap-free guard arithmetic; all four backends pass the stored size, return Range()'s error unchanged, slice/seek/limit with exactly that result and report it in Object.Range; Content-Range/Content-Length are written from it between entity headers and body; every parse failure returns InvalidRange (416). Arithmetic exactness of in-range results is NOT decided.",
  note="trusted: go/ssa, value-equivalence (load equivalence) rules. Not decided: off-by-one in computed length, whitespace variants, multi-range answer.",
  tech="guard-fact dominance with symbolic (parametric) bounds on SSA + provenance slices for wiring", ref="DESIGN.md §4 C11"),
 "C01": dict(
  text="Static provenance analysis of what makes the returned ETag, size and metadata belong to the stored bytes, on every handler path and in all four backends: the ETag header is the Sum of the very hashing reader handed to PutObject over the request body; every PutObject stores hash and body of one single consumption of the input (ReadAll→md5.Sum of the same value; or one io.Copy into a MultiWriter over exactly the truncating-opened object file and the hasher); Object.Size/Hash/Metadata and Content-Length derive from the stored record; header-name constants are canonical and the persisted header set covers the property's headers; GET and HEAD replay every stored header and the ETag through one shared function before length and body; stored bodies are never mutated; no storage error is dropped. Byte equality itself is not decided.",
  note="trusted: go/ssa, the may-flow provenance slices (over-approximate), accepted error-handling idioms listed in rules/c01.go. Not decided: byte equality, empty bodies, URL escaping, BSON/JSON value round trips.",
  tech="interprocedural provenance slices (def-use, call-site sensitive) + dominance on SSA; error-discipline scan", ref="DESIGN.md §4 C01"),
 "C06": dict(
  text="Static analysis of the uploader's completion protocol on all paths: the part-order test examines the list as sent (no sort on its provenance) and guards InvalidPartOrder; validate-then-mutate (no validation error after PutObject/remove; remove only after checked PutObject / checked lookup); both bounds of every part index discharged (compiler bounds list); listed ETag compared with the stored part of that number and nil slots rejected; abort cannot reach a Backend method (call graph); a part is read and length-checked before any lock, stored at its own number with MD5 of that body; the assembled body is empty + whole listed part bodies, stored with the initiation metadata, ETag from part MD5s and len(parts).",
  note="trusted: go/ssa, VTA call graph, gc prove pass for the bounds list. Not decided: byte equality of the concatenation, strict ascending order for duplicate numbers.",
  tech="SSA reachability/dominance, provenance slices, call-graph reachability, bounds-obligation discharge", ref="DESIGN.md §4 C06"),
 "C10": dict(
  text="Static containment analysis of every filesystem/bolt access of the persistent backends: key-derived afero paths are dominated by a checked containment sanitiser (a path.Clean-fixpoint test with an error arm); bolt bucket operations on request names are dominated by a rejecting comparison with the internal bucket name; single-bucket methods compare the bucket name before any effect; multi-bucket object methods establish bucket existence first; the metadata file name hashes the unmodified key; routing passes names unchanged; RemoveAll is never applied to key-derived paths.",
  note="trusted: go/ssa, provenance slices. Not decided: whole-store non-interference, percent-encoding, OS behaviour for odd names, keys that are path-prefixes of other keys on fs backends.",
  tech="taint-style provenance slices to path arguments + guard dominance (sanitiser must dominate sink)", ref="DESIGN.md §4 C10"),
 "C05": dict(
  text="Static analysis of version retention in the memory backend and its handlers on all paths: the versionId of GET/HEAD/DELETE reaches the versioned backend call and the response is built from its result; the current version is archived under its own id before replacement when versioning is enabled; bucketObject.data is never nil while the key is in the bucket (every store provably non-nil, every new object gets data before it is reachable), nilable iterator fields guarded; archived versions are discarded only by rmVersion/promote with the addressed id, keys leave the bucket only when nothing remains, setVersioning touches only the status; every put draws a fresh id whose provenance includes the mutex-protected counter; (R05.6) enum-path analysis over bucket.versioning shows where a current version is overwritten without archiving — today under Suspended (known findings F21a/b).",
  note="trusted: go/ssa, container-homogeneity premise for values read from the versions skiplist. Known findings: F21a/F21b (Suspended overwrite) listed in known_findings.json. Not decided: 'most recently created' order, multi-delete semantics, byte identity of old versions (R01.6 under C07).",
  tech="SSA dominance / must-pass-through, nil-ness dataflow, finite-enum path analysis (edges infeasible under an assumed field value), provenance slices", ref="DESIGN.md §4 C05"),
 "C13": dict(
  text="Static analysis of ListObjectVersions (memory backend + handler) on all paths: truncation is always accompanied by NextKeyMarker/NextVersionIdMarker from the last listed version; IsLatest is the identity test with the iterated object's current version, which the iterator yields exactly once; nilable iterator fields guarded; 'null' substitution covers every entry, ids masked only for never-versioned buckets; every listed entry passes the counter and the cnt>=MaxKeys test before the next; marker-combination guards precede the backend call; listed Key/Size/ETag come from the listed version and delete markers are built on the deleteMarker arm; entries only under a positive, ungrouped prefix match.",
  note="trusted: go/ssa. Not decided: exactly-once across pages, order inside a key, Prefix.Match semantics, that the returned markers resume at the right entry.",
  tech="SSA dominance / reaches-avoiding (must-pass-through), provenance slices, nil-ness dataflow", ref="DESIGN.md §4 C13"),
 "C14": dict(
  text="Static analysis of ListParts/ListMultipartUploads (in-memory uploader + handlers) on all paths: listed PartNumber and NextPartNumberMarker are indices into the unsliced parts slice and Size/ETag come from that slot; all compiler-reported bounds sites of the uploader discharged; truncation always sets the continuation markers on the same path; the upload map and the per-key index are written only by add/remove, both in step, and the index never keeps an empty slice; uploads are listed only under a positive ungrouped prefix match from the iterated index entry and counted against the limit; every access to uploader state holds uploader.mu (static lockset); max-uploads/max-parts/marker clamped and passed on.",
  note="trusted: go/ssa, gc prove pass (bounds list), VTA call graph for the lockset. Not decided: exactly-once across pages for uploads, prefix grouping semantics, initiation-time order.",
  tech="provenance slices + dominance, bounds-obligation discharge, static lockset restricted to uploader state", ref="DESIGN.md §4 C14"),
 "C03": dict(
  text="Static analysis of listing membership and field provenance in all four backends on all paths: every Add/AddPrefix is reached only after a positive prefix test of the very key being added, on the right grouped/not-grouped (directory/file) arm, never for delete-marked data, with the iterated key; ETag and Size come from the same stored record as the Key; the two fs backends' listing helpers agree argument by argument (sibling cross-check); AddPrefix de-duplicates; a listing loop passes over a key only for the admissible reasons; deleted nested keys leave no directory behind. Order and Prefix.Match semantics are not decided.",
  note="trusted: go/ssa, may-flow provenance slices. Not decided: ascending byte order as a value statement (decided: ordered store or explicit sort by key), semantics of Prefix.Match, other delimiters. Genuine defects found and repaired: F20, F22, F26.",
  tech="guard dominance + provenance slices + sibling leaf-set comparison + loop must-pass-through (silent-skip search)", ref="DESIGN.md §4 C03"),
 "C04": dict(
  text="Static analysis of object-listing pagination on all paths: every listed entry passes the counter and the cnt>=MaxKeys test before the next one and nothing is listed after the bound; IsTruncated is only set together with NextMarker = last examined key, from which the handler derives the V2 token / V1 marker; the token is encoded and decoded with the same base64 alphabet and decode errors answer InvalidToken; the marker entry is skipped after Seek; non-paginating backends refuse a non-empty page before touching their store and the handler's retry/refusal protocol is exact; max-keys clamped, all three marker sources wired.",
  note="trusted: go/ssa. Not decided: completeness and strict ascent across pages as value statements, termination. Genuine defect found and repaired: F25 (common prefix repeated across pages).",
  tech="SSA reaches-avoiding (must-pass-through), guard dominance, constant/global identity (codec agreement), provenance slices", ref="DESIGN.md §4 C04"),
 "C08": dict(
  text="Static ordering/wiring analysis of upload rejection on all paths: no rejection can be returned by a handler after the storing call; every PutObject must consume and validate the whole input before its first mutation (memory, bolt: holds; fs backends truncate the destination first — known findings F14) and must enforce the declared size (fs backends do not — known findings F15); Content-MD5 is decoded, wired into the hashing reader that is the stream storage reads, compared at EOF with nothing in between, mismatch → BadDigest, malformed/empty → InvalidDigest; metadata size, key length and Content-Length are checked before storage; a rejected part leaves its slot untouched.",
  note="trusted: go/ssa, ReadAll's contract checked structurally. Known findings F14-*/F15-* in known_findings.json. Not decided: 'unchanged' as value equality, failure at byte k of a real connection, MD5 arithmetic.",
  tech="SSA reachability (never-after), checked-call dominance, provenance slices, guard-fact bounds", ref="DESIGN.md §4 C08"),
 "C12": dict(
  text="Static analysis of the aws-chunked decoder's accounting and wiring on all paths: every update of chunkRemain, of the returned count and of the remaining size moves by exactly result 0 of the inner Read of that step; chunkRemain is otherwise only the checked parsed chunk header; the slice handed to the transport is p[n:n+min(requested, left in chunk)]; every transport/framing error is returned at once; the decoder is selected by the streaming constant on the canonical header key, wraps r.Body, feeds the hashing reader, and the parsed non-negative decoded length is the size storage receives; backends enforce that size (fs: known findings F15); allocation from a hostile declared length is bounded. The chunk grammar itself is not decided.",
  note="trusted: go/ssa; reviewed loop invariant for the two slice expressions (premise re-checked). Not decided: hex/CRLF/signature grammar, data-with-EOF readers, final chunk handling, payload byte equality.",
  tech="SSA def-use pattern rules on loop phis and stores (accounting by delivered count), checked-call dominance, provenance slices", ref="DESIGN.md §4 C12"),
 "C15": dict(
  text="Static durability-discipline analysis of the persistent backends on all paths: every bolt mutation inside exactly one Update closure per operation whose commit error is returned, no no-sync option; persisted-schema agreement (every field read after decoding is written at every encoding site; fields exported/encodable); Metadata.Hash only ever computed from the object's bytes (violated by loadMeta's re-hash of the metadata filesystem — known finding F17); an object replaced only after the new content is complete (fs backends — known findings F14); no persist error dropped; command-line path flags reach the matching constructor; operations acknowledged only after close + saveMeta / commit.",
  note="trusted: bbolt's commit = fsync, afero, go/ssa. Known findings F14-*, F17. Not decided: what survives kill -9 on a real filesystem, BSON/JSON value round trips, mod-time tolerance, legacy databases.",
  tech="who-may-call / closure-context check (transaction discipline), schema writer⊇reader table, provenance slices with filesystem classes, checked-call dominance", ref="DESIGN.md §4 C15"),
 "C16": dict(
  text="Static analysis of the structure every path-style/virtual-host equivalence rests on (NOT the equality of the two responses, which relates runtime strings): Server() installs each host middleware under a test of its own option; the host middlewares change nothing of the request but URL.Path, build the new path from the Host-derived label and the unmodified incoming path only, forward exactly once, and the base middleware forwards the untouched request unless a suffix test against a configured base and a single-label test both succeed; outside Server(), the middlewares and the Location element of CompleteMultipartUpload no code reads the addressing options, Request.Host or the host-addressed mark, and nothing below routeBase re-reads the request path — every handler is addressing-mode independent and the (bucket, key) decision is taken once, from URL.Path stripped of slashes on both sides and split once; the request is marked host-addressed exactly where it is rewritten and the Location form follows that mark. Holds for all paths and call sites.",
  note="trusted: go/ssa, may-flow provenance slices, net/http delivering Host and URL.Path as received. Not decided: equality of complete responses, string contents (ports, nested bases, empty labels, keys starting with '/'), CORS/time-skew interplay. Genuine defect found and repaired: F24 (Location form chosen from an option Server() overrides).",
  tech="who-may-read/write (effect) analysis over the type-resolved program + provenance slices of the rewritten path + guard dominance in the host matcher + must-precede (mark agrees with rewrite) on SSA", ref="DESIGN.md §4 C16"),
 "C17": dict(
  text="Static decision of the bucket-name rule: create-bucket validates the very name it creates, obeys the validator, every rejection is InvalidBucketName (400); the validator's length guard accepts exactly 3..63 (guard structure evaluated for every length 0..100), with whole-name pattern, IP reject and a per-label test that cannot skip a label; the fs backend lists only validating directory entries; and LANGUAGE EQUALITY: the automaton of (length set ∧ pattern on the name ∧ pattern on every label, with regexp.MatchString's unanchored semantics) built from the regular-expression constant equals the automaton of the property's rules, by product construction over a representative alphabet for all lengths ≤ 65 (≈3k product states).",
  note="trusted: regexp/syntax's compiled program as the meaning of the pattern, the representative alphabet {a,m,z,0,5,9,-,.,A,_,/}; net.ParseIP is an uninterpreted atom on both sides. Not decided: ParseIP semantics, per-backend re-validation.",
  tech="guard evaluation over a finite integer domain + regular-language equivalence by automata product (abstract interpretation of a constant), dominance", ref="DESIGN.md §4 C17"),
}

NOT_APPLICABLE = {
}

NOT_BUILT = "not claimed yet: the rules planned for it in DESIGN.md §4 are not built; no check is registered (build in progress)"


# clauses added after seed rounds 2c/3 (DESIGN.md §4 "Rules added by seed round 3")
ADDED = {
 "C01": " Also: ReadAll returns memory it allocated (no type-asserted reader buffer); the fs metadata record name hashes the unmodified key; the front end and the fs/bolt backends keep no serving-time in-memory copy of stored state. Error discipline in path form (no call's error reaches a return untested, none is swallowed after being found non-nil); the copy handler copies the pair it examined.",
 "C02": " Also: no serving-time cache of directories, buckets or answers in the front end and the fs/bolt backends; a bolt cursor deletes only the record whose key was compared equal with the key sought; the fs delete path never hands a directory to Remove. The fs delete path prunes from the path it removed, deletes metadata after the file and climbs on after each successful Remove; the copy handler's source/destination wiring; an empty body is accepted; error discipline in path form.",
 "C03": " Also: a strings/bytes Index result separates found from not found at -1 (no `> 0`); bolt cursor moves are examined by the loop; the s3mem listing iterator is positioned only at the marker. The listing request's delimiter and prefix derive from their own query parameters only.",
 "C04": " Also: every Seek of the s3mem listing iterator goes to page.Marker itself; start-after never overrides a continuation token. The marker's matched part is remembered only when it lies inside a common prefix; the iterator wrapper reports a failed Seek to the next Next; continuation markers are serialised under the protocol's element names.",
 "C05": " Also: no backend call of a handler is guarded by the bucket's versioning configuration (version ids stay addressable while suspended). promote stores the newest archived entry as current and removes it before reporting success, a key is dropped only when nothing was left; version-addressed calls in the memory backend are not gated by the versioning status.",
 "C06": " Also: no error return of CompleteMultipartUpload is reachable after a store into the upload's parts; xmlDecodeBody decodes the whole request body. (shared) merging metadata never overrides a value the request sent.",
 "C07": " Also: no serving-time mutable map / sync.Map in the stateless layers; releases through unlock function values are modelled.",
 "C08": " Also (shared): nothing is wrapped between the body / chunk decoder and the hashing reader; a refused complete has not modified the pending upload. Error discipline in path form; every sign test of a parsed length is `< 0`.",
 "C09": " Also (shared): every mutex acquire is released on every path (L1) and the lock-order graph is acyclic (L3) — a kept lock or a cycle is a hang. A pointer local that is nil on a feasible edge is dereferenced only under a non-nil guard; a skiplist lookup's result is asserted only where the lookup reported found; a nilable lookup result that the function nil-tests somewhere is dereferenced only under such a test (R09.1r).",
 "C10": " Also: every file the fs backends create under a name of their own choosing is created exclusively (found and repaired F31); the keys of a multi-object delete reach the backend untransformed; the host middlewares only prepend the bucket to the path. baseFs is read only in construction; an own-named file is removed only after its exclusive create succeeded; an upload id is honoured only for its own bucket and key; the fs delete path works on the addressed path.",
 "C11": " Also: in the fs backends the file positioned at the range start is handed to nothing but the length-limiting wrapper. With a range present the fs backends' length-limiting wrapper depends on no further condition on the range.",
 "C12": " Also (shared): ReadAll drives the decoder to the end of the stream for every declared size, including 0.",
 "C13": " Also (shared): every stored version carries a fresh non-empty id from the generator (the id is the page marker). Continuation markers are serialised under the protocol's element names.",
 "C14": " Also: entries are removed from uploader.buckets only if a missing entry lists as empty. ListParts appends only below the max-parts bound, counts every listed part and resumes from the part listed last; the part-number-marker clamp does not cut below the largest part number; element names of the markers.",
 "C15": " Also: constructors reach no destructive storage call; the ETag header derives from obj.Hash alone; no serving-time cache in front of the stores; a metadata path flag that was given is always used. Error discipline in path form; a delete removes the object file before its metadata record; scratch files are removed only after they were claimed.",
 "C16": " Also: each addressing option writes only its own field; Server() installs the base middleware on the base list alone; the Host header enters the suffix comparison untransformed.",
 "C17": " Also: the router compares the bucket name only with the empty string and hands the untransformed path segment to the validator. baseFs (the backend's own directories) is never consulted for bucket names.",
}

# clauses added by seed round 5 / the second look at the mutation sweep (DESIGN.md §4)
ADDED5 = {
 "C01": " (shared) The key the router and the host middlewares hand on is the untransformed path segment / Host label (no cleaning, joining or case folding).",
 "C02": " (shared) The fs metadata record name hashes the unmodified key; stored metadata maps are never written through a handed-out Object; a bucket's metadata records are discarded only by bucket deletion, after the directory; Fs.RemoveAll is never given a bucket name (F32); a bolt transaction body acknowledges only after its own mutation was issued.",
 "C03": " (shared) The host middlewares apply no cleaning / joining to the incoming path.",
 "C04": " (shared) AddPrefix appends a common prefix only when it is not in the set of prefixes already added, and records it.",
 "C09": " Nothing reachable from the body of a bolt transaction opens another transaction.",
 "C10": " (shared) A bolt cursor deletes only the record whose key compared equal with the key sought (no deletion by key prefix). Fs.RemoveAll (string-prefix semantics in the pinned MemMapFs) is given only the root or an entry of the bucket being removed (found and repaired F32).",
 "C11": " Object.Size has the provenance of the size the range was validated against.",
 "C12": " (shared) Error discipline in path form on the body-decoding path (no decoder / drain error is dropped).",
 "C13": " The version iterator's Seek answers true exactly where the archive lookup or the current version's id matched (assumption reachability). With a key-marker / version-id-marker the iterators are positioned by Seek before they are advanced (flag-tracking reachability), the version-id-marker applies to the first key only, and the look-ahead for remaining versions and keys both reach IsTruncated, never as constant false.",
 "C14": " ListMultipartUploads: with a marker the loop is entered only through Seek(marker.Object); a mid-key stop names uploads[idx+1] as next upload id; IsTruncated is true on every path from a marker store; markers are stored once; nothing is listed on the failed side of a prefix match.",
 "C15": " A bucket's metadata records are discarded only by DeleteBucket / ForceDeleteBucket, after the bucket directory on every path.",
 "C16": " The key does not depend on the request method and nothing is appended to it; no case folding of the Host header.",
 "C17": " (shared) In virtual-host addressing the name the validator sees is the Host label as sent (no case folding).",
}

# clauses added by seed round 6 (DESIGN.md §4)
ADDED6 = {
 "C01": " (shared) A reference read under a lock is not used after the lock was released and taken again (L9).",
 "C02": " No ListBuckets implementation returns successfully from inside its loop; every operation has a way to succeed (R09.9). No field of the front end, the fs/bolt backends or the metadata store is assigned while serving (a remembered last-read object is a cache).",
 "C04": " (shared) The walked fs listing is sorted by key after the walk.",
 "C06": " (shared) The object file is opened truncating.",
 "C07": " A reference read under a lock is not used after that lock was released and acquired again in the same function (L9).",
 "C08": " A failed body read never reaches the first mutation, whatever the error value (assumption reachability). Nothing is added to the metadata map after its size was measured.",
 "C09": " Lower bounds of `v + k` are used only where v is bounded above (no wrap-around).",
 "C10": " The containment sanitiser cleans the rooted key; the metadata store does not live below the buckets directory; bucket- and object-named parameters are not handed over in each other's place.",
 "C12": " (shared) Error discipline also over the four PutObject implementations that consume the decoded stream.",
 "C13": " Where the marker is the current version the version iterator is marked exhausted before Seek answers; the handler resets the parsed page only for an explicit empty key-marker.",
 "C15": " (shared) The fs metadata record name hashes the unmodified key. loadMeta decodes only a non-empty record (a killed write leaves an empty one). No field of a stateless layer is assigned while serving.",
 "C16": " Each addressing option stores its argument unconditionally (total options).",
 "C17": " (shared) Key containment (rooted Clean fixpoint) and the metadata store outside the buckets directory: no bucket comes into being except through create-bucket.",
}

def main():
    ids = [json.loads(l)["id"] for l in open(os.path.join(VERIF, "properties.jsonl"))]
    checks = []
    for pid in ids:
        c = CLAIMS.get(pid)
        if not c:
            continue
        checks.append({
            "property_id": pid,
            "quick_cmd": "./check %s quick" % pid,
            "thorough_cmd": "./check %s thorough" % pid,
            "evidence_file": "evidence/%s.json" % pid,
            "replay_cmd_template": "./check %s --replay {path}" % pid,
            "engine": "gfs3check",
            "level_claimed": {"category": "other", "text": c["text"] + ADDED.get(pid, "") + ADDED5.get(pid, "") + ADDED6.get(pid, ""), "design_ref": c["ref"]},
            "level_note": c["note"],
            "technique": TECH + c["tech"],
        })
    na = []
    for pid in ids:
        if pid in CLAIMS:
            continue
        na.append({"property_id": pid, "reason": NOT_APPLICABLE.get(pid, NOT_BUILT)})
    m = {
        "version": 1,
        "setup_cmd": "cd /verif/checker && GOFLAGS=-mod=mod GOPROXY=off GOSUMDB=off GOTOOLCHAIN=local GOWORK=off go build -o /verif/bin/gfs3check ./cmd/gfs3check",
        "hooks": {
            "guard": "verif",
            "enable": "none needed: the analysis reads the unmodified source of /repo (go/packages + go/ssa); no hook or instrumentation commit exists",
            "baseline_off_cmd": "cd /repo && GOFLAGS=-mod=mod GOPROXY=off GOSUMDB=off go test -vet=off -count=1 ./...",
            "source_commits": [],
            "add_only": True,
        },
        "engines": [{
            "name": "gfs3check", "path": "checker/", "serves_properties": sorted(CLAIMS),
            "kind_free_text": "repository-specific static analyser on go/packages + go/ssa + VTA call graph: dominance/guard queries (E1), interprocedural provenance slices (E2), static lockset (E3), panic-obligation discharge (E4), contract/sibling tables (E5/E7), small abstract domains (E6)",
        }],
        "checks": checks,
        "not_applicable": na,
        "notes": "All checks are static: they load /repo's current working tree with go/packages, build SSA and decide rule instances; no gofakes3 code is executed. Exit 0 held / 1 VIOLATION (also when a rule's anchor is gone or a floor is not met: an UNRESOLVED line for diagnosis, then a VIOLATION line with a replay file) / 2 the checker could not run at all (load or type-check failure of the tree). Known findings: /verif/known_findings.json. Checker self-test with seeded mutants: python3 tools/selftest.py.",
    }
    json.dump(m, open(os.path.join(VERIF, "MANIFEST.json"), "w"), indent=1)
    print("MANIFEST.json: %d checks, %d not applicable" % (len(checks), len(na)))

if __name__ == "__main__":
    main()
