#!/usr/bin/env python3
"""Checker self-test: applies each seeded source mutation of testdata/mutants.py to a
scratch copy of /repo's working tree (under /tmp, removed afterwards), confirms the
mutant still compiles, runs the listed property checks against the copy and
expects exit 1 with the expected rule id in a report line. Nothing here executes
gofakes3 code; it only exercises the static checker.

usage: selftest.py [-k substring] [-j N] [--props C02,C07]
exit 0 iff every applicable mutant is caught by every listed property."""
import os, sys, subprocess, tempfile, shutil, json, argparse, concurrent.futures, importlib.util

VERIF = os.path.dirname(os.path.dirname(os.path.abspath(__file__)))
REPO = os.environ.get("VERIF_REPO", "/repo")
ENV = dict(os.environ, GOFLAGS="-mod=mod", GOPROXY="off", GOSUMDB="off", GOTOOLCHAIN="local", GOWORK="off")

def load_mutants():
    spec = importlib.util.spec_from_file_location("mutants", os.path.join(VERIF, "testdata", "mutants.py"))
    m = importlib.util.module_from_spec(spec); spec.loader.exec_module(m)
    mus = list(m.MUTANTS)
    # seeded changes written by independent sub-agents (see seeded/<id>/meta.json)
    sd = os.path.join(VERIF, "seeded")
    if os.path.isdir(sd):
        for d in sorted(os.listdir(sd)):
            mp = os.path.join(sd, d, "meta.json")
            if not os.path.exists(mp):
                continue
            meta = json.load(open(mp))
            mus.append({"name": "seed-" + d, "props": meta.get("detected_by") or meta["properties"], "rules": {},
                        "patchfile": os.path.join(sd, d, "patch.diff"), "edits": [], "expect": None,
                        "expected_miss": meta.get("expected_miss", False)})
    return mus

def run_one(mu, props_filter):
    name = mu["name"]
    props = [p for p in mu["props"] if not props_filter or p in props_filter]
    if not props:
        return (name, "skipped", "filtered")
    d = tempfile.mkdtemp(prefix="gfs3-mut-")
    try:
        repo = os.path.join(d, "repo"); verif = os.path.join(d, "verif")
        subprocess.run(["rsync", "-a", "--exclude", ".git", REPO + "/", repo + "/"], check=True)
        os.makedirs(verif)
        shutil.copy(os.path.join(VERIF, "known_findings.json"), verif)
        if mu.get("revert"):
            pr = subprocess.run(["git", "apply", "-R", "--unsafe-paths", "--directory=" + repo, os.path.join(VERIF, mu["revert"])],
                                cwd="/", capture_output=True, text=True)
            if pr.returncode != 0:
                pr = subprocess.run(["patch", "-R", "-p1", "-s", "-i", os.path.join(VERIF, mu["revert"])], cwd=repo, capture_output=True, text=True)
                if pr.returncode != 0:
                    return (name, "skipped", "fix patch does not reverse-apply: " + (pr.stderr + pr.stdout)[-200:])
        if mu.get("patchfile"):
            pr = subprocess.run(["patch", "-p1", "-s", "-i", mu["patchfile"]], cwd=repo, capture_output=True, text=True)
            if pr.returncode != 0:
                return (name, "skipped", "seed patch does not apply: " + (pr.stderr + pr.stdout)[-200:])
        for ed in mu.get("edits", []):
            path = os.path.join(repo, ed["file"])
            src = open(path).read()
            if src.count(ed["old"]) != 1:
                return (name, "skipped", "anchor text not found exactly once in %s (%d)" % (ed["file"], src.count(ed["old"])))
            open(path, "w").write(src.replace(ed["old"], ed["new"]))
        b = subprocess.run(["go", "build", "./..."], cwd=repo, env=ENV, capture_output=True, text=True)
        if b.returncode != 0:
            return (name, "broken", "mutant does not compile: " + b.stderr[-400:])
        results = []
        ok = True
        for p in props:
            c = subprocess.run([os.path.join(VERIF, "bin", "gfs3check"), "-prop", p, "-repo", repo, "-verif", verif],
                               env=ENV, capture_output=True, text=True)
            out = c.stdout
            hit = c.returncode == 1 and ("VIOLATION property=%s" % p) in out
            rule_ok = all(any(r in line for line in out.splitlines() if "VIOLATION" not in line) for r in mu.get("rules", {}).get(p, []))
            exp = mu.get("expect")
            exp_ok = (exp is None) or any(exp in line for line in out.splitlines())
            if not (hit and rule_ok and exp_ok):
                ok = False
            import re as _re
            fired = sorted(set(_re.findall(r"^\S+ ((?:R\d+\.\d+\w?|L\d)) \[", out, _re.M)))
            mu.setdefault("_fired", {})[p] = fired
            results.append("%s: exit=%d hit=%s rule_ok=%s expect_ok=%s fired=%s" % (p, c.returncode, hit, rule_ok, exp_ok, ",".join(fired)))
            if not hit or not rule_ok:
                results.append("    " + "\n    ".join(out.splitlines()[-6:]))
        if not ok and mu.get("expected_miss"):
            return (name, "miss-ok", "documented limit: " + "; ".join(results)[:200])
        return (name, "caught" if ok else "MISSED", "; ".join(results), mu.get("_fired", {}))
    finally:
        shutil.rmtree(d, ignore_errors=True)

def main():
    ap = argparse.ArgumentParser()
    ap.add_argument("-k", default="")
    ap.add_argument("-j", type=int, default=8)
    ap.add_argument("--props", default="")
    ap.add_argument("--json", default="")
    ap.add_argument("--only-props", action="store_true", help="run only mutants that list one of --props (skip the others silently)")
    a = ap.parse_args()
    pf = set(x for x in a.props.split(",") if x)
    mus = [m for m in load_mutants() if a.k in m["name"]]
    if a.only_props and pf:
        mus = [m for m in mus if pf & set(m["props"])]
    res = []
    with concurrent.futures.ThreadPoolExecutor(max_workers=a.j) as ex:
        for r in ex.map(lambda m: run_one(m, pf), mus):
            res.append(r)
            fired = r[3] if len(r) > 3 else {}
            print("%-8s %-50s %s" % (r[1], r[0], r[2] if r[1] != "caught" else " ".join("%s:%s" % (k, "+".join(v)) for k, v in fired.items())))
    n = {k: sum(1 for r in res if r[1] == k) for k in ("caught", "MISSED", "miss-ok", "skipped", "broken")}
    print("selftest:", n)
    if a.json:
        json.dump({"summary": n, "results": res}, open(a.json, "w"), indent=1)
    sys.exit(0 if n["MISSED"] == 0 and n["broken"] == 0 else 1)

if __name__ == "__main__":
    main()
