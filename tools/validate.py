#!/usr/bin/env python3
# validates MANIFEST.json and evidence/*.json against the harness schemas (run with python3-vt)
import json,sys,glob,jsonschema
m=json.load(open('/verif/MANIFEST.json'));jsonschema.validate(m,json.load(open('/root/.vp/MANIFEST.schema.json')))
es=json.load(open('/root/.vp/EVIDENCE.schema.json'))
for f in sorted(glob.glob('/verif/evidence/*.json')):
    jsonschema.validate(json.load(open(f)),es)
ids=[json.loads(l)['id'] for l in open('/verif/properties.jsonl')]
claimed=[c['property_id'] for c in m['checks']]; na=[c['property_id'] for c in m.get('not_applicable',[])]
missing=[i for i in ids if i not in claimed and i not in na]
print('ok; claimed',claimed,'n/a',na,'unlisted',missing)
