#!/bin/bash
# usage: verify_seed.sh <seed-dir containing patch.diff + demo test(s)> [-race]
# Confirms in a scratch worktree of /repo (removed afterwards): the patch applies to HEAD,
# the tree builds, the unedited suite passes, the demo FAILS with the patch and PASSES without.
set -u
SEED="$(cd "$1" && pwd)"; RACE="${2:-}"
export GOFLAGS=-mod=mod GOPROXY=off GOSUMDB=off GOTOOLCHAIN=local GOWORK=off
WT=$(mktemp -d /tmp/seedchk-XXXX); rmdir "$WT"
git -C /repo worktree add --detach "$WT" HEAD >/dev/null 2>&1 || { echo "worktree failed"; exit 2; }
cleanup(){ git -C /repo worktree remove --force "$WT" >/dev/null 2>&1; rm -f /tmp/gofakes3-*.log; }
trap cleanup EXIT
cd "$WT"
git apply --check "$SEED/patch.diff" || { echo "RESULT patch does not apply"; exit 1; }
git apply "$SEED/patch.diff"
go build ./... || { echo "RESULT does not compile"; exit 1; }
if go test -vet=off -count=1 ./... >/tmp/seedchk.log 2>&1; then echo "suite: PASS with patch"; else echo "RESULT suite FAILS with patch"; tail -20 /tmp/seedchk.log; exit 1; fi
# place demos
for t in "$SEED"/*_test.go; do
  dest=$(head -3 "$t" | grep -o 'intended path: [^ ]*' | head -1 | cut -d' ' -f3)
  [ -z "$dest" ] && dest=$(basename "$t")
  mkdir -p "$(dirname "$dest")"; cp "$t" "$dest"; echo "demo -> $dest"
  pkg="./$(dirname "$dest")"
  if go test -vet=off -count=1 $RACE -timeout 120s -run 'ZZ|Demo|zz|TestC[0-9][0-9][a-z]|TestS[0-9]' "$pkg" >/tmp/seedchk.with.log 2>&1; then echo "RESULT demo PASSES with patch (expected fail)"; tail -5 /tmp/seedchk.with.log; exit 1; else echo "demo: FAIL with patch (expected)"; fi
  git apply -R "$SEED/patch.diff"
  if go test -vet=off -count=1 $RACE -timeout 120s -run 'ZZ|Demo|zz|TestC[0-9][0-9][a-z]|TestS[0-9]' "$pkg" >/tmp/seedchk.without.log 2>&1; then echo "demo: PASS without patch (expected)"; else echo "RESULT demo FAILS without patch"; tail -15 /tmp/seedchk.without.log; exit 1; fi
  git apply "$SEED/patch.diff"
done
echo "RESULT confirmed"
