#!/usr/bin/env python3
"""catchtable.py [selftest.json] — regenerates the table in DESIGN.md §6 (between
the CATCHTABLE markers) from the self-test output: which rule reported which
seeded change / mutant. Run tools/selftest.py --json out/selftest-all.json first."""
import json, os, re, sys, glob
VERIF = os.path.dirname(os.path.dirname(os.path.abspath(__file__)))
src = sys.argv[1] if len(sys.argv) > 1 else os.path.join(VERIF, "out/selftest-all.json")
d = json.load(open(src))
seeds = {}
for m in glob.glob(os.path.join(VERIF, "seeded/*/meta.json")):
    j = json.load(open(m)); seeds["seed-" + j["id"]] = j
rows_seed, rows_rev, by_prop = [], [], {}
for row in d["results"]:
    name, status, detail = row[0], row[1], row[2]
    expected = row[3] if len(row) > 3 else {}
    fired = sorted(set(re.findall(r"fired=([A-Za-z0-9.+;]*)", detail)))
    fired = "+".join(sorted(set(x for f in fired for x in re.split(r"[+;]", f) if x)))
    props = ",".join(sorted(expected.keys())) if isinstance(expected, dict) else ""
    if name in seeds:
        j = seeds[name]
        rows_seed.append((j["id"], ",".join(j["properties"]), j["breaks"].replace("|", "/"), fired or "(see check output)", status))
    elif "revert" in name:
        rows_rev.append((name, props, fired, status))
    else:
        for p in (expected or {"?": []}):
            by_prop.setdefault(p, []).append((name, fired, status))
out = []
out.append("**Sub-agent seeds** (%d; every one verified here before being kept):\n" % len(rows_seed))
out.append("| seed | property | what the change breaks | reported by | status |")
out.append("|---|---|---|---|---|")
for r in sorted(rows_seed):
    out.append("| %s | %s | %s | %s | %s |" % r)
out.append("\n**Reverse patches of the repairs** (%d):\n" % len(rows_rev))
out.append("| mutant | property | reported by | status |")
out.append("|---|---|---|---|")
for r in sorted(rows_rev):
    out.append("| %s | %s | %s | %s |" % r)
n = sum(len(v) for v in by_prop.values())
out.append("\n**Hand-written mutants** (%d; name → rule that reported it):\n" % n)
for p in sorted(by_prop):
    items = ["`%s` → %s%s" % (nm, fr or "?", "" if st == "caught" else " (**%s**)" % st) for nm, fr, st in sorted(by_prop[p])]
    out.append("* **%s** (%d): %s" % (p, len(items), "; ".join(items)))
s = d["summary"]
out.append("\nSelf-test total at the time of writing: %s." % ", ".join("%s %d" % (k, v) for k, v in s.items()))
block = "\n".join(out)
p = os.path.join(VERIF, "DESIGN.md")
t = open(p).read()
a, b = "<!-- CATCHTABLE-BEGIN -->", "<!-- CATCHTABLE-END -->"
t = t[:t.index(a) + len(a)] + "\n" + block + "\n" + t[t.index(b):]
open(p, "w").write(t)
print("catch table: %d seeds, %d reverts, %d mutants" % (len(rows_seed), len(rows_rev), n))
