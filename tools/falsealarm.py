#!/usr/bin/env python3
"""falsealarm.py <dir-with-*.diff> : applies each behaviour-preserving refactoring to a scratch copy of /repo
and runs every registered check; any exit != 0 is a false alarm (exit 1) or an unresolved anchor (exit 2)."""
import os, sys, subprocess, tempfile, shutil, glob, json, concurrent.futures
VERIF = os.path.dirname(os.path.dirname(os.path.abspath(__file__)))
REPO = "/repo"
ENV = dict(os.environ, GOFLAGS="-mod=mod", GOPROXY="off", GOSUMDB="off", GOTOOLCHAIN="local", GOWORK="off")
PROPS = [c["property_id"] for c in json.load(open(os.path.join(VERIF, "MANIFEST.json")))["checks"]]
if os.environ.get("FA_PROPS"):
    PROPS = os.environ["FA_PROPS"].split(",")

def run(diff):
    d = tempfile.mkdtemp(prefix="gfs3-rf-")
    try:
        repo = os.path.join(d, "repo"); verif = os.path.join(d, "verif")
        subprocess.run(["rsync", "-a", "--exclude", ".git", REPO + "/", repo + "/"], check=True)
        os.makedirs(verif); shutil.copy(os.path.join(VERIF, "known_findings.json"), verif)
        pr = subprocess.run(["patch", "-p1", "-s", "-i", diff], cwd=repo, capture_output=True, text=True)
        if pr.returncode != 0:
            return (diff, "skipped", ["patch does not apply: " + (pr.stdout + pr.stderr)[-200:]])
        b = subprocess.run(["go", "build", "./..."], cwd=repo, env=ENV, capture_output=True, text=True)
        if b.returncode != 0:
            return (diff, "broken", [b.stderr[-300:]])
        bad = []
        for p in PROPS:
            c = subprocess.run([os.path.join(VERIF, "bin", "gfs3check"), "-prop", p, "-repo", repo, "-verif", verif], env=ENV, capture_output=True, text=True)
            if c.returncode != 0:
                lines = [l for l in c.stdout.splitlines() if not l.startswith("KNOWN-FINDING") and not l.startswith("VIOLATION")]
                bad.append("%s exit=%d: %s" % (p, c.returncode, " || ".join(lines[:4])[:600]))
        return (diff, "ALARM" if bad else "silent", bad)
    finally:
        shutil.rmtree(d, ignore_errors=True)

diffs = sorted(glob.glob(os.path.join(os.path.abspath(sys.argv[1]), "*.diff")))
with concurrent.futures.ThreadPoolExecutor(max_workers=int(os.environ.get("FA_JOBS", "4"))) as ex:
    res = list(ex.map(run, diffs))
n = 0
for d, st, bad in res:
    print("%-8s %s" % (st, os.path.basename(d)))
    for b in bad:
        print("    " + b)
    n += st == "ALARM"
print("false alarms:", n, "of", len(res))
