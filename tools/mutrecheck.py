#!/usr/bin/env python3
"""mutrecheck.py <muts.jsonl> <sweep.jsonl> <out.jsonl> [workers] — re-runs the checks (current bin/gfs3check -all) on the
survivors of a sweep that no check reported, without rebuilding / re-testing them. Development aid."""
import json, os, sys, subprocess, shutil, tempfile, threading, queue, re
VERIF = os.path.dirname(os.path.dirname(os.path.abspath(__file__)))
ENV = dict(os.environ, GOFLAGS="-mod=mod", GOPROXY="off", GOSUMDB="off", GOTOOLCHAIN="local", GOWORK="off")
muts = {json.loads(l)["id"]: json.loads(l) for l in open(sys.argv[1])}
todo = []
for l in open(sys.argv[2]):
    r = json.loads(l)
    if r.get("status", "survived") == "survived" and not r.get("caught"):
        todo.append(muts[r["id"]])
out_path = sys.argv[3]; W = int(sys.argv[4]) if len(sys.argv) > 4 else 14
q = queue.Queue()
for m in todo: q.put(m)
lock = threading.Lock(); outf = open(out_path, "w")
FIRED = re.compile(r"^\S+:\d+ ((?:R\d\d\.\d+[a-z]*)|L\d) \[")
def worker(i):
    d = tempfile.mkdtemp(prefix="mutr%d-" % i)
    repo = os.path.join(d, "repo"); verif = os.path.join(d, "verif")
    subprocess.run(["rsync", "-a", "--exclude", ".git", "/repo/", repo + "/"], check=True)
    os.makedirs(verif); shutil.copy(os.path.join(VERIF, "known_findings.json"), verif)
    try:
        while True:
            try: m = q.get_nowait()
            except queue.Empty: return
            path = os.path.join(repo, m["file"]); src = open(path, "rb").read()
            res = dict(id=m["id"], file=m["file"], line=m["line"], kind=m["kind"], func=m["func"], orig=m["orig"][:120], repl=m["repl"])
            try:
                open(path, "wb").write(src[:m["start"]] + m["repl"].encode() + src[m["end"]:])
                c = subprocess.run([os.path.join(VERIF, "bin", "gfs3check"), "-all", "-repo", repo, "-verif", verif], env=ENV, capture_output=True, text=True, timeout=600)
                props = {}
                for l in c.stdout.splitlines():
                    if l.startswith("ALLRESULT"):
                        _, pid, ex = l.split(); props[pid] = int(ex.split("=")[1])
                res["props"] = {k: v for k, v in props.items() if v != 0}
                res["fired"] = sorted({mm.group(1) for l in c.stdout.splitlines() for mm in [FIRED.match(l)] if mm})
                res["caught"] = any(v == 1 for v in props.values())
                res["unresolved"] = any(v == 2 for v in props.values())
            except Exception as e:
                res["err"] = str(e)[:200]
            finally:
                open(path, "wb").write(src)
            with lock:
                outf.write(json.dumps(res) + "\n"); outf.flush()
    finally:
        shutil.rmtree(d, ignore_errors=True)
ts = [threading.Thread(target=worker, args=(i,)) for i in range(W)]
for t in ts: t.start()
for t in ts: t.join()
print("rechecked", len(todo))
