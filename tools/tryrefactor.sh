#!/bin/bash
# usage: tryrefactor.sh <diff> <PROP> [more props] — applies a diff to a scratch copy of /repo, runs the checks on it
# with a scratch verif dir, prints what the helper inlining did. /repo is not touched.
d="$(readlink -f "$1")"; shift
T=$(mktemp -d /tmp/tryrf-XXXX)
trap 'rm -rf "$T"' EXIT
rsync -a --exclude .git /repo/ "$T/repo/"
mkdir -p "$T/verif"; cp /verif/known_findings.json "$T/verif/"; mkdir -p "$T/verif/evidence" "$T/verif/out"
(cd "$T/repo" && patch -s -p1 < "$d") || exit 1
export GOFLAGS=-mod=mod GOPROXY=off GOSUMDB=off GOTOOLCHAIN=local GOWORK=off
for p in "$@"; do
  ${BIN:-/verif/bin/gfs3check} -prop $p -tier quick -repo "$T/repo" -verif "$T/verif" | grep -v '^KNOWN' | cut -c1-${TRY_WIDTH:-700}
  python3 - "$T/verif/evidence/$p.json" <<'PY'
import json,sys
try:
    e=json.load(open(sys.argv[1]))
except Exception as ex:
    print('  (no evidence)', ex); sys.exit(0)
h=e['coverage'].get('helper_inlining') or {}
for k in ('inlined','declined','removed_helpers','fallback'):
    v=h.get(k) or []
    print(' ',k,len(v))
    if k in ('declined','fallback'):
        for x in v[:20]: print('     ',x.replace('github.com/johannesboyne/gofakes3','~'))
PY
done
