#!/usr/bin/env python3
"""mutsweep.py <muts.jsonl> <out.jsonl> [workers]
Development aid (not a registered check): applies each single-edit mutant of bin/mutgen to a scratch copy of /repo,
keeps those that still compile and pass the unedited suite, and runs every check on them (gfs3check -all).
Survivors that no check reports are the candidates for new rules (or equivalent mutants)."""
import json, os, sys, subprocess, shutil, tempfile, threading, queue, re, time
VERIF = os.path.dirname(os.path.dirname(os.path.abspath(__file__)))
ENV = dict(os.environ, GOFLAGS="-mod=mod", GOPROXY="off", GOSUMDB="off", GOTOOLCHAIN="local", GOWORK="off")
muts = [json.loads(l) for l in open(sys.argv[1])]
out_path = sys.argv[2]
W = int(sys.argv[3]) if len(sys.argv) > 3 else 14
done = set()
if os.path.exists(out_path):
    for l in open(out_path):
        try: done.add(json.loads(l)["id"])
        except Exception: pass
q = queue.Queue()
for m in muts:
    if m["id"] not in done: q.put(m)
lock = threading.Lock()
outf = open(out_path, "a")
FIRED = re.compile(r"^\S+:\d+ ((?:R\d\d\.\d+[a-z]*)|L\d) \[")

def worker(i):
    d = tempfile.mkdtemp(prefix="mutw%d-" % i)
    repo = os.path.join(d, "repo"); verif = os.path.join(d, "verif")
    subprocess.run(["rsync", "-a", "--exclude", ".git", "/repo/", repo + "/"], check=True)
    os.makedirs(verif); shutil.copy(os.path.join(VERIF, "known_findings.json"), verif)
    try:
        while True:
            try: m = q.get_nowait()
            except queue.Empty: return
            path = os.path.join(repo, m["file"])
            src = open(path, "rb").read()
            res = dict(id=m["id"], file=m["file"], line=m["line"], kind=m["kind"], func=m["func"], orig=m["orig"][:120], repl=m["repl"])
            try:
                open(path, "wb").write(src[:m["start"]] + m["repl"].encode() + src[m["end"]:])
                b = subprocess.run(["go", "build", "./..."], cwd=repo, env=ENV, capture_output=True, text=True)
                if b.returncode != 0:
                    res["status"] = "nocompile"
                else:
                    try:
                        t = subprocess.run(["go", "test", "-vet=off", "-count=1", "-timeout", "20s", "./..."], cwd=repo, env=ENV, capture_output=True, text=True, timeout=90)
                        killed = t.returncode != 0
                    except subprocess.TimeoutExpired:
                        killed = True
                    if killed:
                        res["status"] = "killed"
                    else:
                        res["status"] = "survived"
                        c = subprocess.run([os.environ.get("GFS3CHECK", os.path.join(VERIF, "bin", "gfs3check")), "-all", "-repo", repo, "-verif", verif], env=ENV, capture_output=True, text=True, timeout=600)
                        props = {}
                        for l in c.stdout.splitlines():
                            if l.startswith("ALLRESULT"):
                                _, pid, ex = l.split()
                                props[pid] = int(ex.split("=")[1])
                        fired = sorted({mm.group(1) for l in c.stdout.splitlines() for mm in [FIRED.match(l)] if mm})
                        res["props"] = {k: v for k, v in props.items() if v != 0}
                        res["fired"] = fired
                        res["caught"] = any(v == 1 for v in props.values())
                        res["unresolved"] = any(v == 2 for v in props.values())
            except Exception as e:
                res["status"] = "error"; res["err"] = str(e)[:200]
            finally:
                open(path, "wb").write(src)
            with lock:
                outf.write(json.dumps(res) + "\n"); outf.flush()
    finally:
        shutil.rmtree(d, ignore_errors=True)

ts = [threading.Thread(target=worker, args=(i,)) for i in range(W)]
t0 = time.time()
for t in ts: t.start()
for t in ts: t.join()
print("done in %.0fs" % (time.time() - t0))
