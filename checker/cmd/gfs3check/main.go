// gfs3check decides structural necessary conditions of the gofakes3
// properties by static analysis of /repo's current working tree.
package main

import (
	"encoding/json"
	"flag"
	"fmt"
	"os"
	"runtime/debug"
	"sort"
	"time"

	"gfs3check/internal/core"
	"gfs3check/internal/rules"
)

func main() {
	prop := flag.String("prop", "", "property id (C01..C17)")
	tier := flag.String("tier", "quick", "quick|thorough")
	repo := flag.String("repo", "/repo", "repository working tree to analyse")
	verif := flag.String("verif", "/verif", "verification directory (known findings, evidence, out)")
	replay := flag.String("replay", "", "replay file: re-evaluate that obligation on the current tree")
	list := flag.Bool("list", false, "list properties with a registered check")
	selftest := flag.String("selftest", "", "thorough: JSON result of tools/selftest.py for this property, merged into the evidence")
	xref := flag.String("xref", "", "thorough: JSON with counts of the generic cross-reference tools (informational)")
	all := flag.Bool("all", false, "development aid: load the tree once and run every registered check, one summary line per property (used by tools/mutsweep.py)")
	inventory := flag.Bool("inventory", false, "print the function inventory of the tree (format of internal/inline/baseline.txt)")
	flag.Parse()
	if *inventory {
		names, err := core.Inventory(*repo)
		if err != nil {
			fmt.Println("UNRESOLVED", err)
			os.Exit(2)
		}
		fmt.Println("# functions of the tree the rules were written against (never inlined); regenerate with: gfs3check -inventory")
		for _, n := range names {
			fmt.Println(n)
		}
		return
	}

	if *list {
		var ids []string
		for id := range rules.Registry {
			ids = append(ids, id)
		}
		sort.Strings(ids)
		for _, id := range ids {
			fmt.Println(id)
		}
		return
	}
	if t := os.Getenv("VERIF_TIER"); t != "" && !flagSet("tier") {
		*tier = t
	}
	var want struct{ Property, Rule, Construct string }
	if *replay != "" {
		bts, err := os.ReadFile(*replay)
		if err != nil {
			fmt.Println("UNRESOLVED cannot read replay file:", err)
			os.Exit(2)
		}
		if err := json.Unmarshal(bts, &want); err != nil {
			fmt.Println("UNRESOLVED bad replay file:", err)
			os.Exit(2)
		}
		*prop = want.Property
	}
	if *all {
		t0 := time.Now()
		p, err := core.Load(*repo)
		if err != nil {
			fmt.Printf("ALL load-failed %v\n", err)
			os.Exit(2)
		}
		var ids []string
		for id := range rules.Registry {
			ids = append(ids, id)
		}
		sort.Strings(ids)
		worst := 0
		for _, id := range ids {
			code := func() (code int) {
				defer func() {
					if e := recover(); e != nil {
						fmt.Printf("ALLPANIC %s %v\n", id, e)
						code = 2
					}
				}()
				run, err := core.NewRun(id, "quick", *verif, p, t0)
				if err != nil {
					return 2
				}
				rules.Registry[id](run)
				return run.Finish()
			}()
			fmt.Printf("ALLRESULT %s exit=%d\n", id, code)
			if code > worst {
				worst = code
			}
		}
		os.Exit(worst)
	}
	f, ok := rules.Registry[*prop]
	if !ok {
		fmt.Printf("UNRESOLVED no check registered for property %q\n", *prop)
		os.Exit(2)
	}
	code := func() (code int) {
		defer func() {
			if e := recover(); e != nil {
				fmt.Printf("UNRESOLVED property=%s internal panic: %v\n%s\n", *prop, e, debug.Stack())
				code = 2
			}
		}()
		t0 := time.Now()
		p, err := core.Load(*repo)
		if err != nil {
			fmt.Printf("UNRESOLVED property=%s cannot load %s: %v\n", *prop, *repo, err)
			return 2
		}
		run, err := core.NewRun(*prop, *tier, *verif, p, t0)
		if err != nil {
			fmt.Printf("UNRESOLVED property=%s %v\n", *prop, err)
			return 2
		}
		f(run)
		if *tier == "thorough" && *replay == "" {
			platformMatrix(run, f, *prop, *repo, *verif)
			if *selftest != "" {
				mergeSelftest(run, *selftest)
			}
			if *xref != "" {
				mergeJSON(run, "cross_reference_tools", *xref)
			}
		}
		if *replay != "" {
			if want.Rule == "unresolved" {
				for _, u := range run.UnresolvedList() {
					if u == want.Construct {
						fmt.Printf("REPLAY %s unresolved: %s\n", *prop, u)
						fmt.Printf("VIOLATION property=%s replay=%s\n", *prop, *replay)
						return 1
					}
				}
				fmt.Printf("REPLAY %s: the anchor is resolved on this tree (%s)\n", *prop, want.Construct)
				return 0
			}
			for _, o := range run.Obls {
				if o.Rule == want.Rule && o.Key == want.Construct {
					fmt.Printf("REPLAY %s %s [%s] at %s: %s — %s\n", *prop, o.Rule, o.Key, o.Pos, o.Status, o.Detail)
					if o.Status == "violated" {
						fmt.Printf("VIOLATION property=%s replay=%s\n", *prop, *replay)
						return 1
					}
					return 0
				}
			}
			fmt.Printf("REPLAY %s %s [%s]: construct no longer present\n", *prop, want.Rule, want.Construct)
			return 0
		}
		return run.Finish()
	}()
	os.Exit(code)
}

func flagSet(name string) bool {
	set := false
	flag.Visit(func(f *flag.Flag) {
		if f.Name == name {
			set = true
		}
	})
	return set
}

// platformMatrix re-runs the rules on the tree loaded for other target
// platforms and requires the same verdicts: a violation found only there is
// added to the run; a construct violated on the host only is kept.
func platformMatrix(run *core.Run, f func(*core.Run), prop, repo, verif string) {
	var plats []map[string]interface{}
	host := run.ViolatedKeys()
	for _, env := range [][]string{{"GOARCH=386"}, {"GOOS=windows"}} {
		t0 := time.Now()
		p2, err := core.Load(repo, env...)
		if err != nil {
			run.Unresolved("platform %v: cannot load: %v", env, err)
			continue
		}
		r2, err := core.NewRun(prop, "thorough", verif, p2, t0)
		if err != nil {
			run.Unresolved("platform %v: %v", env, err)
			continue
		}
		f(r2)
		other := r2.ViolatedKeys()
		added := 0
		for k, o := range other {
			if _, ok := host[k]; !ok {
				o.Key = o.Key + "@" + env[0]
				o.Detail = "[" + env[0] + " only] " + o.Detail
				run.Obls = append(run.Obls, o)
				added++
			}
		}
		for _, m := range r2.CheckFloors() {
			run.Unresolved("platform %v: %s", env, m)
		}
		for _, m := range r2.UnresolvedList() {
			run.Unresolved("platform %v: %s", env, m)
		}
		n := 0
		for _, o := range r2.Obls {
			if o.Status != "info" {
				n++
			}
		}
		plats = append(plats, map[string]interface{}{"env": env, "obligations": n, "violations_only_there": added, "secs": time.Since(t0).Seconds()})
	}
	run.Extra["platform_matrix"] = plats
}

func mergeSelftest(run *core.Run, path string) {
	bts, err := os.ReadFile(path)
	if err != nil {
		run.Unresolved("self-test result %s not readable: %v", path, err)
		return
	}
	var st struct {
		Summary map[string]int  `json:"summary"`
		Results [][]interface{} `json:"results"`
	}
	if err := json.Unmarshal(bts, &st); err != nil {
		run.Unresolved("self-test result %s: %v", path, err)
		return
	}
	run.Extra["checker_selftest"] = st.Summary
	var missed []string
	for _, r := range st.Results {
		if len(r) >= 2 && (r[1] == "MISSED" || r[1] == "broken") {
			missed = append(missed, fmt.Sprint(r[0]))
		}
	}
	run.Extra["checker_selftest_missed"] = missed
	if len(missed) > 0 {
		run.Unresolved("checker self-test: %d seeded mutant(s)/seed(s) of this property are no longer detected: %v", len(missed), missed)
	}
}

func mergeJSON(run *core.Run, key, path string) {
	bts, err := os.ReadFile(path)
	if err != nil {
		return
	}
	var v interface{}
	if json.Unmarshal(bts, &v) == nil {
		run.Extra[key] = v
	}
}
