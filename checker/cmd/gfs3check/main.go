// gfs3check decides structural necessary conditions of the gofakes3
// properties by static analysis of /repo's current working tree.
package main

import (
	"encoding/json"
	"flag"
	"fmt"
	"os"
	"runtime/debug"
	"sort"
	"time"

	"gfs3check/internal/core"
	"gfs3check/internal/rules"
)

func main() {
	prop := flag.String("prop", "", "property id (C01..C17)")
	tier := flag.String("tier", "quick", "quick|thorough")
	repo := flag.String("repo", "/repo", "repository working tree to analyse")
	verif := flag.String("verif", "/verif", "verification directory (known findings, evidence, out)")
	replay := flag.String("replay", "", "replay file: re-evaluate that obligation on the current tree")
	list := flag.Bool("list", false, "list properties with a registered check")
	flag.Parse()

	if *list {
		var ids []string
		for id := range rules.Registry {
			ids = append(ids, id)
		}
		sort.Strings(ids)
		for _, id := range ids {
			fmt.Println(id)
		}
		return
	}
	if t := os.Getenv("VERIF_TIER"); t != "" && !flagSet("tier") {
		*tier = t
	}
	var want struct{ Property, Rule, Construct string }
	if *replay != "" {
		bts, err := os.ReadFile(*replay)
		if err != nil {
			fmt.Println("UNRESOLVED cannot read replay file:", err)
			os.Exit(2)
		}
		if err := json.Unmarshal(bts, &want); err != nil {
			fmt.Println("UNRESOLVED bad replay file:", err)
			os.Exit(2)
		}
		*prop = want.Property
	}
	f, ok := rules.Registry[*prop]
	if !ok {
		fmt.Printf("UNRESOLVED no check registered for property %q\n", *prop)
		os.Exit(2)
	}
	code := func() (code int) {
		defer func() {
			if e := recover(); e != nil {
				fmt.Printf("UNRESOLVED property=%s internal panic: %v\n%s\n", *prop, e, debug.Stack())
				code = 2
			}
		}()
		t0 := time.Now()
		p, err := core.Load(*repo)
		if err != nil {
			fmt.Printf("UNRESOLVED property=%s cannot load %s: %v\n", *prop, *repo, err)
			return 2
		}
		run, err := core.NewRun(*prop, *tier, *verif, p, t0)
		if err != nil {
			fmt.Printf("UNRESOLVED property=%s %v\n", *prop, err)
			return 2
		}
		f(run)
		if *replay != "" {
			for _, o := range run.Obls {
				if o.Rule == want.Rule && o.Key == want.Construct {
					fmt.Printf("REPLAY %s %s [%s] at %s: %s — %s\n", *prop, o.Rule, o.Key, o.Pos, o.Status, o.Detail)
					if o.Status == "violated" {
						fmt.Printf("VIOLATION property=%s replay=%s\n", *prop, *replay)
						return 1
					}
					return 0
				}
			}
			fmt.Printf("REPLAY %s %s [%s]: construct no longer present\n", *prop, want.Rule, want.Construct)
			return 0
		}
		return run.Finish()
	}()
	os.Exit(code)
}

func flagSet(name string) bool {
	set := false
	flag.Visit(func(f *flag.Flag) {
		if f.Name == name {
			set = true
		}
	})
	return set
}
