// mutgen enumerates single-edit mutants of the product source of a repository
// tree (development aid for tools/mutsweep.py; it is not part of any check).
// Output: one JSON object per line {id,file,line,kind,start,end,repl,orig}.
package main

import (
	"encoding/json"
	"flag"
	"fmt"
	"go/ast"
	"go/parser"
	"go/token"
	"os"
	"path/filepath"
	"sort"
	"strings"
)

type mut struct {
	ID    string `json:"id"`
	File  string `json:"file"`
	Line  int    `json:"line"`
	Kind  string `json:"kind"`
	Start int    `json:"start"`
	End   int    `json:"end"`
	Repl  string `json:"repl"`
	Orig  string `json:"orig"`
	Func  string `json:"func"`
}

func main() {
	root := flag.String("repo", "/repo", "tree")
	flag.Parse()
	var files []string
	for _, d := range []string{".", "backend/s3mem", "backend/s3bolt", "backend/s3afero", "internal/goskipiter", "internal/s3io", "cmd/gofakes3"} {
		ents, _ := os.ReadDir(filepath.Join(*root, d))
		for _, e := range ents {
			if strings.HasSuffix(e.Name(), ".go") && !strings.HasSuffix(e.Name(), "_test.go") {
				files = append(files, filepath.Join(d, e.Name()))
			}
		}
	}
	sort.Strings(files)
	enc := json.NewEncoder(os.Stdout)
	n := 0
	for _, rel := range files {
		src, err := os.ReadFile(filepath.Join(*root, rel))
		if err != nil {
			continue
		}
		fset := token.NewFileSet()
		f, err := parser.ParseFile(fset, rel, src, parser.ParseComments)
		if err != nil {
			continue
		}
		off := func(p token.Pos) int { return fset.Position(p).Offset }
		emit := func(fn string, kind string, s, e token.Pos, repl string) {
			n++
			a, b := off(s), off(e)
			if a < 0 || b > len(src) || a > b {
				return
			}
			enc.Encode(mut{ID: fmt.Sprintf("m%05d", n), File: rel, Line: fset.Position(s).Line, Kind: kind, Start: a, End: b, Repl: repl, Orig: string(src[a:b]), Func: fn})
		}
		for _, d := range f.Decls {
			fd, ok := d.(*ast.FuncDecl)
			if !ok || fd.Body == nil {
				continue
			}
			fn := fd.Name.Name
			if fd.Recv != nil && len(fd.Recv.List) == 1 {
				t := fd.Recv.List[0].Type
				if st, ok := t.(*ast.StarExpr); ok {
					t = st.X
				}
				if id, ok := t.(*ast.Ident); ok {
					fn = id.Name + "." + fn
				}
			}
			ast.Inspect(fd.Body, func(x ast.Node) bool {
				switch y := x.(type) {
				case *ast.BinaryExpr:
					opEnd := y.OpPos + token.Pos(len(y.Op.String()))
					alts := map[token.Token][]string{
						token.LSS: {"<=", ">="}, token.LEQ: {"<", ">"}, token.GTR: {">=", "<="}, token.GEQ: {">", "<"},
						token.EQL: {"!="}, token.NEQ: {"=="}, token.LAND: {"||"}, token.LOR: {"&&"},
						token.ADD: {"-"}, token.SUB: {"+"},
					}
					for _, a := range alts[y.Op] {
						if y.Op == token.ADD {
							// skip string concatenation with literals
							if bl, ok := y.X.(*ast.BasicLit); ok && bl.Kind == token.STRING {
								continue
							}
							if bl, ok := y.Y.(*ast.BasicLit); ok && bl.Kind == token.STRING {
								continue
							}
						}
						emit(fn, "op "+y.Op.String()+"→"+a, y.OpPos, opEnd, a)
					}
				case *ast.UnaryExpr:
					if y.Op == token.NOT {
						emit(fn, "drop !", y.OpPos, y.OpPos+1, "")
					}
				case *ast.IfStmt:
					if y.Cond != nil {
						emit(fn, "if→true", y.Cond.Pos(), y.Cond.End(), "true")
						emit(fn, "if→false", y.Cond.Pos(), y.Cond.End(), "false")
					}
				case *ast.BasicLit:
					if y.Kind == token.INT {
						switch y.Value {
						case "0":
							emit(fn, "0→1", y.Pos(), y.End(), "1")
						case "1":
							emit(fn, "1→0", y.Pos(), y.End(), "0")
							emit(fn, "1→2", y.Pos(), y.End(), "2")
						}
					}
				case *ast.ExprStmt:
					if _, ok := y.X.(*ast.CallExpr); ok {
						emit(fn, "delete call", y.Pos(), y.End(), "")
					}
				case *ast.DeferStmt:
					emit(fn, "delete defer", y.Pos(), y.End(), "")
				case *ast.AssignStmt:
					if y.Tok == token.ASSIGN || y.Tok == token.ADD_ASSIGN || y.Tok == token.SUB_ASSIGN {
						emit(fn, "delete assign", y.Pos(), y.End(), "")
					}
				case *ast.IncDecStmt:
					emit(fn, "delete incdec", y.Pos(), y.End(), "")
				case *ast.BranchStmt:
					if y.Tok == token.CONTINUE || y.Tok == token.BREAK {
						emit(fn, "delete "+y.Tok.String(), y.Pos(), y.End(), "")
					}
				case *ast.ReturnStmt:
					// `return x, err` inside an if body → fall through (only when not the function's last statement)
					if len(fd.Body.List) > 0 && fd.Body.List[len(fd.Body.List)-1] != ast.Stmt(y) {
						emit(fn, "delete return", y.Pos(), y.End(), "")
					}
				case *ast.CallExpr:
					// swap the first two arguments when both are identifiers
					if len(y.Args) >= 2 {
						a, ok1 := y.Args[0].(*ast.Ident)
						b, ok2 := y.Args[1].(*ast.Ident)
						if ok1 && ok2 && a.Name != b.Name {
							emit(fn, "swap args", y.Args[0].Pos(), y.Args[1].End(), b.Name+", "+a.Name)
						}
					}
				}
				return true
			})
		}
	}
}
