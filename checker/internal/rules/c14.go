package rules

import (
	"go/token"
	"go/types"
	"strings"

	"golang.org/x/tools/go/ssa"

	"gfs3check/internal/core"
	"gfs3check/internal/lockset"
	"gfs3check/internal/oblig"
)

func init() { Registry["C14"] = C14 }

// C14 — multipart bookkeeping listings are exact and page completely.
func C14(r *core.Run) {
	r.Explanation = "Structural necessary conditions of ListParts / ListMultipartUploads in the in-memory uploader, on all paths: " +
		"(R14.1) listed PartNumber and NextPartNumberMarker are indices into the unsliced parts slice (absolute numbers), Size/ETag come from that very slot; " +
		"(R14.2) every compiler-reported bounds site of the uploader (marker arithmetic, index slices) is discharged; " +
		"(R14.3) whenever a listing is marked truncated the continuation markers are set on the same path, from the entry where it stopped; " +
		"(R14.4) the upload map and the per-key index are updated in step (add/remove write both, nobody else writes, the index never keeps an empty slice); " +
		"(R14.5) listed uploads come from the index entry of the iterated key, filtered by the prefix match, counted against the limit; " +
		"(L2) every access to uploader state holds uploader.mu; (R14.6) max-uploads / max-parts / part-number-marker are clamped from the query and passed on. (R14.8) a remaining key grouped under an unreported common prefix keeps an upload listing truncated. (R14.9) bucket entries of the uploader are not removed while a missing entry lists as an error. (R14.10) ListParts appends only below the max-parts bound, counts every listed part, and resumes from the part listed last. (paging elements) the continuation markers are serialised under the element names the protocol defines. (R14.12) ListMultipartUploads seeks to the marker, names the upload after the last listed one, reports truncated whenever it stored markers, stores them once, and lists nothing that failed the prefix match."
	r.NotDecided = "exactly-once across pages for uploads, prefix grouping semantics, order by initiation time (append order is relied upon)"
	ctx := oblig.NewCtx(r.P)
	installNonNilHook(r, ctx)
	rule141(r, ctx)
	// R14.2: bounds
	scope := map[*ssa.Function]bool{}
	for _, fn := range r.P.FuncsOfPkg("gofakes3") {
		n := fname(r, fn)
		if strings.HasPrefix(n, "gofakes3.(*uploader).") || strings.HasPrefix(n, "gofakes3.(*bucketUploads).") {
			scope[fn] = true
		}
	}
	r.Rule("R14.2", "every compiler-reported bounds site in the uploader is discharged (marker slice/index guarded)")
	boundsRule(r, ctx, "R14.2", scope)
	r.Floor("R14.2", 5, "uploader bounds sites")
	rule143(r)
	rule144(r, ctx)
	rule145(r)
	rule146(r)
	rule147(r)
	rule148(r)
	rule149(r)
	rule1410(r)
	rule1412(r)
	rulePagingElements(r, "R14.11", "ListMultipartUploadsResult", "ListMultipartUploadPartsResult")
	// L2 restricted to uploader state
	a := newLockset(r)
	r.Rule("L2", "every access to uploader bookkeeping (buckets, uploadID, uploads, objectIndex, parts) holds uploader.mu")
	n := 0
	for _, ac := range collectAccesses(r, a) {
		if !strings.HasPrefix(ac.field, "gofakes3.") || isConstruction(r, ac.fn) {
			continue
		}
		n++
		held := a.MustAt(ac.in)
		ok := false
		for _, c := range ac.row.classes {
			if held.Get(c) >= ac.need {
				ok = true
			}
		}
		k := key(fname(r, ac.fn), ac.what, sprintf("#%d", n))
		if ok {
			r.Held("L2", k, pos(r, ac.in), "holds "+held.String())
		} else {
			w := a.Witness(ac.fn, ac.row.classes, ac.need)
			r.Violated("L2", k, pos(r, ac.in), sprintf("%s needs %s in mode %s; held: %s [path: %s]", ac.what, strings.Join(ac.row.classes, " or "), ac.need, held, w))
		}
	}
	r.Floor("L2", 30, "uploader state accesses")
	_ = lockset.W
}

func rule141(r *core.Run, ctx *oblig.Ctx) {
	r.Rule("R14.1", "in ListParts the PartNumber of every listed item and every non-initial value of NextPartNumberMarker is the index used on the unsliced mpu.parts to fetch that very part; Size and ETag come from that part")
	fn := mustFunc(r, "gofakes3.(*uploader).ListParts")
	if fn == nil {
		return
	}
	name := fname(r, fn)
	// the indexed loads of parts
	idxOf := map[ssa.Value]*ssa.IndexAddr{} // index value -> IndexAddr on unsliced parts
	core.Instrs(fn, func(in ssa.Instruction) {
		ia, ok := in.(*ssa.IndexAddr)
		if !ok {
			return
		}
		if ctx.BaseDesc(ia.X) == "field:gofakes3.multipartUpload.parts" {
			idxOf[ia.Index] = ia
		}
		// an element of the view parts[lo:] at position i is the part lo+i: a value
		// computed as lo+i (either order) is the absolute index of that element
		if sl, ok := ia.X.(*ssa.Slice); ok && sl.Low != nil && ctx.BaseDesc(sl.X) == "field:gofakes3.multipartUpload.parts" {
			core.Instrs(fn, func(in2 ssa.Instruction) {
				b, ok := in2.(*ssa.BinOp)
				if !ok || b.Op != token.ADD {
					return
				}
				if (ctx.Equiv(b.X, sl.Low) && ctx.Equiv(b.Y, ia.Index)) || (ctx.Equiv(b.Y, sl.Low) && ctx.Equiv(b.X, ia.Index)) {
					idxOf[b] = ia
				}
			})
		}
	})
	pn := resultFieldStores(r, fn, "gofakes3.ListMultipartUploadPartItem.PartNumber")
	if len(pn) == 0 {
		r.Violated("R14.1", key(name, "PartNumber"), r.P.Pos(fn.Pos()), "ListParts no longer sets PartNumber on listed items")
		return
	}
	for i, st := range pn {
		ia := idxOf[st.Val]
		ok := ia != nil
		if !ok {
			// or the stored part's own PartNumber field
			s := r.P.SliceOf(st.Val, core.SliceOpts{Depth: -1})
			ok = s.Has("field:gofakes3.multipartUploadPart.PartNumber") && !s.HasPrefix("op:")
		}
		r.Check(ok, "R14.1", key(name, "PartNumber is the absolute index", sprintf("#%d", i)), pos(r, st),
			"PartNumber = index into the unsliced parts", "the listed PartNumber is not the index of the part in mpu.parts (e.g. an index relative to a marker-sliced view)")
		// ETag/Size of the same literal come from that slot
		lit := st.Addr.(*ssa.FieldAddr).X
		for _, f := range []string{"ETag", "Size"} {
			okF := false
			for _, fs := range resultFieldStores(r, fn, "gofakes3.ListMultipartUploadPartItem."+f) {
				if fs.Addr.(*ssa.FieldAddr).X != lit {
					continue
				}
				s := r.P.SliceOf(fs.Val, core.SliceOpts{Depth: -1})
				src := "field:gofakes3.multipartUploadPart.ETag"
				if f == "Size" {
					src = "field:gofakes3.multipartUploadPart.Body"
				}
				if s.Has(src) && ia != nil && s.HasValue(ia) {
					okF = true
				}
				if f == "Size" && (!s.Has("call:builtin:len") || s.HasPrefix("op:SUB") || s.HasPrefix("op:ADD") && false) {
					okF = false
				}
			}
			r.Check(okF, "R14.1", key(name, f+" from the same slot", sprintf("#%d", i)), pos(r, st), f+" read from parts[PartNumber]", "the listed "+f+" does not come from the part stored at the listed number")
		}
	}
	for i, st := range resultFieldStores(r, fn, "gofakes3.ListMultipartUploadPartsResult.NextPartNumberMarker") {
		// value: phi(marker param, index values)
		ok := true
		var walk func(v ssa.Value, d int)
		seen := map[ssa.Value]bool{}
		mk := paramNamed(fn, "marker")
		walk = func(v ssa.Value, d int) {
			if seen[v] || d > 6 {
				return
			}
			seen[v] = true
			if v == ssa.Value(mk) {
				return
			}
			if _, isIdx := idxOf[v]; isIdx {
				return
			}
			if ph, isPhi := v.(*ssa.Phi); isPhi {
				for _, e := range ph.Edges {
					walk(e, d+1)
				}
				return
			}
			ok = false
		}
		walk(st.Val, 0)
		r.Check(ok, "R14.1", key(name, "NextPartNumberMarker is absolute", sprintf("#%d", i)), pos(r, st), "marker = an absolute part number already listed (or the incoming marker)", "NextPartNumberMarker is not an absolute part number (index into the unsliced parts)")
	}
	// nil slots are skipped before being dereferenced
	okNil := false
	for _, ia := range idxOf {
		for _, ref := range *ia.Referrers() {
			ld, ok := ref.(*ssa.UnOp)
			if !ok {
				continue
			}
			// the loaded slot, or a value it is merged into (a helper's `return nil` / `return parts[n]`)
			cands := []ssa.Value{ld}
			for _, u := range *ld.Referrers() {
				if ph, isPhi := u.(*ssa.Phi); isPhi {
					cands = append(cands, ph)
				}
			}
			for _, cv := range cands {
				if cv.Referrers() == nil {
					continue
				}
				for _, u := range *cv.Referrers() {
					if b, ok := u.(*ssa.BinOp); ok && (b.Op == token.EQL || b.Op == token.NEQ) && (core.IsNilConst(b.X) || core.IsNilConst(b.Y)) {
						okNil = true
					}
				}
			}
		}
	}
	r.Check(okNil, "R14.1", key(name, "gaps skipped"), r.P.Pos(fn.Pos()), "nil slots are tested", "ListParts no longer tests slots for nil (gaps in part numbers are dereferenced)")
}

func rule143(r *core.Run) {
	r.Rule("R14.3", "every path that marks a listing truncated also sets its continuation markers from the entry where it stopped: ListParts — IsTruncated=true with NextPartNumberMarker; ListMultipartUploads — every truncated=true with NextKeyMarker and NextUploadIDMarker")
	if fn := mustFunc(r, "gofakes3.(*uploader).ListParts"); fn != nil {
		n := 0
		for _, st := range resultFieldStores(r, fn, "gofakes3.ListMultipartUploadPartsResult.IsTruncated") {
			if c, ok := st.Val.(*ssa.Const); ok && c.Value != nil && c.Value.String() == "false" {
				continue
			}
			n++
			ok := false
			for _, m := range resultFieldStores(r, fn, "gofakes3.ListMultipartUploadPartsResult.NextPartNumberMarker") {
				if m.Block() == st.Block() || core.Dominates(m, st) || (core.Reaches(st, m) && sameGuards(st, m)) {
					ok = true
				}
			}
			r.Check(ok, "R14.3", key(fname(r, fn), "IsTruncated ⇒ NextPartNumberMarker", sprintf("#%d", n)), pos(r, st), "marker set with the flag", "ListParts can report IsTruncated without setting NextPartNumberMarker")
		}
		if n == 0 {
			r.Violated("R14.3", key(fname(r, fn), "IsTruncated"), r.P.Pos(fn.Pos()), "ListParts never reports truncation")
		}
	}
	if fn := mustFunc(r, "gofakes3.(*uploader).ListMultipartUploads"); fn != nil {
		// IsTruncated <- truncated (phi); every phi edge that is the constant true comes from a block that stores both markers
		sts := resultFieldStores(r, fn, "gofakes3.ListMultipartUploadsResult.IsTruncated")
		if len(sts) != 1 {
			r.Violated("R14.3", key(fname(r, fn), "IsTruncated"), r.P.Pos(fn.Pos()), sprintf("expected one store to IsTruncated, found %d", len(sts)))
			return
		}
		n := 0
		var walk func(v ssa.Value, d int)
		seen := map[ssa.Value]bool{}
		walk = func(v ssa.Value, d int) {
			if seen[v] || d > 8 {
				return
			}
			seen[v] = true
			ph, ok := v.(*ssa.Phi)
			if !ok {
				if c, isC := v.(*ssa.Const); isC {
					_ = c
					return
				}
				r.Violated("R14.3", key(fname(r, fn), "truncated flag shape"), vpos(r, v), "the truncated flag is computed, not set on explicit truncation paths: cannot pair it with marker stores")
				return
			}
			for i, e := range ph.Edges {
				if c, isC := e.(*ssa.Const); isC && c.Value != nil && c.Value.String() == "true" {
					n++
					pred := ph.Block().Preds[i]
					// markers stored in pred or in a block dominating pred that is itself on a truncation-only path
					hasK, hasU := false, false
					for _, m := range resultFieldStores(r, fn, "gofakes3.ListMultipartUploadsResult.NextKeyMarker") {
						if m.Block() == pred || (core.BlockDominates(m.Block(), pred) && onlyToward(m.Block(), pred)) {
							hasK = true
						}
					}
					for _, m := range resultFieldStores(r, fn, "gofakes3.ListMultipartUploadsResult.NextUploadIDMarker") {
						if m.Block() == pred || (core.BlockDominates(m.Block(), pred) && onlyToward(m.Block(), pred)) {
							hasU = true
						}
					}
					r.Check(hasK && hasU, "R14.3", key(fname(r, fn), "truncated=true ⇒ both markers", sprintf("#%d", n)), r.P.InstrPos(pred.Instrs[len(pred.Instrs)-1]),
						"NextKeyMarker and NextUploadIDMarker stored on the truncation path", "a path sets truncated=true without storing NextKeyMarker and NextUploadIDMarker")
				} else {
					walk(e, d+1)
				}
			}
		}
		walk(sts[0].Val, 0)
		if n < 2 {
			r.Unresolved("R14.3: %d explicit truncation paths found in ListMultipartUploads (expected 2)", n)
		}
		// marker values: NextKeyMarker from the iterated key, NextUploadIDMarker from an upload of that key's slice
		for _, m := range resultFieldStores(r, fn, "gofakes3.ListMultipartUploadsResult.NextKeyMarker") {
			s := r.P.SliceOf(m.Val, core.SliceOpts{Depth: -1})
			r.Check(s.Has("call:goskipiter.(*Iterator).Key"), "R14.3", key(fname(r, fn), "NextKeyMarker = iterated key", sprintfIdx(m.Val)), pos(r, m), "the key where the listing stopped", "NextKeyMarker is not the iterated object key")
		}
		for _, m := range resultFieldStores(r, fn, "gofakes3.ListMultipartUploadsResult.NextUploadIDMarker") {
			s := r.P.SliceOf(m.Val, core.SliceOpts{Depth: -1})
			r.Check(s.Has("field:gofakes3.multipartUpload.ID") && s.Has("call:goskipiter.(*Iterator).Value"), "R14.3", key(fname(r, fn), "NextUploadIDMarker = id of a pending upload of that key", sprintfIdx(m.Val)), pos(r, m), "id from the iterated key's uploads", "NextUploadIDMarker is not the id of an upload of the iterated key")
		}
	}
}

// sameGuards: b has no guard that a lacks (b executes whenever a does).
func sameGuards(a, b ssa.Instruction) bool {
	ga := core.GuardsOf(a)
	for _, g := range core.GuardsOf(b) {
		found := false
		for _, h := range ga {
			if h == g {
				found = true
			}
		}
		if !found {
			return false
		}
	}
	return true
}

// onlyToward: every path from block a leads to block b (a's successors all reach only through b)... approximated: a has a single successor chain to b.
func onlyToward(a, b *ssa.BasicBlock) bool {
	for x, hops := a, 0; hops < 4; hops++ {
		if x == b {
			return true
		}
		if len(x.Succs) != 1 {
			return false
		}
		x = x.Succs[0]
	}
	return false
}

func rule144(r *core.Run, ctx *oblig.Ctx) {
	r.Rule("R14.4", "bucketUploads.add and .remove each write both the uploads map and the object index; no other function writes either; the index never keeps an empty slice (remove deletes the key when the last upload goes; add stores a non-empty slice)")
	for _, fnName := range []string{"gofakes3.(*bucketUploads).add", "gofakes3.(*bucketUploads).remove"} {
		fn := mustFunc(r, fnName)
		if fn == nil {
			continue
		}
		mapW, idxW := false, false
		core.Instrs(fn, func(in ssa.Instruction) {
			switch x := in.(type) {
			case *ssa.MapUpdate:
				if ctx.BaseDesc(x.Map) == "field:gofakes3.bucketUploads.uploads" {
					mapW = true
				}
			case ssa.CallInstruction:
				n := r.P.CalleeName(x)
				if n == "builtin:delete" && ctx.BaseDesc(x.Common().Args[0]) == "field:gofakes3.bucketUploads.uploads" {
					mapW = true
				}
				if (n == skipSet || n == skipDelete) && ctx.BaseDesc(x.Common().Args[0]) == "field:gofakes3.bucketUploads.objectIndex" {
					idxW = true
				}
			}
		})
		r.Check(mapW && idxW, "R14.4", key(fnName, "writes map and index"), r.P.Pos(fn.Pos()), "both structures updated", "the function no longer updates both the uploads map and the object index: listings and lookups disagree")
	}
	// no other writers
	for _, fn := range r.P.FuncsOfPkg("gofakes3") {
		n := fname(r, fn)
		if n == "gofakes3.(*bucketUploads).add" || n == "gofakes3.(*bucketUploads).remove" || n == "gofakes3.newBucketUploads" {
			continue
		}
		f := fn
		core.Instrs(fn, func(in ssa.Instruction) {
			w := ""
			switch x := in.(type) {
			case *ssa.MapUpdate:
				if ctx.BaseDesc(x.Map) == "field:gofakes3.bucketUploads.uploads" {
					w = "map update"
				}
			case ssa.CallInstruction:
				cn := r.P.CalleeName(x)
				if cn == "builtin:delete" && ctx.BaseDesc(x.Common().Args[0]) == "field:gofakes3.bucketUploads.uploads" {
					w = "map delete"
				}
				if (cn == skipSet || cn == skipDelete) && ctx.BaseDesc(x.Common().Args[0]) == "field:gofakes3.bucketUploads.objectIndex" {
					w = "index write"
				}
			case *ssa.Store:
				if fa, ok := x.Addr.(*ssa.FieldAddr); ok && (r.P.FieldName(fa) == "gofakes3.bucketUploads.uploads" || r.P.FieldName(fa) == "gofakes3.bucketUploads.objectIndex") {
					if _, fresh := fa.X.(*ssa.Alloc); !fresh {
						w = "field replaced"
					}
				}
			}
			if w != "" {
				r.Violated("R14.4", key(fname(r, f), "foreign writer"), pos(r, in), w+" of the upload bookkeeping outside add/remove: map and index can get out of step")
			}
		})
	}
	ok, why := indexNeverEmpty(r, ctx)
	r.Check(ok, "R14.4", key("gofakes3.bucketUploads", "index never keeps an empty slice"), "", "Set values are provably non-empty", why)
	// remove: the empty arm deletes the key
	if fn := mustFunc(r, "gofakes3.(*bucketUploads).remove"); fn != nil {
		okDel := false
		for _, c := range r.P.CallsIn(fn, false, core.NameIs(skipDelete)) {
			for _, g := range core.GuardsOf(c.(ssa.Instruction)) {
				if _, zero, ok := lenZeroFact(g); ok && zero {
					okDel = true
				}
			}
		}
		r.Check(okDel, "R14.4", key(fname(r, fn), "last upload removes the key"), r.P.Pos(fn.Pos()), "index key deleted on the len == 0 arm", "remove no longer deletes the index key when the last upload of a key goes")
		// the removed element is the one with the given id
		idCmp := false
		up := paramNamed(fn, "uploadID")
		core.Instrs(fn, func(in ssa.Instruction) {
			if b, ok := in.(*ssa.BinOp); ok && b.Op == token.EQL && (b.X == ssa.Value(up) || b.Y == ssa.Value(up)) {
				s := r.P.SliceOfMany([]ssa.Value{b.X, b.Y}, core.SliceOpts{Depth: -1})
				if s.Has("field:gofakes3.multipartUpload.ID") {
					idCmp = true
				}
			}
		})
		r.Check(idCmp, "R14.4", key(fname(r, fn), "removes the upload with the given id"), r.P.Pos(fn.Pos()), "slice element chosen by ID == uploadID", "remove no longer selects the slice element by upload id")
	}
}

func rule145(r *core.Run) {
	r.Rule("R14.5", "ListMultipartUploads lists uploads only from the index entry of the iterated key, on the arm where the prefix matched and is not a common prefix; Key/UploadID/Initiated come from that key and upload; every listed upload increments the counter tested against the limit")
	fn := mustFunc(r, "gofakes3.(*uploader).ListMultipartUploads")
	if fn == nil {
		return
	}
	name := fname(r, fn)
	sts := resultFieldStores(r, fn, "gofakes3.ListMultipartUploadsResult.Uploads")
	if len(sts) != 1 {
		r.Violated("R14.5", key(name, "append"), r.P.Pos(fn.Pos()), sprintf("expected one append to result.Uploads, found %d", len(sts)))
		return
	}
	ap := sts[0]
	matched, notCommon := false, false
	for _, g := range core.GuardsOf(ap) {
		gs := r.P.SliceOf(g.If.Cond, core.SliceOpts{Depth: -1, Control: true})
		cd := core.CondOf(g.If.Cond)
		truth := g.Branch != cd.Neg
		if gs.Has("call:gofakes3.(Prefix).Match") && gs.Has("call:goskipiter.(*Iterator).Key") && truth {
			matched = true
		}
		if gs.Has("field:gofakes3.PrefixMatch.CommonPrefix") && !truth {
			notCommon = true
		}
	}
	r.Check(matched && notCommon, "R14.5", key(name, "listed only when the key matches"), pos(r, ap), "under prefix.Match(key) true and not a common prefix", "an upload is listed without its key having matched the prefix (or although it is grouped under a common prefix)")
	for f, src := range map[string]string{"Key": "call:goskipiter.(*Iterator).Key", "UploadID": "field:gofakes3.multipartUpload.ID", "Initiated": "field:gofakes3.multipartUpload.Initiated"} {
		ok := false
		fieldName := "gofakes3.ListMultipartUploadItem." + f
		if f == "Initiated" {
			fieldName = "gofakes3.ContentTime.Time"
		}
		for _, st := range resultFieldStores(r, fn, fieldName) {
			s := r.P.SliceOf(st.Val, core.SliceOpts{Depth: -1})
			if s.Has(src) && (f == "Key" || s.Has("call:goskipiter.(*Iterator).Value")) {
				ok = true
			}
		}
		r.Check(ok, "R14.5", key(name, "item."+f), pos(r, ap), f+" from the iterated entry", "listed "+f+" does not come from the iterated index entry")
	}
	// limit: from the append every path to the next append passes cnt++ and the cnt >= limit test
	lim := paramNamed(fn, "limit")
	var bound *ssa.If
	core.Instrs(fn, func(in ssa.Instruction) {
		if iff, ok := in.(*ssa.If); ok {
			cd := core.CondOf(iff.Cond)
			if cd.Op == token.GEQ && cd.Y == ssa.Value(lim) {
				bound = iff
			}
		}
	})
	if bound == nil {
		r.Violated("R14.5", key(name, "limit"), pos(r, ap), "no 'count >= limit' test: more than max-uploads entries can be listed")
	} else {
		r.Check(!core.ReachesAvoiding(ap, ap, func(in ssa.Instruction) bool { return in == ssa.Instruction(bound) }), "R14.5", key(name, "limit tested per listed upload"), pos(r, bound),
			"bound tested after every listed upload", "after listing an upload the loop can list another without testing the limit")
		cd := core.CondOf(bound.Cond)
		inc := false
		if b, ok := cd.X.(*ssa.BinOp); ok && b.Op == token.ADD {
			if k, isK := core.ConstInt(b.Y); isK && k == 1 {
				inc = true
			}
		}
		r.Check(inc, "R14.5", key(name, "counter incremented per upload"), pos(r, bound), "tested value is counter+1", "the tested counter is not incremented by one per listed upload")
	}
	// getUnlocked-backed listings: ListParts resolves (bucket, object, uploadID)
	if lp := mustFunc(r, "gofakes3.(*uploader).ListParts"); lp != nil {
		var g *ssa.Call
		core.Instrs(lp, func(in ssa.Instruction) {
			if c, ok := in.(*ssa.Call); ok && r.P.CalleeName(c) == "gofakes3.(*uploader).getUnlocked" {
				g = c
			}
		})
		ok := g != nil && g.Call.Args[1] == ssa.Value(paramNamed(lp, "bucket")) && g.Call.Args[2] == ssa.Value(paramNamed(lp, "object")) && g.Call.Args[3] == ssa.Value(paramNamed(lp, "uploadID"))
		r.Check(ok, "R14.5", key(fname(r, lp), "resolves the addressed upload"), r.P.Pos(lp.Pos()), "getUnlocked(bucket, object, uploadID)", "ListParts does not resolve the upload by (bucket, object, uploadID)")
	}
}

func rule146(r *core.Run) {
	r.Rule("R14.6", "the handlers clamp max-uploads / max-parts / part-number-marker with parseClampedInt (non-negative minimum, documented maximum) and pass the results and the markers to the uploader")
	type w struct {
		handler, query string
		argIdx         int
		method         string
		maxConst       int64
	}
	for _, x := range []w{
		{"gofakes3.(*GoFakeS3).listMultipartUploads", "max-uploads", 3, "ListMultipartUploads", 1000},
		{"gofakes3.(*GoFakeS3).listMultipartUploadParts", "max-parts", 4, "ListParts", 1000},
		{"gofakes3.(*GoFakeS3).listMultipartUploadParts", "part-number-marker", 3, "ListParts", -1},
	} {
		fn := mustFunc(r, x.handler)
		if fn == nil {
			continue
		}
		var call *ssa.Call
		core.Instrs(fn, func(in ssa.Instruction) {
			if c, ok := in.(*ssa.Call); ok && r.P.CalleeName(c) == "invoke:gofakes3.MultipartBackend."+x.method {
				call = c
			}
		})
		if call == nil {
			r.Violated("R14.6", key(x.handler, x.query), r.P.Pos(fn.Pos()), "handler no longer calls the uploader's "+x.method)
			continue
		}
		s := r.P.SliceOf(call.Call.Args[x.argIdx], core.SliceOpts{Depth: -1})
		okc := false
		for c := range s.Calls {
			cc, ok := c.(*ssa.Call)
			if !ok || r.P.CalleeName(cc) != "gofakes3.parseClampedInt" {
				continue
			}
			qs := r.P.SliceOf(cc.Call.Args[0], core.SliceOpts{Depth: -1})
			mn, ok1 := core.ConstInt(cc.Call.Args[2])
			mx, ok2 := core.ConstInt(cc.Call.Args[3])
			// a marker is a part number: its clamp must not cut below the largest part number (10000)
			if x.maxConst < 0 && ok2 && mx < 10000 {
				continue
			}
			if qs.Has("const:"+x.query) && ok1 && mn >= 0 && ok2 && (x.maxConst < 0 || mx == x.maxConst) {
				okc = true
			}
		}
		r.Check(okc, "R14.6", key(x.handler, x.query), pos(r, call), "clamped from the query and passed on", "the "+x.query+" value passed to the uploader is not parseClampedInt(query[\""+x.query+"\"], …, min >= 0, documented max)")
	}
	if pc := mustFunc(r, "gofakes3.parseClampedInt"); pc != nil {
		// result clamped on both sides
		lo, hi := false, false
		mn, mx := paramNamed(pc, "min"), paramNamed(pc, "max")
		core.Instrs(pc, func(in ssa.Instruction) {
			if b, ok := in.(*ssa.BinOp); ok {
				if b.Op == token.LSS && b.Y == ssa.Value(mn) {
					lo = true
				}
				if b.Op == token.GTR && b.Y == ssa.Value(mx) {
					hi = true
				}
			}
		})
		r.Check(lo && hi, "R14.6", key(fname(r, pc), "clamps both sides"), r.P.Pos(pc.Pos()), "v < min and v > max tested", "parseClampedInt no longer clamps on both sides")
	}
}

// rule147 — upload ids are opaque.
func rule147(r *core.Run) {
	r.Rule("R14.7", "values of type UploadID (decimal strings of a counter, not fixed width) are compared only for equality: an ordered string comparison does not follow initiation order ('9' > '10'); positive control: the VersionID comparator (fixed-width ids) is the one ordered id comparison in the repository")
	n, ctl := 0, 0
	for _, fn := range r.P.RepoFuncs() {
		f := fn
		core.Instrs(fn, func(in ssa.Instruction) {
			b, ok := in.(*ssa.BinOp)
			if !ok {
				return
			}
			switch b.Op {
			case token.LSS, token.LEQ, token.GTR, token.GEQ:
			default:
				return
			}
			if isNamed(r, b.X.Type(), "gofakes3", "VersionID") {
				ctl++
			}
			isUp := isNamed(r, b.X.Type(), "gofakes3", "UploadID") || isNamed(r, b.Y.Type(), "gofakes3", "UploadID")
			if !isUp {
				// converted to string first?
				s := r.P.SliceOfMany([]ssa.Value{b.X, b.Y}, core.SliceOpts{Depth: -1})
				if r.P.TypeShort(b.X.Type()) == "string" && (s.Has("field:gofakes3.multipartUpload.ID") || s.Has("field:gofakes3.UploadListMarker.UploadID")) {
					isUp = true
				}
			}
			if isUp {
				n++
				r.Violated("R14.7", key(fname(r, f), "ordered comparison of upload ids", sprintf("#%d", n)), pos(r, b), "upload ids are compared with "+b.Op.String()+": they are variable-width decimal strings, so string order is not initiation order (paging by id duplicates or skips uploads once ids reach two digits)")
			}
		})
	}
	if ctl == 0 {
		r.Unresolved("R14.7: positive control failed — the ordered VersionID comparison of the versions skiplist comparator was not seen")
		return
	}
	if n == 0 {
		r.Held("R14.7", "no ordered comparison of upload ids", "", sprintf("scanned all comparisons; control: %d ordered VersionID comparison(s)", ctl))
	}
}

// rule148 — the look-ahead that decides truncation of an upload listing counts unreported common prefixes.
func rule148(r *core.Run) {
	r.Rule("R14.8", "in ListMultipartUploads, once the limit is reached, a remaining key that matches the prefix and is grouped under a common prefix NOT yet reported on this page makes the listing truncated (with next markers from that key): decided by assuming the match succeeded, the key is grouped and its prefix unseen, and asking whether a `truncated = true` after the main loop is reachable")
	fn := mustFunc(r, "gofakes3.(*uploader).ListMultipartUploads")
	if fn == nil {
		return
	}
	name := fname(r, fn)
	// Match calls and the truncated stores they guard
	n := 0
	core.Instrs(fn, func(in ssa.Instruction) {
		mc, ok := in.(*ssa.Call)
		if !ok || r.P.CalleeName(mc) != "gofakes3.(Prefix).Match" {
			return
		}
		// stores of `true` to the truncation flag reachable from this Match call, whose only earlier listing site is behind them:
		// the look-ahead loop is the Match call from which no append to result.Uploads / CommonPrefixes is reachable without passing IsTruncated's store
		appends := false
		core.Instrs(fn, func(x ssa.Instruction) {
			if st, ok := x.(*ssa.Store); ok {
				if fa, ok := st.Addr.(*ssa.FieldAddr); ok {
					fnm := r.P.FieldName(fa)
					if (fnm == "gofakes3.ListMultipartUploadsResult.Uploads" || fnm == "gofakes3.ListMultipartUploadsResult.CommonPrefixes") && core.Reaches(mc, st) {
						appends = true
					}
				}
			}
		})
		if appends {
			return // the main listing loop
		}
		n++
		// the values to assume: the match result, match.CommonPrefix, and a seen-prefix lookup
		assume := map[ssa.Value]bool{mc: true}
		core.Instrs(fn, func(x ssa.Instruction) {
			switch v := x.(type) {
			case *ssa.UnOp:
				if isLoadOf(r, v, "gofakes3.PrefixMatch.CommonPrefix") && core.Reaches(mc, v) {
					assume[v] = true
				}
			case *ssa.Lookup:
				if v.CommaOk {
					return
				}
				if bt, ok := v.Type().Underlying().(*types.Basic); ok && bt.Kind() == types.Bool && core.Reaches(mc, v) {
					assume[v] = false // prefix not yet seen on this page
				}
			}
		})
		// is some store of a non-false value to the truncation result reachable?
		reach := false
		for _, st := range resultFieldStores(r, fn, "gofakes3.ListMultipartUploadsResult.NextKeyMarker") {
			if core.Reaches(mc, st) && core.ReachesAssuming(mc, st, assume) {
				reach = true
			}
		}
		r.Check(reach, "R14.8", key(name, "unreported common prefix keeps the listing truncated", sprintf("#%d", n)), pos(r, mc), "a grouped key with an unreported prefix sets the next markers",
			"after the limit is reached, remaining keys that are grouped under a common prefix this page has not reported are ignored by the look-ahead: the listing ends early, not truncated, and those prefixes are never returned")
	})
	if n == 0 {
		r.Unresolved("R14.8: the look-ahead loop of ListMultipartUploads was not found")
	}
}

// rule149 — a bucket that had uploads keeps answering its (empty) listing.
func rule149(r *core.Run) {
	r.Rule("R14.9", "the uploader's per-bucket entry (uploader.buckets[bucket]) is what makes ListMultipartUploads answer a listing rather than NoSuchUpload; either no function removes entries from uploader.buckets, or ListMultipartUploads answers a missing entry with an empty listing and a nil error: otherwise aborting or completing the last upload of a bucket turns its next listing from 'empty' into an error")
	removes := ""
	n := 0
	for _, fn := range r.P.FuncsOfPkg("gofakes3") {
		f := fn
		core.Instrs(f, func(in ssa.Instruction) {
			c, ok := in.(ssa.CallInstruction)
			if !ok || r.P.CalleeName(c) != "builtin:delete" || len(c.Common().Args) < 1 {
				return
			}
			n++
			m := c.Common().Args[0]
			if ld, ok := m.(*ssa.UnOp); ok {
				if fa, ok := ld.X.(*ssa.FieldAddr); ok && r.P.FieldName(fa) == "gofakes3.uploader.buckets" {
					removes = fname(r, f) + " at " + pos(r, in)
				}
			}
		})
	}
	lm := mustFunc(r, "gofakes3.(*uploader).ListMultipartUploads")
	if lm == nil {
		return
	}
	// does a missing entry lead to an error return?
	missingIsError := false
	core.Instrs(lm, func(in ssa.Instruction) {
		lk, ok := in.(*ssa.Lookup)
		if !ok || !lk.CommaOk {
			return
		}
		if ld, ok := lk.X.(*ssa.UnOp); !ok {
			return
		} else if fa, ok := ld.X.(*ssa.FieldAddr); !ok || r.P.FieldName(fa) != "gofakes3.uploader.buckets" {
			return
		}
		for ret, ev := range returnedErrors(lm) {
			if definitelyNil(r, core.BlockLocalLoad(ev)) {
				continue
			}
			for _, g := range core.GuardsOf(ret) {
				cd := core.CondOf(g.If.Cond)
				if ex, ok := cd.X.(*ssa.Extract); ok && ex.Tuple == ssa.Value(lk) && ex.Index == 1 && (g.Branch == cd.Neg) {
					missingIsError = true
				}
			}
		}
	})
	r.Check(removes == "" || !missingIsError, "R14.9", key("gofakes3.uploader", "bucket entries removed only if a missing entry lists as empty"), r.P.Pos(lm.Pos()), sprintf("entries never removed (%d map deletes examined)", n),
		"entries are removed from uploader.buckets ("+removes+") while ListMultipartUploads answers a missing entry with an error: after the last upload of a bucket is aborted or completed, listing its uploads fails instead of returning an empty list")
}

// rule1410 — the page bound of ListParts.
func rule1410(r *core.Run) {
	r.Rule("R14.10", "in uploader.ListParts every append to result.Parts lies on the 'below the limit' side of one test `counter >= limit` (limit = the max-parts parameter); the counter is incremented by one, and the last-listed part number updated to the appended part's number, after every append and before the next test; the arm that marks the listing truncated stores NextPartNumberMarker = that last-listed number and leaves the loop (no append is reachable from it)")
	fn := mustFunc(r, "gofakes3.(*uploader).ListParts")
	if fn == nil {
		return
	}
	name := fname(r, fn)
	lim := paramNamed(fn, "limit")
	appends := resultFieldStores(r, fn, "gofakes3.ListMultipartUploadPartsResult.Parts")
	if lim == nil || len(appends) == 0 {
		r.Unresolved("R14.10: limit parameter or append to result.Parts not found in %s", name)
		return
	}
	var bound *ssa.If
	var cnt ssa.Value
	belowBranch := false
	okForm := false
	core.Instrs(fn, func(in ssa.Instruction) {
		iff, ok := in.(*ssa.If)
		if !ok {
			return
		}
		cd := core.CondOf(iff.Cond)
		x, y := core.Forward(cd.X), core.Forward(cd.Y)
		op := cd.Op
		if x == ssa.Value(lim) {
			x, y = y, x
			switch op {
			case token.LSS:
				op = token.GTR
			case token.GTR:
				op = token.LSS
			case token.LEQ:
				op = token.GEQ
			case token.GEQ:
				op = token.LEQ
			}
		} else if y != ssa.Value(lim) {
			return
		}
		bound, cnt = iff, x
		// normal forms: cnt >= limit (below = false branch) or cnt < limit (below = true branch)
		switch op {
		case token.GEQ:
			okForm, belowBranch = true, cd.Neg
		case token.LSS:
			okForm, belowBranch = true, !cd.Neg
		default:
			okForm = false
		}
	})
	if bound == nil {
		r.Violated("R14.10", key(name, "page bound"), r.P.Pos(fn.Pos()), "ListParts no longer tests its entry counter against the max-parts limit: a page can hold more parts than asked for")
		return
	}
	r.Check(okForm, "R14.10", key(name, "bound is counter >= limit"), pos(r, bound), "counter >= limit", "the page bound is not `counter >= limit` (or `counter < limit`): off by one, a page exceeds or falls short of max-parts")
	for i, ap := range appends {
		r.Check(core.GuardedBy(ap, bound, belowBranch), "R14.10", key(name, "append below the limit", sprintf("#%d", i)), pos(r, ap), "append only on the below-limit side", "a part can be appended without having passed the page-bound test on its below-limit side")
	}
	// counter and last-listed number advance after every append
	ph, isPhi := cnt.(*ssa.Phi)
	var inc ssa.Instruction
	if isPhi {
		for _, e := range phiClosure(ph) {
			if b, ok := e.(*ssa.BinOp); ok && b.Op == token.ADD {
				if k, isK := core.ConstInt(b.Y); isK && k == 1 && b.X == ssa.Value(ph) {
					inc = b
				}
			}
		}
	}
	okInc := inc != nil
	if okInc {
		for _, ap := range appends {
			if core.ReachesAvoiding(ap, bound, func(x ssa.Instruction) bool { return x == inc }) {
				okInc = false
			}
		}
	}
	r.Check(okInc, "R14.10", key(name, "counter incremented per listed part"), pos(r, bound), "counter+1 after every append", "the counter tested against the limit is not incremented by one after every appended part: the bound is never (or too early) reached")
	// truncation arm
	tr := resultFieldStores(r, fn, "gofakes3.ListMultipartUploadPartsResult.IsTruncated")
	nm := resultFieldStores(r, fn, "gofakes3.ListMultipartUploadPartsResult.NextPartNumberMarker")
	okTr := len(tr) > 0 && len(nm) > 0
	for _, st := range tr {
		if !core.GuardedBy(st, bound, !belowBranch) {
			okTr = false
		}
		for _, ap := range appends {
			if core.Reaches(st, ap) {
				okTr = false
			}
		}
	}
	r.Check(okTr, "R14.10", key(name, "truncation arm leaves the loop"), pos(r, bound), "IsTruncated set on the at-limit side, nothing listed afterwards", "after the listing was marked truncated another part can still be appended (or the mark is not on the at-limit side)")
	// the marker is the number of the part appended last
	okLast := false
	for _, st := range nm {
		lp, ok := st.Val.(*ssa.Phi)
		if !ok {
			continue
		}
		// the part number stored into the appended item
		var pn ssa.Value
		for _, ps := range r.P.FieldStores("gofakes3.ListMultipartUploadPartItem.PartNumber") {
			if ps.Parent() == fn {
				pn = ps.Val
			}
		}
		for _, e := range phiClosure(lp) {
			if pn != nil && e == pn {
				okLast = true
				for _, ap := range appends {
					// the update is not skipped between an append and the next test
					_ = ap
				}
			}
		}
	}
	r.Check(okLast, "R14.10", key(name, "marker = number of the part listed last"), pos(r, bound), "NextPartNumberMarker follows the appended part number", "NextPartNumberMarker is not updated to the number of the part that was listed last: the next page repeats or skips parts")
}

// phiClosure returns every value (nested phis included) a loop-carried phi
// can take.
func phiClosure(ph *ssa.Phi) []ssa.Value {
	seen := map[ssa.Value]bool{ph: true}
	var out []ssa.Value
	work := []*ssa.Phi{ph}
	for len(work) > 0 {
		p := work[len(work)-1]
		work = work[:len(work)-1]
		for _, e := range p.Edges {
			if seen[e] {
				continue
			}
			seen[e] = true
			out = append(out, e)
			if q, ok := e.(*ssa.Phi); ok {
				work = append(work, q)
			}
		}
	}
	return out
}

// rule1412 — ListMultipartUploads resumes at the marker and stops exactly once.
func rule1412(r *core.Run) {
	r.Rule("R14.12", "uploader.ListMultipartUploads: (a) with a marker the index iterator is positioned with Seek(marker.Object) before the listing loop advances it; (b) a page that stops inside a key's uploads names the upload AFTER the one listed last (index+1 of the same slice) as NextUploadIDMarker; (c) on every path from a store of NextKeyMarker to the final store of IsTruncated the stored flag is true; (d) once the continuation markers are stored no later store to them is reachable (the look-ahead runs only when the page did not stop inside a key, and stops at the first remaining key); (e) no marker store and no listed entry is reachable from a prefix match that failed without another match in between")
	fn := mustFunc(r, "gofakes3.(*uploader).ListMultipartUploads")
	if fn == nil {
		return
	}
	name := fname(r, fn)
	p0 := r.P.Pos(fn.Pos())
	var seek *ssa.Call
	var nexts, matches []*ssa.Call
	core.Instrs(fn, func(in ssa.Instruction) {
		c, ok := in.(*ssa.Call)
		if !ok {
			return
		}
		switch r.P.CalleeName(c) {
		case "goskipiter.(*Iterator).Seek":
			if len(c.Call.Args) > 1 && isLoadOf(r, core.Forward(stripIface(c.Call.Args[1])), "gofakes3.UploadListMarker.Object") {
				seek = c
			}
		case "goskipiter.(*Iterator).Next":
			nexts = append(nexts, c)
		case "gofakes3.(Prefix).Match":
			matches = append(matches, c)
		}
	})
	// (a)
	if seek == nil {
		r.Violated("R14.12", key(name, "Seek(marker.Object)"), p0, "the index iterator is never positioned at marker.Object: a continued upload listing restarts from the first key")
	} else {
		assume := map[ssa.Value]bool{}
		mp := paramNamed(fn, "marker")
		core.Instrs(fn, func(in ssa.Instruction) {
			b, ok := in.(*ssa.BinOp)
			if !ok || mp == nil {
				return
			}
			if (b.X == ssa.Value(mp) && core.IsNilConst(b.Y)) || (b.Y == ssa.Value(mp) && core.IsNilConst(b.X)) {
				switch b.Op {
				case token.NEQ:
					assume[b] = true
				case token.EQL:
					assume[b] = false
				}
			}
		})
		bad := ""
		for _, nx := range nexts {
			if core.ReachableTrackingFlags(nil, nx, assume, func(y ssa.Instruction) bool { return y == ssa.Instruction(seek) }) {
				bad = pos(r, nx)
				break
			}
		}
		r.Check(len(assume) > 0 && bad == "", "R14.12", key(name, "Seek(marker.Object)"), pos(r, seek), sprintf("every way into the listing loop with a marker passes the seek (%d Next call(s))", len(nexts)),
			"with a marker given the listing loop (Next at "+bad+") can be entered without Seek(marker.Object): the continued listing restarts from the first key")
	}
	nk := resultFieldStores(r, fn, "gofakes3.ListMultipartUploadsResult.NextKeyMarker")
	nu := resultFieldStores(r, fn, "gofakes3.ListMultipartUploadsResult.NextUploadIDMarker")
	// (b) the marker stored where an append to Uploads dominates it: the following upload of the same slice
	appends := resultFieldStores(r, fn, "gofakes3.ListMultipartUploadsResult.Uploads")
	nb := 0
	for _, m := range nu {
		inside := false
		var app *ssa.Store
		for _, a := range appends {
			if core.Dominates(a, m) {
				inside, app = true, a
			}
		}
		if !inside {
			continue
		}
		nb++
		// marker value: (*S[i+1]).ID ; listed entry: S[i]
		ok := false
		var ia *ssa.IndexAddr
		v := core.Forward(m.Val)
		if ld, isLd := v.(*ssa.UnOp); isLd && ld.Op == token.MUL {
			if fa, isFA := ld.X.(*ssa.FieldAddr); isFA {
				if ld2, isLd2 := fa.X.(*ssa.UnOp); isLd2 && ld2.Op == token.MUL {
					ia, _ = ld2.X.(*ssa.IndexAddr)
				}
			}
		}
		if ia != nil {
			if add, isAdd := ia.Index.(*ssa.BinOp); isAdd && add.Op == token.ADD {
				if k, isK := core.ConstInt(add.Y); isK && k == 1 {
					// the listed entry indexes the same slice with add.X
					s := r.P.SliceOf(app.Val, core.SliceOpts{Depth: 0})
					_ = s
					listed := false
					core.Instrs(fn, func(in ssa.Instruction) {
						if ia2, isIA := in.(*ssa.IndexAddr); isIA && ia2 != ia && ia2.X == ia.X && ia2.Index == add.X && core.Dominates(ia2, app) {
							listed = true
						}
					})
					ok = listed
				}
			}
		}
		r.Check(ok, "R14.12", key(name, "NextUploadIDMarker = the upload after the last listed", sprintf("#%d", nb)), pos(r, m), "uploads[idx+1] of the slice being listed",
			"where the page stops inside a key's uploads NextUploadIDMarker is not the upload following the one listed last (uploads[idx+1] of the same slice): the next page repeats or skips an upload")
	}
	if nb == 0 {
		r.Violated("R14.12", key(name, "NextUploadIDMarker inside a key"), p0, "no continuation marker is stored where a page stops inside a key's uploads")
	}
	// (c)
	var final *ssa.Store
	for _, st := range resultFieldStores(r, fn, "gofakes3.ListMultipartUploadsResult.IsTruncated") {
		final = st
	}
	if final != nil {
		for i, m := range nk {
			vals, ok := core.ValuesOnPaths(m, final, final.Val)
			bad := ""
			if !ok {
				bad = "exploration cut off"
			}
			for _, v := range vals {
				if c, isC := v.(*ssa.Const); !isC || c.Value == nil || c.Value.String() != "true" {
					bad = "can be " + v.String()
				}
			}
			if len(vals) == 0 {
				bad = "the IsTruncated store is not reached"
			}
			r.Check(bad == "", "R14.12", key(name, "markers ⇒ IsTruncated", sprintf("#%d", i+1)), pos(r, m), "IsTruncated is true on every path from the marker store",
				"after NextKeyMarker is stored the listing can still be reported not truncated (IsTruncated "+bad+"): the client stops and the remaining uploads are never listed")
		}
	}
	// (d)
	for i, m := range nk {
		bad := ""
		for _, m2 := range nk {
			if core.ReachableTrackingFlags(m, m2, map[ssa.Value]bool{}, nil) {
				bad = pos(r, m2)
			}
		}
		r.Check(bad == "", "R14.12", key(name, "markers stored once", sprintf("#%d", i+1)), pos(r, m), "no later marker store reachable",
			"after the continuation markers are stored a later store to them is reachable (at "+bad+"): the page's real stopping point is overwritten and the uploads in between are never listed")
	}
	// (e)
	ne := 0
	for _, mc := range matches {
		others := func(y ssa.Instruction) bool {
			c, ok := y.(*ssa.Call)
			return ok && c != mc && r.P.CalleeName(c) == "gofakes3.(Prefix).Match"
		}
		var sinks []ssa.Instruction
		for _, m := range nk {
			sinks = append(sinks, m)
		}
		for _, a := range appends {
			sinks = append(sinks, a)
		}
		bad := ""
		for _, s := range sinks {
			if core.ReachableTrackingFlags(mc, s, map[ssa.Value]bool{mc: false}, others) {
				bad = pos(r, s)
			}
		}
		ne++
		r.Check(bad == "", "R14.12", key(name, "failed match lists nothing", sprintf("#%d", ne)), pos(r, mc), "no entry or marker without a match",
			"a key that does not match the prefix can still be listed or become the continuation marker (at "+bad+")")
	}
	if ne < 2 {
		r.Unresolved("R14.12: %d prefix matches found in ListMultipartUploads (listing loop and look-ahead expected)", ne)
	}
}
