package rules

import (
	"os"
	"sort"

	"golang.org/x/tools/go/ssa"

	"gfs3check/internal/core"
	"gfs3check/internal/oblig"
)

func init() { Registry["C09"] = C09 }

// C09 — every request gets a well-formed answer; no panic, hang or wedge.
func C09(r *core.Run) {
	r.Explanation = "TODO"
	reach := reachableFrom(r, handlerRoots(r))
	r.Extra["handler_reachable_functions"] = len(reach)
	rule091bounds(r, reach)
}

func rule091bounds(r *core.Run, reach map[*ssa.Function]bool) {
	r.Rule("R09.1b", "every bounds check the compiler could not prove away, in a function reachable from the router, is discharged by a structural rule or a reviewed entry")
	sites, err := oblig.CompilerBounds(r.P)
	if err != nil {
		r.Unresolved("R09.1b: %v", err)
		return
	}
	ctx := oblig.NewCtx(r.P)
	debug := os.Getenv("GFS3_DEBUG") != ""
	var names []string
	for f := range reach {
		names = append(names, fname(r, f))
	}
	sort.Strings(names)
	for _, s := range sites {
		top := s.Fn
		if top == nil {
			r.Unresolved("R09.1b: site %s has no enclosing function", s.Pos())
			continue
		}
		inReach := reach[s.Fn]
		res := ctx.Discharge(s)
		k := key(fname(r, s.Fn), s.Check)
		if s.Instr != nil {
			x := baseOf(s.Instr)
			k = key(fname(r, s.Fn), s.Check, ctx.BaseDesc(x), ctx.IndexLeaves(s.Instr))
		} else {
			k = key(fname(r, s.Fn), s.Check, "call "+s.Callee)
		}
		if debug {
			println(s.Pos(), inReach, res.OK, res.Rule, k, res.Detail)
		}
		if !inReach {
			r.Info("R09.1b", k, s.Pos(), "not reachable from the router")
			continue
		}
		if res.OK {
			r.Held("R09.1b", k, s.Pos(), res.Rule+": "+res.Detail)
			continue
		}
		r.Violated("R09.1b", k, s.Pos(), "undischarged bounds obligation: "+res.Detail)
	}
}

func baseOf(in ssa.Instruction) ssa.Value {
	switch v := in.(type) {
	case *ssa.IndexAddr:
		return v.X
	case *ssa.Index:
		return v.X
	case *ssa.Lookup:
		return v.X
	case *ssa.Slice:
		return v.X
	}
	return nil
}
