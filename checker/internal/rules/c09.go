package rules

import (
	"fmt"
	"go/token"
	"go/types"
	"os"
	"sort"
	"strings"

	"golang.org/x/tools/go/ssa"

	"gfs3check/internal/core"
	"gfs3check/internal/inline"
	"gfs3check/internal/lockset"
	"gfs3check/internal/oblig"
)

func init() { Registry["C09"] = C09 }

// C09 — every request gets a well-formed answer; no panic, hang or wedge.
func C09(r *core.Run) {
	r.Explanation = "Every may-panic construct in code reachable from the router and the middlewares is enumerated and discharged: " +
		"(R09.1b) all bounds checks the Go compiler's prove pass could not remove (the compiler's own list, -d=ssa/check_bce) — by structural rules (guards on len, library post-conditions, induction variables, the Range() envelope) or by a reviewed table whose premises are re-checked; " +
		"(R09.1n) nilable fields (GoFakeS3.versioned, bucketObject.versions/data, iterator fields) are dereferenced only where established non-nil on every path; " +
		"(R09.1t) unchecked type assertions only on homogeneous skiplist classes; (R09.1p) explicit panics are in the reviewed table; (R09.1a) request-sized allocations are bounded; " +
		"(R09.2) every route switch has a default arm returning an S3 error and routeBase ends in NotFound; (R02.4) error funnel and status table; " +
		"(R09.4) locks released by explicit unlock protect only code with no undischarged obligation; (R09.6) each middleware answers or calls next exactly once; (R09.7) no blocking primitive in handler-reachable code; (R09.8) bolt transactions are closure-scoped (View/Update), never opened with Begin. (L1, shared) every mutex acquire is released on every path to every return: a lock kept on an error path hangs every later request on that backend. (L3, shared) the lock-order graph is acyclic: two requests cannot wait for each other forever."
	r.NotDecided = "panics inside dependencies (bbolt, afero, encoding/xml) on hostile data, nil results of backend calls and map lookups (heap invariants), memory exhaustion, slow-client hangs, non-terminating loops, the post-request canary"
	r.TrustedBase = append(r.TrustedBase, "gc's prove pass (completeness of the bounds-obligation list)", "library post-condition table (strings.Split*, strings.Index*, HasPrefix/HasSuffix, io.Reader.Read, sort.Slice comparator indices)", "reviewed discharge table in rules/c09.go")
	reach := reachableFrom(r, handlerRoots(r))
	r.Extra["handler_reachable_functions"] = len(reach)
	ctx := oblig.NewCtx(r.P)
	installNonNilHook(r, ctx)
	undischarged := rule091bounds(r, ctx, reach)
	rule091nil(r, ctx, reach)
	rule091assert(r, ctx, reach)
	rule091local(r, reach)
	rule091result(r, reach)
	rule091panic(r, ctx, reach)
	rule091alloc(r, ctx, reach)
	rule092(r)
	rule024(r)
	rule094(r, ctx, undischarged)
	lsa := newLockset(r)
	ruleL1(r, lsa)
	ruleL3(r, lsa)
	rule0212(r)
	rule096(r)
	rule097(r, reach)
	rule098(r)
	rule099(r)
}

// reviewed is one entry of the reviewed discharge table. Keys are structural
// (function, check kind, base descriptor, optional exact index-leaf set) —
// never a line or source text. premise re-checks what the review relied on.
type reviewed struct {
	fn, check, base string
	leaves          []string // if non-empty: the site's index leaf set must equal one of these
	why             string
	premise         func(r *core.Run, ctx *oblig.Ctx, s *oblig.Site) (bool, string)
}

var reviewedBounds = []reviewed{
	{fn: "gofakes3.(*chunkedReader).Read", check: "IsSliceInBounds", base: "param#1:[]byte",
		leaves: []string{
			"call:builtin:len;call:invoke:io.Reader.Read;const:0;param:[]byte",
			"call:builtin:len;call:invoke:io.Reader.Read;const:0;field:gofakes3.chunkedReader.chunkRemain;field:gofakes3.chunkedReader.inner;param:*gofakes3.chunkedReader;param:[]byte",
		},
		why: "loop invariant n+sizeToRead == len(p): branch 1 reads p[n:n+sizeToRead]; branch 2 is taken only when 0 < chunkRemain <= sizeToRead, so n+chunkRemain <= len(p). Both counters move by the delivered byte count (R12.1).",
		premise: func(r *core.Run, ctx *oblig.Ctx, s *oblig.Site) (bool, string) {
			// the slice must be on an arm guarded by chunkRemain > sizeToRead (branch 1) or chunkRemain > 0 on the else arm (branch 2)
			for _, f := range ctx.FactsAt(s.Instr) {
				if f.Op == token.GTR || f.Op == token.LEQ || f.Op == token.LSS || f.Op == token.GEQ {
					sx := r.P.SliceOfMany([]ssa.Value{f.X, f.Y}, core.SliceOpts{Depth: -1})
					if sx.Has("field:gofakes3.chunkedReader.chunkRemain") {
						return true, ""
					}
				}
			}
			return false, "the slice is no longer guarded by a comparison on chunkRemain"
		}},
	{fn: "gofakes3.metadataHeaders", check: "IsInBounds", base: "range-value",
		why: "header maps built by net/http and mime/multipart never map a key to an empty value slice",
		premise: func(r *core.Run, ctx *oblig.Ctx, s *oblig.Site) (bool, string) {
			for _, site := range r.P.StaticCallers(s.Fn) {
				sl := r.P.SliceOf(site.Common().Args[0], core.SliceOpts{Depth: -1})
				if !sl.Has("field:net/http.Request.Header") && !sl.Has("field:mime/multipart.Form.Value") {
					return false, "a caller at " + r.P.InstrPos(site) + " passes a header map that is not r.Header / r.MultipartForm.Value"
				}
			}
			return true, ""
		}},
	{fn: "gofakes3.(Prefix).Match", check: "IsSliceInBounds", base: "call:strings.Split",
		why: "matched counts iterations of a loop bounded by len(preParts), and len(keyParts) >= len(preParts) is established by the early return",
		premise: func(r *core.Run, ctx *oblig.Ctx, s *oblig.Site) (bool, string) {
			x := baseOf(s.Instr)
			for _, f := range ctx.FactsAt(s.Instr) {
				if f.Op != token.GEQ && f.Op != token.LEQ {
					continue
				}
				a, b := f.X, f.Y
				if f.Op == token.LEQ {
					a, b = b, a
				}
				if isLenOfVal(ctx, a, x) && isLenCall(b) {
					return true, ""
				}
			}
			return false, "the guard len(keyParts) >= len(preParts) no longer dominates the slice"
		}},
	{fn: "gofakes3.(*bucketUploads).remove", check: "IsSliceInBounds", base: "assert(result#0 of call:(*github.com/ryszard/goskiplist/skiplist.SkipList).Get)",
		why: "found is the range index over the same slice, or -1; the slice expressions are guarded by found >= 0",
		premise: func(r *core.Run, ctx *oblig.Ctx, s *oblig.Site) (bool, string) {
			sl := s.Instr.(*ssa.Slice)
			b := sl.High
			if b == nil {
				b = sl.Low
				if bo, ok := b.(*ssa.BinOp); ok && bo.Op == token.ADD {
					b = bo.X
				}
			}
			if lb, ok := ctx.LowerBound(b, sl); ok && lb >= 0 {
				return true, ""
			}
			return false, "the found >= 0 guard no longer dominates the slice"
		}},
	{fn: "gofakes3.(*uploader).ListMultipartUploads", check: "IsInBounds", base: "phi-of-index-values",
		leaves: []string{"const:-1;const:1"},
		why:    "uploads[idx+1] is reached only when idx != len(uploads)-1 inside a range over uploads, hence idx+1 < len(uploads)",
		premise: func(r *core.Run, ctx *oblig.Ctx, s *oblig.Site) (bool, string) {
			for _, f := range ctx.FactsAt(s.Instr) {
				if f.Op != token.NEQ {
					continue
				}
				for _, side := range []ssa.Value{f.X, f.Y} {
					if bo, ok := side.(*ssa.BinOp); ok && bo.Op == token.SUB && isLenCall(bo.X) {
						if k, ok := core.ConstInt(bo.Y); ok && k == 1 {
							return true, ""
						}
					}
				}
			}
			return false, "the idx != len(uploads)-1 guard no longer dominates the index"
		}},
	{fn: "gofakes3.(*uploader).ListMultipartUploads", check: "IsInBounds", base: "assert(call:goskipiter.(*Iterator).Value)",
		leaves: []string{"const:0"},
		why:    "the object index never maps a key to an empty slice (R14.4: remove deletes the key when the last upload goes, add always stores a non-empty slice)",
		premise: func(r *core.Run, ctx *oblig.Ctx, s *oblig.Site) (bool, string) {
			return indexNeverEmpty(r, ctx)
		}},
	{fn: "gofakes3.(*uploader).UploadPart", check: "IsInBounds", base: "field:gofakes3.multipartUpload.parts",
		why:     "every caller passes partNumber >= 1, and the slice is grown to partNumber+1 on the arm partNumber >= len(parts) immediately before",
		premise: premiseUploadPartIndex},
	{fn: "gofakes3.(*uploader).CompleteMultipartUpload", check: "IsInBounds", base: "field:gofakes3.multipartUpload.parts",
		why:     "same index expression as the validated site of the first loop over the same input.Parts; parts is not written in between",
		premise: premiseTwinSite},
	{fn: "s3mem.(*versionGenerator).Next", check: "IsSliceInBounds", base: "phi(make:[]byte,param#1:[]byte)",
		why: "scratch is re-made with length len(idb)+neat+1 whenever it is shorter, so len(idb)+1 <= len(scratch)",
		premise: func(r *core.Run, ctx *oblig.Ctx, s *oblig.Site) (bool, string) {
			x := baseOf(s.Instr)
			ph, ok := x.(*ssa.Phi)
			if !ok {
				return false, "scratch is no longer the merge of the parameter and a fresh make"
			}
			for _, e := range ph.Edges {
				if ms, ok := e.(*ssa.MakeSlice); ok {
					for _, g := range core.GuardsOf(ms) {
						cd := core.CondOf(g.If.Cond)
						if cd.Op == token.LSS && isLenCall(cd.X) && cd.Y == ms.Len && g.Branch {
							return true, ""
						}
					}
				}
			}
			return false, "the len(scratch) < scratchLen guard on the re-allocation is gone"
		}},
	{fn: "s3mem.(*versionGenerator).Next", check: "IsInBounds", base: "slice-of(phi(make:[]byte,param#1:[]byte))",
		why:     "b = scratch[len(idb)+1:] has at least neat bytes, neat is a multiple of 8 and the loop steps i by 8 below neat",
		premise: premiseStep8},
	{fn: "s3mem.(*versionGenerator).Next", check: "IsSliceInBounds", base: "slice-of(phi(make:[]byte,param#1:[]byte))",
		why:     "b[i:i+8] with b = scratch[len(idb)+1:] of at least neat bytes, neat a multiple of 8, i stepping by 8 below neat",
		premise: premiseStep8},
}

// premiseStep8: every index/bound of the site is i + k with 0 <= k <= 8 and i a
// loop variable stepped by 8.
func premiseStep8(r *core.Run, ctx *oblig.Ctx, s *oblig.Site) (bool, string) {
	var bounds []ssa.Value
	switch x := s.Instr.(type) {
	case *ssa.IndexAddr:
		bounds = append(bounds, x.Index)
	case *ssa.Slice:
		if x.Low != nil {
			bounds = append(bounds, x.Low)
		}
		if x.High != nil {
			bounds = append(bounds, x.High)
		}
	}
	if len(bounds) == 0 {
		return false, "no index operand"
	}
	for _, idx := range bounds {
		k := int64(0)
		if bo, ok := idx.(*ssa.BinOp); ok && bo.Op == token.ADD {
			if kk, ok := core.ConstInt(bo.Y); ok {
				idx, k = bo.X, kk
			}
		}
		maxK := int64(7)
		if _, isSlice := s.Instr.(*ssa.Slice); isSlice {
			maxK = 8
		}
		if k < 0 || k > maxK {
			return false, "byte offset outside 0.." + sprintf("%d", maxK)
		}
		ph, ok := idx.(*ssa.Phi)
		if !ok {
			return false, "index is not the loop variable (+ constant)"
		}
		step8 := false
		for _, e := range ph.Edges {
			if bo, ok := e.(*ssa.BinOp); ok && bo.Op == token.ADD && bo.X == ssa.Value(ph) {
				if kk, ok := core.ConstInt(bo.Y); ok && kk == 8 {
					step8 = true
				}
			}
		}
		if !step8 {
			return false, "loop variable is not stepped by 8"
		}
	}
	return true, ""
}

func isLenCall(v ssa.Value) bool {
	c, ok := v.(*ssa.Call)
	if !ok {
		return false
	}
	b, ok := c.Call.Value.(*ssa.Builtin)
	return ok && b.Name() == "len"
}

func isLenOfVal(ctx *oblig.Ctx, v, x ssa.Value) bool {
	c, ok := v.(*ssa.Call)
	if !ok || !isLenCall(v) {
		return false
	}
	return ctx.Equiv(c.Call.Args[0], x)
}

func premiseUploadPartIndex(r *core.Run, ctx *oblig.Ctx, s *oblig.Site) (bool, string) {
	fn := s.Fn
	pn := paramNamed(fn, "partNumber")
	if pn == nil {
		return false, "UploadPart has no partNumber parameter"
	}
	ia, ok := s.Instr.(*ssa.IndexAddr)
	if !ok || core.Forward(ia.Index) != ssa.Value(pn) {
		return false, "the index is not the partNumber parameter itself"
	}
	// all callers: partNumber >= 1
	n := 0
	for _, f := range r.P.RepoFuncs() {
		var bad string
		core.Instrs(f, func(in ssa.Instruction) {
			c, ok := in.(ssa.CallInstruction)
			if !ok {
				return
			}
			name := r.P.CalleeName(c)
			if name != "invoke:gofakes3.MultipartBackend.UploadPart" && core.StaticCallee(c) != fn {
				return
			}
			n++
			args := c.Common().Args
			arg := args[3]
			if !c.Common().IsInvoke() {
				arg = args[4]
			}
			if lb, ok := ctx.LowerBound(arg, c); !ok || lb < 1 {
				bad = "caller at " + r.P.InstrPos(c) + " does not establish partNumber >= 1"
			}
		})
		if bad != "" {
			return false, bad
		}
	}
	if n == 0 {
		return false, "no caller of UploadPart found"
	}
	// grow arm: a store to parts guarded by partNumber >= len(parts) dominates... (reaches) the index
	grown := false
	for _, st := range r.P.FieldStores("gofakes3.multipartUpload.parts") {
		if st.Parent() != fn {
			continue
		}
		for _, f := range ctx.FactsAt(st) {
			if f.Op == token.GEQ && core.Forward(f.X) == ssa.Value(pn) && isLenCall(f.Y) {
				sv := r.P.SliceOf(st.Val, core.SliceOpts{Depth: -1})
				if sv.HasValue(pn) && sv.Has("call:builtin:append") && core.Reaches(st, s.Instr) {
					grown = true
				}
			}
		}
	}
	if !grown {
		return false, "the parts slice is no longer grown on the arm partNumber >= len(parts) before the store"
	}
	return true, ""
}

// premiseTwinSite: another site in the same function with the same base and
// index leaves is discharged automatically, reaches this one, and the indexed
// field is not written in the function.
func premiseTwinSite(r *core.Run, ctx *oblig.Ctx, s *oblig.Site) (bool, string) {
	fnm := "gofakes3.multipartUpload.parts"
	for _, st := range r.P.FieldStores(fnm) {
		if st.Parent() == s.Fn {
			return false, "the function writes " + fnm
		}
	}
	want := ctx.IndexLeaves(s.Instr)
	found := false
	core.Instrs(s.Fn, func(in ssa.Instruction) {
		ia, ok := in.(*ssa.IndexAddr)
		if !ok || in == s.Instr {
			return
		}
		if ctx.BaseDesc(ia.X) != "field:"+fnm || ctx.IndexLeaves(ia) != want {
			return
		}
		lb, ok := ctx.LowerBound(ia.Index, ia)
		if ok && lb >= 0 && ctx.LessThanLen(ia.Index, ia.X, ia, true) && core.Reaches(ia, s.Instr) {
			found = true
		}
	})
	if !found {
		return false, "no validated twin of this index expression precedes it"
	}
	return true, ""
}

// indexNeverEmpty checks the structural form of "the upload index never maps a
// key to an empty slice" (R14.4).
func indexNeverEmpty(r *core.Run, ctx *oblig.Ctx) (bool, string) {
	setName := "(*github.com/ryszard/goskiplist/skiplist.SkipList).Set"
	ok := true
	why := ""
	n := 0
	for _, fn := range r.P.FuncsOfPkg("gofakes3") {
		for _, c := range r.P.CallsIn(fn, false, core.NameIs(setName)) {
			recv := r.P.SliceOf(c.Common().Args[0], core.SliceOpts{Depth: -1})
			if !recv.Has("field:gofakes3.bucketUploads.objectIndex") {
				continue
			}
			n++
			name := fname(r, fn)
			if name != "gofakes3.(*bucketUploads).add" && name != "gofakes3.(*bucketUploads).remove" {
				ok, why = false, "objectIndex.Set is called outside add/remove, in "+name
				continue
			}
			// value stored: MakeInterface of a slice whose length is provably >= 1
			v := c.Common().Args[2]
			if mi, isMI := v.(*ssa.MakeInterface); isMI {
				v = mi.X
			}
			if !sliceNonEmpty(ctx, v, c.(ssa.Instruction), 0) {
				ok, why = false, "objectIndex.Set in "+name+" may store an empty slice (at "+r.P.InstrPos(c.(ssa.Instruction))+")"
			}
		}
	}
	if n < 2 {
		return false, "fewer than two objectIndex.Set sites found"
	}
	return ok, why
}

// sliceNonEmpty: len(v) >= 1 at `at`.
func sliceNonEmpty(ctx *oblig.Ctx, v ssa.Value, at ssa.Instruction, d int) bool {
	if d > 4 {
		return false
	}
	// guard: len(v) != 0 / > 0 at the use
	for _, f := range ctx.FactsAt(at) {
		var l, o ssa.Value
		if isLenOfVal(ctx, f.X, v) {
			l, o = f.X, f.Y
		} else if isLenOfVal(ctx, f.Y, v) {
			l, o = f.Y, f.X
		}
		if l == nil {
			continue
		}
		if k, ok := core.ConstInt(o); ok && k == 0 && (f.Op == token.NEQ || (f.Op == token.GTR && l == f.X) || (f.Op == token.LSS && l == f.Y)) {
			return true
		}
	}
	switch x := v.(type) {
	case *ssa.MakeInterface:
		return sliceNonEmpty(ctx, x.X, at, d+1)
	case *ssa.Phi:
		for _, e := range x.Edges {
			if !sliceNonEmpty(ctx, e, at, d+1) {
				return false
			}
		}
		return true
	case *ssa.Call:
		if b, ok := x.Call.Value.(*ssa.Builtin); ok && b.Name() == "append" && len(x.Call.Args) == 2 {
			if sl, ok := x.Call.Args[1].(*ssa.Slice); ok && sl.Low == nil && sl.High == nil {
				if pt, ok := sl.X.Type().Underlying().(*types.Pointer); ok {
					if at, ok := pt.Elem().Underlying().(*types.Array); ok && at.Len() >= 1 {
						return true
					}
				}
			}
		}
	case *ssa.Slice:
		// slice of a literal array [k]T with k >= 1 and no bounds
		if x.Low == nil && x.High == nil {
			if pt, ok := x.X.Type().Underlying().(*types.Pointer); ok {
				if at, ok := pt.Elem().Underlying().(*types.Array); ok && at.Len() >= 1 {
					return true
				}
			}
		}
	}
	return false
}

func rule091bounds(r *core.Run, ctx *oblig.Ctx, reach map[*ssa.Function]bool) map[*ssa.Function][]string {
	r.Rule("R09.1b", "every bounds check the compiler could not prove away, in a function reachable from the router, is discharged by a structural rule or by a reviewed entry whose premises hold")
	und := boundsRule(r, ctx, "R09.1b", reach)
	r.Floor("R09.1b", 30, "compiler-reported bounds sites in handler-reachable code")
	return und
}

// boundsRule discharges the compiler-reported bounds sites of the functions in
// scope under the given rule id (shared by C09, C06, C14).
func boundsRule(r *core.Run, ctx *oblig.Ctx, ruleID string, reach map[*ssa.Function]bool) map[*ssa.Function][]string {
	und := map[*ssa.Function][]string{}
	if len(r.P.ExtraEnv) > 0 {
		// the compiler's bounds list is imported for the host configuration only
		r.Info(ruleID, "bounds list not imported for "+strings.Join(r.P.ExtraEnv, " "), "", "host-only obligation source")
		r.SkipFloor(ruleID)
		return und
	}
	sites, err := oblig.CompilerBounds(r.P)
	if err != nil {
		r.Unresolved("R09.1b: %v", err)
		return und
	}
	debug := os.Getenv("GFS3_DEBUG") != ""
	envelopeOK := -1
	nSites := 0
	for _, s := range sites {
		if s.Fn == nil && s.Expanded {
			// a call the checker expanded inside a helper that was itself expanded everywhere and
			// dropped: the helper's own sites are mapped to the expanded copies
			continue
		}
		if s.Fn == nil {
			r.Unresolved("R09.1b: site %s has no enclosing function", s.Pos())
			continue
		}
		nSites++
		res := ctx.Discharge(s)
		var k, base, leaves string
		if s.Instr != nil {
			base = ctx.BaseDesc(baseOf(s.Instr))
			if strings.HasPrefix(base, "phi(assert(call:goskipiter") {
				base = "phi-of-index-values"
			}
			leaves = ctx.IndexLeaves(s.Instr)
			k = key(fname(r, s.Fn), s.Check, base, leaves)
		} else {
			k = key(fname(r, s.Fn), s.Check, "call "+s.Callee)
		}
		if !reach[s.Fn] {
			if ruleID == "R09.1b" {
				r.Info(ruleID, k, s.Pos(), "not reachable from the router")
			}
			continue
		}
		if !res.OK && s.Instr != nil {
			// Range() envelope
			if ok, why := envelopeSite(r, ctx, s); ok {
				if envelopeOK < 0 {
					envelopeOK = 0
					if rule111(r, ctx) {
						envelopeOK = 1
					}
				}
				if envelopeOK == 1 {
					res = oblig.Result{OK: true, Rule: "range-envelope", Detail: why}
				} else {
					res.Detail = "depends on the Range() envelope (R11.1), which does not hold"
				}
			}
		}
		if !res.OK && s.Instr != nil {
			for _, rv := range reviewedBounds {
				if rv.fn != fname(r, s.Fn) || rv.check != s.Check || rv.base != base {
					continue
				}
				if len(rv.leaves) > 0 && !has(rv.leaves, leaves) {
					continue
				}
				if rv.premise != nil {
					ok, why := rv.premise(r, ctx, s)
					if !ok {
						res.Detail = "reviewed entry applies but its premise no longer holds: " + why
						continue
					}
				}
				res = oblig.Result{OK: true, Rule: "reviewed", Detail: rv.why}
				break
			}
		}
		if debug {
			println(s.Pos(), res.OK, res.Rule, k, res.Detail)
		}
		if res.OK {
			r.Held(ruleID, k, s.Pos(), res.Rule+": "+res.Detail)
			continue
		}
		und[s.Fn] = append(und[s.Fn], s.Pos())
		r.Violated(ruleID, k, s.Pos(), "undischarged bounds obligation in "+fname(r, s.Fn)+": "+res.Detail)
	}
	r.Extra["compiler_bounds_sites"] = nSites
	return und
}

// envelopeSite: data[rnge.Start : rnge.Start+rnge.Length] with rnge the
// non-nil result of Range(sz) and sz the length of data.
func envelopeSite(r *core.Run, ctx *oblig.Ctx, s *oblig.Site) (bool, string) {
	sl, ok := s.Instr.(*ssa.Slice)
	if !ok || sl.Low == nil || sl.High == nil {
		return false, ""
	}
	rangeFn := r.P.Func("gofakes3.(*ObjectRangeRequest).Range")
	fieldOf := func(v ssa.Value, field string) ssa.Value {
		ld, ok := v.(*ssa.UnOp)
		if !ok || ld.Op != token.MUL {
			return nil
		}
		fa, ok := ld.X.(*ssa.FieldAddr)
		if !ok || r.P.FieldName(fa) != field {
			return nil
		}
		return fa.X
	}
	b1 := fieldOf(sl.Low, "gofakes3.ObjectRange.Start")
	hi, ok := sl.High.(*ssa.BinOp)
	if b1 == nil || !ok || hi.Op != token.ADD {
		return false, ""
	}
	b2 := fieldOf(hi.X, "gofakes3.ObjectRange.Start")
	b3 := fieldOf(hi.Y, "gofakes3.ObjectRange.Length")
	if b2 == nil || b3 == nil {
		return false, ""
	}
	var call *ssa.Call
	rngOf := func(v ssa.Value) *ssa.Call {
		if ph, ok := v.(*ssa.Phi); ok {
			var c *ssa.Call
			for _, e := range ph.Edges {
				if core.IsNilConst(e) {
					continue
				}
				ex, ok := e.(*ssa.Extract)
				if !ok {
					return nil
				}
				cc, ok := ex.Tuple.(*ssa.Call)
				if !ok || (c != nil && c != cc) {
					return nil
				}
				c = cc
			}
			return c
		}
		if ex, ok := v.(*ssa.Extract); ok && ex.Index == 0 {
			c, _ := ex.Tuple.(*ssa.Call)
			return c
		}
		return nil
	}
	call = rngOf(b1)
	if call == nil || rngOf(b2) != call || rngOf(b3) != call || core.StaticCallee(call) != rangeFn {
		return false, ""
	}
	// non-nil guard on the range value
	guarded := false
	for _, f := range ctx.FactsAt(sl) {
		if f.Op == token.NEQ && (core.IsNilConst(f.Y) && rngOf(f.X) == call || core.IsNilConst(f.X) && rngOf(f.Y) == call) {
			guarded = true
		}
	}
	if !guarded {
		return false, ""
	}
	// size argument = len(data)
	sz := call.Call.Args[1]
	x := oblig.ResolveLocal(sl.X)
	if cv, ok := sz.(*ssa.Convert); ok && isLenOfVal(ctx, cv.X, x) {
		return true, "data[Start:Start+Length] with the non-nil result of Range(len(data)): 0<=Start, Start+Length<=len(data) by the envelope R11.1"
	}
	// bolt: Range(b.Size) with the reviewed premise Size == len(Contents) at every marshal site
	szl := r.P.SliceOf(sz, core.SliceOpts{Depth: -1})
	if szl.Has("field:s3bolt.boltObject.Size") && ctx.BaseDesc(x) == "field:s3bolt.boltObject.Contents" {
		if ok, _ := boltSizeIsLen(r, ctx); ok {
			return true, "data[Start:Start+Length] with the non-nil result of Range(b.Size); Size is written as len(Contents) at the only marshal site"
		}
	}
	return false, ""
}

// boltSizeIsLen: every boltObject literal that is marshalled sets Size to
// int64(len(c)) for the same c stored in Contents.
func boltSizeIsLen(r *core.Run, ctx *oblig.Ctx) (bool, string) {
	n := 0
	for _, st := range r.P.FieldStores("s3bolt.boltObject.Size") {
		fa := st.Addr.(*ssa.FieldAddr)
		var contents ssa.Value
		for _, cs := range r.P.FieldStores("s3bolt.boltObject.Contents") {
			if cs.Addr.(*ssa.FieldAddr).X == fa.X {
				contents = cs.Val
			}
		}
		n++
		cv, ok := st.Val.(*ssa.Convert)
		if contents == nil || !ok || !isLenOfVal(ctx, cv.X, contents) {
			return false, "boltObject.Size is stored at " + r.P.InstrPos(st) + " as something other than int64(len(Contents))"
		}
	}
	if n == 0 {
		return false, "no store to boltObject.Size found"
	}
	return true, ""
}

// ---------------------------------------------------------------- nil

type nilableField struct {
	field  string
	derefs string // what counts as a dereference: "invoke" (interface method call), "method" (call with it as receiver / field access)
	why    string
}

var nilableFields = []nilableField{
	{"gofakes3.GoFakeS3.versioned", "invoke", "nil when the backend is not versioned or WithoutVersioning is set"},
	{"s3mem.bucketObject.versions", "method", "nil until the first version is archived"},
	{"s3mem.bucketObjectIterator.iter", "invoke", "nil for objects without archived versions and after exhaustion"},
	{"s3mem.bucketObjectIterator.data", "method", "nil once the current version has been yielded"},
	{"s3mem.bucketObject.data", "method", "current version (must never be nil while the object is in the bucket)"},
}

func rule091nil(r *core.Run, ctx *oblig.Ctx, reach map[*ssa.Function]bool) {
	r.Rule("R09.1n", "a value loaded from a nilable field is dereferenced (interface call, method call, field access) only where a guard or a non-nil store establishes it non-nil on every path; bucketObject.data is non-nil-invariant (every store non-nil, every new bucketObject gets data before it is reachable)")
	p := r.P
	// bucketObject.data invariant
	dataInvariant := true
	for _, st := range p.FieldStores("s3mem.bucketObject.data") {
		ok := ctx.NonNilValue(st.Val, st, 0)
		if !ok {
			dataInvariant = false
		}
		r.Check(ok, "R09.1n", key(fname(r, st.Parent()), "store bucketObject.data"), pos(r, st), "stores a provably non-nil version",
			"a possibly-nil value is stored into bucketObject.data: the key stays listed with no current version and GET/LIST dereference it")
	}
	// every allocation of bucketObject that leaves data unset is followed by a store on all paths to exit
	for _, fn := range p.FuncsOfPkg("s3mem") {
		f := fn
		core.Instrs(fn, func(in ssa.Instruction) {
			a, ok := in.(*ssa.Alloc)
			if !ok || !isNamed(r, a.Type(), "s3mem", "bucketObject") {
				return
			}
			setInLit := false
			for _, ref := range *a.Referrers() {
				if fa, ok := ref.(*ssa.FieldAddr); ok && p.FieldName(fa) == "s3mem.bucketObject.data" {
					for _, u := range *fa.Referrers() {
						if st, ok := u.(*ssa.Store); ok && core.Dominates(a, st) && st.Block() == a.Block() {
							setInLit = true
						}
					}
				}
			}
			if setInLit {
				r.Held("R09.1n", key(fname(r, f), "new bucketObject"), pos(r, a), "data set in the literal")
				return
			}
			// must-pass-through: every return reachable from the alloc passes a store to bucketObject.data
			okAll := true
			for _, ret := range core.Returns(f) {
				if !core.Reaches(a, ret) {
					continue
				}
				if core.ReachesAvoiding(a, ret, func(x ssa.Instruction) bool {
					st, ok := x.(*ssa.Store)
					if !ok {
						return false
					}
					fa, ok := st.Addr.(*ssa.FieldAddr)
					return ok && p.FieldName(fa) == "s3mem.bucketObject.data" && ctx.NonNilValue(st.Val, st, 0)
				}) {
					okAll = false
				}
			}
			if !okAll {
				dataInvariant = false
			}
			r.Check(okAll, "R09.1n", key(fname(r, f), "new bucketObject"), pos(r, a), "data is stored on every path before the function returns",
				"a bucketObject is created and may be left without a current version")
		})
	}
	// dereferences
	count := map[string]int{}
	for _, nf := range nilableFields {
		for _, ldv := range p.FieldLoads(nf.field) {
			ld, ok := ldv.(*ssa.UnOp)
			if !ok {
				continue
			}
			fn := ld.Parent()
			refs := ld.Referrers()
			if refs == nil {
				continue
			}
			for _, u := range *refs {
				deref := ""
				switch x := u.(type) {
				case ssa.CallInstruction:
					cc := x.Common()
					if cc.IsInvoke() && cc.Value == ssa.Value(ld) {
						deref = "interface call ." + cc.Method.Name()
					} else if !cc.IsInvoke() && len(cc.Args) > 0 && cc.Args[0] == ssa.Value(ld) && cc.Signature().Recv() != nil {
						deref = "method call " + p.CalleeName(x)
					}
				case *ssa.FieldAddr:
					if x.X == ssa.Value(ld) {
						deref = "field access ." + strings.TrimPrefix(p.FieldName(x), "s3mem.bucketData.")
					}
				}
				if deref == "" {
					continue
				}
				count[nf.field]++
				k := key(fname(r, fn), "deref "+nf.field, deref, sprintf("#%d", count[fname(r, fn)+nf.field+deref]))
				count[fname(r, fn)+nf.field+deref]++
				if nf.field == "s3mem.bucketObject.data" && dataInvariant {
					r.Held("R09.1n", k, pos(r, u), "bucketObject.data is non-nil-invariant")
					continue
				}
				ok := ctx.NonNilLoad(ld)
				if !ok {
					// a guard directly on this loaded value
					ok = ctx.NonNilValue(ld, u, 5)
				}
				r.Check(ok, "R09.1n", k, pos(r, u), "established non-nil on every path",
					sprintf("%s of a value loaded from %s (%s) without a nil guard on every path", deref, nf.field, nf.why))
			}
		}
	}
	// constructor post-conditions: log, timeSource, uploader non-nil when New returns
	if nw := mustFunc(r, "gofakes3.New"); nw != nil {
		for _, ret := range core.Returns(nw) {
			base := ret.Results[0]
			st, _ := deref2(base.Type()).Underlying().(*types.Struct)
			for _, f := range []string{"log", "timeSource", "uploader"} {
				idx := -1
				for i := 0; st != nil && i < st.NumFields(); i++ {
					if st.Field(i).Name() == f {
						idx = i
					}
				}
				ok := idx >= 0 && ctx.NonNilFieldAt(ret, base, idx, "gofakes3.GoFakeS3."+f)
				r.Check(ok, "R09.1n", key(fname(r, nw), "postcondition "+f+" != nil"), pos(r, ret), "non-nil when New returns",
					"GoFakeS3."+f+" may be nil when New returns: every handler dereferences it")
			}
		}
	}
	r.Floor("R09.1n", 25, "nil obligations")
}

func deref2(t types.Type) types.Type {
	if pt, ok := t.Underlying().(*types.Pointer); ok {
		return pt.Elem()
	}
	return t
}

// ---------------------------------------------------------------- type assertions

type skipClass struct {
	field    string
	key, val string // expected dynamic types (TypeShort)
}

var skipClasses = []skipClass{
	{"s3mem.bucket.objects", "string", "*s3mem.bucketObject"},
	{"s3mem.bucketObject.versions", "gofakes3.VersionID", "*s3mem.bucketData"},
	{"gofakes3.bucketUploads.objectIndex", "string", "[]*gofakes3.multipartUpload"},
}

// classOf resolves the skiplist class of a receiver (a *SkipList or an
// iterator derived from one) by the field the skiplist was loaded from.
func classOf(r *core.Run, recv ssa.Value) *skipClass {
	s := r.P.SliceOf(recv, core.SliceOpts{Depth: 2, HeapFields: true, StopAt: func(v ssa.Value) bool {
		// do not walk from one class into another through the element values
		if ta, ok := v.(*ssa.TypeAssert); ok {
			_ = ta
			return true
		}
		return false
	}})
	var found *skipClass
	n := 0
	for i := range skipClasses {
		if s.Has("field:" + skipClasses[i].field) {
			found = &skipClasses[i]
			n++
		}
	}
	if n == 1 {
		return found
	}
	return nil
}

// producerOf finds the skiplist/iterator call that produced an interface value
// (Get/Delete/Value/Key result), through Extract and phi-free copies.
func producerOf(r *core.Run, v ssa.Value) *ssa.Call {
	for i := 0; i < 4; i++ {
		switch x := v.(type) {
		case *ssa.Extract:
			v = x.Tuple
		case *ssa.Call:
			name := r.P.CalleeName(x)
			if strings.Contains(name, "skiplist.") || strings.Contains(name, "goskipiter.") || strings.HasPrefix(name, "invoke:github.com/ryszard/goskiplist/skiplist.Iterator") {
				return x
			}
			return nil
		default:
			return nil
		}
	}
	return nil
}

func rule091assert(r *core.Run, ctx *oblig.Ctx, reach map[*ssa.Function]bool) {
	r.Rule("R09.1t", "every type assertion without comma-ok in handler-reachable code asserts exactly the key/value type of a homogeneous skiplist class, and every Set/Get/Delete/Seek on that class passes keys and values of those types")
	p := r.P
	// homogeneity of the classes
	for _, fn := range p.RepoFuncs() {
		f := fn
		core.Instrs(fn, func(in ssa.Instruction) {
			c, ok := in.(ssa.CallInstruction)
			if !ok {
				return
			}
			name := p.CalleeName(c)
			if !strings.Contains(name, "skiplist.") && !strings.Contains(name, "goskipiter.") && !strings.HasPrefix(name, "invoke:github.com/ryszard/goskiplist/skiplist.Iterator") {
				return
			}
			m := name[strings.LastIndex(name, ".")+1:]
			if m != "Set" && m != "Get" && m != "Delete" && m != "Seek" {
				return
			}
			args := core.Args(c)
			cl := classOf(r, args[0])
			if cl == nil {
				return
			}
			var dyn func(v ssa.Value) string
			dyn = func(v ssa.Value) string {
				if mi, ok := v.(*ssa.MakeInterface); ok {
					return p.TypeShort(mi.X.Type())
				}
				if ph, ok := v.(*ssa.Phi); ok {
					t := ""
					for _, e := range ph.Edges {
						et := dyn(e)
						if t != "" && et != t {
							return "?mixed"
						}
						t = et
					}
					return t
				}
				// a key taken from the same class' iterator
				if c2, ok := v.(*ssa.Call); ok && strings.HasSuffix(p.CalleeName(c2), ".Key") {
					if classOf(r, core.Args(c2)[0]) == cl {
						return cl.key
					}
				}
				return "?" + p.TypeShort(v.Type())
			}
			if len(args) >= 2 {
				kt := dyn(args[1])
				r.Check(kt == cl.key, "R09.1t", key(fname(r, f), m+" key on "+cl.field, sprintf("%d", core.InstrIndex(in))), pos(r, in), "key type "+kt, "key of dynamic type "+kt+" passed to a skiplist whose keys are "+cl.key+": comparator / readers assert "+cl.key)
			}
			if m == "Set" && len(args) >= 3 {
				vt := dyn(args[2])
				r.Check(vt == cl.val, "R09.1t", key(fname(r, f), "Set value on "+cl.field, sprintf("%d", core.InstrIndex(in))), pos(r, in), "value type "+vt, "value of dynamic type "+vt+" stored into a skiplist whose readers assert "+cl.val)
			}
		})
	}
	// the assertions
	n := 0
	for _, fn := range p.RepoFuncs() {
		if !reach[fn] {
			continue
		}
		f := fn
		core.Instrs(fn, func(in ssa.Instruction) {
			ta, ok := in.(*ssa.TypeAssert)
			if !ok || ta.CommaOk {
				return
			}
			n++
			at := p.TypeShort(ta.AssertedType)
			k := key(fname(r, f), "assert "+at, sprintf("#%d", n))
			// comparator parameters of a custom map: class = the skiplist the closure is the comparator of
			if par, ok := ta.X.(*ssa.Parameter); ok && f.Parent() != nil {
				okc := false
				core.Instrs(f.Parent(), func(pi ssa.Instruction) {
					if c, ok := pi.(*ssa.Call); ok && p.CalleeName(c) == "github.com/ryszard/goskiplist/skiplist.NewCustomMap" {
						var lit ssa.Value = c.Call.Args[0]
						if mc, ok := lit.(*ssa.MakeClosure); ok {
							lit = mc.Fn
						}
						if lit == ssa.Value(f) {
							// where is the map stored
							for _, ref := range *c.Referrers() {
								if st, ok := ref.(*ssa.Store); ok {
									if fa, ok := st.Addr.(*ssa.FieldAddr); ok {
										for _, cl := range skipClasses {
											if cl.field == p.FieldName(fa) && cl.key == at {
												okc = true
											}
										}
									}
								}
							}
						}
					}
				})
				_ = par
				r.Check(okc, "R09.1t", k, pos(r, ta), "comparator of a class whose keys are "+at, "comparator asserts "+at+" but the skiplist it orders is not a class with that key type")
				return
			}
			// statically safe interface-to-interface upcast (method value of an embedded interface)
			if it, ok := ta.X.Type().Underlying().(*types.Interface); ok {
				if jt, ok := ta.AssertedType.Underlying().(*types.Interface); ok && types.Implements(it, jt) {
					r.Held("R09.1t", k, pos(r, ta), "interface upcast that the static type guarantees")
					return
				}
			}
			var cl *skipClass
			prod := producerOf(r, ta.X)
			if prod != nil {
				cl = classOf(r, core.Args(prod)[0])
			}
			if cl == nil {
				r.Violated("R09.1t", k, pos(r, ta), "unchecked type assertion to "+at+" on a value that is not from a known homogeneous skiplist class: it panics if the dynamic type differs")
				return
			}
			want := cl.val
			if strings.HasSuffix(p.CalleeName(prod), ".Key") {
				want = cl.key
			}
			r.Check(at == want, "R09.1t", k, pos(r, ta), "asserts "+at+" on class "+cl.field, "asserts "+at+" but class "+cl.field+" holds "+want)
			// a lookup that can miss hands back a nil interface: asserting it panics, so the assertion
			// must sit on the side where the lookup reported 'found' (or the value was tested non-nil)
			pn := p.CalleeName(prod)
			if (strings.HasSuffix(pn, ".Get") || strings.HasSuffix(pn, ".Delete")) && prod.Value() != nil && prod.Value().Type() != nil {
				if tup, ok := prod.Value().Type().(*types.Tuple); ok && tup.Len() == 2 {
					found := false
					for _, ec := range expandedConds(ta) {
						cd := core.CondOf(ec.cond)
						val := ec.truth != cd.Neg
						if ex, ok := cd.X.(*ssa.Extract); ok && ex.Tuple == prod.Value() && ex.Index == 1 && (cd.Op == 0 || cd.Op == token.ILLEGAL) && val {
							found = true
						}
						// value != nil
						if (cd.Op == token.NEQ || cd.Op == token.EQL) && (core.IsNilConst(cd.X) || core.IsNilConst(cd.Y)) {
							other := cd.X
							if core.IsNilConst(cd.X) {
								other = cd.Y
							}
							if other == ta.X && (ec.truth != cd.Neg) == (cd.Op == token.NEQ) {
								found = true
							}
						}
					}
					r.Check(found, "R09.1t", key(fname(r, f), "assert "+at+" only after a successful lookup", sprintf("#%d", n)), pos(r, ta), "guarded by the lookup's ok / a non-nil test",
						"the result of "+pn+" is asserted to "+at+" on a path where the lookup may have missed: a nil interface is asserted and the request panics")
				}
			}
		})
	}
	r.Floor("R09.1t", 20, "assertions + class operations")
}

// ---------------------------------------------------------------- explicit panics

func rule091panic(r *core.Run, ctx *oblig.Ctx, reach map[*ssa.Function]bool) {
	r.Rule("R09.1p", "every explicit panic reachable from the router is in the reviewed table and its premise holds")
	n := 0
	for _, fn := range r.P.RepoFuncs() {
		f := fn
		core.Instrs(fn, func(in ssa.Instruction) {
			pn, ok := in.(*ssa.Panic)
			if !ok {
				return
			}
			n++
			name := fname(r, f)
			if !reach[f] {
				r.Info("R09.1p", key(name, "panic"), pos(r, pn), "not reachable from the router")
				return
			}
			switch name {
			case "s3afero.(*MultiBucketBackend).getBucketWithArbitraryPrefixLocked$1":
				// premise: reached only for non-directories (dirs and errors return first), guarded by len(parts) != 2
				// where parts = SplitN(ToSlash(path), "/", 2) and the walk root is the bucket directory
				okPrem := false
				for _, f2 := range ctx.FactsAt(pn) {
					if f2.Op == token.NEQ && isLenCall(f2.X) {
						if k, ok := core.ConstInt(f2.Y); ok && k == 2 {
							okPrem = true
						}
					}
				}
				dirGuard := false
				for _, f2 := range ctx.FactsAt(pn) {
					if f2.Bool != nil && !f2.Truth {
						if c, ok := f2.Bool.(*ssa.Call); ok && strings.HasSuffix(r.P.CalleeName(c), ".IsDir") {
							dirGuard = true
						}
					}
				}
				r.Check(okPrem && dirGuard, "R09.1p", key(name, "panic"), pos(r, pn),
					"reviewed: afero.Walk is rooted at the bucket directory and the callback returns early for directories, so every visited file path has the form bucket/key",
					"the 'unexpected path' panic lost its premises (len(parts) != 2 guard after the IsDir early return)")
			default:
				r.Violated("R09.1p", key(name, "panic"), pos(r, pn), "explicit panic reachable from the router is not in the reviewed table")
			}
		})
	}
	if n == 0 {
		r.Unresolved("R09.1p: no panic instruction found at all (positive control: goskipiter.Previous and the Walk callback contain one)")
	}
}

// ---------------------------------------------------------------- allocations

func rule091alloc(r *core.Run, ctx *oblig.Ctx, reach map[*ssa.Function]bool) {
	r.Rule("R09.1a", "every make([]T, n[, m]) in handler-reachable code has sizes that are constants, len-derived, or guarded 0 <= n <= constant bound")
	n := 0
	for _, fn := range r.P.RepoFuncs() {
		if !reach[fn] {
			continue
		}
		f := fn
		core.Instrs(fn, func(in ssa.Instruction) {
			ms, ok := in.(*ssa.MakeSlice)
			if !ok {
				return
			}
			for i, sz := range []ssa.Value{ms.Len, ms.Cap} {
				if sz == nil {
					continue
				}
				if _, ok := core.ConstInt(sz); ok {
					continue
				}
				n++
				k := key(fname(r, f), "make", []string{"len", "cap"}[i], p2(r, ms))
				// len-derived: the only non-constant leaves are len() results
				s := r.P.SliceOf(sz, core.SliceOpts{Depth: 2, StopAt: func(v ssa.Value) bool { return isLenCall(v) }})
				lenOnly := true
				for l := range s.Leaves {
					if strings.HasPrefix(l, "const:") || strings.HasPrefix(l, "op:") || strings.HasPrefix(l, "stop:") || strings.HasPrefix(l, "via:") {
						continue
					}
					lenOnly = false
				}
				if lenOnly {
					r.Held("R09.1a", k, pos(r, ms), "size derives only from len() of existing data and constants")
					continue
				}
				lb, okLB := ctx.LowerBound(sz, ms)
				ub := upperConst(ctx, sz, ms)
				if okLB && lb >= 0 && ub {
					r.Held("R09.1a", k, pos(r, ms), "0 <= size and size <= constant by dominating guards")
					continue
				}
				// reviewed
				switch fname(r, f) {
				case "gofakes3.(*uploader).UploadPart":
					pn := paramNamed(f, "partNumber")
					if pn != nil && upperConst(ctx, pn, ms) && ctx.Holds(ms, pn, token.GEQ, lenArgOf(sz)) {
						r.Held("R09.1a", k, pos(r, ms), "reviewed: partNumber <= MaxUploadPartNumber and partNumber >= len(parts) on this arm, so 1 <= size <= 10001")
						continue
					}
				case "s3mem.(*versionGenerator).Next":
					if !s.HasPrefix("param:") || onlyInternal(s) {
						r.Held("R09.1a", k, pos(r, ms), "reviewed: size derives from the generator's own constants (30-digit id + neat + 1)")
						continue
					}
				}
				r.Violated("R09.1a", k, pos(r, ms), "allocation size is not constant, not len-derived and not bounded by dominating guards (a request-controlled value can panic or exhaust memory)")
			}
		})
	}
	r.Floor("R09.1a", 5, "non-constant allocations")
}

func p2(r *core.Run, in ssa.Instruction) string { return r.P.TypeShort(in.(ssa.Value).Type()) }

func onlyInternal(s *core.Slice) bool {
	for l := range s.Leaves {
		if strings.HasPrefix(l, "param:") && !strings.Contains(l, "versionGenerator") {
			return false
		}
	}
	return true
}

// lenArgOf finds a len(...) call inside v (for the reviewed UploadPart entry).
func lenArgOf(v ssa.Value) ssa.Value {
	var found ssa.Value
	var walk func(x ssa.Value, d int)
	walk = func(x ssa.Value, d int) {
		if found != nil || d > 4 {
			return
		}
		if isLenCall(x) {
			found = x
			return
		}
		if bo, ok := x.(*ssa.BinOp); ok {
			walk(bo.X, d+1)
			walk(bo.Y, d+1)
		}
	}
	walk(v, 0)
	return found
}

// upperConst: v <= constant (or <) by a dominating guard.
func upperConst(ctx *oblig.Ctx, v ssa.Value, at ssa.Instruction) bool {
	for _, f := range ctx.FactsAt(at) {
		a, b, op := f.X, f.Y, f.Op
		if ctx.Equiv(b, v) {
			a, b = b, a
			switch op {
			case token.LSS:
				op = token.GTR
			case token.GTR:
				op = token.LSS
			case token.LEQ:
				op = token.GEQ
			case token.GEQ:
				op = token.LEQ
			}
		} else if !ctx.Equiv(a, v) {
			continue
		}
		if _, ok := core.ConstInt(b); ok && (op == token.LSS || op == token.LEQ || op == token.EQL) {
			return true
		}
	}
	return false
}

// ---------------------------------------------------------------- routing

func rule092(r *core.Run) {
	r.Rule("R09.2", "every route function dispatching on r.Method ends in a default arm returning an S3 error (no fall-through to a nil error with no response); routeBase's chain ends in http.NotFound")
	for _, n := range routeFuncNames[1:] {
		fn := mustFunc(r, n)
		if fn == nil {
			continue
		}
		// every return: either the result of a handler call, or a non-nil error constant
		okAll := true
		nRet := 0
		for ret, ev := range returnedErrors(fn) {
			// a single exit merges the arms' values: look at each alternative
			for _, alt := range altValues(core.BlockLocalLoad(ev), 0) {
				nRet++
				if core.IsNilConst(alt) {
					okAll = false
					r.Violated("R09.2", key(n, "return nil"), pos(r, ret), "a route arm returns nil without calling a handler: the client gets an empty 200")
				}
			}
		}
		// a default arm: some return yields MethodNotAllowed (or another ErrorCode constant)
		s := errorSliceOf(r, fn, -1)
		hasDefault := len(errCodes(s)) > 0
		r.Check(okAll && hasDefault && nRet >= 2, "R09.2", key(n, "default arm"), r.P.Pos(fn.Pos()),
			"default arm returns "+strings.Join(errCodes(s), ","), "route function has no default arm returning an S3 error code")
	}
	if rb := mustFunc(r, "gofakes3.(*GoFakeS3).routeBase"); rb != nil {
		// every way through routeBase answers: it runs a route (or listBuckets) or http.NotFound
		live := core.LiveBlocks(rb)
		nf := 0
		answers := func(in ssa.Instruction) bool {
			c, ok := in.(ssa.CallInstruction)
			if !ok {
				return false
			}
			cn := r.P.CalleeName(c)
			return cn == "net/http.NotFound" || strings.HasPrefix(cn, "gofakes3.(*GoFakeS3).route") || cn == "gofakes3.(*GoFakeS3).listBuckets"
		}
		core.Instrs(rb, func(in ssa.Instruction) {
			if c, ok := in.(ssa.CallInstruction); ok && r.P.CalleeName(c) == "net/http.NotFound" && in.Block().Index < len(live) && live[in.Block().Index] {
				nf++
			}
		})
		silent := ""
		for _, ret := range core.Returns(rb) {
			if core.ReachableFromEntryAvoiding(ret, answers) {
				silent = pos(r, ret)
			}
		}
		r.Check(nf >= 1 && silent == "", "R09.2", key(fname(r, rb), "http.NotFound"), r.P.Pos(rb.Pos()), "every path runs a route or http.NotFound", "routeBase no longer answers unrouted requests with http.NotFound (a return at "+silent+" is reachable without a route or NotFound having run)")
	}
	r.Floor("R09.2", 8, "route functions")
}

// ---------------------------------------------------------------- wedge

func rule094(r *core.Run, ctx *oblig.Ctx, undischarged map[*ssa.Function][]string) {
	r.Rule("R09.4", "a lock released by an explicit (non-deferred) unlock protects only straight-line code with no call into the repo and no undischarged obligation: a recovered panic can never leave it held")
	a := newLockset(r)
	n := 0
	for _, op := range a.Ops() {
		if !op.Acquire || op.Deferred {
			continue
		}
		fn := op.Instr.Parent()
		// is there a deferred unlock of this class in fn?
		deferred := false
		for _, o2 := range a.Ops() {
			if o2.Instr.Parent() == fn && o2.Deferred && !o2.Acquire && o2.Class == op.Class {
				deferred = true
			}
			// the deferred unlock of a helper expanded into fn (internal/inline) runs at its return sites
			if o2.Instr.Parent() == fn && !o2.Acquire && o2.Class == op.Class && r.P.Inline != nil && r.P.Inline.DeferSites[o2.Instr.Pos()] {
				deferred = true
			}
		}
		if deferred {
			continue
		}
		n++
		k := key(fname(r, fn), "explicit unlock region", op.Class)
		// instructions while the lock is held
		var bad []string
		core.Instrs(fn, func(in ssa.Instruction) {
			if in == ssa.Instruction(op.Instr) {
				return
			}
			if a.MustAt(in).Get(op.Class) == lockset.None && a.MayAt(in).Get(op.Class) == lockset.None {
				return
			}
			if o := a.Op(in); o != nil {
				return
			}
			switch x := in.(type) {
			case ssa.CallInstruction:
				name := r.P.CalleeName(x)
				if wedgeSafeCalls[name] || strings.HasPrefix(name, "builtin:") || wedgeSafePkg(name) {
					return
				}
				bad = append(bad, "call "+name+" at "+pos(r, in))
			case *ssa.Panic:
				bad = append(bad, "panic at "+pos(r, in))
			case *ssa.TypeAssert:
				if !x.CommaOk {
					bad = append(bad, "unchecked type assertion at "+pos(r, in))
				}
			case *ssa.MapUpdate:
				bad = append(bad, "map update at "+pos(r, in))
			}
		})
		for _, u := range undischarged[fn] {
			bad = append(bad, "undischarged bounds obligation at "+u)
		}
		r.Check(len(bad) == 0, "R09.4", k, pos(r, op.Instr), "only total operations between acquire and explicit release",
			"lock "+op.Class+" is released by an explicit unlock but the protected region can panic or call out: "+strings.Join(bad, "; "))
	}
	if n == 0 {
		r.Info("R09.4", "none", "", "no lock is released by explicit unlock")
	}
}

// wedgeSafePkg: functions of pure standard-library packages whose only panics
// are bounds panics on their slice arguments — those are separate, discharged
// obligations of the caller.
func wedgeSafePkg(name string) bool {
	for _, p := range []string{"(encoding/binary.", "encoding/binary.", "math/bits.", "strconv.", "(*math/big.Int).", "encoding/hex.", "(*encoding/base32.Encoding).", "(*encoding/base64.Encoding).", "fmt.Sprint", "strings.", "bytes."} {
		if strings.HasPrefix(name, p) {
			return true
		}
	}
	return false
}

// calls that cannot panic for any argument (short total-function table)
var wedgeSafeCalls = map[string]bool{
	"(*math/big.Int).Add": true, "fmt.Sprintf": true, "(*encoding/base32.Encoding).EncodeToString": true,
}

// ---------------------------------------------------------------- middleware

func rule096(r *core.Run) {
	r.Rule("R09.6", "on every path each middleware either answers itself or calls the next handler's ServeHTTP exactly once with the incoming writer and request")
	type mw struct{ name string }
	var fns []*ssa.Function
	for _, n := range []string{"gofakes3.(*GoFakeS3).timeSkewMiddleware", "gofakes3.(*GoFakeS3).hostBucketMiddleware", "gofakes3.(*GoFakeS3).hostBucketBaseMiddleware"} {
		f := mustFunc(r, n)
		if f == nil {
			continue
		}
		for _, a := range f.AnonFuncs {
			if len(a.Params) == 2 && r.P.TypeShort(a.Params[0].Type()) == "net/http.ResponseWriter" {
				fns = append(fns, a)
			}
		}
	}
	if f := mustFunc(r, "gofakes3.(*withCORS).ServeHTTP"); f != nil {
		fns = append(fns, f)
	}
	for _, f := range fns {
		var w, rq ssa.Value
		for _, p := range f.Params {
			switch r.P.TypeShort(p.Type()) {
			case "net/http.ResponseWriter":
				w = p
			case "*net/http.Request":
				rq = p
			}
		}
		nexts := r.P.CallsIn(f, false, core.NameIs("invoke:net/http.Handler.ServeHTTP"))
		answers := r.P.CallsIn(f, false, func(n string) bool {
			return n == "gofakes3.(*GoFakeS3).httpError" || n == "(net/http.Header).Set" || n == "invoke:net/http.ResponseWriter.WriteHeader"
		})
		name := fname(r, f)
		for i, c := range nexts {
			args := c.Common().Args
			okReq := len(args) == 2
			if okReq {
				// a request merged from several ways (phi) must be the incoming request on each
				vals := []ssa.Value{args[1]}
				if ph, ok := args[1].(*ssa.Phi); ok {
					vals = ph.Edges
				}
				for _, v := range vals {
					if !sameRequest(r, v, rq, 0) {
						okReq = false
					}
				}
			}
			r.Check(okReq && args[0] == w, "R09.6", key(name, "next args", sprintf("#%d", i)), pos(r, c.(ssa.Instruction)),
				"next.ServeHTTP(w, rq) with the incoming writer and request", "the next handler is not called with the incoming ResponseWriter and Request")
			// never twice on one path
			for j, d := range nexts {
				if i != j && core.Reaches(c.(ssa.Instruction), d.(ssa.Instruction)) {
					r.Violated("R09.6", key(name, "next twice"), pos(r, d.(ssa.Instruction)), "the next handler can be called twice on one path")
				}
			}
		}
		// every return is preceded on all paths by a next call or an answer
		for i, ret := range core.Returns(f) {
			silent := core.ReachableFromEntryAvoiding(ret, func(in ssa.Instruction) bool {
				for _, c := range nexts {
					if in == c.(ssa.Instruction) {
						return true
					}
				}
				for _, c := range answers {
					if in == c.(ssa.Instruction) {
						return true
					}
				}
				return false
			})
			if silent && name == "gofakes3.(*withCORS).ServeHTTP" {
				// the preflight arm answers with (configured) Access-Control headers only
				for _, g := range core.GuardsOf(ret) {
					sg := r.P.SliceOf(g.If.Cond, core.SliceOpts{Depth: -1, Control: true})
					if (sg.Has("const:Access-Control-Request-Method") || sg.Has("const:Origin")) && g.Branch {
						silent = false
					}
				}
			}
			r.Check(!silent, "R09.6", key(name, "no silent return", sprintf("#%d", i)), pos(r, ret),
				"every path answers or forwards", "a path returns without calling the next handler and without answering: the client gets an empty 200")
		}
	}
	r.Floor("R09.6", 8, "middleware obligations")
}

// ---------------------------------------------------------------- blocking primitives

func rule097(r *core.Run, reach map[*ssa.Function]bool) {
	r.Rule("R09.7", "no channel operation, select, go statement, sync.Cond/WaitGroup wait or time.Sleep in handler-reachable code")
	blocking := map[string]bool{"time.Sleep": true, "(*sync.WaitGroup).Wait": true, "(*sync.Cond).Wait": true, "time.After": true, "time.Tick": true}
	var fns []*ssa.Function
	for f := range reach {
		fns = append(fns, f)
	}
	sort.Slice(fns, func(i, j int) bool { return fname(r, fns[i]) < fname(r, fns[j]) })
	nViol := 0
	for _, f := range fns {
		core.Instrs(f, func(in ssa.Instruction) {
			what := ""
			switch x := in.(type) {
			case *ssa.Send:
				what = "channel send"
			case *ssa.Select:
				what = "select"
			case *ssa.Go:
				what = "go statement"
			case *ssa.UnOp:
				if x.Op == token.ARROW {
					what = "channel receive"
				}
			case ssa.CallInstruction:
				if blocking[r.P.CalleeName(x)] {
					what = "call " + r.P.CalleeName(x)
				}
			}
			if what != "" {
				nViol++
				r.Violated("R09.7", key(fname(r, f), what), pos(r, in), what+" in handler-reachable code can block a request indefinitely")
			}
		})
	}
	// positive control: the same matcher must see the blocking primitives that exist outside handler code (cmd: signal channel / ListenAndServe goroutine)
	ctl := 0
	for _, f := range r.P.RepoFuncs() {
		core.Instrs(f, func(in ssa.Instruction) {
			switch x := in.(type) {
			case *ssa.Go, *ssa.Select, *ssa.Send:
				ctl++
			case *ssa.UnOp:
				if x.Op == token.ARROW {
					ctl++
				}
			}
		})
	}
	r.Extra["blocking_primitives_outside_handlers"] = ctl
	if nViol == 0 {
		r.Held("R09.7", "none in "+sprintf("%d", len(fns))+" handler-reachable functions", "", sprintf("scanned %d functions; %d blocking primitive(s) exist elsewhere in the repo (matcher control)", len(fns), ctl))
	}
}

func baseOf(in ssa.Instruction) ssa.Value {
	var x ssa.Value
	switch v := in.(type) {
	case *ssa.IndexAddr:
		x = v.X
	case *ssa.Index:
		x = v.X
	case *ssa.Lookup:
		x = v.X
	case *ssa.Slice:
		x = v.X
	}
	if x == nil {
		return nil
	}
	return oblig.ResolveLocal(x)
}

// installNonNilHook vouches for pointers asserted out of the versions skiplist:
// they are non-nil if every Set on that class stores a provably non-nil value.
func installNonNilHook(r *core.Run, ctx *oblig.Ctx) {
	state := 0 // 0 unknown, 1 ok, 2 bad
	check := func() bool {
		if state != 0 {
			return state == 1
		}
		state = 1
		n := 0
		for _, fn := range r.P.FuncsOfPkg("s3mem") {
			for _, c := range r.P.CallsIn(fn, false, core.NameIs("(*github.com/ryszard/goskiplist/skiplist.SkipList).Set")) {
				cl := classOf(r, c.Common().Args[0])
				if cl == nil || cl.field != "s3mem.bucketObject.versions" {
					continue
				}
				n++
				if !ctx.NonNilValue(c.Common().Args[2], c.(ssa.Instruction), 0) {
					state = 2
				}
			}
		}
		if n == 0 {
			state = 2
		}
		return state == 1
	}
	ctx.NonNilHook = func(v ssa.Value) bool {
		ta, ok := v.(*ssa.TypeAssert)
		if !ok {
			return false
		}
		prod := producerOf(r, ta.X)
		if prod == nil {
			return false
		}
		cl := classOf(r, core.Args(prod)[0])
		if cl == nil || cl.field != "s3mem.bucketObject.versions" {
			return false
		}
		return check()
	}
}

// sameRequest reports whether v is the incoming request rq, or a shallow copy
// of it that differs only in its context ((*http.Request).WithContext, directly
// or through a repository helper all of whose returns are such copies of its
// request parameter).
func sameRequest(r *core.Run, v, rq ssa.Value, depth int) bool {
	if v == rq {
		return true
	}
	c, ok := v.(*ssa.Call)
	if !ok || depth > 3 {
		return false
	}
	if r.P.CalleeName(c) == "(*net/http.Request).WithContext" {
		return sameRequest(r, c.Call.Args[0], rq, depth+1)
	}
	callee := c.Call.StaticCallee()
	if callee == nil || !r.P.IsRepo(callee) || len(callee.Blocks) == 0 {
		return false
	}
	// which argument is the request?
	for i, a := range c.Call.Args {
		if !sameRequest(r, a, rq, depth+1) || i >= len(callee.Params) {
			continue
		}
		all := true
		rets := core.Returns(callee)
		for _, ret := range rets {
			if len(ret.Results) != 1 || !sameRequest(r, ret.Results[0], callee.Params[i], depth+1) {
				all = false
			}
		}
		if all && len(rets) > 0 {
			return true
		}
	}
	return false
}

// rule098 — bolt transactions never outlive the call that opened them.
func rule098(r *core.Run) {
	r.Rule("R09.8", "the bolt backend opens transactions only through (*bolt.DB).View / Update (scoped to a closure), never with Begin: a read transaction that is still open when a writer has to grow the file blocks that writer while it holds the write lock, and every later request behind it — the server hangs; nothing reachable from the body of a View/Update opens another transaction (a nested write transaction waits for itself)")
	n, scoped := 0, 0
	for _, fn := range r.P.FuncsOfPkg("s3bolt") {
		f := fn
		core.Instrs(f, func(in ssa.Instruction) {
			c, ok := in.(ssa.CallInstruction)
			if !ok {
				return
			}
			switch r.P.CalleeName(c) {
			case "(*go.etcd.io/bbolt.DB).Begin":
				n++
				r.Violated("R09.8", key(fname(r, f), "manual transaction", sprintf("#%d", n)), pos(r, in), "a bolt transaction is opened with Begin: its lifetime is no longer bounded by the call (a reader left open blocks the next file-growing writer, which holds the write lock — every request then hangs)")
			case "(*go.etcd.io/bbolt.DB).View", "(*go.etcd.io/bbolt.DB).Update":
				scoped++
			}
		})
	}
	// no transaction is opened while another one is open in the same call: bolt's write
	// transactions are exclusive (a nested Update waits for the outer one: self-deadlock), and a
	// read transaction under a writer of the same goroutine deadlocks when the file has to grow
	isTx := func(n string) bool {
		switch n {
		case "(*go.etcd.io/bbolt.DB).View", "(*go.etcd.io/bbolt.DB).Update", "(*go.etcd.io/bbolt.DB).Batch", "(*go.etcd.io/bbolt.DB).Begin":
			return true
		}
		return false
	}
	nn := 0
	for _, fn := range r.P.FuncsOfPkg("s3bolt") {
		f := fn
		core.Instrs(f, func(in ssa.Instruction) {
			c, ok := in.(ssa.CallInstruction)
			if !ok || !isTx(r.P.CalleeName(c)) || len(c.Common().Args) < 2 {
				return
			}
			var root *ssa.Function
			switch x := c.Common().Args[1].(type) {
			case *ssa.MakeClosure:
				root, _ = x.Fn.(*ssa.Function)
			case *ssa.Function:
				root = x
			}
			if root == nil {
				return
			}
			nn++
			bad := ""
			for g := range reachableFrom(r, []*ssa.Function{root}) {
				core.Instrs(g, func(y ssa.Instruction) {
					if cc, isCall := y.(ssa.CallInstruction); isCall && isTx(r.P.CalleeName(cc)) {
						bad = fname(r, g) + " at " + pos(r, y)
					}
				})
			}
			r.Check(bad == "", "R09.8", key(fname(r, f), "no transaction inside a transaction", sprintf("#%d", nn)), pos(r, in), "nothing reachable from the transaction body opens a transaction",
				"a bolt transaction is opened while this one is still open (in "+bad+"): a write transaction inside a transaction waits for itself — the request never answers and every later write queues behind it")
		})
	}
	r.Check(scoped >= 8, "R09.8", key("s3bolt", "transactions are closure-scoped"), "", sprintf("%d View/Update transactions, no Begin", scoped), "fewer closure-scoped bolt transactions than the backend's operations need: the anchors moved")
}

// altValues flattens the phis of a merged value into its alternatives (the
// values it can take on feasible incoming edges).
func altValues(v ssa.Value, d int) []ssa.Value {
	if ph, ok := v.(*ssa.Phi); ok && d < 4 {
		var out []ssa.Value
		seen := map[ssa.Value]bool{}
		for i, e := range ph.Edges {
			if i < len(ph.Block().Preds) && !core.LiveEdge(ph.Block().Preds[i], ph.Block()) {
				continue
			}
			for _, a := range altValues(e, d+1) {
				if !seen[a] {
					seen[a] = true
					out = append(out, a)
				}
			}
		}
		return out
	}
	return []ssa.Value{v}
}

// rule091local — a local pointer that may still be nil is not dereferenced.
func rule091local(r *core.Run, reach map[*ssa.Function]bool) {
	r.Rule("R09.1l", "a pointer-typed local that is nil on some feasible incoming edge of a merge (`var last *T` assigned only inside a loop or a branch) is dereferenced — field access, method call through it — only where a dominating guard established it non-nil: the first use after a loop that may not have run is a nil dereference")
	n := 0
	for _, fn := range r.P.RepoFuncs() {
		if !reach[fn] {
			continue
		}
		f := fn
		core.Instrs(f, func(in ssa.Instruction) {
			var base ssa.Value
			switch x := in.(type) {
			case *ssa.FieldAddr:
				base = x.X
			case *ssa.Field:
				return
			case *ssa.UnOp:
				if x.Op != token.MUL {
					return
				}
				base = x.X
			default:
				return
			}
			ph, ok := base.(*ssa.Phi)
			if !ok {
				return
			}
			if _, isPtr := ph.Type().Underlying().(*types.Pointer); !isPtr {
				return
			}
			// some live edge (followed through nested phis) carries nil
			mayNil := false
			seen := map[*ssa.Phi]bool{}
			var walk func(p *ssa.Phi)
			walk = func(p *ssa.Phi) {
				if seen[p] {
					return
				}
				seen[p] = true
				for i, e := range p.Edges {
					if i < len(p.Block().Preds) && !core.LiveEdge(p.Block().Preds[i], p.Block()) {
						continue
					}
					if core.IsNilConst(e) {
						mayNil = true
					}
					if q, ok := e.(*ssa.Phi); ok {
						walk(q)
					}
				}
			}
			walk(ph)
			if !mayNil {
				return
			}
			n++
			ok2 := core.NilnessAt(ph, in.Block()) == core.NonNil
			if !ok2 {
				// a guard on the phi itself dominating this instruction
				for _, g := range core.GuardsOf(in) {
					if isNil, ok := core.ErrNilFact(g, ph); ok && !isNil {
						ok2 = true
					}
				}
			}
			if !ok2 {
				// path by path: the value the merge has when this instruction executes, with the
				// function's flags and the outcomes of the branches taken carried along (`mu, known =
				// m[id]` under `if known`, then `if !known { return }`: the nil edge never gets here)
				if vals, complete := core.ValuesOnPathsAssuming(nil, in, ph, nil); complete && len(vals) > 0 {
					ok2 = true
					for _, v := range vals {
						if core.IsNilConst(v) {
							ok2 = false
						}
						if _, stillPhi := v.(*ssa.Phi); stillPhi {
							ok2 = false
						}
					}
				}
			}
			if !ok2 {
				ok2 = nilTwinValidated(r, ph, in)
			}
			r.Check(ok2, "R09.1l", key(fname(r, f), "possibly-nil local dereferenced", sprintf("#%d", n)), pos(r, in), "guarded non-nil", "a local pointer that is nil on some path reaching here is dereferenced without a dominating non-nil test: the request panics")
		})
	}
	r.Held("R09.1l", key("repo", "possibly-nil locals enumerated"), "", sprintf("%d dereferences of merged pointers with a nil edge", n))
}

// nilTwinValidated: the merged pointer is "nil, or the element of slice field F
// at an index with leaves L" (what a bounds-checked accessor helper leaves after
// expansion), and earlier in the same function a pointer of exactly that shape
// — same field, same index leaves — was tested against nil with the nil side
// not reaching this use, while the function does not write F in between: the
// second look-up finds what the first one validated (the reviewed twin-site
// premise of the bounds rule, for the nil form of the same access).
func nilTwinValidated(r *core.Run, ph *ssa.Phi, use ssa.Instruction) bool {
	ctx := oblig.NewCtx(r.P)
	shape := func(p *ssa.Phi) (*ssa.IndexAddr, bool) {
		var ia *ssa.IndexAddr
		hasNil := false
		for _, e := range p.Edges {
			if core.IsNilConst(e) {
				hasNil = true
				continue
			}
			ld, ok := e.(*ssa.UnOp)
			if !ok || ld.Op != token.MUL {
				return nil, false
			}
			x, ok := ld.X.(*ssa.IndexAddr)
			if !ok || (ia != nil && ia != x) {
				return nil, false
			}
			ia = x
		}
		return ia, hasNil && ia != nil
	}
	ia2, ok := shape(ph)
	if !ok {
		return false
	}
	base := ctx.BaseDesc(ia2.X)
	if !strings.HasPrefix(base, "field:") {
		return false
	}
	for _, st := range r.P.FieldStores(strings.TrimPrefix(base, "field:")) {
		if st.Parent() == use.Parent() {
			return false
		}
	}
	want := ctx.IndexLeaves(ia2)
	found := false
	core.Instrs(use.Parent(), func(in ssa.Instruction) {
		p1, isPhi := in.(*ssa.Phi)
		if !isPhi || p1 == ph || found {
			return
		}
		ia1, ok := shape(p1)
		if !ok || ctx.BaseDesc(ia1.X) != base || ctx.IndexLeaves(ia1) != want || !core.Reaches(ia1, use) {
			return
		}
		if p1.Referrers() == nil {
			return
		}
		for _, u := range *p1.Referrers() {
			b, isB := u.(*ssa.BinOp)
			if !isB || (b.Op != token.EQL && b.Op != token.NEQ) || !(core.IsNilConst(b.X) || core.IsNilConst(b.Y)) {
				continue
			}
			// assuming the twin is nil, the use is not reached from the test
			if !core.ReachableTrackingFlags(b, use, map[ssa.Value]bool{b: b.Op == token.EQL}, nil) {
				found = true
			}
		}
	})
	return found
}

// rule091result — a lookup that can come back empty is tested before use.
func rule091result(r *core.Run, reach map[*ssa.Function]bool) {
	r.Rule("R09.1r", "a pointer obtained from a lookup that can return nil — a repo function with a `return nil` path for that result, (*bolt.Tx).Bucket / (*bolt.Bucket).Bucket, or an index into a map of pointers — is dereferenced (field access, load, method call on it) only where a dominating guard established it non-nil; on the side where a guard established it nil it is not used at all: the missing-bucket / missing-key answer is given instead of a nil dereference")
	mayNil := map[*ssa.Function]map[int]bool{}
	for _, fn := range r.P.RepoFuncs() {
		res := fn.Signature.Results()
		for _, ret := range core.Returns(fn) {
			for i, rv := range ret.Results {
				if i >= res.Len() {
					continue
				}
				if _, isPtr := res.At(i).Type().Underlying().(*types.Pointer); !isPtr {
					continue
				}
				v := core.BlockLocalLoad(rv)
				nilable := core.IsNilConst(v)
				if ph, ok := v.(*ssa.Phi); ok {
					for _, e := range ph.Edges {
						if core.IsNilConst(e) {
							nilable = true
						}
					}
				}
				// a value that is itself a nilable lookup handed on
				if c, ok := v.(*ssa.Call); ok {
					cn := r.P.CalleeName(c)
					if cn == "(*go.etcd.io/bbolt.Tx).Bucket" || cn == "(*go.etcd.io/bbolt.Bucket).Bucket" {
						nilable = true
					}
				}
				if nilable {
					if mayNil[fn] == nil {
						mayNil[fn] = map[int]bool{}
					}
					mayNil[fn][i] = true
				}
			}
		}
	}
	n := 0
	for _, fn := range r.P.RepoFuncs() {
		if !reach[fn] {
			continue
		}
		f := fn
		// nilable values of this function
		var vals []ssa.Value
		core.Instrs(f, func(in ssa.Instruction) {
			switch x := in.(type) {
			case *ssa.Call:
				cn := r.P.CalleeName(x)
				if cn == "(*go.etcd.io/bbolt.Tx).Bucket" || cn == "(*go.etcd.io/bbolt.Bucket).Bucket" {
					vals = append(vals, x)
					return
				}
				if sc := core.StaticCallee(x); sc != nil && mayNil[sc] != nil {
					if x.Call.Signature().Results().Len() == 1 {
						if mayNil[sc][0] {
							vals = append(vals, x)
						}
					} else if x.Referrers() != nil {
						for _, u := range *x.Referrers() {
							if ex, ok := u.(*ssa.Extract); ok && mayNil[sc][ex.Index] {
								// only when the error result does not vouch for it: (v, err) pairs are covered by R01.12
								res := x.Call.Signature().Results()
								if !core.IsErrorType(res.At(res.Len() - 1).Type()) {
									vals = append(vals, ex)
								}
							}
						}
					}
				}
			case *ssa.Lookup:
				// an index into a map of pointers bound to a variable and tested at least once: the test is
				// what says the author knows it can miss (repeated lookups of the same key and invariants
				// across functions — "if getUnlocked succeeded, so will this" — are not modelled)
				if x.CommaOk || x.Referrers() == nil {
					return
				}
				if mt, ok := x.X.Type().Underlying().(*types.Map); ok {
					if _, isPtr := mt.Elem().Underlying().(*types.Pointer); isPtr {
						tested, used := false, 0
						for _, u := range *x.Referrers() {
							if b, ok := u.(*ssa.BinOp); ok && (b.Op == token.EQL || b.Op == token.NEQ) && (core.IsNilConst(b.X) || core.IsNilConst(b.Y)) {
								tested = true
							} else if _, isDbg := u.(*ssa.DebugRef); !isDbg {
								used++
							}
						}
						if tested && used > 0 {
							vals = append(vals, x)
						}
					}
				}
			}
		})
		for _, v := range vals {
			if v.Referrers() == nil {
				continue
			}
			for _, u := range *v.Referrers() {
				deref := false
				switch x := u.(type) {
				case *ssa.FieldAddr:
					deref = x.X == v
				case *ssa.UnOp:
					deref = x.Op == token.MUL && x.X == v
				case ssa.CallInstruction:
					if !x.Common().IsInvoke() && len(x.Common().Args) > 0 && x.Common().Args[0] == v && x.Common().Signature().Recv() != nil {
						deref = true
					}
				}
				if !deref {
					continue
				}
				n++
				ok := core.NilnessAt(v, u.Block()) == core.NonNil
				if !ok {
					for _, g := range core.GuardsOf(u) {
						if isNil, k := core.ErrNilFact(g, v); k && !isNil {
							ok = true
						}
					}
				}
				if !ok {
					// the same lookup (same callee, same argument values) was made before in this function
					// and that result is known non-nil here: a repeated look-up inside one transaction /
					// critical section finds what the first one found (unless a bucket is removed in between)
					if c1, isCall := v.(*ssa.Call); isCall && !removesBucket(r, f) {
						for _, w := range vals {
							c2, isCall2 := w.(*ssa.Call)
							if !isCall2 || c2 == c1 || r.P.CalleeName(c2) != r.P.CalleeName(c1) || len(c2.Call.Args) != len(c1.Call.Args) || !core.Dominates(c2, u) {
								continue
							}
							same := true
							for i := range c1.Call.Args {
								if !sameStableValue(f, c1.Call.Args[i], c2.Call.Args[i]) {
									same = false
								}
							}
							if !same {
								continue
							}
							if core.NilnessAt(c2, u.Block()) == core.NonNil {
								ok = true
							}
							for _, g := range core.GuardsOf(u) {
								if isNil, k := core.ErrNilFact(g, c2); k && !isNil {
									ok = true
								}
							}
						}
					}
				}
				r.Check(ok, "R09.1r", key(fname(r, f), "possibly-nil lookup result dereferenced", sprintf("#%d", n)), pos(r, u), "guarded non-nil", "the result of a lookup that can come back nil ("+valueDesc(r, v)+") is used here without a dominating non-nil test (or on the side where it was found nil): a missing bucket / key / version ends in a nil dereference instead of the S3 error")
			}
		}
	}
	r.Held("R09.1r", key("repo", "nilable lookup results enumerated"), "", sprintf("%d dereferences examined", n))
}

// sameStableValue: the same SSA value, or two loads of one variable (a captured
// variable or a local) that fn never stores to.
func sameStableValue(fn *ssa.Function, a, b ssa.Value) bool {
	if a == b {
		return true
	}
	la, ok1 := a.(*ssa.UnOp)
	lb, ok2 := b.(*ssa.UnOp)
	if !ok1 || !ok2 || la.Op != token.MUL || lb.Op != token.MUL || la.X != lb.X {
		return false
	}
	switch la.X.(type) {
	case *ssa.FreeVar, *ssa.Alloc:
	default:
		return false
	}
	stored := false
	core.Instrs(fn, func(in ssa.Instruction) {
		if st, ok := in.(*ssa.Store); ok && st.Addr == la.X {
			stored = true
		}
	})
	if _, isAlloc := la.X.(*ssa.Alloc); isAlloc {
		// a local: one initialising store is expected; more than one makes it unstable
		n := 0
		core.Instrs(fn, func(in ssa.Instruction) {
			if st, ok := in.(*ssa.Store); ok && st.Addr == la.X {
				n++
			}
		})
		return n <= 1
	}
	return !stored
}

// removesBucket: fn (or one of its closures) deletes a bolt bucket.
func removesBucket(r *core.Run, fn *ssa.Function) bool {
	found := false
	core.Instrs(fn, func(in ssa.Instruction) {
		if c, ok := in.(ssa.CallInstruction); ok && strings.HasSuffix(r.P.CalleeName(c), ").DeleteBucket") {
			found = true
		}
	})
	return found
}

func valueDesc(r *core.Run, v ssa.Value) string {
	switch x := v.(type) {
	case *ssa.Call:
		return r.P.CalleeName(x)
	case *ssa.Extract:
		if c, ok := x.Tuple.(*ssa.Call); ok {
			return r.P.CalleeName(c)
		}
	case *ssa.Lookup:
		return "map lookup"
	}
	return v.Name()
}

// refusedByDesign: operations that always answer an error, with the reason (reviewed).
var refusedByDesign = map[string]string{
	"s3afero.(*SingleBucketBackend).CreateBucket": "the single-bucket backend serves exactly one, fixed bucket: creating buckets is refused",
	"s3afero.(*SingleBucketBackend).DeleteBucket": "the single-bucket backend serves exactly one, fixed bucket: deleting it is refused",
}

// rule099 — no operation is left without a way to succeed.
func rule099(r *core.Run) {
	r.Rule("R09.9", "every handler, every method of the backends and of the uploader, and the shared helpers they go through, that returns an error has at least one return whose error is not known to be non-nil: an operation that can only fail (a guard that has become constant, a lookup whose 'not found' arm swallowed the rest) answers every request with an error — positive control: the error constructors of the repository are recognised as always-failing")
	inScope := func(name string) bool {
		for _, p := range []string{"gofakes3.(*GoFakeS3).", "gofakes3.(*uploader).", "s3mem.(*Backend).", "s3mem.(*bucket).", "s3mem.(*bucketObject).", "s3bolt.(*Backend).", "s3bolt.(*metaBucket).", "s3bolt.(*boltObject).",
			"s3afero.(*MultiBucketBackend).", "s3afero.(*SingleBucketBackend).", "s3afero.(*metaStore).", "gofakes3.(*ObjectRangeRequest).", "gofakes3.(*chunkedReader).", "gofakes3.(*hashingReader)."} {
			if strings.HasPrefix(name, p) {
				return true
			}
		}
		switch name {
		case "gofakes3.ReadAll", "gofakes3.CopyObject", "gofakes3.MergeMetadata", "gofakes3.ValidateBucketName", "gofakes3.parseRangeHeader", "gofakes3.parseClampedInt", "gofakes3.listBucketPageFromQuery", "gofakes3.listBucketVersionsPageFromQuery":
			return true
		}
		return false
	}
	n, ctl := 0, 0
	bl := inline.Baseline()
	for _, fn := range r.P.RepoFuncs() {
		res := fn.Signature.Results()
		if res.Len() == 0 || !core.IsErrorType(res.At(res.Len()-1).Type()) || len(fn.Blocks) == 0 {
			continue
		}
		// only the operations the rules were written against (and their closures): a helper a later
		// change adds may well be a small error constructor
		top := fn
		for top.Parent() != nil {
			top = top.Parent()
		}
		if obj, ok := top.Object().(*types.Func); !ok || !bl[obj.FullName()] {
			continue
		}
		name := fname(r, fn)
		canSucceed := false
		for ret, ev := range returnedErrors(fn) {
			ev = core.BlockLocalLoad(ev)
			if definitelyNil(r, ev) {
				canSucceed = true
				continue
			}
			if ph, ok := ev.(*ssa.Phi); ok {
				for i, e := range ph.Edges {
					at := ret.Block()
					if ph.Block() == ret.Block() && i < len(at.Preds) {
						at = at.Preds[i]
					}
					if core.NilnessAt(e, at) != core.NonNil {
						canSucceed = true
					}
				}
				continue
			}
			if core.NilnessAt(ev, ret.Block()) != core.NonNil {
				canSucceed = true
			}
		}
		if d := os.Getenv("GFS3_DEBUG_R099"); d != "" && strings.Contains(name, d) {
			for ret, ev := range returnedErrors(fn) {
				ev2 := core.BlockLocalLoad(ev)
				fmt.Fprintf(os.Stderr, "R099 %s ret@%s ev=%v (%T) nil=%v nilness=%v\n", name, pos(r, ret), ev2, ev2, definitelyNil(r, ev2), core.NilnessAt(ev2, ret.Block()))
			}
		}
		if !inScope(name) || refusedByDesign[name] != "" {
			if !canSucceed {
				ctl++ // an error constructor / always-failing stub: the control
			}
			continue
		}
		n++
		r.Check(canSucceed, "R09.9", key(name, "can succeed"), r.P.Pos(fn.Pos()), "a return with a possibly-nil error exists",
			"every return of "+name+" hands back an error that is known to be non-nil: the operation can no longer succeed for any input")
	}
	r.Floor("R09.9", 100, "operations returning an error")
	if ctl < 3 {
		r.Unresolved("R09.9: only %d always-failing functions recognised outside the operations (the error constructors BucketNotFound, KeyNotFound, ResourceError, … are the positive control)", ctl)
	}
}
