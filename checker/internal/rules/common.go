// Package rules holds the rule instances, one file per property.
package rules

import (
	"fmt"
	"go/constant"
	"go/token"
	"go/types"
	"os"
	"reflect"
	"sort"
	"strings"

	"golang.org/x/tools/go/ssa"

	"gfs3check/internal/core"
)

// Registry maps property ids to their checks.
var Registry = map[string]func(*core.Run){}

// Backend implementations bundled with the repository (receiver type names).
var backendImpls = []string{
	"s3mem.(*Backend)",
	"s3bolt.(*Backend)",
	"s3afero.(*MultiBucketBackend)",
	"s3afero.(*SingleBucketBackend)",
}

// mustFunc resolves a function anchor or records UNRESOLVED.
func mustFunc(r *core.Run, name string) *ssa.Function {
	f := r.P.Func(name)
	if f == nil || f.Blocks == nil {
		r.Unresolved("anchor function %s not found", name)
		return nil
	}
	return f
}

// implMethod returns impl's method (e.g. "s3mem.(*Backend)", "PutObject").
func implMethod(r *core.Run, impl, method string) *ssa.Function {
	return mustFunc(r, impl+"."+method)
}

func optFunc(r *core.Run, name string) *ssa.Function {
	f := r.P.Func(name)
	if f == nil || f.Blocks == nil {
		return nil
	}
	return f
}

// key builds a construct key.
func key(parts ...string) string { return strings.Join(parts, "|") }

// routeFuncs are the dispatching functions of routing.go.
var routeFuncNames = []string{
	"gofakes3.(*GoFakeS3).routeBase",
	"gofakes3.(*GoFakeS3).routeObject",
	"gofakes3.(*GoFakeS3).routeBucket",
	"gofakes3.(*GoFakeS3).routeMultipartUploadBase",
	"gofakes3.(*GoFakeS3).routeVersioning",
	"gofakes3.(*GoFakeS3).routeVersions",
	"gofakes3.(*GoFakeS3).routeVersion",
	"gofakes3.(*GoFakeS3).routeMultipartUpload",
}

// handlers discovers the request handlers: every *GoFakeS3 method statically
// called from a route function that is not itself a route function or a
// utility (nextRequestID, httpError).
func handlers(r *core.Run) []*ssa.Function {
	isRoute := map[string]bool{}
	for _, n := range routeFuncNames {
		isRoute[n] = true
	}
	seen := map[*ssa.Function]bool{}
	var out []*ssa.Function
	for _, n := range routeFuncNames {
		f := mustFunc(r, n)
		if f == nil {
			continue
		}
		core.Instrs(f, func(in ssa.Instruction) {
			c, ok := in.(ssa.CallInstruction)
			if !ok {
				return
			}
			cal := core.StaticCallee(c)
			if cal == nil || !r.P.IsRepo(cal) {
				return
			}
			name := r.P.FuncName(cal)
			if !strings.HasPrefix(name, "gofakes3.(*GoFakeS3).") || isRoute[name] {
				return
			}
			if name == "gofakes3.(*GoFakeS3).nextRequestID" || name == "gofakes3.(*GoFakeS3).httpError" {
				return
			}
			if !seen[cal] {
				seen[cal] = true
				out = append(out, cal)
			}
		})
	}
	sort.Slice(out, func(i, j int) bool { return r.P.FuncName(out[i]) < r.P.FuncName(out[j]) })
	return out
}

// paramAliases: the spellings this code base (and a reasonable rename) uses
// for the two string parameters every operation carries.
var paramAliases = [][]string{
	{"bucket", "bucketName", "bucketname", "bkt"},
	{"object", "objectName", "key", "objectKey", "objectname"},
}

// paramNamed returns fn's parameter with one of the given names; a name that
// belongs to an alias class (bucket / bucketName, object / objectName / key)
// matches any spelling of its class when the exact name is absent.
func paramNamed(fn *ssa.Function, names ...string) *ssa.Parameter {
	for _, p := range fn.Params {
		for _, n := range names {
			if p.Name() == n {
				return p
			}
		}
	}
	for _, n := range names {
		for _, class := range paramAliases {
			if !has(class, n) {
				continue
			}
			var found *ssa.Parameter
			cnt := 0
			for _, p := range fn.Params {
				if has(class, p.Name()) {
					found = p
					cnt++
				}
			}
			if cnt == 1 {
				return found
			}
		}
	}
	return nil
}

// storageCall reports whether the call is an interface call whose receiver is
// loaded from GoFakeS3.storage / .versioned / .uploader (or uploader.storage),
// and returns which field.
func storageCall(r *core.Run, c ssa.CallInstruction) (field string, ok bool) {
	cc := c.Common()
	if !cc.IsInvoke() {
		return "", false
	}
	s := r.P.SliceOf(cc.Value, core.SliceOpts{Depth: 1})
	for _, f := range []string{"gofakes3.GoFakeS3.storage", "gofakes3.GoFakeS3.versioned", "gofakes3.GoFakeS3.uploader", "gofakes3.uploader.storage"} {
		if s.Has("field:" + f) {
			return f, true
		}
	}
	return "", false
}

// errCodes returns the ErrorCode constants in the slice of v.
func errCodes(s *core.Slice) []string {
	var out []string
	for _, l := range s.LeafList("errcode:") {
		out = append(out, strings.TrimPrefix(l, "errcode:"))
	}
	return out
}

func has(list []string, x string) bool {
	for _, y := range list {
		if x == y {
			return true
		}
	}
	return false
}

// returnedErrors gives, for every Return of fn, the error result value.
func returnedErrors(fn *ssa.Function) map[*ssa.Return]ssa.Value {
	out := map[*ssa.Return]ssa.Value{}
	res := fn.Signature.Results()
	idx := -1
	for i := 0; i < res.Len(); i++ {
		if core.IsErrorType(res.At(i).Type()) {
			idx = i
		}
	}
	if idx < 0 {
		return out
	}
	live := core.LiveBlocks(fn)
	for _, ret := range core.Returns(fn) {
		if ret.Block().Index < len(live) && !live[ret.Block().Index] {
			continue // no feasible path reaches this return (e.g. `err = nil; if err != nil { return err }`)
		}
		if idx < len(ret.Results) {
			out[ret] = ret.Results[idx]
		}
	}
	return out
}

// errorSliceOf computes the union slice of all error results fn may return.
func errorSliceOf(r *core.Run, fn *ssa.Function, depth int) *core.Slice {
	var vs []ssa.Value
	for _, v := range returnedErrors(fn) {
		vs = append(vs, v)
	}
	return r.P.SliceOfMany(vs, core.SliceOpts{Depth: depth})
}

func fname(r *core.Run, fn *ssa.Function) string { return r.P.FuncName(fn) }

func pos(r *core.Run, in ssa.Instruction) string { return r.P.InstrPos(in) }

func sprintf(f string, a ...interface{}) string { return fmt.Sprintf(f, a...) }

// isNamed reports whether t (or *t) is the named type short.name.
func isNamed(r *core.Run, t types.Type, short, name string) bool {
	if pt, ok := t.(*types.Pointer); ok {
		t = pt.Elem()
	}
	n, ok := t.(*types.Named)
	if !ok {
		return false
	}
	want := r.P.NamedType(short, name)
	return want != nil && n.Obj() == want.Obj()
}

// handlerRoots are the HTTP entry points: the router, the middleware closures
// and the CORS wrapper.
func handlerRoots(r *core.Run) []*ssa.Function {
	var roots []*ssa.Function
	for _, n := range []string{
		"gofakes3.(*GoFakeS3).routeBase",
		"gofakes3.(*GoFakeS3).timeSkewMiddleware",
		"gofakes3.(*GoFakeS3).hostBucketMiddleware",
		"gofakes3.(*GoFakeS3).hostBucketBaseMiddleware",
		"gofakes3.(*withCORS).ServeHTTP",
		"gofakes3.(*GoFakeS3).Server",
	} {
		if f := mustFunc(r, n); f != nil {
			roots = append(roots, core.Closures(f)...)
		}
	}
	return roots
}

// reachableFrom computes the repo functions reachable from roots in the VTA
// call graph; synthetic wrappers are traversed transparently and the closures
// created by a reachable function are reachable.
func reachableFrom(r *core.Run, roots []*ssa.Function) map[*ssa.Function]bool {
	cg := r.P.CallGraph()
	seen := map[*ssa.Function]bool{}
	out := map[*ssa.Function]bool{}
	var work []*ssa.Function
	push := func(f *ssa.Function) {
		if f != nil && !seen[f] {
			seen[f] = true
			work = append(work, f)
		}
	}
	for _, f := range roots {
		push(f)
	}
	for len(work) > 0 {
		f := work[len(work)-1]
		work = work[:len(work)-1]
		isRepo := r.P.IsRepo(f)
		isWrapper := f.Synthetic != "" && r.P.PkgShort(f) != ""
		if !isRepo && !isWrapper {
			continue // do not walk through library code
		}
		if isRepo {
			out[f] = true
			for _, a := range f.AnonFuncs {
				push(a)
			}
			// a repo type converted to an interface here may have its methods
			// called by library code (io.ReadFull → Read, xml → MarshalXML ...)
			core.Instrs(f, func(in ssa.Instruction) {
				mi, ok := in.(*ssa.MakeInterface)
				if !ok {
					return
				}
				ms := r.P.SSA.MethodSets.MethodSet(mi.X.Type())
				for i := 0; i < ms.Len(); i++ {
					if m := r.P.SSA.MethodValue(ms.At(i)); m != nil && r.P.PkgShort(m) != "" {
						push(m)
					}
				}
			})
		}
		if n := cg.Nodes[f]; n != nil {
			for _, e := range n.Out {
				push(e.Callee.Func)
			}
		}
	}
	return out
}

// definitelyNil: the value is the nil constant on every path (directly, or a
// load of a named result whose reaching stores are all nil).
func definitelyNil(r *core.Run, v ssa.Value) bool {
	if core.IsNilConst(v) {
		return true
	}
	s := r.P.SliceOf(v, core.SliceOpts{Depth: -1})
	if len(s.Calls) > 0 {
		return false
	}
	n := 0
	for l := range s.Leaves {
		if l == "const:nil" {
			n++
			continue
		}
		if strings.HasPrefix(l, "alloc:") {
			continue
		}
		return false
	}
	return n > 0
}

// edgeReturn follows a branch edge through unconditional jumps — and through
// branches whose outcome is decided on that path (a test of a value that is
// evidently nil / non-nil / constant there, as left behind by helper
// expansion: `err = ErrX; if err != nil { return err }`) — and returns the
// Return instruction it inevitably reaches (nil if it really branches first).
func edgeReturn(iff *ssa.If, branch bool) *ssa.Return {
	b := iff.Block()
	if len(b.Succs) != 2 {
		return nil
	}
	t := b.Succs[1]
	if branch {
		t = b.Succs[0]
	}
	pred := b
	for hops := 0; hops < 8 && t != nil; hops++ {
		if len(t.Instrs) == 0 {
			return nil
		}
		switch last := t.Instrs[len(t.Instrs)-1].(type) {
		case *ssa.Return:
			return last
		case *ssa.Jump:
			pred, t = t, t.Succs[0]
		case *ssa.If:
			fs := core.FeasibleSuccs(t, pred)
			if len(fs) != 1 {
				return nil
			}
			pred, t = t, fs[0]
		default:
			return nil
		}
	}
	return nil
}

// vpos renders the position of a value (parameters have no instruction).
func vpos(r *core.Run, v ssa.Value) string {
	if in, ok := v.(ssa.Instruction); ok {
		return r.P.InstrPos(in)
	}
	if v.Parent() != nil {
		return r.P.Pos(v.Parent().Pos())
	}
	return "?"
}

// byteCompare recognises a comparison of two byte slices in the forms the code
// base and its refactorings use — bytes.Equal(a, b), bytes.Compare(a, b) ==/!= 0,
// string(a) ==/!= string(b) — for a condition value taken with the given truth.
// It returns the operands and whether the condition then states equality.
func byteCompare(r *core.Run, cond ssa.Value, truth bool) (a, b ssa.Value, equal bool, ok bool) {
	cd := core.CondOf(cond)
	if cd.Neg {
		truth = !truth
	}
	if cd.Op == 0 || cd.Op == token.ILLEGAL {
		if c, isCall := cd.X.(*ssa.Call); isCall && r.P.CalleeName(c) == "bytes.Equal" {
			return c.Call.Args[0], c.Call.Args[1], truth, true
		}
		return nil, nil, false, false
	}
	if cd.Op != token.EQL && cd.Op != token.NEQ {
		return nil, nil, false, false
	}
	eq := truth == (cd.Op == token.EQL)
	for _, pair := range [][2]ssa.Value{{cd.X, cd.Y}, {cd.Y, cd.X}} {
		if c, isCall := pair[0].(*ssa.Call); isCall && r.P.CalleeName(c) == "bytes.Compare" {
			if k, isK := core.ConstInt(pair[1]); isK && k == 0 {
				return c.Call.Args[0], c.Call.Args[1], eq, true
			}
		}
	}
	// string(a) == string(b)
	cx, okx := cd.X.(*ssa.Convert)
	cy, oky := cd.Y.(*ssa.Convert)
	if okx && oky {
		return cx.X, cy.X, eq, true
	}
	// s == string(b): one side already is a string
	isBytes := func(v ssa.Value) bool {
		sl, ok := v.Type().Underlying().(*types.Slice)
		if !ok {
			return false
		}
		bt, ok := sl.Elem().Underlying().(*types.Basic)
		return ok && bt.Kind() == types.Uint8
	}
	if okx && isBytes(cx.X) {
		return cx.X, cd.Y, eq, true
	}
	if oky && isBytes(cy.X) {
		return cd.X, cy.X, eq, true
	}
	return nil, nil, false, false
}

// expCond is a condition known to hold (with the given truth value) whenever an
// instruction executes: a guard, or — for a guard on a boolean merged from a
// short-circuit expression or a flag variable (phi[const…, V]) — the operand V
// the required outcome must have come from. merged marks the phi itself.
type expCond struct {
	cond   ssa.Value
	truth  bool
	merged bool
}

func expandedConds(in ssa.Instruction) []expCond {
	var out []expCond
	for _, g := range core.GuardsOf(in) {
		out = append(out, expandGuard(g.If, g.Branch)...)
	}
	return out
}

// expandGuard gives the conditions that taking one branch edge establishes.
func expandGuard(iff *ssa.If, branch bool) []expCond {
	var out []expCond
	var add func(cond ssa.Value, truth bool, d int)
	add = func(cond ssa.Value, truth bool, d int) {
		cd := core.CondOf(cond)
		t := truth != cd.Neg
		if ph, ok := cd.X.(*ssa.Phi); ok && (cd.Op == 0 || cd.Op == token.ILLEGAL) && d < 4 {
			out = append(out, expCond{cond, truth, true})
			var cand ssa.Value
			n := 0
			for _, e := range ph.Edges {
				if k, isK := e.(*ssa.Const); isK && k.Value != nil && k.Value.Kind() == constant.Bool {
					if constant.BoolVal(k.Value) == t {
						n = 2
					}
					continue
				}
				n++
				cand = e
			}
			if n == 1 && cand != nil {
				add(cand, t, d+1)
			}
			return
		}
		out = append(out, expCond{cond, truth, false})
	}
	add(iff.Cond, branch, 0)
	return out
}

// lenZeroFact reports whether taking guard g establishes len(x) == 0 (zero=true)
// or len(x) > 0 (zero=false) for the len call it tests, in any of the usual
// spellings (== 0, != 0, > 0, <= 0, < 1, >= 1, either polarity).
func lenZeroFact(g core.Guard) (lenCall ssa.Value, zero bool, ok bool) {
	cd := core.CondOf(g.If.Cond)
	if !isLenCall(cd.X) {
		return nil, false, false
	}
	k, isK := core.ConstInt(cd.Y)
	if !isK {
		return nil, false, false
	}
	truth := g.Branch != cd.Neg
	var zeroWhenTrue, known bool
	switch {
	case cd.Op == token.EQL && k == 0, cd.Op == token.LEQ && k == 0, cd.Op == token.LSS && k == 1:
		zeroWhenTrue, known = true, true
	case cd.Op == token.NEQ && k == 0, cd.Op == token.GTR && k == 0, cd.Op == token.GEQ && k == 1:
		zeroWhenTrue, known = false, true
	}
	if !known {
		return nil, false, false
	}
	return cd.X, zeroWhenTrue == truth, true
}

// successOnlyAfter reports whether fn can report success (a nil error) only
// after each group of calls had one member whose error was checked: for every
// return whose error is definitely nil, and for every return that hands back
// the error of one of the calls itself (`return x, err` right after `err =
// save()` — success exactly when that call succeeded), every OTHER group must
// have a member that was checked before that return.
func successOnlyAfter(r *core.Run, fn *ssa.Function, groups ...[]*ssa.Call) bool {
	for ret, ev := range returnedErrors(fn) {
		ev = core.BlockLocalLoad(ev)
		nilRet := definitelyNil(r, ev)
		var own *ssa.Call
		if !nilRet {
			for _, g := range groups {
				for _, c := range g {
					if e := core.ErrorResult(c); e != nil && (e == ev || carries(ev, e)) && core.Reaches(c, ret) {
						own = c
					}
				}
			}
			if own == nil {
				continue // an error return of another kind
			}
			// handed back on its failure arm only (`if err != nil { return err }`): an error return
			if e := core.ErrorResult(own); e != nil && core.NilnessAt(e, ret.Block()) == core.NonNil {
				continue
			}
			onlyFailure := false
			for _, g := range core.GuardsOf(ret) {
				if isNil, known := core.ErrNilFact(g, core.ErrorResult(own)); known && !isNil {
					onlyFailure = true
				}
			}
			if onlyFailure {
				continue
			}
		}
		for _, g := range groups {
			ok := false
			for _, c := range g {
				if c == own || core.CheckedBefore(c, ret) {
					ok = true
				}
			}
			if !ok {
				if os.Getenv("GFS3_DEBUG_ACK") != "" {
					fmt.Fprintf(os.Stderr, "ACK fail in %s: return at %s ev=%v nil=%v own=%v group0=%v\n", fn.Name(), r.P.InstrPos(ret), ev, nilRet, own, g[0])
				}
				return false
			}
		}
	}
	return true
}

// carries: v is e, possibly through phis all of whose other edges are nil constants or e.
func carries(v, e ssa.Value) bool {
	if v == e {
		return true
	}
	if ph, ok := v.(*ssa.Phi); ok {
		any := false
		for _, x := range ph.Edges {
			if x == e {
				any = true
				continue
			}
			if core.IsNilConst(x) {
				continue
			}
			return false
		}
		return any
	}
	return false
}

// onlyLogged: every use of v (followed through string concatenation,
// conversions, boxing, variadic packing and fmt.Sprint*) ends as an argument
// of the logger — the value takes part in no decision and in no response.
func onlyLogged(r *core.Run, v ssa.Value) bool {
	seen := map[ssa.Value]bool{}
	var walk func(v ssa.Value) bool
	walk = func(v ssa.Value) bool {
		if seen[v] {
			return true
		}
		seen[v] = true
		refs := v.Referrers()
		if refs == nil {
			return false
		}
		n := 0
		for _, u := range *refs {
			switch x := u.(type) {
			case *ssa.DebugRef:
			case *ssa.MakeInterface, *ssa.ChangeType, *ssa.Convert, *ssa.Slice, *ssa.ChangeInterface:
				n++
				if !walk(x.(ssa.Value)) {
					return false
				}
			case *ssa.BinOp:
				n++
				if x.Op != token.ADD || !walk(x) {
					return false
				}
			case *ssa.Store:
				n++
				if x.Val != v {
					return false
				}
				var al *ssa.Alloc
				switch a := x.Addr.(type) {
				case *ssa.IndexAddr:
					al, _ = a.X.(*ssa.Alloc)
				case *ssa.FieldAddr:
					al, _ = a.X.(*ssa.Alloc) // a local struct made for the log line
				}
				if al == nil {
					return false
				}
				// the packed variadic array: only element stores and one Slice
				for _, au := range *al.Referrers() {
					switch y := au.(type) {
					case *ssa.IndexAddr, *ssa.DebugRef:
					case *ssa.FieldAddr:
						for _, fu := range *y.Referrers() {
							if _, isStore := fu.(*ssa.Store); !isStore {
								return false
							}
						}
					case *ssa.Slice:
						if !walk(y) {
							return false
						}
					case *ssa.UnOp:
						if !walk(y) {
							return false
						}
					default:
						return false
					}
				}
			case ssa.CallInstruction:
				n++
				cn := r.P.CalleeName(x)
				switch {
				case strings.Contains(cn, "Logger") || strings.HasPrefix(cn, "log.") || strings.HasPrefix(cn, "(*log.Logger)"):
				case cn == "fmt.Sprintf" || cn == "fmt.Sprint" || cn == "fmt.Sprintln" || cn == "strconv.Quote" || cn == "strconv.Itoa" || cn == "strconv.FormatInt":
					val, ok := x.(ssa.Value)
					if !ok || !walk(val) {
						return false
					}
				default:
					return false
				}
			default:
				return false
			}
		}
		return n > 0
	}
	return walk(v)
}

// pureStringFuncs are side-effect free functions of their arguments: two calls
// with equal arguments give equal results.
var pureStringFuncs = map[string]bool{
	"path.Join": true, "path.Clean": true, "path.Base": true, "path.Dir": true,
	"path/filepath.Join": true, "path/filepath.Clean": true, "path/filepath.FromSlash": true, "path/filepath.ToSlash": true,
	"path/filepath.Base": true, "path/filepath.Dir": true,
	"strings.TrimPrefix": true, "strings.TrimSuffix": true, "strings.ToLower": true, "strings.TrimSpace": true,
}

// packedElems returns the element values of a variadic argument pack
// (`new [n]T; &t[i] = v_i; slice t[:]`), or nil.
func packedElems(v ssa.Value) []ssa.Value {
	sl, ok := v.(*ssa.Slice)
	if !ok {
		return nil
	}
	al, ok := sl.X.(*ssa.Alloc)
	if !ok || al.Referrers() == nil {
		return nil
	}
	elems := map[int64]ssa.Value{}
	for _, ref := range *al.Referrers() {
		switch x := ref.(type) {
		case *ssa.Slice, *ssa.DebugRef:
		case *ssa.IndexAddr:
			i, ok := core.ConstInt(x.Index)
			if !ok || x.Referrers() == nil {
				return nil
			}
			for _, u := range *x.Referrers() {
				st, ok := u.(*ssa.Store)
				if !ok || st.Addr != ssa.Value(x) {
					return nil
				}
				if _, dup := elems[i]; dup {
					return nil
				}
				elems[i] = st.Val
			}
		default:
			return nil
		}
	}
	out := make([]ssa.Value, len(elems))
	for i := range out {
		e, ok := elems[int64(i)]
		if !ok {
			return nil
		}
		out[i] = e
	}
	return out
}

// sameValue reports whether a and b are the same value or the same pure
// expression of the same values (`filepath.FromSlash(path.Join(b, k))`
// computed twice).
func sameValue(r *core.Run, a, b ssa.Value, depth int) bool {
	if a == b {
		return true
	}
	if a == nil || b == nil || depth > 6 {
		return false
	}
	switch x := a.(type) {
	case *ssa.Const:
		y, ok := b.(*ssa.Const)
		return ok && x.Value != nil && y.Value != nil && x.Value.ExactString() == y.Value.ExactString() && types.Identical(x.Type(), y.Type())
	case *ssa.Call:
		y, ok := b.(*ssa.Call)
		if !ok || x.Call.IsInvoke() || y.Call.IsInvoke() {
			return false
		}
		n := r.P.CalleeName(x)
		if n != r.P.CalleeName(y) || !pureStringFuncs[n] || len(x.Call.Args) != len(y.Call.Args) {
			return false
		}
		for i := range x.Call.Args {
			pa, pb := packedElems(x.Call.Args[i]), packedElems(y.Call.Args[i])
			if pa != nil || pb != nil {
				if len(pa) != len(pb) {
					return false
				}
				for j := range pa {
					if !sameValue(r, pa[j], pb[j], depth+1) {
						return false
					}
				}
				continue
			}
			if !sameValue(r, x.Call.Args[i], y.Call.Args[i], depth+1) {
				return false
			}
		}
		return true
	case *ssa.BinOp:
		y, ok := b.(*ssa.BinOp)
		return ok && x.Op == y.Op && sameValue(r, x.X, y.X, depth+1) && sameValue(r, x.Y, y.Y, depth+1)
	case *ssa.Convert:
		y, ok := b.(*ssa.Convert)
		return ok && types.Identical(x.Type(), y.Type()) && sameValue(r, x.X, y.X, depth+1)
	case *ssa.ChangeType:
		y, ok := b.(*ssa.ChangeType)
		return ok && types.Identical(x.Type(), y.Type()) && sameValue(r, x.X, y.X, depth+1)
	}
	return false
}

// pagingElements: the XML element names of the paging protocol. A client
// continues a listing by echoing these elements; they are fixed by the S3 API,
// not by this code base, so a different spelling is a protocol change.
var pagingElements = map[string]map[string]string{
	"ListBucketResultBase":           {"IsTruncated": "IsTruncated"},
	"ListBucketResult":               {"Marker": "Marker", "NextMarker": "NextMarker"},
	"ListBucketResultV2":             {"NextContinuationToken": "NextContinuationToken"},
	"ListBucketVersionsResult":       {"IsTruncated": "IsTruncated", "KeyMarker": "KeyMarker", "NextKeyMarker": "NextKeyMarker", "VersionIDMarker": "VersionIdMarker", "NextVersionIDMarker": "NextVersionIdMarker"},
	"ListMultipartUploadsResult":     {"IsTruncated": "IsTruncated", "KeyMarker": "KeyMarker", "UploadIDMarker": "UploadIdMarker", "NextKeyMarker": "NextKeyMarker", "NextUploadIDMarker": "NextUploadIdMarker"},
	"ListMultipartUploadPartsResult": {"IsTruncated": "IsTruncated", "PartNumberMarker": "PartNumberMarker", "NextPartNumberMarker": "NextPartNumberMarker"},
}

// rulePagingElements checks the xml struct tags of the paging fields of the
// given result types (E7: schema agreement with the wire protocol).
func rulePagingElements(r *core.Run, id string, typesToCheck ...string) {
	r.Rule(id, "the paging fields of the listing results are serialised under the element names the S3 protocol defines (IsTruncated, NextMarker, NextContinuationToken, NextKeyMarker, NextVersionIdMarker, NextUploadIdMarker, NextPartNumberMarker, …): a client resumes by reading exactly these elements — under another name it sees no marker and starts the same page again")
	pk := r.P.Pkgs["gofakes3"]
	if pk == nil || pk.Types == nil {
		r.Unresolved("%s: package gofakes3 not loaded", id)
		return
	}
	n := 0
	for _, tn := range typesToCheck {
		obj := pk.Types.Scope().Lookup(tn)
		if obj == nil {
			r.Unresolved("%s: type %s not found", id, tn)
			continue
		}
		st, ok := obj.Type().Underlying().(*types.Struct)
		if !ok {
			continue
		}
		for fld, want := range pagingElements[tn] {
			found := false
			// encoding/xml flattens embedded structs without a tag: look through them
			var visit func(st *types.Struct, d int)
			visit = func(st *types.Struct, d int) {
				for i := 0; i < st.NumFields(); i++ {
					f := st.Field(i)
					if f.Embedded() && d < 3 && reflectTag(st.Tag(i), "xml") == "" {
						t := f.Type()
						if pt, ok := t.Underlying().(*types.Pointer); ok {
							t = pt.Elem()
						}
						if es, ok := t.Underlying().(*types.Struct); ok {
							visit(es, d+1)
						}
						continue
					}
					if f.Name() != fld {
						continue
					}
					found = true
					n++
					tag := reflectTag(st.Tag(i), "xml")
					name := strings.Split(tag, ",")[0]
					r.Check(name == want, id, key("gofakes3."+tn, "element name", fld), r.P.Pos(f.Pos()), "<"+want+">", "the field "+tn+"."+fld+" is serialised as <"+name+"> instead of <"+want+">: clients do not find the continuation marker and page forever (or stop early)")
				}
			}
			visit(st, 0)
			if !found {
				r.Unresolved("%s: field %s.%s not found", id, tn, fld)
			}
		}
	}
	if n == 0 {
		r.Unresolved("%s: no paging field examined", id)
	}
}

// reflectTag extracts key:"value" from a struct tag.
func reflectTag(tag, k string) string {
	return reflect.StructTag(tag).Get(k)
}

// errExit is one way a function hands back its error result: a return, or —
// where several arms were merged into one exit — one incoming edge of the
// merged value, with the guards under which that exit is taken.
type errExit struct {
	val    ssa.Value
	guards []core.Guard
	ret    *ssa.Return
	via    *ssa.BasicBlock // the predecessor block of the merge this alternative comes through (nil: the return itself)
}

// errorExits expands the error returns of fn into their alternatives.
func errorExits(fn *ssa.Function) []errExit {
	var out []errExit
	for ret, ev := range returnedErrors(fn) {
		ev = core.BlockLocalLoad(ev)
		var expand func(v ssa.Value, guards []core.Guard, via *ssa.BasicBlock, d int)
		expand = func(v ssa.Value, guards []core.Guard, via *ssa.BasicBlock, d int) {
			ph, ok := v.(*ssa.Phi)
			if !ok || d > 3 {
				out = append(out, errExit{v, guards, ret, via})
				return
			}
			for i, e := range ph.Edges {
				if i >= len(ph.Block().Preds) {
					break
				}
				pred := ph.Block().Preds[i]
				if !core.LiveEdge(pred, ph.Block()) {
					continue
				}
				expand(e, core.GuardsOfEdge(pred, ph.Block()), pred, d+1)
			}
		}
		if ph, ok := ev.(*ssa.Phi); ok {
			expand(ph, nil, nil, 0)
		} else {
			out = append(out, errExit{ev, core.GuardsOf(ret), ret, nil})
		}
	}
	return out
}
