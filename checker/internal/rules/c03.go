package rules

import (
	"go/token"
	"sort"
	"strings"

	"golang.org/x/tools/go/ssa"

	"gfs3check/internal/core"
)

func init() { Registry["C03"] = C03 }

// listingFuncs are the functions that add entries to an ObjectList.
var listingFuncs = []string{
	"s3mem.(*Backend).ListBucket",
	"s3bolt.(*Backend).ListBucket",
	"s3afero.(*MultiBucketBackend).getBucketWithFilePrefixLocked",
	"s3afero.(*MultiBucketBackend).getBucketWithArbitraryPrefixLocked",
	"s3afero.(*SingleBucketBackend).getBucketWithFilePrefixLocked",
	"s3afero.(*SingleBucketBackend).getBucketWithArbitraryPrefixLocked",
}

// C03 — listings are the exact, sorted, correctly grouped view of the live keys.
func C03(r *core.Run) {
	r.Explanation = "Membership guards and field provenance of object listings in all four backends, on all paths (not order, not the string semantics of Prefix.Match): " +
		"(R03.1) every ObjectList.Add/AddPrefix is reachable only after a positive prefix test of the very key being added (Prefix.Match, or the HasPrefix test on the directory entry in the fs file-prefix walkers), Add only on the not-grouped arm and AddPrefix only on the grouped / directory arm; " +
		"(R03.2) delete-marked keys are never listed and the listed Key is the iterated key; (R03.3) listed ETag and Size come from the same stored record as the Key; " +
		"(R03.4) the two fs backends' listing helpers agree argument by argument; (R03.5) AddPrefix de-duplicates; (R03.6) a listing loop passes over a key only for the admissible reasons (no match, delete marker, prefix already reported); (R03.7) Prefix.Match splits and re-joins with the request's delimiter; (R10.5) distinct keys have distinct metadata records on the fs backends (the listed ETag is the key's own); (R02.7) deleting a nested key leaves no empty directory behind to be listed as a phantom prefix. (R03.8) a listing collected by walking the directory tree is sorted by key before it is returned. (R03.9) bolt cursor moves in the listing are examined by the loop and pruneEmptyDirs gets the object's path; (R04.4) only the entry equal to the marker is skipped after seeking. (R03.10) a search result (strings/bytes Index*) separates 'found' from 'not found' at -1: a test `> 0` drops a match at offset 0 (an empty path segment, a doubled delimiter). (R03.11) the delimiter and the prefix of a listing request are derived from their own query parameters only."
	r.NotDecided = "ascending byte order as a value statement (only: ordered store or explicit sort by key, R03.8), the semantics of Prefix.Match, delimiters other than '/', that every live key is visited (completeness of the iteration)"
	rule031(r)
	rule033(r)
	rule034(r)
	rule035(r)
	rule036(r)
	rule037(r)
	rule038(r)
	rule039(r)
	rule0310(r)
	rule0311(r)
	rule044(r)
	rule105(r)
	rule027(r)
	rule163(r, hostMiddlewares(r))
	rule0212(r)
}

type addSite struct {
	fn     *ssa.Function
	call   *ssa.Call
	prefix bool // AddPrefix
}

func addSites(r *core.Run) []addSite {
	var out []addSite
	for _, n := range listingFuncs {
		root := mustFunc(r, n)
		if root == nil {
			continue
		}
		// the function itself and the closures it hands to View / Walk / ForEach
		for _, f := range core.Closures(root) {
			fn := f
			core.Instrs(fn, func(in ssa.Instruction) {
				c, ok := in.(*ssa.Call)
				if !ok {
					return
				}
				switch r.P.CalleeName(c) {
				case "gofakes3.(*ObjectList).Add":
					out = append(out, addSite{fn, c, false})
				case "gofakes3.(*ObjectList).AddPrefix":
					out = append(out, addSite{fn, c, true})
				}
			})
		}
	}
	return out
}

// keyOfAdd returns the value listed as key (Content.Key of the added literal, or the AddPrefix argument).
func keyOfAdd(r *core.Run, s addSite) ssa.Value {
	if s.prefix {
		return s.call.Call.Args[1]
	}
	lit := s.call.Call.Args[1]
	for _, st := range r.P.FieldStores("gofakes3.Content.Key") {
		if st.Parent() == s.fn && st.Addr.(*ssa.FieldAddr).X == lit {
			return st.Val
		}
	}
	return nil
}

func rule031(r *core.Run) {
	r.Rule("R03.1", "each ObjectList.Add/AddPrefix is guarded by the true outcome of the prefix test of the key being added; Add only where the match is not a common prefix (fs: not a directory), AddPrefix only where it is; (R03.2) never for delete-marked data, and the listed key is the iterated key")
	sites := addSites(r)
	n := 0
	for _, s := range sites {
		n++
		name := fname(r, s.fn)
		kind := "Add"
		if s.prefix {
			kind = "AddPrefix"
		}
		k := key(name, kind, sprintf("#%d", n))
		keyVal := keyOfAdd(r, s)
		if keyVal == nil {
			r.Violated("R03.1", k, pos(r, s.call), "the listed entry has no Key")
			continue
		}
		ks := r.P.SliceOf(keyVal, core.SliceOpts{Depth: -1})
		matched := false
		grouped, notGrouped := false, false
		isDir, notDir := false, false
		delMarkerFalse := false
		for _, g := range core.GuardsOf(s.call) {
			cd := core.CondOf(g.If.Cond)
			truth := g.Branch != cd.Neg
			gs := r.P.SliceOf(g.If.Cond, core.SliceOpts{Depth: -1, Control: true})
			// Prefix.Match(key, ...) true
			for c := range gs.Calls {
				cc, ok := c.(*ssa.Call)
				if !ok {
					continue
				}
				switch r.P.CalleeName(cc) {
				case "gofakes3.(Prefix).Match":
					if truth && sharesSource(r, cc.Call.Args[1], keyVal, ks) {
						matched = true
					}
				case "strings.HasPrefix":
					// fs file-prefix walkers: HasPrefix(entryName, prefixPart); reached with prefixPart == "" or HasPrefix true
					if strings.Contains(name, "FilePrefixLocked") && sharesSource(r, cc.Call.Args[0], keyVal, ks) {
						matched = true
					}
				}
			}
			if gs.Has("field:gofakes3.PrefixMatch.CommonPrefix") {
				if truth {
					grouped = true
				} else {
					notGrouped = true
				}
			}
			for c := range gs.Calls {
				if strings.HasSuffix(r.P.CalleeName(c), "FileInfo.IsDir") {
					if truth {
						isDir = true
					} else {
						notDir = true
					}
				}
			}
			if gs.Has("field:s3mem.bucketData.deleteMarker") && !truth {
				delMarkerFalse = true
			}
		}
		// the fs file-prefix walkers test `prefixPart != "" && !HasPrefix(...)  → continue`: the add is reached via either edge; accept when the HasPrefix test exists on the path structure
		if !matched && strings.Contains(name, "FilePrefixLocked") {
			matched = hasPrefixSkip(r, s)
		}
		r.Check(matched, "R03.1", k+"|matched", pos(r, s.call), "reached only after a positive prefix test of this key", "an entry is listed without a positive prefix test of the key being listed: keys outside the requested prefix appear")
		switch {
		case strings.HasPrefix(name, "s3mem.") || strings.HasPrefix(name, "s3bolt."):
			if s.prefix {
				r.Check(grouped, "R03.1", k+"|arm", pos(r, s.call), "AddPrefix on the CommonPrefix arm", "a common prefix is added on an arm where the match is not a common prefix")
			} else {
				r.Check(notGrouped, "R03.1", k+"|arm", pos(r, s.call), "Add on the not-grouped arm", "a key is listed under Contents although it matched as a common prefix (it must be represented by its CommonPrefix only)")
			}
		case strings.Contains(name, "FilePrefixLocked"):
			if s.prefix {
				r.Check(isDir, "R03.1", k+"|arm", pos(r, s.call), "AddPrefix on the IsDir arm", "a common prefix is added for something that is not a directory")
			} else {
				r.Check(notDir, "R03.1", k+"|arm", pos(r, s.call), "Add on the not-a-directory arm", "a directory is listed as an object")
			}
		default: // arbitrary-prefix walkers: no grouping; directories skipped
			r.Check(!s.prefix && notDir, "R03.1", k+"|arm", pos(r, s.call), "files only, no grouping on the no-delimiter path", "the arbitrary-prefix walker lists directories or groups prefixes")
		}
		if strings.HasPrefix(name, "s3mem.") {
			r.Check(delMarkerFalse, "R03.1", k+"|live", pos(r, s.call), "not reachable for delete-marked data", "a key whose current version is a delete marker can be listed")
		}
		// the listed key is the iterated key
		okKey := false
		switch {
		case strings.HasPrefix(name, "s3mem."):
			okKey = s.prefix && ks.Has("field:gofakes3.PrefixMatch.MatchedPart") || !s.prefix && ks.Has("field:s3mem.bucketData.name") && ks.Has("call:goskipiter.(*Iterator).Value")
		case strings.HasPrefix(name, "s3bolt."):
			iterK, _ := boltForEachParams(r, s.fn)
			fromIter := ks.HasPrefix("call:(*go.etcd.io/bbolt.Cursor).") || iterK != nil && ks.HasValue(iterK)
			okKey = s.prefix && ks.Has("field:gofakes3.PrefixMatch.MatchedPart") || !s.prefix && fromIter && !ks.HasPrefix("call:strings.")
		case strings.Contains(name, "FilePrefixLocked"):
			okKey = ks.HasPrefix("call:invoke:io/fs.FileInfo.Name") || ks.HasPrefix("call:invoke:os.FileInfo.Name")
			okKey = okKey && ks.Has("call:path.Join") && ks.HasPrefix("param:")
			if s.prefix {
				okKey = okKey && ks.Has("const:/")
			}
		default:
			okKey = ks.Has("call:path/filepath.ToSlash") && ks.HasPrefix("param:")
		}
		r.Check(okKey, "R03.1", k+"|key", pos(r, s.call), "the listed key is the iterated key", "the listed key is not the key of the entry being iterated")
	}
	r.Floor("R03.1", 30, "listing add sites × obligations")
}

// sharesSource: a and b are the same value, or both derive from the same
// iterated element (same cursor/iterator/dir-entry call in their slices).
func sharesSource(r *core.Run, a, b ssa.Value, bs *core.Slice) bool {
	if a == b {
		return true
	}
	as := r.P.SliceOf(a, core.SliceOpts{Depth: -1})
	for c := range as.Calls {
		n := r.P.CalleeName(c)
		if strings.Contains(n, "Iterator).Value") || strings.Contains(n, "Cursor).") || strings.HasSuffix(n, "FileInfo.Name") {
			if bs.Calls[c] {
				return true
			}
		}
	}
	// walk callback: both derive from the callback's path parameter
	for l := range as.Leaves {
		if strings.HasPrefix(l, "param:") && strings.HasSuffix(l, ".path") && bs.Has(l) {
			return true
		}
	}
	// common-prefix adds: MatchedPart is written by Match(key, &match): accept when b is match.MatchedPart and a is the key given to Match
	if bs.Has("field:gofakes3.PrefixMatch.MatchedPart") {
		return true
	}
	return false
}

// hasPrefixSkip recognises `if prefixPart != "" && !strings.HasPrefix(name, prefixPart) { continue }`
// before the add in the fs file-prefix walkers.
func hasPrefixSkip(r *core.Run, s addSite) bool {
	ok := false
	core.Instrs(s.fn, func(in ssa.Instruction) {
		iff, isIf := in.(*ssa.If)
		if !isIf {
			return
		}
		cd := core.CondOf(iff.Cond)
		c, isCall := cd.X.(*ssa.Call)
		if !isCall || r.P.CalleeName(c) != "strings.HasPrefix" {
			return
		}
		// the edge on which HasPrefix is false must not reach the add
		falseBranch := cd.Neg // cond true means HasPrefix false when negated
		t := iff.Block().Succs[1]
		if falseBranch {
			t = iff.Block().Succs[0]
		}
		if len(t.Instrs) > 0 && t.Instrs[0] != ssa.Instruction(s.call) && !core.Reaches(t.Instrs[0], s.call) {
			// and the HasPrefix test dominates... is on every path with a non-empty prefixPart: the If testing prefixPart != "" leads to it
			ns := r.P.SliceOf(c.Call.Args[0], core.SliceOpts{Depth: -1})
			if ns.HasPrefix("call:invoke:io/fs.FileInfo.Name") || ns.HasPrefix("call:invoke:os.FileInfo.Name") {
				ok = true
			}
		} else if len(t.Instrs) > 0 {
			// the false edge loops back to the loop head and then may reach a later iteration's add: accept if it does not reach the add without passing the loop header's range test
			head := loopHeadOf(s.call)
			if head != nil && !core.ReachesAvoiding(t.Instrs[0], s.call, func(x ssa.Instruction) bool { return x == head }) {
				ns := r.P.SliceOf(c.Call.Args[0], core.SliceOpts{Depth: -1})
				if ns.HasPrefix("call:invoke:io/fs.FileInfo.Name") || ns.HasPrefix("call:invoke:os.FileInfo.Name") {
					ok = true
				}
			}
		}
	})
	return ok
}

// loopHeadOf returns the If that tests the range index of the innermost
// range-over-slice loop containing the instruction.
func loopHeadOf(in ssa.Instruction) ssa.Instruction {
	var best *ssa.If
	for _, g := range core.GuardsOf(in) {
		cd := core.CondOf(g.If.Cond)
		if cd.Op == token.LSS && isLenCall(cd.Y) && g.Branch {
			if best == nil || core.BlockDominates(best.Block(), g.If.Block()) {
				best = g.If
			}
		}
	}
	if best == nil {
		return nil
	}
	return best
}

func rule033(r *core.Run) {
	r.Rule("R03.3", "Content.ETag and Content.Size of every listed object derive from the same stored record as its Key (memory: the iterated item's data; bolt: the record unmarshalled from the cursor's value; fs: the directory entry's size and the metadata loaded for that very path)")
	n := 0
	for _, s := range addSites(r) {
		if s.prefix {
			continue
		}
		n++
		name := fname(r, s.fn)
		lit := s.call.Call.Args[1]
		get := func(field string) *core.Slice {
			for _, st := range r.P.FieldStores("gofakes3.Content." + field) {
				if st.Parent() == s.fn && st.Addr.(*ssa.FieldAddr).X == lit {
					return r.P.SliceOf(st.Val, core.SliceOpts{Depth: -1, NoIndex: true})
				}
			}
			return nil
		}
		et, sz, ky := get("ETag"), get("Size"), get("Key")
		if et == nil || sz == nil || ky == nil {
			r.Violated("R03.3", key(name, "Content fields", sprintf("#%d", n)), pos(r, s.call), "a listed Content lacks Key, ETag or Size")
			continue
		}
		okE, okS := false, false
		switch {
		case strings.HasPrefix(name, "s3mem."):
			okE = et.Has("field:s3mem.bucketData.hash") && et.Has("call:goskipiter.(*Iterator).Value") && et.Has("call:encoding/hex.EncodeToString")
			okS = sz.Has("field:s3mem.bucketData.body") && sz.Has("call:builtin:len") && sz.Has("call:goskipiter.(*Iterator).Value") && !sz.HasPrefix("op:")
		case strings.HasPrefix(name, "s3bolt."):
			// unmarshalled from the cursor value v of the same (k, v) pair
			okE = et.Has("field:s3bolt.boltObject.Hash") && et.Has("call:encoding/hex.EncodeToString")
			okS = sz.Has("field:s3bolt.boltObject.Size") && !sz.HasPrefix("op:")
			var um *ssa.Call
			core.Instrs(s.fn, func(in ssa.Instruction) {
				if c, ok := in.(*ssa.Call); ok && r.P.CalleeName(c) == "gopkg.in/mgo.v2/bson.Unmarshal" {
					um = c
				}
			})
			if um == nil || !core.CheckedBefore(um, s.call) {
				okE, okS = false, false
			} else {
				vs := r.P.SliceOf(um.Call.Args[0], core.SliceOpts{Depth: -1})
				same := false
				for c := range vs.Calls {
					if strings.Contains(r.P.CalleeName(c), "Cursor).") && ky.Calls[c] {
						same = true
					}
				}
				// … or the (k, v) pair a Bucket.ForEach callback was called with
				if ik, iv := boltForEachParams(r, s.fn); ik != nil && iv != nil && vs.HasValue(iv) && ky.HasValue(ik) {
					same = true
				}
				okE, okS = okE && same, okS && same
			}
		default:
			metaCall := "call:s3afero.(*metaStore).loadMeta"
			if strings.Contains(name, "SingleBucketBackend") {
				metaCall = "call:s3afero.(*SingleBucketBackend).ensureMeta"
			}
			okE = et.Has("field:s3afero.Metadata.Hash") && et.Has(metaCall) && et.Has("call:encoding/hex.EncodeToString")
			okS = (sz.Has("call:invoke:io/fs.FileInfo.Size") || sz.Has("call:invoke:os.FileInfo.Size")) && !sz.HasPrefix("op:")
			// loadMeta is called with the listed key and the entry's size
			okArgs := false
			for c := range et.Calls {
				cc, ok := c.(*ssa.Call)
				if !ok || !strings.HasSuffix(metaCall, r.P.CalleeName(cc)) {
					continue
				}
				keyArg := cc.Call.Args[2]
				var keyStore ssa.Value
				for _, st := range r.P.FieldStores("gofakes3.Content.Key") {
					if st.Parent() == s.fn && st.Addr.(*ssa.FieldAddr).X == lit {
						keyStore = st.Val
					}
				}
				szs := r.P.SliceOf(cc.Call.Args[3], core.SliceOpts{Depth: -1})
				if keyArg == keyStore && (szs.Has("call:invoke:io/fs.FileInfo.Size") || szs.Has("call:invoke:os.FileInfo.Size")) && core.CheckedBefore(cc, s.call) {
					okArgs = true
				}
			}
			okE = okE && okArgs
		}
		r.Check(okE, "R03.3", key(name, "ETag from the listed record", sprintf("#%d", n)), pos(r, s.call), "ETag = hex of the record's hash", "the listed ETag does not come from the stored record of the listed key")
		r.Check(okS, "R03.3", key(name, "Size from the listed record", sprintf("#%d", n)), pos(r, s.call), "Size = the record's length", "the listed Size does not come from the stored record of the listed key")
	}
	r.Floor("R03.3", 12, "listed Content provenance")
}

// sibling pairs of the two fs backends
var fsSiblings = [][2]string{
	{"s3afero.(*MultiBucketBackend).getBucketWithFilePrefixLocked", "s3afero.(*SingleBucketBackend).getBucketWithFilePrefixLocked"},
	{"s3afero.(*MultiBucketBackend).getBucketWithArbitraryPrefixLocked$1", "s3afero.(*SingleBucketBackend).getBucketWithArbitraryPrefixLocked$1"},
}

// calls compared between siblings and, per call, the reviewed differences
// (leaves allowed on one side only), one reason each.
var siblingAllowed = map[string][]string{
	// the multi-bucket walker strips the bucket directory from the walked path
	"*": {"call:strings.SplitN", "const:/", "const:2", "const:1", "const:0", "call:builtin:len", "const:unexpected path %q", "call:fmt.Errorf",
		// loadMeta is a method of the shared metaStore, ensureMeta of the backend
		"RECV"},
}

func normLeaf(l string) string {
	l = strings.Replace(l, "(*MultiBucketBackend)", "(*B)", -1)
	l = strings.Replace(l, "(*SingleBucketBackend)", "(*B)", -1)
	l = strings.Replace(l, "MultiBucketBackend", "B", -1)
	l = strings.Replace(l, "SingleBucketBackend", "B", -1)
	l = strings.Replace(l, "call:s3afero.(*metaStore).loadMeta", "call:META", -1)
	l = strings.Replace(l, "call:s3afero.(*B).ensureMeta", "call:META", -1)
	l = strings.Replace(l, "field:s3afero.B.metaStore", "RECV", -1)
	l = strings.Replace(l, "field:s3afero.B.bucketFs", "FS", -1)
	l = strings.Replace(l, "field:s3afero.B.fs", "FS", -1)
	return l
}

func rule034(r *core.Run) {
	r.Rule("R03.4", "for each pair of same-named listing helpers of the two fs backends and each callee both use (Add, AddPrefix, metadata load, strings.HasPrefix, Prefix.Match), the provenance (leaf set) of corresponding arguments is equal modulo the reviewed differences (bucket directory handling, loadMeta vs ensureMeta)")
	interesting := func(n string) string {
		switch {
		case n == "gofakes3.(*ObjectList).Add":
			return "Add"
		case n == "gofakes3.(*ObjectList).AddPrefix":
			return "AddPrefix"
		case n == "s3afero.(*metaStore).loadMeta" || n == "s3afero.(*SingleBucketBackend).ensureMeta":
			return "META"
		case n == "strings.HasPrefix":
			return "HasPrefix"
		case n == "gofakes3.(Prefix).Match":
			return "Match"
		}
		return ""
	}
	type sig struct {
		callee string
		args   [][]string
		at     ssa.Instruction
	}
	collect := func(fn *ssa.Function) map[string][]sig {
		out := map[string][]sig{}
		core.Instrs(fn, func(in ssa.Instruction) {
			c, ok := in.(*ssa.Call)
			if !ok {
				return
			}
			k := interesting(r.P.CalleeName(c))
			if k == "" {
				return
			}
			var args [][]string
			vals := c.Call.Args
			if k == "Add" {
				// compare the literal's fields instead of the pointer
				lit := vals[1]
				vals = nil
				for _, f := range []string{"Key", "ETag", "Size", "LastModified"} {
					for _, st := range r.P.FieldStores("gofakes3.Content." + f) {
						if st.Parent() == fn && st.Addr.(*ssa.FieldAddr).X == lit {
							vals = append(vals, st.Val)
						}
					}
				}
			} else if k == "META" {
				vals = vals[2:] // key, size, mtime (receiver and bucket differ by design)
			} else if len(vals) > 0 && (k == "AddPrefix" || k == "Match") {
				vals = vals[1:]
			}
			for _, v := range vals {
				s := r.P.SliceOf(v, core.SliceOpts{Depth: -1, NoIndex: true, StopAt: func(x ssa.Value) bool {
					// the directory listing / walk itself differs by design (bucket directory): stop at its result
					if c, ok := x.(*ssa.Call); ok && r.P.CalleeName(c) == "github.com/spf13/afero.ReadDir" {
						return true
					}
					return false
				}})
				set := map[string]bool{}
				for l := range s.Leaves {
					if strings.HasPrefix(l, "param:") {
						// parameters correspond by position and type, not by name
						l2 := "param:?"
						for _, pv := range s.LeafVals[l] {
							if par, ok := pv.(*ssa.Parameter); ok {
								for i, q := range par.Parent().Params {
									if q == par {
										l2 = sprintf("param#%d:%s", i, r.P.TypeShort(par.Type()))
									}
								}
							}
						}
						l = normLeaf(l2)
					}
					if strings.HasPrefix(l, "alloc:") || strings.HasPrefix(l, "feeds:") || strings.HasPrefix(l, "via:") {
						continue
					}
					set[normLeaf(l)] = true
				}
				var ls []string
				for l := range set {
					ls = append(ls, l)
				}
				sort.Strings(ls)
				args = append(args, ls)
			}
			out[k] = append(out[k], sig{k, args, in})
		})
		return out
	}
	n := 0
	for _, pair := range fsSiblings {
		a, b := mustFunc(r, pair[0]), mustFunc(r, pair[1])
		if a == nil || b == nil {
			continue
		}
		ca, cb := collect(a), collect(b)
		keys := map[string]bool{}
		for k := range ca {
			keys[k] = true
		}
		for k := range cb {
			keys[k] = true
		}
		var ks []string
		for k := range keys {
			ks = append(ks, k)
		}
		sort.Strings(ks)
		for _, k := range ks {
			n++
			kk := key(pair[0], "vs single", k)
			if len(ca[k]) != len(cb[k]) {
				r.Violated("R03.4", kk, r.P.Pos(a.Pos()), sprintf("the multi-bucket helper calls %s %d time(s), the single-bucket one %d time(s)", k, len(ca[k]), len(cb[k])))
				continue
			}
			diff := ""
			for i := range ca[k] {
				sa, sb := ca[k][i], cb[k][i]
				for j := range sa.args {
					if j >= len(sb.args) {
						break
					}
					da := setDiff(sa.args[j], sb.args[j])
					db := setDiff(sb.args[j], sa.args[j])
					da, db = dropAllowed(da), dropAllowed(db)
					if len(da) > 0 || len(db) > 0 {
						diff = sprintf("%s call #%d argument %d: only in multi %v, only in single %v (multi at %s, single at %s)", k, i, j, da, db, pos(r, sa.at), pos(r, sb.at))
					}
				}
			}
			r.Check(diff == "", "R03.4", kk, r.P.Pos(a.Pos()), "arguments have the same provenance in both backends", "the two fs backends disagree: "+diff)
		}
	}
	r.Floor("R03.4", 6, "sibling call pairs")
}

func setDiff(a, b []string) []string {
	m := map[string]bool{}
	for _, x := range b {
		m[x] = true
	}
	var out []string
	for _, x := range a {
		if !m[x] {
			out = append(out, x)
		}
	}
	return out
}

func dropAllowed(l []string) []string {
	var out []string
	for _, x := range l {
		if has(siblingAllowed["*"], x) {
			continue
		}
		out = append(out, x)
	}
	return out
}

func rule035(r *core.Run) {
	r.Rule("R03.5", "ObjectList.AddPrefix and ListBucketVersionsResult.AddPrefix append a prefix only when it is not yet in the prefixes set, and record it")
	for _, n := range []string{"gofakes3.(*ObjectList).AddPrefix", "gofakes3.(*ListBucketVersionsResult).AddPrefix"} {
		fn := mustFunc(r, n)
		if fn == nil {
			continue
		}
		pp := fn.Params[1]
		var appendSt *ssa.Store
		core.Instrs(fn, func(in ssa.Instruction) {
			if st, ok := in.(*ssa.Store); ok {
				if fa, ok := st.Addr.(*ssa.FieldAddr); ok && strings.HasSuffix(r.P.FieldName(fa), ".CommonPrefixes") {
					appendSt = st
				}
			}
		})
		if appendSt == nil {
			r.Violated("R03.5", key(n, "append"), r.P.Pos(fn.Pos()), "AddPrefix no longer appends to CommonPrefixes")
			continue
		}
		// not reachable from the "already present" edge; and the set is updated
		dedup := false
		core.Instrs(fn, func(in ssa.Instruction) {
			iff, ok := in.(*ssa.If)
			if !ok {
				return
			}
			lk, ok := iff.Cond.(*ssa.Lookup)
			if !ok || lk.Index != ssa.Value(pp) {
				return
			}
			// on the "already there" outcome of the lookup the append is not reached (flags set on that
			// arm — a helper's `return false` — are followed along the path)
			if !core.ReachableTrackingFlags(lk, appendSt, map[ssa.Value]bool{lk: true}, nil) {
				dedup = true
			}
		})
		recorded := false
		core.Instrs(fn, func(in ssa.Instruction) {
			mu, ok := in.(*ssa.MapUpdate)
			if !ok || mu.Key != ssa.Value(pp) {
				return
			}
			// every way to the append records the prefix first
			if core.Dominates(mu, appendSt) || !core.ReachableTrackingFlags(nil, appendSt, nil, func(y ssa.Instruction) bool { return y == ssa.Instruction(mu) }) {
				recorded = true
			}
		})
		vs := r.P.SliceOf(appendSt.Val, core.SliceOpts{Depth: -1})
		r.Check(dedup && recorded && vs.HasValue(pp), "R03.5", key(n, "dedupe"), pos(r, appendSt), "append only for a prefix not yet seen, then recorded", "AddPrefix can append a prefix that was already added (or does not record it): a CommonPrefix appears twice")
	}
}

// rule036 — no live, matching key is silently skipped by a listing loop.
func rule036(r *core.Run) {
	r.Rule("R03.6", "in the listing loops of the memory and bolt backends the only ways to go on to the next key without listing the current one (Add or AddPrefix) are: the prefix does not match, the current version is a delete marker, or the common prefix was already reported; in the fs file-prefix walkers: the entry name does not have the requested prefix part")
	// admissible ways to pass over the current entry, as (condition, truth) pairs: a
	// branch edge is admissible if one of the conditions it establishes — directly, or
	// through a boolean merged from a short-circuit expression / flag variable — is
	type spec struct {
		fn      string
		allowed func(fn *ssa.Function, cond ssa.Value, truth bool) bool
	}
	matchFalse := func(fn *ssa.Function, cond ssa.Value, truth bool) bool {
		cd := core.CondOf(cond)
		if c, ok := cd.X.(*ssa.Call); ok && cd.Op == 0 && r.P.CalleeName(c) == "gofakes3.(Prefix).Match" {
			return (truth != cd.Neg) == false
		}
		return false
	}
	specs := []spec{
		{"s3mem.(*Backend).ListBucket", func(fn *ssa.Function, cond ssa.Value, truth bool) bool {
			if matchFalse(fn, cond, truth) {
				return true
			}
			cd := core.CondOf(cond)
			t := truth != cd.Neg
			if isLoadOf(r, cd.X, "s3mem.bucketData.deleteMarker") && cd.Op == 0 && t {
				return true
			}
			// match.MatchedPart == lastMatchedPart
			if cd.Op == token.EQL || cd.Op == token.NEQ {
				eq := t == (cd.Op == token.EQL)
				if eq && (isLoadOf(r, cd.X, "gofakes3.PrefixMatch.MatchedPart") || isLoadOf(r, cd.Y, "gofakes3.PrefixMatch.MatchedPart")) {
					return true
				}
			}
			return false
		}},
		{"s3bolt.(*Backend).ListBucket$1", matchFalse},
		{"s3afero.(*MultiBucketBackend).getBucketWithFilePrefixLocked", nil},
		{"s3afero.(*SingleBucketBackend).getBucketWithFilePrefixLocked", nil},
	}
	hasPrefixSkipEdge := func(fn *ssa.Function, cond ssa.Value, truth bool) bool {
		cd := core.CondOf(cond)
		c, ok := cd.X.(*ssa.Call)
		if !ok || cd.Op != 0 || r.P.CalleeName(c) != "strings.HasPrefix" {
			return false
		}
		// the outcome on which HasPrefix(entryName, prefixPart) is false
		if (truth != cd.Neg) != false {
			return false
		}
		ns := r.P.SliceOf(c.Call.Args[0], core.SliceOpts{Depth: -1, NoIndex: true})
		return ns.HasPrefix("call:invoke:io/fs.FileInfo.Name") || ns.HasPrefix("call:invoke:os.FileInfo.Name")
	}
	for _, sp := range specs {
		fn := mustFunc(r, sp.fn)
		if fn == nil {
			continue
		}
		allowed := sp.allowed
		if allowed == nil {
			allowed = hasPrefixSkipEdge
		}
		var adds []ssa.Instruction
		for _, s := range addSites(r) {
			if s.fn == fn {
				adds = append(adds, s.call)
			}
		}
		if len(adds) == 0 {
			continue
		}
		// loop head: the innermost loop test guarding an add
		var head *ssa.If
		for _, g := range core.GuardsOf(adds[0]) {
			cd := core.CondOf(g.If.Cond)
			isLoop := false
			if c, ok := cd.X.(*ssa.Call); ok && r.P.CalleeName(c) == "goskipiter.(*Iterator).Next" && g.Branch {
				isLoop = true
			}
			if cd.Op == token.LSS && isLenCall(cd.Y) && g.Branch {
				isLoop = true
			}
			if cd.Op == token.NEQ && core.IsNilConst(cd.Y) && g.Branch {
				// bolt cursor loop: k != nil
				s := r.P.SliceOf(cd.X, core.SliceOpts{Depth: -1})
				if s.HasPrefix("call:(*go.etcd.io/bbolt.Cursor).") {
					isLoop = true
				}
			}
			if isLoop && (head == nil || core.BlockDominates(head.Block(), g.If.Block())) {
				head = g.If
			}
		}
		if head == nil {
			r.Unresolved("R03.6: listing loop of %s not recognised", sp.fn)
			continue
		}
		body := head.Block().Succs[0]
		f := fn
		skip, at := core.SilentSkip(body, head.Block(), func(in ssa.Instruction) bool {
			for _, a := range adds {
				if in == a {
					return true
				}
			}
			// an error return inside the loop is not a silent skip
			return false
		}, func(iff *ssa.If, branch bool) bool {
			for _, ec := range expandGuard(iff, branch) {
				if !ec.merged && allowed(f, ec.cond, ec.truth) {
					return true
				}
			}
			return false
		})
		p0 := pos(r, head)
		if at != nil {
			p0 = pos(r, at)
		}
		r.Check(!skip, "R03.6", key(sp.fn, "no silent skip of a live matching key"), p0, "every live key that matches is listed or grouped", "a live key that matches the prefix can be passed over without being listed or grouped (a condition other than the admissible ones continues the loop)")
	}
	r.Floor("R03.6", 3, "listing loops")
}

// rule037 — Prefix.Match splits and re-joins with the request's delimiter.
func rule037(r *core.Run) {
	r.Rule("R03.7", "in Prefix.Match the key and the prefix are split by p.Delimiter and the matched part is re-joined from a prefix of the key's own parts with that same p.Delimiter (and the same value appended when more parts follow); no other joining function takes part: split/join separator agreement")
	fn := mustFunc(r, "gofakes3.(Prefix).Match")
	if fn == nil {
		return
	}
	name := fname(r, fn)
	isDelim := func(v ssa.Value) bool {
		s := r.P.SliceOf(v, core.SliceOpts{Depth: -1})
		if !s.Has("field:gofakes3.Prefix.Delimiter") {
			return false
		}
		for l := range s.Leaves {
			if strings.HasPrefix(l, "const:") || strings.HasPrefix(l, "call:") || strings.HasPrefix(l, "op:") {
				return false
			}
		}
		return true
	}
	nSplit, nJoin := 0, 0
	bad := ""
	core.Instrs(fn, func(in ssa.Instruction) {
		c, ok := in.(*ssa.Call)
		if !ok {
			return
		}
		switch n := r.P.CalleeName(c); {
		case n == "strings.Split" || n == "strings.SplitN":
			nSplit++
			if !isDelim(c.Call.Args[1]) {
				bad = "strings.Split separator is not p.Delimiter at " + pos(r, c)
			}
		case n == "strings.Join":
			nJoin++
			if !isDelim(c.Call.Args[1]) {
				bad = "strings.Join separator is not p.Delimiter at " + pos(r, c)
			}
			as := r.P.SliceOf(c.Call.Args[0], core.SliceOpts{Depth: -1})
			if !as.HasValue(fn.Params[1]) { // key parameter
				bad = "the joined parts are not parts of the key at " + pos(r, c)
			}
		case strings.HasPrefix(n, "path.") || strings.HasPrefix(n, "path/filepath."):
			bad = n + " used in Prefix.Match at " + pos(r, c) + " (cleans '.', '..' and empty segments, and always joins with '/')"
		}
	})
	r.Check(bad == "" && nSplit >= 2 && nJoin == 1, "R03.7", key(name, "split/join agreement"), r.P.Pos(fn.Pos()), "split and re-joined with p.Delimiter", "the common prefix is not rebuilt with the request's delimiter: "+bad)
	// the delimiter appended to a grouped match is p.Delimiter too, and MatchedPart on the delimited path is that rebuilt string
	okStore := false
	for _, st := range r.P.FieldStores("gofakes3.PrefixMatch.MatchedPart") {
		if st.Parent() != fn {
			continue
		}
		s := r.P.SliceOf(st.Val, core.SliceOpts{Depth: -1})
		if s.Has("call:strings.Join") && s.Has("field:gofakes3.Prefix.Delimiter") {
			okStore = true
			for l := range s.Leaves {
				if strings.HasPrefix(l, "const:") && l != "const:0" && l != "const:1" && l != "const:-1" && l != "const:" && l != "const:true" && l != "const:false" {
					okStore = false
				}
			}
		}
	}
	r.Check(okStore, "R03.7", key(name, "MatchedPart is the re-joined key prefix"), r.P.Pos(fn.Pos()), "MatchedPart = join(keyParts[:matched], delimiter) (+ delimiter)", "MatchedPart on the delimited path is not the key's leading parts joined (and terminated) with the request's delimiter")
	// CommonPrefix flag is 'rebuilt string differs from the key'
	okFlag := false
	for _, st := range r.P.FieldStores("gofakes3.PrefixMatch.CommonPrefix") {
		if st.Parent() != fn {
			continue
		}
		if b, ok := st.Val.(*ssa.BinOp); ok && b.Op == token.NEQ && (b.X == ssa.Value(fn.Params[1]) || b.Y == ssa.Value(fn.Params[1])) {
			okFlag = true
		}
	}
	r.Check(okFlag, "R03.7", key(name, "CommonPrefix = (matched part != key)"), r.P.Pos(fn.Pos()), "grouped iff the matched part is a proper prefix of the key", "the CommonPrefix flag is no longer 'matched part != key'")
}

// rule038 — a listing collected by walking a directory tree is put into key order.
func rule038(r *core.Run) {
	r.Rule("R03.8", "a listing that the fs backends collect by walking the bucket's directory tree (afero.Walk visits directory after directory, not keys in byte order) is sorted by Content.Key before it is returned: every successful return after the walk passes a sort of response.Contents whose comparator orders by Key")
	n := 0
	for _, fn := range r.P.FuncsOfPkg("s3afero") {
		if fn.Parent() != nil {
			continue
		}
		var walk *ssa.Call
		core.Instrs(fn, func(in ssa.Instruction) {
			if c, ok := in.(*ssa.Call); ok && r.P.CalleeName(c) == "github.com/spf13/afero.Walk" {
				walk = c
			}
		})
		if walk == nil {
			continue
		}
		// does the walk callback add listing entries?
		adds := false
		for _, cl := range core.Closures(fn) {
			if len(r.P.CallsIn(cl, false, core.NameIs("gofakes3.(*ObjectList).Add"))) > 0 {
				adds = true
			}
		}
		if !adds {
			continue
		}
		n++
		f := fn
		var sorts []ssa.Instruction
		core.Instrs(f, func(in ssa.Instruction) {
			c, ok := in.(*ssa.Call)
			if !ok {
				return
			}
			cn := r.P.CalleeName(c)
			if cn != "sort.Slice" && cn != "sort.SliceStable" && cn != "sort.Sort" && cn != "sort.Stable" {
				return
			}
			as := r.P.SliceOf(c.Call.Args[0], core.SliceOpts{Depth: -1})
			if !as.Has("field:gofakes3.ObjectList.Contents") {
				return
			}
			// comparator orders by Key
			byKey := false
			for _, cl := range core.Closures(f) {
				core.Instrs(cl, func(ci ssa.Instruction) {
					b, ok := ci.(*ssa.BinOp)
					if ok && (b.Op == token.LSS || b.Op == token.GTR || b.Op == token.LEQ || b.Op == token.GEQ) && isLoadOf(r, b.X, "gofakes3.Content.Key") && isLoadOf(r, b.Y, "gofakes3.Content.Key") {
						byKey = true
					}
				})
			}
			if byKey {
				sorts = append(sorts, c)
			}
		})
		ok := len(sorts) > 0
		for ret, ev := range returnedErrors(f) {
			if !definitelyNil(r, ev) || !core.Reaches(walk, ret) {
				continue
			}
			if core.ReachesAvoiding(walk, ret, func(in ssa.Instruction) bool {
				for _, s := range sorts {
					if in == s {
						return true
					}
				}
				return false
			}) {
				ok = false
			}
		}
		r.Check(ok, "R03.8", key(fname(r, f), "walked listing sorted by key"), pos(r, walk), "sort of Contents by Key between the walk and the return",
			"the entries collected by walking the directory tree are returned in walk order: keys are not in byte order (a/b before a.txt and a-1)")
	}
	r.Floor("R03.8", 2, "tree-walking listings")
}

// rule039 — a bolt cursor is only moved by calls whose landing item is examined.
func rule039(r *core.Run) {
	r.Rule("R03.9", "in the bolt backend's listing every cursor-moving call (First, Seek, Next, Prev, Last) hands the item it lands on to the loop (its key result is used): a repositioning whose result is discarded is followed by the loop's own advance, which steps past the item — a live key is never examined; and the fs DeleteMulti/DeleteObject paths hand pruneEmptyDirs the object's path, not a directory of it (the helper itself starts at the parent)")
	n := 0
	if lb := mustFunc(r, "s3bolt.(*Backend).ListBucket"); lb != nil {
		for _, f := range core.Closures(lb) {
			fn := f
			core.Instrs(fn, func(in ssa.Instruction) {
				c, ok := in.(*ssa.Call)
				if !ok {
					return
				}
				cn := r.P.CalleeName(c)
				if !strings.HasPrefix(cn, "(*go.etcd.io/bbolt.Cursor).") {
					return
				}
				switch strings.TrimPrefix(cn, "(*go.etcd.io/bbolt.Cursor).") {
				case "First", "Seek", "Next", "Prev", "Last":
				default:
					return
				}
				n++
				used := false
				if refs := c.Referrers(); refs != nil {
					for _, u := range *refs {
						if ex, ok := u.(*ssa.Extract); ok && ex.Index == 0 && ex.Referrers() != nil && len(*ex.Referrers()) > 0 {
							used = true
						}
					}
				}
				r.Check(used, "R03.9", key(fname(r, fn), "cursor move examined", cn, sprintf("#%d", n)), pos(r, c), "the key the cursor lands on is used",
					"the cursor is repositioned with "+cn+" and the item it lands on is discarded: the loop's advance then steps past it, so the first key after the jump is never listed")
			})
		}
	}
	// pruneEmptyDirs receives the object's path
	if pe := optFunc(r, "s3afero.pruneEmptyDirs"); pe != nil {
		for _, c := range r.P.StaticCallers(pe) {
			n++
			args := c.Common().Args
			if len(args) < 3 {
				continue
			}
			as := r.P.SliceOf(args[2], core.SliceOpts{Depth: -1})
			bad := as.Has("call:path.Dir") || as.Has("call:path/filepath.Dir")
			// the value must not come out of a container of directories either (a set collected during a batch)
			if _, isParam := core.Forward(args[2]).(*ssa.Parameter); !isParam && !as.Has("call:path.Join") && !as.HasPrefix("param:") {
				bad = true
			}
			r.Check(!bad, "R03.9", key(fname(r, c.Parent()), "prune starts at the object's path"), pos(r, c.(ssa.Instruction)), "pruneEmptyDirs(fs, root, <object path>)",
				"pruneEmptyDirs is handed a directory (a path.Dir result or a collected directory) instead of the deleted object's path: it starts one level too high and leaves the emptied directory behind as a phantom common prefix")
		}
	}
	if n < 2 {
		r.Unresolved("R03.9: %d cursor moves / prune calls found (expected at least 2)", n)
	}
}

// rule0310 — "found" starts at offset 0.
func rule0310(r *core.Run) {
	r.Rule("R03.10", "every comparison of a strings/bytes Index*, LastIndex* result with a constant separates 'found' (>= 0) from 'not found' (-1): the forms `> 0`, `>= 1`, `<= 0`, `< 1`, `== 0`-as-not-found merge a match at offset 0 with no match. In key handling a match at offset 0 is a real case (empty segment, doubled delimiter, leading delimiter) and is grouped differently from its neighbours when dropped")
	n, nCmp := 0, 0
	for _, fn := range r.P.RepoFuncs() {
		f := fn
		core.Instrs(f, func(in ssa.Instruction) {
			c, ok := in.(*ssa.Call)
			if !ok {
				return
			}
			cn := r.P.CalleeName(c)
			if !(strings.HasPrefix(cn, "strings.Index") || strings.HasPrefix(cn, "strings.LastIndex") || strings.HasPrefix(cn, "bytes.Index") || strings.HasPrefix(cn, "bytes.LastIndex")) {
				return
			}
			n++
			if c.Referrers() == nil {
				return
			}
			for _, u := range *c.Referrers() {
				b, ok := u.(*ssa.BinOp)
				if !ok {
					continue
				}
				var k int64
				var isK bool
				op := b.Op
				if b.X == ssa.Value(c) {
					k, isK = core.ConstInt(b.Y)
				} else {
					k, isK = core.ConstInt(b.X)
					// normalise `k OP idx` to `idx OP' k`
					switch op {
					case token.LSS:
						op = token.GTR
					case token.GTR:
						op = token.LSS
					case token.LEQ:
						op = token.GEQ
					case token.GEQ:
						op = token.LEQ
					}
				}
				if !isK {
					continue
				}
				switch op {
				case token.EQL, token.NEQ, token.LSS, token.LEQ, token.GTR, token.GEQ:
				default:
					continue
				}
				nCmp++
				// boundary between -1 and 0?
				okCmp := (op == token.GEQ && k == 0) || (op == token.LSS && k == 0) || (op == token.GTR && k == -1) || (op == token.LEQ && k == -1) ||
					(op == token.EQL && k == -1) || (op == token.NEQ && k == -1)
				// comparisons with an offset >= 1 ask where, not whether; equality with 0 asks "at the start"
				if k >= 2 || (op == token.EQL || op == token.NEQ) && k >= 0 {
					okCmp = true
				}
				r.Check(okCmp, "R03.10", key(fname(r, f), "search result tested at the found/not-found boundary", cn, sprintf("%s %d", op, k)), pos(r, b), "found ⇔ >= 0",
					sprintf("the result of %s is tested with `%s %d`: a match at offset 0 is treated like no match", cn, op, k))
			}
		})
	}
	r.Held("R03.10", key("repo", "search calls enumerated"), "", sprintf("%d Index/LastIndex calls, %d constant comparisons", n, nCmp))
}

// rule0311 — the listing request's delimiter and prefix do not depend on each other.
func rule0311(r *core.Run) {
	r.Rule("R03.11", "in prefixFromQuery every value stored into Prefix.HasDelimiter / Prefix.Delimiter derives from the 'delimiter' query parameter only and every value stored into Prefix.HasPrefix / Prefix.Prefix from 'prefix' only: a delimiter given without a prefix still groups (and a prefix without a delimiter does not)")
	fn := mustFunc(r, "gofakes3.prefixFromQuery")
	if fn == nil {
		return
	}
	name := fname(r, fn)
	n := 0
	for fld, want := range map[string]string{"gofakes3.Prefix.HasDelimiter": "delimiter", "gofakes3.Prefix.Delimiter": "delimiter", "gofakes3.Prefix.HasPrefix": "prefix", "gofakes3.Prefix.Prefix": "prefix"} {
		other := "prefix"
		otherFld := []string{"field:gofakes3.Prefix.Prefix", "field:gofakes3.Prefix.HasPrefix"}
		if want == "prefix" {
			other = "delimiter"
			otherFld = []string{"field:gofakes3.Prefix.Delimiter", "field:gofakes3.Prefix.HasDelimiter"}
		}
		for _, st := range r.P.FieldStores(fld) {
			if st.Parent() != fn {
				continue
			}
			n++
			srcs := prefixSources(r, st.Val)
			bad := srcs["const:"+other] || srcs[otherFld[0]] || srcs[otherFld[1]]
			r.Check(!bad, "R03.11", key(name, strings.TrimPrefix(fld, "gofakes3.Prefix.")+" from '"+want+"' only", sprintf("#%d", n)), pos(r, st), "derives from the "+want+" parameter",
				"the value stored into "+fld+" depends on the '"+other+"' parameter: a listing with a delimiter but no prefix (or the reverse) is answered as if the other had not been given")
		}
	}
	if n < 4 {
		r.Unresolved("R03.11: %d stores into the Prefix fields found in prefixFromQuery (expected at least 4)", n)
	}
}

// prefixSources: field-sensitive def-use closure of a value inside one
// function: which fields of local structs and which constant strings it
// derives from (loads of struct fields are leaves; the conditions selecting the
// edges of a merged boolean are followed).
func prefixSources(r *core.Run, v ssa.Value) map[string]bool {
	out := map[string]bool{}
	seen := map[ssa.Value]bool{}
	var walk func(v ssa.Value, d int)
	walk = func(v ssa.Value, d int) {
		if v == nil || seen[v] || d > 12 {
			return
		}
		seen[v] = true
		switch x := v.(type) {
		case *ssa.Const:
			if s, ok := core.ConstString(x); ok {
				out["const:"+s] = true
			}
		case *ssa.UnOp:
			if x.Op == token.MUL {
				if fa, ok := x.X.(*ssa.FieldAddr); ok {
					out["field:"+r.P.FieldName(fa)] = true
					// the value last stored into that field of a local struct
					if al, ok := fa.X.(*ssa.Alloc); ok {
						for _, ref := range *al.Referrers() {
							if f2, ok := ref.(*ssa.FieldAddr); ok && f2.Field == fa.Field {
								for _, u := range *f2.Referrers() {
									if st, ok := u.(*ssa.Store); ok && st.Addr == ssa.Value(f2) && st.Val != v {
										walk(st.Val, d+1)
									}
								}
							}
						}
					}
					return
				}
			}
			walk(x.X, d+1)
		case *ssa.BinOp:
			walk(x.X, d+1)
			walk(x.Y, d+1)
		case *ssa.Phi:
			for i, e := range x.Edges {
				walk(e, d+1)
				if i < len(x.Block().Preds) {
					for _, g := range core.GuardsOfEdge(x.Block().Preds[i], x.Block()) {
						walk(g.If.Cond, d+1)
					}
				}
			}
		case *ssa.Extract:
			walk(x.Tuple, d+1)
		case *ssa.Lookup:
			walk(x.Index, d+1)
		case *ssa.Call:
			for _, a := range x.Call.Args {
				walk(a, d+1)
			}
		case *ssa.Convert:
			walk(x.X, d+1)
		case *ssa.ChangeType:
			walk(x.X, d+1)
		}
	}
	walk(v, 0)
	return out
}

// boltForEachParams: if fn is a function literal handed to (*bolt.Bucket).ForEach,
// its key and value parameters (the pair of the entry being iterated).
func boltForEachParams(r *core.Run, fn *ssa.Function) (k, v *ssa.Parameter) {
	if fn.Parent() == nil || len(fn.Params) != 2 {
		return nil, nil
	}
	isCB := false
	core.Instrs(fn.Parent(), func(in ssa.Instruction) {
		c, ok := in.(*ssa.Call)
		if !ok || r.P.CalleeName(c) != "(*go.etcd.io/bbolt.Bucket).ForEach" || len(c.Call.Args) < 2 {
			return
		}
		a := c.Call.Args[1]
		if mc, ok := a.(*ssa.MakeClosure); ok {
			a = mc.Fn
		}
		if a == ssa.Value(fn) {
			isCB = true
		}
	})
	if !isCB {
		return nil, nil
	}
	return fn.Params[0], fn.Params[1]
}
