package rules

import (
	"go/constant"
	"go/token"
	"sort"
	"strings"

	"golang.org/x/tools/go/ssa"

	"gfs3check/internal/core"
)

func init() { Registry["C16"] = C16 }

// C16 — path-style and virtual-host-style addressing reach the same bucket and key.
//
// The equivalence of two complete responses is a relation between runtime
// strings and is not decided. What is decided is the structure every such
// equivalence rests on: where the addressing mode can influence a request at
// all, what the two host middlewares may change, and where the (bucket, key)
// decision is taken.
func C16(r *core.Run) {
	r.Explanation = "Structural necessary conditions of path-style ≡ virtual-host-style addressing, on all paths: " +
		"(R16.1) Server() installs each host middleware under a test of its own option, the base list taking precedence; " +
		"(R16.2) the host middlewares change nothing of the request but URL.Path (no header, method, query, body or host write), and the fallback path of the base middleware writes nothing; " +
		"(R16.3) the rewritten path is built from the Host-derived bucket label and the incoming URL.Path only, the incoming path entering unmodified (no cleaning, trimming, escaping or case change), and the label derives from Request.Host (and the configured bases) alone; " +
		"(R16.4) outside Server(), the host middlewares and the Location element of CompleteMultipartUpload nothing reads the addressing options, Request.Host or the middleware's mark — every handler below the router is addressing-mode independent — and nothing below routeBase re-reads the request path: the (bucket, key) decision is taken once; " +
		"(R16.5) routeBase derives bucket and key from URL.Path with the slashes stripped on both sides before the single split; " +
		"(R16.6) the request is marked as host-addressed exactly on the paths that rewrite it, and the form of the Location element follows that mark rather than an option Server() may have overridden; " +
		"(R16.7) the base middleware treats a host as <label>.<base> only under a suffix test against a configured base and a test that the label contains no further dot, and forwards the untouched request otherwise; (R09.6) each middleware forwards exactly once with the incoming writer and request."
	r.NotDecided = "equality of the two complete responses; the contents of the strings (which characters a label or key contains, ports in Host values, bases that are suffixes of one another, empty labels); that the rewritten path, once trimmed and split by routeBase, yields the same key as the path-style form for every key (keys beginning with '/' are a documented ambiguity of the path form); CORS and time-skew middlewares' interplay"
	r.TrustedBase = append(r.TrustedBase, "net/http delivers Host and URL.Path as received", "strings.Trim/SplitN/HasSuffix semantics")
	rule161(r)
	mws := hostMiddlewares(r)
	rule162(r, mws)
	rule163(r, mws)
	rule164(r, mws)
	rule165(r)
	rule166(r, mws)
	rule167(r)
	rule096(r)
}

type hostMW struct {
	ctor    *ssa.Function // hostBucketMiddleware / hostBucketBaseMiddleware
	serve   *ssa.Function // the func(w, rq) closure
	helpers []*ssa.Function
}

func hostMiddlewares(r *core.Run) []hostMW {
	var out []hostMW
	for _, n := range []string{"gofakes3.(*GoFakeS3).hostBucketMiddleware", "gofakes3.(*GoFakeS3).hostBucketBaseMiddleware"} {
		f := mustFunc(r, n)
		if f == nil {
			continue
		}
		m := hostMW{ctor: f}
		for _, a := range f.AnonFuncs {
			if len(a.Params) == 2 && r.P.TypeShort(a.Params[0].Type()) == "net/http.ResponseWriter" {
				m.serve = a
			} else {
				m.helpers = append(m.helpers, a)
			}
		}
		if m.serve == nil {
			r.Unresolved("R16: no func(w, rq) closure in %s", n)
			continue
		}
		out = append(out, m)
	}
	return out
}

func (m hostMW) funcs() []*ssa.Function {
	return append([]*ssa.Function{m.ctor, m.serve}, m.helpers...)
}

func rule161(r *core.Run) {
	r.Rule("R16.1", "in Server() the call installing hostBucketBaseMiddleware is guarded by a test on hostBucketBases and the call installing hostBucketMiddleware by a test on hostBucket (with the base list absent); both results flow into the returned handler")
	fn := mustFunc(r, "gofakes3.(*GoFakeS3).Server")
	if fn == nil {
		return
	}
	var rets []ssa.Value
	for _, ret := range core.Returns(fn) {
		rets = append(rets, ret.Results...)
	}
	rs := r.P.SliceOfMany(rets, core.SliceOpts{Depth: -1})
	want := map[string]string{
		"gofakes3.(*GoFakeS3).hostBucketBaseMiddleware": "field:gofakes3.GoFakeS3.hostBucketBases",
		"gofakes3.(*GoFakeS3).hostBucketMiddleware":     "field:gofakes3.GoFakeS3.hostBucket",
	}
	seen := 0
	core.Instrs(fn, func(in ssa.Instruction) {
		c, ok := in.(*ssa.Call)
		if !ok {
			return
		}
		n := r.P.CalleeName(c)
		fld, ok := want[n]
		if !ok {
			return
		}
		seen++
		own, other := false, ""
		for _, g := range core.GuardsOf(c) {
			gs := r.P.SliceOf(g.If.Cond, core.SliceOpts{Depth: -1})
			if gs.Has(fld) {
				own = true
			}
		}
		_ = other
		r.Check(own && rs.Values[c], "R16.1", key(fname(r, fn), "installed under its own option", n), pos(r, c),
			"middleware installed under a test of its own option and returned", "the middleware is installed under a test that does not read its own option ("+strings.TrimPrefix(fld, "field:")+"), or its result is not part of the returned handler: the configured addressing mode is not the one in effect")
	})
	if seen != 2 {
		r.Unresolved("R16.1: %d host middleware installations in Server() (expected 2)", seen)
	}
}

// requestRooted reports whether addr is a field address inside the request
// (or its URL) reachable from the closure's request parameter.
func requestField(r *core.Run, in ssa.Instruction) (string, bool) {
	st, ok := in.(*ssa.Store)
	if !ok {
		return "", false
	}
	fa, ok := st.Addr.(*ssa.FieldAddr)
	if !ok {
		// stores through an index into a header map etc. are calls (MapUpdate) — handled by the caller
		return "", false
	}
	n := r.P.FieldName(fa)
	if strings.HasPrefix(n, "net/http.Request.") || strings.HasPrefix(n, "net/url.URL.") {
		return n, true
	}
	return "", false
}

var requestMutators = map[string]bool{
	"(net/http.Header).Set": true, "(net/http.Header).Add": true, "(net/http.Header).Del": true,
	"(*net/http.Request).SetBasicAuth": true, "(*net/http.Request).AddCookie": true, "(*net/http.Request).SetPathValue": true,
	"(net/url.Values).Set": true, "(net/url.Values).Add": true, "(net/url.Values).Del": true,
	"(*net/http.Request).ParseForm": true, "(*net/http.Request).ParseMultipartForm": true,
}

func rule162(r *core.Run, mws []hostMW) {
	r.Rule("R16.2", "the host middlewares (closures and helpers) store to no field of the request or its URL other than URL.Path, call no header/query mutator, update no map of the request, and never read the body; on the base middleware's fallback path (label not recognised) nothing is stored at all")
	for _, m := range mws {
		name := fname(r, m.serve)
		bad := ""
		pathStores := 0
		for _, f := range m.funcs() {
			core.Instrs(f, func(in ssa.Instruction) {
				if n, ok := requestField(r, in); ok {
					if n == "net/url.URL.Path" {
						pathStores++
					} else {
						bad = "store to " + n + " at " + pos(r, in)
					}
				}
				if mu, ok := in.(*ssa.MapUpdate); ok {
					ms := r.P.SliceOf(mu.Map, core.SliceOpts{Depth: -1})
					if ms.HasPrefix("field:net/http.Request.") || ms.HasPrefix("field:net/url.URL.") {
						bad = "map of the request updated at " + pos(r, in)
					}
				}
				if c, ok := in.(ssa.CallInstruction); ok {
					cn := r.P.CalleeName(c)
					if requestMutators[cn] {
						bad = "call of " + cn + " at " + pos(r, in)
					}
					if strings.HasPrefix(cn, "invoke:io.Read") || cn == "io/ioutil.ReadAll" || cn == "io.ReadAll" || cn == "io.Copy" {
						bad = "the request body is consumed at " + pos(r, in)
					}
				}
			})
		}
		r.Check(bad == "" && pathStores > 0, "R16.2", key(name, "only URL.Path is rewritten"), r.P.Pos(m.serve.Pos()),
			sprintf("%d store(s), all to URL.Path", pathStores), "a host middleware changes more of the request than its path ("+bad+"): the same logical request is no longer handled the same way under both addressing modes")
	}
	// fallback path of the base middleware: a forward with the unmodified request must not be preceded by a path store
	if len(mws) == 2 {
		m := mws[1]
		name := fname(r, m.serve)
		var rq ssa.Value
		for _, p := range m.serve.Params {
			if r.P.TypeShort(p.Type()) == "*net/http.Request" {
				rq = p
			}
		}
		var stores []ssa.Instruction
		core.Instrs(m.serve, func(in ssa.Instruction) {
			if n, ok := requestField(r, in); ok && n == "net/url.URL.Path" {
				stores = append(stores, in)
			}
		})
		nexts := r.P.CallsIn(m.serve, false, core.NameIs("invoke:net/http.Handler.ServeHTTP"))
		plain := 0
		for _, c := range nexts {
			args := c.Common().Args
			if len(args) != 2 || args[1] != rq {
				continue
			}
			dirty := false
			for _, st := range stores {
				if core.Reaches(st, c.(ssa.Instruction)) {
					dirty = true
				}
			}
			if !dirty {
				plain++
			}
		}
		r.Check(plain > 0, "R16.2", key(name, "has a path-style fallback"), r.P.Pos(m.serve.Pos()), "hosts that are not <label>.<base> are forwarded untouched",
			"the base middleware no longer has a path that forwards the incoming request unchanged: hosts that are not <label>.<base> do not fall back to path-style")
	}
}

// pathTransformers are calls that change a path string's content; none may be
// applied to the incoming path (or the label) on its way into the rewritten path.
var pathTransformers = map[string]bool{
	"path.Join": true, "path.Clean": true, "path/filepath.Join": true, "path/filepath.Clean": true, "path/filepath.ToSlash": true, "path/filepath.FromSlash": true,
	"net/url.PathEscape": true, "net/url.PathUnescape": true, "net/url.QueryEscape": true, "net/url.QueryUnescape": true,
	"strings.ToLower": true, "strings.ToUpper": true, "strings.Title": true, "strings.ToTitle": true,
	"strings.Trim": true, "strings.TrimLeft": true, "strings.TrimRight": true, "strings.TrimPrefix": true, "strings.TrimSuffix": true, "strings.TrimSpace": true, "strings.TrimFunc": true,
	"strings.Replace": true, "strings.ReplaceAll": true, "strings.Map": true, "strings.Fields": true,
	"(*net/url.URL).EscapedPath": true, "(*net/url.URL).JoinPath": true, "net/url.JoinPath": true,
}

func rule163(r *core.Run, mws []hostMW) {
	r.Rule("R16.3", "every value stored to URL.Path by a host middleware derives from Request.Host and the incoming URL.Path (plus constants and, for the base middleware, the configured bases) and from no other part of the request; the incoming path reaches the store through concatenation only — no transforming call (clean, join, trim, replace, escape, case) is applied to it")
	for _, m := range mws {
		name := fname(r, m.serve)
		n := 0
		hostSeen := false
		core.Instrs(m.serve, func(in ssa.Instruction) {
			fld, ok := requestField(r, in)
			if !ok || fld != "net/url.URL.Path" {
				return
			}
			n++
			st := in.(*ssa.Store)
			s := r.P.SliceOf(st.Val, core.SliceOpts{})
			bad := ""
			for _, l := range s.LeafList("field:net/http.Request.") {
				switch l {
				case "field:net/http.Request.Host", "field:net/http.Request.URL":
				default:
					bad = l
				}
			}
			for _, l := range s.LeafList("field:net/url.URL.") {
				if l != "field:net/url.URL.Path" {
					bad = l
				}
			}
			// transforming calls applied to a value that derives from the incoming path
			for c := range s.Calls {
				cn := r.P.CalleeName(c)
				if !pathTransformers[cn] {
					continue
				}
				for _, a := range c.Common().Args {
					as := r.P.SliceOf(a, core.SliceOpts{})
					if as.Has("field:net/url.URL.Path") {
						bad = cn + " applied to the incoming path at " + pos(r, c.(ssa.Instruction))
					}
				}
			}
			if s.Has("field:net/http.Request.Host") {
				hostSeen = true
			}
			r.Check(bad == "", "R16.3", key(name, "rewritten path provenance", sprintf("#%d", n)), pos(r, in),
				"path = f(Host label, incoming path), incoming path unmodified", "the rewritten path depends on "+orStr(bad, "something other than the Host header")+": the virtual-host form no longer addresses what the path form addresses")
		})
		// the incoming path must be part of the final path on every rewriting path, except for the root path
		if n == 0 {
			r.Unresolved("R16.3: no URL.Path store in %s", name)
		}
		hasOld := false
		core.Instrs(m.serve, func(in ssa.Instruction) {
			fld, ok := requestField(r, in)
			if ok && fld == "net/url.URL.Path" {
				s := r.P.SliceOf(in.(*ssa.Store).Val, core.SliceOpts{Depth: -1})
				if s.Has("field:net/url.URL.Path") {
					hasOld = true
				}
			}
		})
		r.Check(hostSeen, "R16.3", key(name, "label from Request.Host"), r.P.Pos(m.serve.Pos()), "the bucket label derives from Request.Host",
			"no store to URL.Path derives from Request.Host: the bucket is not taken from the Host header")
		r.Check(hasOld, "R16.3", key(name, "incoming path kept"), r.P.Pos(m.serve.Pos()), "the incoming path is appended to the label",
			"no store to URL.Path includes the incoming path: the key is lost in virtual-host mode")
	}
}

func orStr(a, b string) string {
	if a != "" {
		return a
	}
	return b
}

func rule164(r *core.Run, mws []hostMW) {
	r.Rule("R16.4", "GoFakeS3.hostBucket and hostBucketBases are read only in Server() and the host middlewares (and written only by their options); Request.Host and the host-addressed mark are read only by the host middlewares and completeMultipartUpload, where they reach nothing but the Location element; below routeBase no function reads URL.Path, RawPath, RequestURI or EscapedPath")
	allowedMode := map[*ssa.Function]bool{}
	for _, m := range mws {
		for _, f := range m.funcs() {
			allowedMode[f] = true
		}
	}
	srv := mustFunc(r, "gofakes3.(*GoFakeS3).Server")
	cmu := mustFunc(r, "gofakes3.(*GoFakeS3).completeMultipartUpload")
	rb := mustFunc(r, "gofakes3.(*GoFakeS3).routeBase")
	if srv == nil || cmu == nil || rb == nil {
		return
	}
	allowedMode[srv] = true
	marks := map[*ssa.Function]bool{}
	for _, n := range []string{"gofakes3.withHostBucket", "gofakes3.isHostBucketRequest"} {
		if f := optFunc(r, n); f != nil {
			marks[f] = true
		}
	}
	logOnly := func(in ssa.Instruction, v ssa.Value) bool {
		// a value whose only use is as an argument of the logger is not a decision
		refs := v.Referrers()
		if refs == nil || len(*refs) == 0 {
			return false
		}
		for _, u := range *refs {
			c, ok := u.(ssa.CallInstruction)
			if !ok {
				return false
			}
			cn := r.P.CalleeName(c)
			if !strings.Contains(cn, "Logger") && !strings.HasPrefix(cn, "log.") {
				return false
			}
		}
		return true
	}
	nReads := 0
	for _, f := range r.P.RepoFuncs() {
		if r.P.PkgShort(f) != "gofakes3" {
			continue
		}
		fn := f
		top := f
		for top.Parent() != nil {
			top = top.Parent()
		}
		core.Instrs(fn, func(in ssa.Instruction) {
			fa, ok := in.(*ssa.FieldAddr)
			if !ok {
				return
			}
			n := r.P.FieldName(fa)
			isRead := false
			var loaded ssa.Value
			if refs := fa.Referrers(); refs != nil {
				for _, u := range *refs {
					if ld, ok := u.(*ssa.UnOp); ok && ld.Op == token.MUL {
						isRead = true
						loaded = ld
					}
				}
			}
			if !isRead {
				return
			}
			switch n {
			case "gofakes3.GoFakeS3.hostBucket", "gofakes3.GoFakeS3.hostBucketBases":
				nReads++
				if !allowedMode[fn] && !allowedMode[top] {
					r.Violated("R16.4", key(fname(r, fn), "reads the addressing option", strings.TrimPrefix(n, "gofakes3.GoFakeS3.")), pos(r, in),
						"a function other than Server() and the host middlewares reads "+n+": its behaviour depends on the configured addressing mode (Server() may have chosen another one for this request), so the two addressing forms are not answered alike")
				}
			case "net/http.Request.Host":
				nReads++
				if !allowedMode[fn] && fn != cmu && !logOnly(in, loaded) {
					r.Violated("R16.4", key(fname(r, fn), "reads Request.Host"), pos(r, in),
						"a handler reads Request.Host: its answer depends on how the request was addressed")
				}
			case "net/url.URL.Path", "net/url.URL.RawPath", "net/http.Request.RequestURI":
				if fn == rb || allowedMode[fn] || logOnly(in, loaded) {
					return
				}
				// only functions below the router matter
				r.Violated("R16.4", key(fname(r, fn), "re-reads the request path", strings.TrimPrefix(n, "net/")), pos(r, in),
					"a function other than routeBase reads "+n+": the (bucket, key) decision is no longer taken in one place, and the rewritten and the path-style request can be split differently")
			}
		})
		core.Instrs(fn, func(in ssa.Instruction) {
			c, ok := in.(ssa.CallInstruction)
			if !ok {
				return
			}
			cn := r.P.CalleeName(c)
			if cn == "(*net/url.URL).EscapedPath" || cn == "(*net/url.URL).RequestURI" {
				if fn != rb && !allowedMode[fn] {
					if v, ok := in.(ssa.Value); !ok || !logOnly(in, v) {
						r.Violated("R16.4", key(fname(r, fn), "re-reads the request path", cn), pos(r, in), "a function other than routeBase calls "+cn+": the (bucket, key) decision is no longer taken in one place")
					}
				}
			}
			if sc := core.StaticCallee(c); sc != nil && marks[sc] {
				nReads++
				if !allowedMode[fn] && fn != cmu && !marks[fn] {
					r.Violated("R16.4", key(fname(r, fn), "reads the host-addressed mark"), pos(r, in), "a handler other than completeMultipartUpload asks how the request was addressed: its answer depends on the addressing mode")
				}
			}
		})
	}
	r.Check(nReads >= 4, "R16.4", key("gofakes3", "mode reads enumerated"), r.P.Pos(srv.Pos()), sprintf("%d reads of addressing state, all in Server(), the host middlewares or the Location computation", nReads), "fewer reads of the addressing state than Server() alone must contain: the anchors moved")
	// in completeMultipartUpload the addressing-dependent values reach only Location
	bad := ""
	nFields := 0
	core.Instrs(cmu, func(in ssa.Instruction) {
		st, ok := in.(*ssa.Store)
		if ok {
			if fa, ok := st.Addr.(*ssa.FieldAddr); ok {
				n := r.P.FieldName(fa)
				if strings.HasPrefix(n, "gofakes3.CompleteMultipartUploadResult.") && n != "gofakes3.CompleteMultipartUploadResult.Location" {
					nFields++
					s := r.P.SliceOf(st.Val, core.SliceOpts{Depth: 1})
					if s.Has("field:net/http.Request.Host") || s.HasCallTo("gofakes3.isHostBucketRequest") || s.Has("field:gofakes3.GoFakeS3.hostBucket") {
						bad = n + " at " + pos(r, in)
					}
				}
			}
		}
		if c, ok := in.(ssa.CallInstruction); ok {
			if _, isStore := storageCall(r, c); isStore || strings.HasPrefix(r.P.CalleeName(c), "invoke:gofakes3.Backend.") || strings.HasPrefix(r.P.CalleeName(c), "invoke:gofakes3.VersionedBackend.") || strings.HasPrefix(r.P.CalleeName(c), "(*gofakes3.uploader).") {
				for _, a := range c.Common().Args {
					s := r.P.SliceOf(a, core.SliceOpts{Depth: 1})
					if s.Has("field:net/http.Request.Host") || s.HasCallTo("gofakes3.isHostBucketRequest") {
						bad = "argument of " + r.P.CalleeName(c) + " at " + pos(r, in)
					}
				}
			}
		}
	})
	r.Check(bad == "" && nFields >= 3, "R16.4", key(fname(r, cmu), "addressing reaches only Location"), r.P.Pos(cmu.Pos()), sprintf("%d other result fields and the backend calls are addressing-independent", nFields),
		"the addressing mode of the request reaches more than the Location element ("+bad+")")
}

func rule165(r *core.Run) {
	r.Rule("R16.5", "in routeBase the bucket and key handed to every route derive from URL.Path through a strip of '/' on both sides (strings.Trim with a cutset containing '/', or a left and a right trim) that precedes the single split on '/' (a two-way split); the path is read from nowhere else")
	rb := mustFunc(r, "gofakes3.(*GoFakeS3).routeBase")
	if rb == nil {
		return
	}
	n := 0
	core.Instrs(rb, func(in ssa.Instruction) {
		c, ok := in.(*ssa.Call)
		if !ok {
			return
		}
		cn := r.P.CalleeName(c)
		if !strings.HasPrefix(cn, "gofakes3.(*GoFakeS3).route") || len(c.Call.Args) < 2 {
			return
		}
		// args: g, bucket[, object], ...
		var strArgs []ssa.Value
		for _, a := range c.Call.Args[1:] {
			if r.P.TypeShort(a.Type()) == "string" {
				strArgs = append(strArgs, a)
			}
		}
		if len(strArgs) == 0 {
			return
		}
		n++
		s := r.P.SliceOfMany(strArgs, core.SliceOpts{Depth: -1})
		both := false
		left, right := false, false
		split2 := false
		for cc := range s.Calls {
			ccn := r.P.CalleeName(cc)
			args := cc.Common().Args
			cut := ""
			if len(args) >= 2 {
				cut, _ = core.ConstString(args[1])
			}
			fromPath := false
			if len(args) >= 1 {
				fromPath = r.P.SliceOf(args[0], core.SliceOpts{Depth: -1}).Has("field:net/url.URL.Path")
			}
			switch ccn {
			case "strings.Trim":
				if strings.Contains(cut, "/") && fromPath {
					both = true
				}
			case "strings.TrimLeft", "strings.TrimPrefix":
				if strings.Contains(cut, "/") && fromPath {
					left = true
				}
			case "strings.TrimRight", "strings.TrimSuffix":
				if strings.Contains(cut, "/") && fromPath {
					right = true
				}
			case "strings.SplitN":
				if k, ok := core.ConstInt(args[2]); ok && k == 2 && cut == "/" {
					// the split input must itself be the stripped path
					is := r.P.SliceOf(args[0], core.SliceOpts{Depth: -1})
					if is.HasCallTo("strings.Trim") || (is.HasCallTo("strings.TrimLeft") && is.HasCallTo("strings.TrimRight")) {
						split2 = true
					}
				}
			case "strings.Cut":
				if cut == "/" {
					is := r.P.SliceOf(args[0], core.SliceOpts{Depth: -1})
					if is.HasCallTo("strings.Trim") || (is.HasCallTo("strings.TrimLeft") && is.HasCallTo("strings.TrimRight")) {
						split2 = true
					}
				}
			}
		}
		okStrip := both || (left && right)
		bad := ""
		for _, l := range s.LeafList("field:net/") {
			if l != "field:net/url.URL.Path" && l != "field:net/http.Request.URL" {
				bad = l
			}
		}
		r.Check(okStrip && split2 && bad == "" && s.Has("field:net/url.URL.Path"), "R16.5", key(fname(r, rb), "bucket/key from the stripped path", cn), pos(r, in),
			"Trim('/') then a two-way split on '/'", "the bucket/key given to "+cn+" do not come from URL.Path stripped of slashes on both sides and split once on '/' "+orStr(bad, "")+": extra leading or trailing slashes change which bucket or key is addressed")
	})
	r.Floor("R16.5", 5, "route dispatches in routeBase")
}

func rule166(r *core.Run, mws []hostMW) {
	r.Rule("R16.6", "a host middleware forwards a marked request (withHostBucket) exactly on the paths where it stored a rewritten URL.Path; in completeMultipartUpload the branch choosing the Location form reads that mark — it does not read GoFakeS3.hostBucket without hostBucketBases, which Server() gives precedence")
	mark := optFunc(r, "gofakes3.withHostBucket")
	for _, m := range mws {
		name := fname(r, m.serve)
		var rq ssa.Value
		for _, p := range m.serve.Params {
			if r.P.TypeShort(p.Type()) == "*net/http.Request" {
				rq = p
			}
		}
		var stores []ssa.Instruction
		core.Instrs(m.serve, func(in ssa.Instruction) {
			if n, ok := requestField(r, in); ok && n == "net/url.URL.Path" {
				stores = append(stores, in)
			}
		})
		nexts := r.P.CallsIn(m.serve, false, core.NameIs("invoke:net/http.Handler.ServeHTTP"))
		for i, c := range nexts {
			args := c.Common().Args
			if len(args) != 2 {
				continue
			}
			marked := false
			if cc, ok := args[1].(*ssa.Call); ok && mark != nil && core.StaticCallee(cc) == mark {
				marked = true
			}
			_ = rq
			rewritten := false
			always := !core.ReachableFromEntryAvoiding(c.(ssa.Instruction), func(in ssa.Instruction) bool {
				for _, st := range stores {
					if in == st {
						return true
					}
				}
				return false
			})
			for _, st := range stores {
				if core.Reaches(st, c.(ssa.Instruction)) {
					rewritten = true
				}
			}
			ok := (marked && always) || (!marked && !rewritten)
			r.Check(ok, "R16.6", key(name, "mark agrees with rewrite", sprintf("#%d", i)), pos(r, c.(ssa.Instruction)),
				sprintf("marked=%v rewritten-on-all-paths=%v", marked, always), sprintf("the request is forwarded marked=%v although its path was rewritten on %s paths: the Location of a completed upload takes the wrong form", marked, map[bool]string{true: "some or all", false: "no"}[rewritten]))
		}
	}
	cmu := mustFunc(r, "gofakes3.(*GoFakeS3).completeMultipartUpload")
	if cmu == nil {
		return
	}
	// the Location value and the condition it is chosen under
	n := 0
	core.Instrs(cmu, func(in ssa.Instruction) {
		st, ok := in.(*ssa.Store)
		if !ok {
			return
		}
		fa, ok := st.Addr.(*ssa.FieldAddr)
		if !ok || r.P.FieldName(fa) != "gofakes3.CompleteMultipartUploadResult.Location" {
			return
		}
		n++
		ph, ok := st.Val.(*ssa.Phi)
		var conds []ssa.Value
		if ok {
			for _, pred := range ph.Block().Preds {
				for _, g := range core.GuardsOf(pred.Instrs[len(pred.Instrs)-1]) {
					conds = append(conds, g.If.Cond)
				}
			}
		}
		cs := r.P.SliceOfMany(conds, core.SliceOpts{Depth: 2})
		readsOpt := cs.Has("field:gofakes3.GoFakeS3.hostBucket")
		readsBases := cs.Has("field:gofakes3.GoFakeS3.hostBucketBases")
		r.Check(!readsOpt || readsBases, "R16.6", key(fname(r, cmu), "Location form follows the request"), pos(r, in),
			"the Location form is not chosen from an option Server() may have overridden", "the Location form is chosen from GoFakeS3.hostBucket alone, while Server() gives hostBucketBases precedence: with host bases configured a virtual-host request is answered with a Location that names another key on the same server")
	})
	if n == 0 {
		r.Unresolved("R16.6: no store to CompleteMultipartUploadResult.Location")
	}
}

func rule167(r *core.Run) {
	r.Rule("R16.7", "in the base middleware's matcher every return with ok == true is guarded by a successful strings.HasSuffix(host, base) on a configured base and by a test that the label contains no '.' ; the label is the host minus that base")
	ctor := mustFunc(r, "gofakes3.(*GoFakeS3).hostBucketBaseMiddleware")
	if ctor == nil {
		return
	}
	var fns []*ssa.Function
	fns = append(fns, ctor.AnonFuncs...)
	n := 0
	for _, f := range fns {
		sig := f.Signature
		if sig.Results().Len() != 2 || r.P.TypeShort(sig.Results().At(1).Type()) != "bool" || r.P.TypeShort(sig.Results().At(0).Type()) != "string" {
			continue
		}
		for _, ret := range core.Returns(f) {
			k, ok := ret.Results[1].(*ssa.Const)
			if ok && k.Value != nil && k.Value.Kind() == constant.Bool && !constant.BoolVal(k.Value) {
				continue
			}
			n++
			suffix, nodot := false, false
			for _, g := range core.GuardsOf(ret) {
				gs := r.P.SliceOf(g.If.Cond, core.SliceOpts{Depth: -1})
				if gs.HasCallTo("strings.HasSuffix") || gs.HasCallTo("strings.CutSuffix") {
					suffix = true
				}
				for _, cn := range []string{"strings.IndexByte", "strings.Index", "strings.Contains", "strings.ContainsRune", "strings.Count", "strings.IndexRune", "strings.ContainsAny", "strings.LastIndex", "strings.LastIndexByte"} {
					if gs.HasCallTo(cn) && (gs.Has("const:46") || gs.Has("const:.")) {
						nodot = true
					}
				}
			}
			ls := r.P.SliceOf(ret.Results[0], core.SliceOpts{Depth: -1})
			fromHost := false
			for _, p := range f.Params {
				if ls.HasValue(p) {
					fromHost = true
				}
			}
			r.Check(suffix && nodot && fromHost, "R16.7", key(fname(r, f), "label accepted only as <label>.<base>", sprintf("#%d", n)), pos(r, ret),
				"suffix test and single-label test guard acceptance", sprintf("a host is accepted as <label>.<base> without %s: hosts that are not a single label before a configured base no longer fall back to path-style", missing(suffix, nodot, fromHost)))
		}
	}
	if n == 0 {
		r.Unresolved("R16.7: no matcher with an accepting return found in hostBucketBaseMiddleware")
	}
	// the bases are built from the configured list
	bs := false
	core.Instrs(ctor, func(in ssa.Instruction) {
		if fa, ok := in.(*ssa.FieldAddr); ok && r.P.FieldName(fa) == "gofakes3.GoFakeS3.hostBucketBases" {
			bs = true
		}
	})
	r.Check(bs, "R16.7", key(fname(r, ctor), "bases from the option"), r.P.Pos(ctor.Pos()), "the matcher's bases come from hostBucketBases", "the base middleware does not read the configured host bases")
}

func missing(suffix, nodot, fromHost bool) string {
	var m []string
	if !suffix {
		m = append(m, "a suffix test against a configured base")
	}
	if !nodot {
		m = append(m, "a test that the label contains no further dot")
	}
	if !fromHost {
		m = append(m, "deriving the label from the host")
	}
	sort.Strings(m)
	return strings.Join(m, " and ")
}
