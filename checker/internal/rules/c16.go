package rules

import (
	"go/constant"
	"go/token"
	"go/types"
	"sort"
	"strings"

	"golang.org/x/tools/go/ssa"

	"gfs3check/internal/core"
)

func init() { Registry["C16"] = C16 }

// C16 — path-style and virtual-host-style addressing reach the same bucket and key.
//
// The equivalence of two complete responses is a relation between runtime
// strings and is not decided. What is decided is the structure every such
// equivalence rests on: where the addressing mode can influence a request at
// all, what the two host middlewares may change, and where the (bucket, key)
// decision is taken.
func C16(r *core.Run) {
	r.Explanation = "Structural necessary conditions of path-style ≡ virtual-host-style addressing, on all paths: " +
		"(R16.1) Server() installs each host middleware under a test of its own option, the base list taking precedence; " +
		"(R16.2) the host middlewares change nothing of the request but URL.Path (no header, method, query, body or host write), and the fallback path of the base middleware writes nothing; " +
		"(R16.3) the rewritten path is built from the Host-derived bucket label and the incoming URL.Path only, the incoming path entering unmodified (no cleaning, trimming, escaping or case change), and the label derives from Request.Host (and the configured bases) alone; " +
		"(R16.4) outside Server(), the host middlewares and the Location element of CompleteMultipartUpload nothing reads the addressing options, Request.Host or the middleware's mark — every handler below the router is addressing-mode independent — and nothing below routeBase re-reads the request path: the (bucket, key) decision is taken once; " +
		"(R16.5) routeBase derives bucket and key from URL.Path with the slashes stripped on both sides before the single split; " +
		"(R16.6) the request is marked as host-addressed exactly on the paths that rewrite it, and the form of the Location element follows that mark rather than an option Server() may have overridden; " +
		"(R16.7) the base middleware treats a host as <label>.<base> only under a suffix test against a configured base and a test that the label contains no further dot, and forwards the untouched request otherwise; (R09.6) each middleware forwards exactly once with the incoming writer and request. (R16.8) each addressing option writes only its own field, Server() installs the base middleware on the base list alone, and the Host header is compared with the bases untransformed."
	r.NotDecided = "equality of the two complete responses; the contents of the strings (which characters a label or key contains, ports in Host values, bases that are suffixes of one another, empty labels); that the rewritten path, once trimmed and split by routeBase, yields the same key as the path-style form for every key (keys beginning with '/' are a documented ambiguity of the path form); CORS and time-skew middlewares' interplay"
	r.TrustedBase = append(r.TrustedBase, "net/http delivers Host and URL.Path as received", "strings.Trim/SplitN/HasSuffix semantics")
	rule161(r)
	mws := hostMiddlewares(r)
	rule162(r, mws)
	rule163(r, mws)
	rule164(r, mws)
	rule165(r)
	rule166(r, mws)
	rule167(r, mws)
	rule168(r)
	rule096(r)
}

type hostMW struct {
	ctor    *ssa.Function // hostBucketMiddleware / hostBucketBaseMiddleware
	serve   *ssa.Function // the func(w, rq) closure
	helpers []*ssa.Function
}

func hostMiddlewares(r *core.Run) []hostMW {
	var out []hostMW
	for _, n := range []string{"gofakes3.(*GoFakeS3).hostBucketMiddleware", "gofakes3.(*GoFakeS3).hostBucketBaseMiddleware"} {
		f := mustFunc(r, n)
		if f == nil {
			continue
		}
		m := hostMW{ctor: f}
		for _, a := range f.AnonFuncs {
			if len(a.Params) == 2 && r.P.TypeShort(a.Params[0].Type()) == "net/http.ResponseWriter" {
				m.serve = a
			} else {
				m.helpers = append(m.helpers, a)
			}
		}
		if m.serve == nil {
			r.Unresolved("R16: no func(w, rq) closure in %s", n)
			continue
		}
		out = append(out, m)
	}
	return out
}

func (m hostMW) funcs() []*ssa.Function {
	return append([]*ssa.Function{m.ctor, m.serve}, m.helpers...)
}

func rule161(r *core.Run) {
	r.Rule("R16.1", "in Server() the call installing hostBucketBaseMiddleware is guarded by a test on hostBucketBases and the call installing hostBucketMiddleware by a test on hostBucket (with the base list absent); both results flow into the returned handler")
	fn := mustFunc(r, "gofakes3.(*GoFakeS3).Server")
	if fn == nil {
		return
	}
	var rets []ssa.Value
	for _, ret := range core.Returns(fn) {
		rets = append(rets, ret.Results...)
	}
	rs := r.P.SliceOfMany(rets, core.SliceOpts{Depth: -1})
	want := map[string]string{
		"gofakes3.(*GoFakeS3).hostBucketBaseMiddleware": "field:gofakes3.GoFakeS3.hostBucketBases",
		"gofakes3.(*GoFakeS3).hostBucketMiddleware":     "field:gofakes3.GoFakeS3.hostBucket",
	}
	seen := 0
	core.Instrs(fn, func(in ssa.Instruction) {
		c, ok := in.(*ssa.Call)
		if !ok {
			return
		}
		n := r.P.CalleeName(c)
		fld, ok := want[n]
		if !ok {
			return
		}
		seen++
		own, other := false, ""
		for _, g := range core.GuardsOf(c) {
			gs := r.P.SliceOf(g.If.Cond, core.SliceOpts{Depth: -1, Control: true})
			if gs.Has(fld) {
				own = true
			}
		}
		_ = other
		r.Check(own && rs.Values[c], "R16.1", key(fname(r, fn), "installed under its own option", n), pos(r, c),
			"middleware installed under a test of its own option and returned", "the middleware is installed under a test that does not read its own option ("+strings.TrimPrefix(fld, "field:")+"), or its result is not part of the returned handler: the configured addressing mode is not the one in effect")
	})
	if seen != 2 {
		r.Unresolved("R16.1: %d host middleware installations in Server() (expected 2)", seen)
	}
}

// requestRooted reports whether addr is a field address inside the request
// (or its URL) reachable from the closure's request parameter.
func requestField(r *core.Run, in ssa.Instruction) (string, bool) {
	st, ok := in.(*ssa.Store)
	if !ok {
		return "", false
	}
	fa, ok := st.Addr.(*ssa.FieldAddr)
	if !ok {
		// stores through an index into a header map etc. are calls (MapUpdate) — handled by the caller
		return "", false
	}
	n := r.P.FieldName(fa)
	if strings.HasPrefix(n, "net/http.Request.") || strings.HasPrefix(n, "net/url.URL.") {
		return n, true
	}
	return "", false
}

var requestMutators = map[string]bool{
	"(net/http.Header).Set": true, "(net/http.Header).Add": true, "(net/http.Header).Del": true,
	"(*net/http.Request).SetBasicAuth": true, "(*net/http.Request).AddCookie": true, "(*net/http.Request).SetPathValue": true,
	"(net/url.Values).Set": true, "(net/url.Values).Add": true, "(net/url.Values).Del": true,
	"(*net/http.Request).ParseForm": true, "(*net/http.Request).ParseMultipartForm": true,
}

func rule162(r *core.Run, mws []hostMW) {
	r.Rule("R16.2", "the host middlewares (closures and helpers) store to no field of the request or its URL other than URL.Path, call no header/query mutator, update no map of the request, and never read the body; on the base middleware's fallback path (label not recognised) nothing is stored at all")
	for _, m := range mws {
		name := fname(r, m.serve)
		bad := ""
		pathStores := 0
		for _, f := range m.funcs() {
			core.Instrs(f, func(in ssa.Instruction) {
				if n, ok := requestField(r, in); ok {
					if n == "net/url.URL.Path" {
						pathStores++
					} else {
						bad = "store to " + n + " at " + pos(r, in)
					}
				}
				if mu, ok := in.(*ssa.MapUpdate); ok {
					ms := r.P.SliceOf(mu.Map, core.SliceOpts{Depth: -1})
					if ms.HasPrefix("field:net/http.Request.") || ms.HasPrefix("field:net/url.URL.") {
						bad = "map of the request updated at " + pos(r, in)
					}
				}
				if c, ok := in.(ssa.CallInstruction); ok {
					cn := r.P.CalleeName(c)
					if requestMutators[cn] {
						bad = "call of " + cn + " at " + pos(r, in)
					}
					if strings.HasPrefix(cn, "invoke:io.Read") || cn == "io/ioutil.ReadAll" || cn == "io.ReadAll" || cn == "io.Copy" {
						bad = "the request body is consumed at " + pos(r, in)
					}
				}
			})
		}
		r.Check(bad == "" && pathStores > 0, "R16.2", key(name, "only URL.Path is rewritten"), r.P.Pos(m.serve.Pos()),
			sprintf("%d store(s), all to URL.Path", pathStores), "a host middleware changes more of the request than its path ("+bad+"): the same logical request is no longer handled the same way under both addressing modes")
	}
	// fallback path of the base middleware: a forward with the unmodified request must not be preceded by a path store
	if len(mws) == 2 {
		m := mws[1]
		name := fname(r, m.serve)
		var rq ssa.Value
		for _, p := range m.serve.Params {
			if r.P.TypeShort(p.Type()) == "*net/http.Request" {
				rq = p
			}
		}
		var stores []ssa.Instruction
		core.Instrs(m.serve, func(in ssa.Instruction) {
			if n, ok := requestField(r, in); ok && n == "net/url.URL.Path" {
				stores = append(stores, in)
			}
		})
		plain := 0
		for _, fw := range forwards(r, m.serve) {
			if fw.val != rq {
				continue
			}
			dirty := false
			for _, st := range stores {
				if reachesAt(st, fw.at) {
					dirty = true
				}
			}
			if !dirty {
				plain++
			}
		}
		r.Check(plain > 0, "R16.2", key(name, "has a path-style fallback"), r.P.Pos(m.serve.Pos()), "hosts that are not <label>.<base> are forwarded untouched",
			"the base middleware no longer has a path that forwards the incoming request unchanged: hosts that are not <label>.<base> do not fall back to path-style")
	}
}

// pathTransformers are calls that change a path string's content; none may be
// applied to the incoming path (or the label) on its way into the rewritten path.
var pathTransformers = map[string]bool{
	"path.Join": true, "path.Clean": true, "path/filepath.Join": true, "path/filepath.Clean": true, "path/filepath.ToSlash": true, "path/filepath.FromSlash": true,
	"net/url.PathEscape": true, "net/url.PathUnescape": true, "net/url.QueryEscape": true, "net/url.QueryUnescape": true,
	"strings.ToLower": true, "strings.ToUpper": true, "strings.Title": true, "strings.ToTitle": true,
	"strings.Trim": true, "strings.TrimLeft": true, "strings.TrimRight": true, "strings.TrimPrefix": true, "strings.TrimSuffix": true, "strings.TrimSpace": true, "strings.TrimFunc": true,
	"strings.Replace": true, "strings.ReplaceAll": true, "strings.Map": true, "strings.Fields": true,
	"(*net/url.URL).EscapedPath": true, "(*net/url.URL).JoinPath": true, "net/url.JoinPath": true,
}

// hostTransformers change the content of the host label (case folding, replacement).
var hostTransformers = map[string]bool{
	"strings.ToLower": true, "strings.ToUpper": true, "strings.Title": true, "strings.ToTitle": true,
	"strings.Replace": true, "strings.ReplaceAll": true, "strings.Map": true, "(*strings.Replacer).Replace": true,
	"golang.org/x/net/idna.ToASCII": true, "golang.org/x/net/idna.ToUnicode": true,
}

func rule163(r *core.Run, mws []hostMW) {
	r.Rule("R16.3", "every value stored to URL.Path by a host middleware derives from Request.Host and the incoming URL.Path (plus constants and, for the base middleware, the configured bases) and from no other part of the request; the incoming path reaches the store through concatenation only — no transforming call (clean, join, trim, replace, escape, case) is applied to it, and no case-folding or replacing call to the Host header")
	for _, m := range mws {
		name := fname(r, m.serve)
		n := 0
		hostSeen := false
		core.Instrs(m.serve, func(in ssa.Instruction) {
			fld, ok := requestField(r, in)
			if !ok || fld != "net/url.URL.Path" {
				return
			}
			n++
			st := in.(*ssa.Store)
			s := r.P.SliceOf(st.Val, core.SliceOpts{})
			bad := ""
			for _, l := range s.LeafList("field:net/http.Request.") {
				switch l {
				case "field:net/http.Request.Host", "field:net/http.Request.URL":
				default:
					bad = l
				}
			}
			for _, l := range s.LeafList("field:net/url.URL.") {
				if l != "field:net/url.URL.Path" {
					bad = l
				}
			}
			// transforming calls applied to a value that derives from the incoming path
			for c := range s.Calls {
				cn := r.P.CalleeName(c)
				if !pathTransformers[cn] {
					continue
				}
				for _, a := range c.Common().Args {
					as := r.P.SliceOf(a, core.SliceOpts{BindParams: true})
					if as.Has("field:net/url.URL.Path") {
						bad = cn + " applied to the incoming path at " + pos(r, c.(ssa.Instruction))
					}
				}
			}
			// the label is the Host header's first label as sent: a bucket name is case-sensitive
			// (upper case is invalid), so folding or rewriting the host makes the host form accept
			// or address what the path form refuses
			for c := range s.Calls {
				cn := r.P.CalleeName(c)
				if !hostTransformers[cn] {
					continue
				}
				for _, a := range c.Common().Args {
					as := r.P.SliceOf(a, core.SliceOpts{BindParams: true})
					if as.Has("field:net/http.Request.Host") {
						bad = cn + " applied to the Host header at " + pos(r, c.(ssa.Instruction))
					}
				}
			}
			if s.Has("field:net/http.Request.Host") {
				hostSeen = true
			}
			r.Check(bad == "", "R16.3", key(name, "rewritten path provenance", sprintf("#%d", n)), pos(r, in),
				"path = f(Host label, incoming path), incoming path unmodified", "the rewritten path depends on "+orStr(bad, "something other than the Host header")+": the virtual-host form no longer addresses what the path form addresses")
		})
		// the incoming path must be part of the final path on every rewriting path, except for the root path
		if n == 0 {
			r.Unresolved("R16.3: no URL.Path store in %s", name)
		}
		hasOld := false
		core.Instrs(m.serve, func(in ssa.Instruction) {
			fld, ok := requestField(r, in)
			if ok && fld == "net/url.URL.Path" {
				s := r.P.SliceOf(in.(*ssa.Store).Val, core.SliceOpts{Depth: -1})
				if s.Has("field:net/url.URL.Path") {
					hasOld = true
				}
			}
		})
		r.Check(hostSeen, "R16.3", key(name, "label from Request.Host"), r.P.Pos(m.serve.Pos()), "the bucket label derives from Request.Host",
			"no store to URL.Path derives from Request.Host: the bucket is not taken from the Host header")
		r.Check(hasOld, "R16.3", key(name, "incoming path kept"), r.P.Pos(m.serve.Pos()), "the incoming path is appended to the label",
			"no store to URL.Path includes the incoming path: the key is lost in virtual-host mode")
	}
}

func orStr(a, b string) string {
	if a != "" {
		return a
	}
	return b
}

func rule164(r *core.Run, mws []hostMW) {
	r.Rule("R16.4", "GoFakeS3.hostBucket and hostBucketBases are read only in Server() and the host middlewares (and written only by their options); Request.Host and the host-addressed mark are read only by the host middlewares and completeMultipartUpload, where they reach nothing but the Location element; below routeBase no function reads URL.Path, RawPath, RequestURI or EscapedPath")
	allowedMode := map[*ssa.Function]bool{}
	for _, m := range mws {
		for _, f := range m.funcs() {
			allowedMode[f] = true
		}
	}
	srv := mustFunc(r, "gofakes3.(*GoFakeS3).Server")
	cmu := mustFunc(r, "gofakes3.(*GoFakeS3).completeMultipartUpload")
	rb := mustFunc(r, "gofakes3.(*GoFakeS3).routeBase")
	if srv == nil || cmu == nil || rb == nil {
		return
	}
	allowedMode[srv] = true
	// helpers whose every static caller is completeMultipartUpload (or such a helper) belong to it
	cmuPart := map[*ssa.Function]bool{cmu: true}
	for changed := true; changed; {
		changed = false
		for _, f := range r.P.RepoFuncs() {
			if cmuPart[f] || r.P.PkgShort(f) != "gofakes3" {
				continue
			}
			callers := r.P.StaticCallers(f)
			if len(callers) == 0 {
				continue
			}
			all := true
			for _, c := range callers {
				pf := c.Parent()
				for pf.Parent() != nil {
					pf = pf.Parent()
				}
				if !cmuPart[pf] {
					all = false
				}
			}
			if all {
				cmuPart[f] = true
				changed = true
			}
		}
	}
	marks := map[*ssa.Function]bool{}
	for _, n := range []string{"gofakes3.withHostBucket", "gofakes3.isHostBucketRequest"} {
		if f := optFunc(r, n); f != nil {
			marks[f] = true
		}
	}
	logOnly := func(in ssa.Instruction, v ssa.Value) bool {
		// a value whose only use is as an argument of the logger is not a decision
		return v != nil && onlyLogged(r, v)
	}
	nReads := 0
	for _, f := range r.P.RepoFuncs() {
		if r.P.PkgShort(f) != "gofakes3" {
			continue
		}
		fn := f
		top := f
		for top.Parent() != nil {
			top = top.Parent()
		}
		core.Instrs(fn, func(in ssa.Instruction) {
			fa, ok := in.(*ssa.FieldAddr)
			if !ok {
				return
			}
			n := r.P.FieldName(fa)
			isRead := false
			var loaded ssa.Value
			if refs := fa.Referrers(); refs != nil {
				for _, u := range *refs {
					if ld, ok := u.(*ssa.UnOp); ok && ld.Op == token.MUL {
						isRead = true
						loaded = ld
					}
				}
			}
			if !isRead {
				return
			}
			switch n {
			case "gofakes3.GoFakeS3.hostBucket", "gofakes3.GoFakeS3.hostBucketBases":
				nReads++
				if !allowedMode[fn] && !allowedMode[top] {
					r.Violated("R16.4", key(fname(r, fn), "reads the addressing option", strings.TrimPrefix(n, "gofakes3.GoFakeS3.")), pos(r, in),
						"a function other than Server() and the host middlewares reads "+n+": its behaviour depends on the configured addressing mode (Server() may have chosen another one for this request), so the two addressing forms are not answered alike")
				}
			case "net/http.Request.Host":
				nReads++
				if !allowedMode[fn] && !cmuPart[fn] && !logOnly(in, loaded) {
					r.Violated("R16.4", key(fname(r, fn), "reads Request.Host"), pos(r, in),
						"a handler reads Request.Host: its answer depends on how the request was addressed")
				}
			case "net/url.URL.Path", "net/url.URL.RawPath", "net/http.Request.RequestURI":
				if fn == rb || allowedMode[fn] || logOnly(in, loaded) {
					return
				}
				// only functions below the router matter
				r.Violated("R16.4", key(fname(r, fn), "re-reads the request path", strings.TrimPrefix(n, "net/")), pos(r, in),
					"a function other than routeBase reads "+n+": the (bucket, key) decision is no longer taken in one place, and the rewritten and the path-style request can be split differently")
			}
		})
		core.Instrs(fn, func(in ssa.Instruction) {
			c, ok := in.(ssa.CallInstruction)
			if !ok {
				return
			}
			cn := r.P.CalleeName(c)
			if cn == "(*net/url.URL).EscapedPath" || cn == "(*net/url.URL).RequestURI" {
				if fn != rb && !allowedMode[fn] {
					if v, ok := in.(ssa.Value); !ok || !logOnly(in, v) {
						r.Violated("R16.4", key(fname(r, fn), "re-reads the request path", cn), pos(r, in), "a function other than routeBase calls "+cn+": the (bucket, key) decision is no longer taken in one place")
					}
				}
			}
			if sc := core.StaticCallee(c); sc != nil && marks[sc] {
				nReads++
				if !allowedMode[fn] && !cmuPart[fn] && !marks[fn] {
					r.Violated("R16.4", key(fname(r, fn), "reads the host-addressed mark"), pos(r, in), "a handler other than completeMultipartUpload asks how the request was addressed: its answer depends on the addressing mode")
				}
			}
		})
	}
	r.Check(nReads >= 4, "R16.4", key("gofakes3", "mode reads enumerated"), r.P.Pos(srv.Pos()), sprintf("%d reads of addressing state, all in Server(), the host middlewares or the Location computation", nReads), "fewer reads of the addressing state than Server() alone must contain: the anchors moved")
	// in completeMultipartUpload the addressing-dependent values reach only Location
	bad := ""
	nFields := 0
	core.Instrs(cmu, func(in ssa.Instruction) {
		st, ok := in.(*ssa.Store)
		if ok {
			if fa, ok := st.Addr.(*ssa.FieldAddr); ok {
				n := r.P.FieldName(fa)
				if strings.HasPrefix(n, "gofakes3.CompleteMultipartUploadResult.") && n != "gofakes3.CompleteMultipartUploadResult.Location" {
					nFields++
					s := r.P.SliceOf(st.Val, core.SliceOpts{Depth: 1})
					if s.Has("field:net/http.Request.Host") || s.HasCallTo("gofakes3.isHostBucketRequest") || s.Has("field:gofakes3.GoFakeS3.hostBucket") {
						bad = n + " at " + pos(r, in)
					}
				}
			}
		}
		if c, ok := in.(ssa.CallInstruction); ok {
			if _, isStore := storageCall(r, c); isStore || strings.HasPrefix(r.P.CalleeName(c), "invoke:gofakes3.Backend.") || strings.HasPrefix(r.P.CalleeName(c), "invoke:gofakes3.VersionedBackend.") || strings.HasPrefix(r.P.CalleeName(c), "(*gofakes3.uploader).") {
				for _, a := range c.Common().Args {
					s := r.P.SliceOf(a, core.SliceOpts{Depth: 1})
					if s.Has("field:net/http.Request.Host") || s.HasCallTo("gofakes3.isHostBucketRequest") {
						bad = "argument of " + r.P.CalleeName(c) + " at " + pos(r, in)
					}
				}
			}
		}
	})
	r.Check(bad == "" && nFields >= 3, "R16.4", key(fname(r, cmu), "addressing reaches only Location"), r.P.Pos(cmu.Pos()), sprintf("%d other result fields and the backend calls are addressing-independent", nFields),
		"the addressing mode of the request reaches more than the Location element ("+bad+")")
}

func rule165(r *core.Run) {
	r.Rule("R16.5", "in routeBase the bucket and key handed to every route derive from URL.Path through a strip of '/' on both sides (strings.Trim with a cutset containing '/', or a left and a right trim) that precedes the single split on '/' (a two-way split); the path is read from nowhere else")
	rb := mustFunc(r, "gofakes3.(*GoFakeS3).routeBase")
	if rb == nil {
		return
	}
	n := 0
	core.Instrs(rb, func(in ssa.Instruction) {
		c, ok := in.(*ssa.Call)
		if !ok {
			return
		}
		cn := r.P.CalleeName(c)
		if !strings.HasPrefix(cn, "gofakes3.(*GoFakeS3).route") || len(c.Call.Args) < 2 {
			return
		}
		// args: g, bucket[, object], ...
		var strArgs []ssa.Value
		for _, a := range c.Call.Args[1:] {
			if r.P.TypeShort(a.Type()) == "string" {
				strArgs = append(strArgs, a)
			}
		}
		if len(strArgs) == 0 {
			return
		}
		n++
		s := r.P.SliceOfMany(strArgs, core.SliceOpts{Depth: -1})
		both := false
		left, right := false, false
		split2 := false
		for cc := range s.Calls {
			ccn := r.P.CalleeName(cc)
			args := cc.Common().Args
			cut := ""
			if len(args) >= 2 {
				cut, _ = core.ConstString(args[1])
			}
			fromPath := false
			if len(args) >= 1 {
				fromPath = r.P.SliceOf(args[0], core.SliceOpts{Depth: -1}).Has("field:net/url.URL.Path")
			}
			switch ccn {
			case "strings.Trim":
				if strings.Contains(cut, "/") && fromPath {
					both = true
				}
			case "strings.TrimLeft", "strings.TrimPrefix":
				if strings.Contains(cut, "/") && fromPath {
					left = true
				}
			case "strings.TrimRight", "strings.TrimSuffix":
				if strings.Contains(cut, "/") && fromPath {
					right = true
				}
			case "strings.SplitN":
				if k, ok := core.ConstInt(args[2]); ok && k == 2 && cut == "/" {
					// the split input must itself be the stripped path
					is := r.P.SliceOf(args[0], core.SliceOpts{Depth: -1})
					if is.HasCallTo("strings.Trim") || (is.HasCallTo("strings.TrimLeft") && is.HasCallTo("strings.TrimRight")) {
						split2 = true
					}
				}
			case "strings.Cut":
				if cut == "/" {
					is := r.P.SliceOf(args[0], core.SliceOpts{Depth: -1})
					if is.HasCallTo("strings.Trim") || (is.HasCallTo("strings.TrimLeft") && is.HasCallTo("strings.TrimRight")) {
						split2 = true
					}
				}
			case "strings.Index", "strings.IndexByte":
				// split at the FIRST separator by slicing around its index
				sep := cut == "/"
				if k, ok := core.ConstInt(args[1]); ok && k == '/' {
					sep = true
				}
				if sep {
					is := r.P.SliceOf(args[0], core.SliceOpts{Depth: -1})
					if is.HasCallTo("strings.Trim") || (is.HasCallTo("strings.TrimLeft") && is.HasCallTo("strings.TrimRight")) {
						split2 = true
					}
				}
			}
		}
		okStrip := both || (left && right)
		bad := ""
		for _, l := range s.LeafList("field:net/") {
			if l != "field:net/url.URL.Path" && l != "field:net/http.Request.URL" {
				bad = l
			}
		}
		// the key is the path segment as sent for every method: nothing is appended to it, and which
		// value it takes does not depend on the request method
		for v := range s.Values {
			switch x := v.(type) {
			case *ssa.BinOp:
				if bt, isB := x.Type().Underlying().(*types.Basic); isB && bt.Info()&types.IsString != 0 && x.Op == token.ADD {
					bad = "a string is appended to it at " + pos(r, x)
				}
			case *ssa.Phi:
				for i, pred := range x.Block().Preds {
					if i >= len(x.Edges) {
						break
					}
					for _, g := range core.GuardsOfEdge(pred, x.Block()) {
						gs := r.P.SliceOf(g.If.Cond, core.SliceOpts{Depth: -1})
						if gs.Has("field:net/http.Request.Method") {
							bad = "its value depends on the request method (test at " + pos(r, g.If) + ")"
						}
					}
				}
			}
		}
		r.Check(okStrip && split2 && bad == "" && s.Has("field:net/url.URL.Path"), "R16.5", key(fname(r, rb), "bucket/key from the stripped path", cn), pos(r, in),
			"Trim('/') then a two-way split on '/'", "the bucket/key given to "+cn+" do not come from URL.Path stripped of slashes on both sides and split once on '/' "+orStr(bad, "")+": extra leading or trailing slashes change which bucket or key is addressed")
	})
	r.Floor("R16.5", 5, "route dispatches in routeBase")
}

func rule166(r *core.Run, mws []hostMW) {
	r.Rule("R16.6", "a host middleware forwards a marked request (withHostBucket) exactly on the paths where it stored a rewritten URL.Path; in completeMultipartUpload the branch choosing the Location form reads that mark — it does not read GoFakeS3.hostBucket without hostBucketBases, which Server() gives precedence")
	mark := optFunc(r, "gofakes3.withHostBucket")
	for _, m := range mws {
		name := fname(r, m.serve)
		var rq ssa.Value
		for _, p := range m.serve.Params {
			if r.P.TypeShort(p.Type()) == "*net/http.Request" {
				rq = p
			}
		}
		var stores []ssa.Instruction
		core.Instrs(m.serve, func(in ssa.Instruction) {
			if n, ok := requestField(r, in); ok && n == "net/url.URL.Path" {
				stores = append(stores, in)
			}
		})
		for _, fw := range forwards(r, m.serve) {
			marked := isMarked(r, fw.val, mark, 0)
			_ = rq
			rewritten := false
			for _, st := range stores {
				if reachesAt(st, fw.at) {
					rewritten = true
				}
			}
			always := rewritten && !core.ReachableFromEntryAvoiding(fw.at, func(in ssa.Instruction) bool {
				for _, st := range stores {
					if in == st {
						return true
					}
				}
				return false
			})
			ok := (marked && always) || (!marked && !rewritten)
			r.Check(ok, "R16.6", key(name, "mark agrees with rewrite", fw.idx), pos(r, fw.call.(ssa.Instruction)),
				sprintf("marked=%v rewritten-on-all-paths=%v", marked, always), sprintf("the request is forwarded marked=%v although its path was rewritten on %s paths: the Location of a completed upload takes the wrong form", marked, map[bool]string{true: "some or all", false: "no"}[rewritten]))
		}
	}
	cmu := mustFunc(r, "gofakes3.(*GoFakeS3).completeMultipartUpload")
	if cmu == nil {
		return
	}
	// the Location value and the condition it is chosen under
	n := 0
	core.Instrs(cmu, func(in ssa.Instruction) {
		st, ok := in.(*ssa.Store)
		if !ok {
			return
		}
		fa, ok := st.Addr.(*ssa.FieldAddr)
		if !ok || r.P.FieldName(fa) != "gofakes3.CompleteMultipartUploadResult.Location" {
			return
		}
		n++
		ph, ok := st.Val.(*ssa.Phi)
		var conds []ssa.Value
		if ok {
			// the guards that distinguish the incoming edges (not the ones common to all of them)
			count := map[core.Guard]int{}
			for _, pred := range ph.Block().Preds {
				for _, g := range core.GuardsOf(pred.Instrs[len(pred.Instrs)-1]) {
					count[g]++
				}
				// the edge's own branch, when the predecessor ends in an If
				if iff, ok := pred.Instrs[len(pred.Instrs)-1].(*ssa.If); ok {
					conds = append(conds, iff.Cond)
				}
			}
			for g, k := range count {
				if k < len(ph.Block().Preds) {
					conds = append(conds, g.If.Cond)
				}
			}
		}
		cs := r.P.SliceOfMany(conds, core.SliceOpts{Depth: -1})
		readsOpt := cs.Has("field:gofakes3.GoFakeS3.hostBucket")
		readsBases := cs.Has("field:gofakes3.GoFakeS3.hostBucketBases")
		r.Check(!readsOpt || readsBases, "R16.6", key(fname(r, cmu), "Location form follows the request"), pos(r, in),
			"the Location form is not chosen from an option Server() may have overridden", "the Location form is chosen from GoFakeS3.hostBucket alone, while Server() gives hostBucketBases precedence: with host bases configured a virtual-host request is answered with a Location that names another key on the same server")
		other := ""
		for l := range cs.Leaves {
			switch {
			case strings.HasPrefix(l, "const:"), l == "call:gofakes3.isHostBucketRequest", l == "field:net/http.Request.TLS",
				l == "field:gofakes3.GoFakeS3.hostBucket", l == "field:gofakes3.GoFakeS3.hostBucketBases":
			case strings.HasPrefix(l, "param:"):
				for _, v := range cs.LeafVals[l] {
					if t := r.P.TypeShort(v.Type()); t != "*net/http.Request" && t != "*gofakes3.GoFakeS3" {
						other = l
					}
				}
			default:
				other = l
			}
		}
		if len(conds) > 0 {
			r.Check(other == "" && cs.Has("call:gofakes3.isHostBucketRequest"), "R16.6", key(fname(r, cmu), "only the mark decides the Location form"), pos(r, in),
				"the form is decided by the host-addressed mark alone", "the Location form also depends on "+orStr(other, "something other than the mark set by the middleware that rewrote the request")+": a request that was not rewritten can get the host form (or the reverse), and the Location then names another bucket or key")
		}
	})
	if n == 0 {
		r.Unresolved("R16.6: no store to CompleteMultipartUploadResult.Location")
	}
}

func rule167(r *core.Run, mws []hostMW) {
	r.Rule("R16.7", "the base middleware rewrites the path only where a strings.HasSuffix(host, base) test on a configured base and a test that the label contains no '.' both guard the rewrite (in the middleware itself or in the matcher function whose verdict guards it); a base that fails the single-label test does not end the search over the bases; the bases come from the option")
	var m *hostMW
	for i := range mws {
		if strings.HasSuffix(fname(r, mws[i].ctor), "hostBucketBaseMiddleware") {
			m = &mws[i]
		}
	}
	if m == nil {
		r.Unresolved("R16.7: base middleware not found")
		return
	}
	dotCalls := []string{"strings.IndexByte", "strings.Index", "strings.Contains", "strings.ContainsRune", "strings.Count", "strings.IndexRune", "strings.ContainsAny", "strings.LastIndex", "strings.LastIndexByte", "strings.Cut"}
	evidence := func(guards []core.Guard) (suffix, nodot bool) {
		for _, g := range guards {
			gs := r.P.SliceOf(g.If.Cond, core.SliceOpts{Depth: -1, Control: true})
			if gs.HasCallTo("strings.HasSuffix") || gs.HasCallTo("strings.CutSuffix") {
				suffix = true
			}
			for _, cn := range dotCalls {
				if gs.HasCallTo(cn) && (gs.Has("const:46") || gs.Has("const:.")) {
					nodot = true
				}
			}
		}
		return
	}
	n := 0
	core.Instrs(m.serve, func(in ssa.Instruction) {
		fld, ok := requestField(r, in)
		if !ok || fld != "net/url.URL.Path" {
			return
		}
		n++
		if n > 1 {
			return // every store is guarded by the same verdict; one instance per middleware
		}
		guards := core.GuardsOf(in)
		suffix, nodot := evidence(guards)
		early := ""
		// verdicts computed elsewhere: a matcher function or closure, or a merged (inlined) verdict
		for _, g := range guards {
			v := core.CondOf(g.If.Cond).X
			if v == nil {
				continue
			}
			var call *ssa.Call
			idx := 0
			switch x := v.(type) {
			case *ssa.Extract:
				call, _ = x.Tuple.(*ssa.Call)
				idx = x.Index
			case *ssa.Call:
				call = x
			case *ssa.Phi:
				for k, e := range x.Edges {
					if c, ok := e.(*ssa.Const); ok && c.Value != nil && c.Value.Kind() == constant.Bool && constant.BoolVal(c.Value) {
						continue
					}
					pred := x.Block().Preds[k]
					if blockExitsLoopFromInside(pred, x.Block()) {
						early = "the verdict becomes false (or a computed value) on an exit from inside the loop over the bases at " + pos(r, pred.Instrs[len(pred.Instrs)-1])
					}
				}
			}
			if call == nil {
				continue
			}
			var mf *ssa.Function
			if sc := core.StaticCallee(call); sc != nil && r.P.IsRepo(sc) {
				mf = sc
			} else if ld, ok := call.Call.Value.(*ssa.UnOp); ok {
				// closure stored in a local: find the MakeClosure stored there
				if a, ok := ld.X.(*ssa.Alloc); ok {
					for _, ref := range *a.Referrers() {
						if st, ok := ref.(*ssa.Store); ok {
							if mc, ok := st.Val.(*ssa.MakeClosure); ok {
								mf, _ = mc.Fn.(*ssa.Function)
							}
						}
					}
				} else if fv, ok := ld.X.(*ssa.FreeVar); ok {
					mf = closureBoundTo(m.ctor, fv)
				}
			} else if mc, ok := call.Call.Value.(*ssa.MakeClosure); ok {
				mf, _ = mc.Fn.(*ssa.Function)
			}
			if mf == nil {
				continue
			}
			// the exits of the matcher: each return, or — for a single exit fed by a merged verdict —
			// each edge into the merge
			type exit struct {
				val    ssa.Value
				guards []core.Guard
				inside bool
				at     string
			}
			var exits []exit
			for _, ret := range core.Returns(mf) {
				if idx >= len(ret.Results) {
					continue
				}
				if ph, isPhi := ret.Results[idx].(*ssa.Phi); isPhi && ph.Block() == ret.Block() {
					for k, e := range ph.Edges {
						if k >= len(ph.Block().Preds) {
							break
						}
						pred := ph.Block().Preds[k]
						if !core.LiveEdge(pred, ph.Block()) {
							continue
						}
						exits = append(exits, exit{e, core.GuardsOfEdge(pred, ph.Block()), blockExitsLoopFromInside(pred, ph.Block()), pos(r, pred.Instrs[len(pred.Instrs)-1])})
					}
					continue
				}
				exits = append(exits, exit{ret.Results[idx], core.GuardsOf(ret), exitsLoopFromInside(ret), pos(r, ret)})
			}
			for _, x := range exits {
				k, isConst := x.val.(*ssa.Const)
				if isConst && k.Value != nil && k.Value.Kind() == constant.Bool && !constant.BoolVal(k.Value) {
					if x.inside {
						early = "the matcher rejects from inside the loop over the bases at " + x.at
					}
					continue
				}
				if !isConst && x.inside {
					early = "the matcher returns a computed verdict from inside the loop over the bases at " + x.at
					continue
				}
				s2, n2 := evidence(x.guards)
				if !isConst {
					// computed verdict outside a loop: the tests must be part of the expression
					vs := r.P.SliceOf(x.val, core.SliceOpts{Depth: -1})
					s2 = s2 || vs.HasCallTo("strings.HasSuffix")
					for _, cn := range dotCalls {
						n2 = n2 || vs.HasCallTo(cn)
					}
				}
				suffix = suffix || s2
				nodot = nodot || n2
				if !s2 || !n2 {
					suffix, nodot = suffix && s2, nodot && n2
				}
			}
		}
		r.Check(suffix && nodot, "R16.7", key(fname(r, m.serve), "label accepted only as <label>.<base>"), pos(r, in),
			"suffix test and single-label test guard the rewrite", sprintf("a host is treated as <label>.<base> without %s: hosts that are not a single label before a configured base no longer fall back to path-style", missing(suffix, nodot, true)))
		r.Check(early == "", "R16.7", key(fname(r, m.serve), "search continues after a failed base"), pos(r, in),
			"a base that fails a test does not end the search", early+": a host that fails the single-label test against one base is never tried against a later (longer) base")
	})
	if n == 0 {
		r.Unresolved("R16.7: no URL.Path store in the base middleware")
	}
	// the bases are built from the configured list
	bs := false
	for _, f := range m.funcs() {
		core.Instrs(f, func(in ssa.Instruction) {
			if fa, ok := in.(*ssa.FieldAddr); ok && r.P.FieldName(fa) == "gofakes3.GoFakeS3.hostBucketBases" {
				bs = true
			}
		})
	}
	r.Check(bs, "R16.7", key(fname(r, m.ctor), "bases from the option"), r.P.Pos(m.ctor.Pos()), "the matcher's bases come from hostBucketBases", "the base middleware does not read the configured host bases")
}

// closureBoundTo finds, in ctor, the closure stored in the cell that the free
// variable fv of one of ctor's closures is bound to.
func closureBoundTo(ctor *ssa.Function, fv *ssa.FreeVar) *ssa.Function {
	var out *ssa.Function
	core.Instrs(ctor, func(in ssa.Instruction) {
		mc, ok := in.(*ssa.MakeClosure)
		if !ok || mc.Fn != fv.Parent() {
			return
		}
		for i, b := range mc.Bindings {
			if i < len(fv.Parent().FreeVars) && fv.Parent().FreeVars[i] == fv {
				if a, ok := b.(*ssa.Alloc); ok {
					for _, ref := range *a.Referrers() {
						if st, ok := ref.(*ssa.Store); ok {
							if c, ok := st.Val.(*ssa.MakeClosure); ok {
								out, _ = c.Fn.(*ssa.Function)
							}
						}
					}
				}
			}
		}
	})
	return out
}

// blockExitsLoopFromInside: the edge pred -> to leaves a loop from a block other than the loop's head.
func blockExitsLoopFromInside(pred, to *ssa.BasicBlock) bool {
	fn := pred.Parent()
	for _, t := range fn.Blocks {
		for _, h := range t.Succs {
			if !h.Dominates(t) {
				continue
			}
			in := map[*ssa.BasicBlock]bool{h: true, t: true}
			work := []*ssa.BasicBlock{t}
			for len(work) > 0 {
				b := work[len(work)-1]
				work = work[:len(work)-1]
				if b == h {
					continue
				}
				for _, p := range b.Preds {
					if !in[p] {
						in[p] = true
						work = append(work, p)
					}
				}
			}
			if in[to] {
				continue
			}
			// walk back from pred through non-loop blocks
			seen := map[*ssa.BasicBlock]bool{}
			stack := []*ssa.BasicBlock{pred}
			for len(stack) > 0 {
				b := stack[len(stack)-1]
				stack = stack[:len(stack)-1]
				if seen[b] {
					continue
				}
				seen[b] = true
				if in[b] {
					if b != h {
						return true
					}
					continue
				}
				stack = append(stack, b.Preds...)
			}
		}
	}
	return false
}

func missing(suffix, nodot, fromHost bool) string {
	var m []string
	if !suffix {
		m = append(m, "a suffix test against a configured base")
	}
	if !nodot {
		m = append(m, "a test that the label contains no further dot")
	}
	if !fromHost {
		m = append(m, "deriving the label from the host")
	}
	sort.Strings(m)
	return strings.Join(m, " and ")
}

// exitsLoopFromInside reports whether ret is reached from inside a loop other
// than through the loop's head (i.e. it is an early exit, not the code after the loop).
func exitsLoopFromInside(ret *ssa.Return) bool {
	fn := ret.Parent()
	// natural loops: back edge t->h with h dominating t
	for _, t := range fn.Blocks {
		for _, h := range t.Succs {
			if !h.Dominates(t) {
				continue
			}
			// loop blocks: h plus everything that reaches t without passing h
			in := map[*ssa.BasicBlock]bool{h: true, t: true}
			work := []*ssa.BasicBlock{t}
			for len(work) > 0 {
				b := work[len(work)-1]
				work = work[:len(work)-1]
				if b == h {
					continue
				}
				for _, p := range b.Preds {
					if !in[p] {
						in[p] = true
						work = append(work, p)
					}
				}
			}
			if in[ret.Block()] {
				return true
			}
			// walk back from the return through non-loop blocks; entering the loop at a block other than h = early exit
			seen := map[*ssa.BasicBlock]bool{ret.Block(): true}
			work = []*ssa.BasicBlock{ret.Block()}
			for len(work) > 0 {
				b := work[len(work)-1]
				work = work[:len(work)-1]
				for _, p := range b.Preds {
					if in[p] {
						if p != h {
							return true
						}
						continue
					}
					if !seen[p] {
						seen[p] = true
						work = append(work, p)
					}
				}
			}
		}
	}
	return false
}

// fwd is one way a middleware hands a request to the next handler: the request
// value on that way and the instruction that stands for "that way was taken"
// (the call itself, or the end of the predecessor block when the request is a
// phi merging several ways into one ServeHTTP call).
type fwd struct {
	call ssa.CallInstruction
	val  ssa.Value
	at   ssa.Instruction
	idx  string
}

func forwards(r *core.Run, f *ssa.Function) []fwd {
	var out []fwd
	for i, c := range r.P.CallsIn(f, false, core.NameIs("invoke:net/http.Handler.ServeHTTP")) {
		args := c.Common().Args
		if len(args) != 2 {
			continue
		}
		if ph, ok := args[1].(*ssa.Phi); ok && (ph.Block() == c.Block() || core.BlockDominates(ph.Block(), c.Block())) {
			for k, e := range ph.Edges {
				pred := ph.Block().Preds[k]
				out = append(out, fwd{c, e, pred.Instrs[len(pred.Instrs)-1], sprintf("#%d.%d", i, k)})
			}
			continue
		}
		out = append(out, fwd{c, args[1], c.(ssa.Instruction), sprintf("#%d", i)})
	}
	return out
}

// reachesAt reports whether instruction a can execute before the way `at`.
func reachesAt(a, at ssa.Instruction) bool {
	if a.Block() == at.Block() {
		return core.InstrIndex(a) < core.InstrIndex(at)
	}
	return core.Reaches(a, at)
}

// isMarked reports whether v is the incoming request passed through the
// host-addressed mark (withHostBucket), possibly via further context copies.
func isMarked(r *core.Run, v ssa.Value, mark *ssa.Function, depth int) bool {
	c, ok := v.(*ssa.Call)
	if !ok || depth > 3 || mark == nil {
		return false
	}
	if core.StaticCallee(c) == mark {
		return true
	}
	if r.P.CalleeName(c) == "(*net/http.Request).WithContext" {
		return isMarked(r, c.Call.Args[0], mark, depth+1)
	}
	return false
}

// rule168 — each addressing option owns one field; the base list alone decides
// the base middleware; the Host header is matched as it came.
func rule168(r *core.Run) {
	r.Rule("R16.8", "WithHostBucket writes only GoFakeS3.hostBucket and WithHostBucketBase only hostBucketBases (the options do not switch each other on or off, whatever the order they are given in); in Server() the base middleware is installed whenever the base list is non-empty — no test of hostBucket guards it — and the plain middleware when hostBucket is set and the list is empty; in the base middleware the string compared with the configured bases (HasSuffix) is Request.Host itself, not a port-stripped or otherwise transformed copy (bases are matched as configured: transforming one side only makes a base with a port unmatched and a base without one capture host:port)")
	// option → field ownership
	owns := map[string]string{"gofakes3.WithHostBucket": "gofakes3.GoFakeS3.hostBucket", "gofakes3.WithHostBucketBase": "gofakes3.GoFakeS3.hostBucketBases"}
	n := 0
	for opt, fld := range owns {
		of := mustFunc(r, opt)
		if of == nil {
			continue
		}
		for _, f := range core.Closures(of) {
			ff := f
			core.Instrs(ff, func(in ssa.Instruction) {
				st, ok := in.(*ssa.Store)
				if !ok {
					return
				}
				fa, ok := st.Addr.(*ssa.FieldAddr)
				if !ok || !strings.HasPrefix(r.P.FieldName(fa), "gofakes3.GoFakeS3.") {
					return
				}
				n++
				r.Check(r.P.FieldName(fa) == fld, "R16.8", key(opt, "writes only its own field", r.P.FieldName(fa)), pos(r, in), "option sets "+fld,
					"the option "+opt+" also writes "+r.P.FieldName(fa)+": the two addressing options override each other depending on the order and values they are given with")
			})
		}
	}
	if n < 2 {
		r.Unresolved("R16.8: %d option stores found (expected 2)", n)
	}
	// each option is total: whatever its argument, it returns a function that stores that argument
	// into its field, unconditionally — an option given later overrides one given earlier (options
	// are applied in order; one that returns a no-op for "off" cannot undo an earlier "on")
	for opt, fld := range owns {
		of := mustFunc(r, opt)
		if of == nil {
			continue
		}
		bad := ""
		for _, ret := range core.Returns(of) {
			if len(ret.Results) != 1 {
				continue
			}
			var leaves []ssa.Value
			var flat func(v ssa.Value, d int)
			flat = func(v ssa.Value, d int) {
				switch x := v.(type) {
				case *ssa.Phi:
					if d < 4 {
						for _, e := range x.Edges {
							flat(e, d+1)
						}
						return
					}
				case *ssa.ChangeType:
					flat(x.X, d+1)
					return
				case *ssa.Call:
					// a conversion helper that hands back its receiver / argument unchanged
					if callee := core.StaticCallee(x); callee != nil && r.P.IsRepo(callee) && len(callee.Blocks) == 1 {
						if ret, isRet := callee.Blocks[0].Instrs[len(callee.Blocks[0].Instrs)-1].(*ssa.Return); isRet && len(ret.Results) == 1 {
							rv := ret.Results[0]
							for k := 0; k < 3; k++ {
								if ct, isCT := rv.(*ssa.ChangeType); isCT {
									rv = ct.X
								}
							}
							for k, p := range callee.Params {
								if rv == ssa.Value(p) && k < len(x.Call.Args) {
									flat(x.Call.Args[k], d+1)
									return
								}
							}
						}
					}
				}
				leaves = append(leaves, v)
			}
			flat(ret.Results[0], 0)
			for _, lf := range leaves {
				mc, isMC := lf.(*ssa.MakeClosure)
				if !isMC {
					bad = "it can return something other than its own setter (" + lf.String() + ")"
					continue
				}
				cf, _ := mc.Fn.(*ssa.Function)
				okStore := false
				if cf != nil {
					core.Instrs(cf, func(in ssa.Instruction) {
						st, isSt := in.(*ssa.Store)
						if !isSt {
							return
						}
						fa, isFA := st.Addr.(*ssa.FieldAddr)
						if !isFA || r.P.FieldName(fa) != fld {
							return
						}
						if _, isConst := st.Val.(*ssa.Const); isConst {
							return // a fixed value, not the argument
						}
						if len(core.GuardsOf(st)) == 0 {
							okStore = true
						}
					})
				}
				if !okStore {
					bad = "a setter it returns does not store the argument into " + fld + " unconditionally"
				}
			}
		}
		r.Check(bad == "", "R16.8", key(opt, "total: stores its argument whatever its value"), r.P.Pos(of.Pos()), "every return is the setter of the argument",
			"the option "+opt+" is not total ("+bad+"): given after an earlier use with another value it no longer overrides it, so the addressing mode depends on which values were given before")
	}
	// Server(): which middleware is installed for which option values — asked as reachability under
	// assumed outcomes of the tests on the two fields, so the shape of the selection (if-chain, switch,
	// mode enum computed by a helper) does not matter
	if srv := mustFunc(r, "gofakes3.(*GoFakeS3).Server"); srv != nil {
		type test struct {
			v        ssa.Value
			nonEmpty bool // for a base-list test: the truth value that means "bases configured"
		}
		var hbTests, baseTests []test
		core.Instrs(srv, func(in ssa.Instruction) {
			switch x := in.(type) {
			case *ssa.UnOp:
				if x.Op == token.MUL {
					if fa, ok := x.X.(*ssa.FieldAddr); ok && r.P.FieldName(fa) == "gofakes3.GoFakeS3.hostBucket" {
						hbTests = append(hbTests, test{v: x})
					}
				}
			case *ssa.BinOp:
				k, isK := core.ConstInt(x.Y)
				if !isK || !r.P.SliceOf(x.X, core.SliceOpts{Depth: -1}).Has("field:gofakes3.GoFakeS3.hostBucketBases") {
					return
				}
				switch {
				case x.Op == token.GTR && k == 0, x.Op == token.NEQ && k == 0, x.Op == token.GEQ && k == 1:
					baseTests = append(baseTests, test{x, true})
				case x.Op == token.EQL && k == 0, x.Op == token.LEQ && k == 0, x.Op == token.LSS && k == 1:
					baseTests = append(baseTests, test{x, false})
				}
			}
		})
		assume := func(hb, bases bool) map[ssa.Value]bool {
			m := map[ssa.Value]bool{}
			for _, t := range hbTests {
				m[t.v] = hb
			}
			for _, t := range baseTests {
				m[t.v] = t.nonEmpty == bases
			}
			return m
		}
		var baseCall, plainCall *ssa.Call
		core.Instrs(srv, func(in ssa.Instruction) {
			if c, ok := in.(*ssa.Call); ok {
				switch r.P.CalleeName(c) {
				case "gofakes3.(*GoFakeS3).hostBucketBaseMiddleware":
					baseCall = c
				case "gofakes3.(*GoFakeS3).hostBucketMiddleware":
					plainCall = c
				}
			}
		})
		if baseCall == nil || plainCall == nil || len(hbTests) == 0 || len(baseTests) == 0 {
			r.Unresolved("R16.8: Server() no longer tests both addressing fields / installs both middlewares (%d, %d tests)", len(hbTests), len(baseTests))
		} else {
			reach := func(c *ssa.Call, hb, bases bool) bool { return core.ReachableFromEntryAssuming(c, assume(hb, bases)) }
			okBase := reach(baseCall, false, true) && reach(baseCall, true, true) && !reach(baseCall, true, false) && !reach(baseCall, false, false)
			r.Check(okBase, "R16.8", key(fname(r, srv), "base middleware depends on the base list alone"), pos(r, baseCall), "installed exactly when bases are configured, whatever hostBucket says",
				"the base middleware is not installed exactly when the base list is non-empty (it also depends on hostBucket): WithHostBucketBase(x) combined with WithHostBucket(false) loses the bases")
			okPlain := reach(plainCall, true, false) && !reach(plainCall, false, false) && !reach(plainCall, true, true) && !reach(plainCall, false, true)
			r.Check(okPlain, "R16.8", key(fname(r, srv), "plain middleware when hostBucket is set and no base is configured"), pos(r, plainCall), "hostBucket && no bases",
				"the plain host middleware is not installed exactly when hostBucket is set and the base list is empty")
		}
	}
	// the host compared with the bases is the header itself
	bm := mustFunc(r, "gofakes3.(*GoFakeS3).hostBucketBaseMiddleware")
	if bm == nil {
		return
	}
	m := 0
	for _, f := range core.Closures(bm) {
		ff := f
		core.Instrs(ff, func(in ssa.Instruction) {
			c, ok := in.(*ssa.Call)
			if !ok {
				return
			}
			cn := r.P.CalleeName(c)
			if strings.Contains(cn, "Logger") || strings.HasPrefix(cn, "log.") || strings.HasPrefix(cn, "fmt.") {
				return
			}
			// where the host enters the matching: the subject of a suffix comparison, or an argument of
			// the matcher (a closure value or a function of this package)
			suffixCmp := cn == "strings.HasSuffix" || cn == "strings.TrimSuffix" || cn == "strings.CutSuffix"
			matcher := strings.HasPrefix(cn, "dyn") || strings.HasPrefix(cn, "gofakes3.") || core.StaticCallee(c) == nil && !c.Call.IsInvoke()
			if !suffixCmp && !matcher {
				return
			}
			for i, a := range c.Call.Args {
				if suffixCmp && i != 0 {
					continue
				}
				hs := r.P.SliceOf(a, core.SliceOpts{Depth: -1})
				if !hs.Has("field:net/http.Request.Host") {
					continue
				}
				// the request itself handed on (ServeHTTP, withHostBucket) is not the host string
				if !types.Identical(a.Type().Underlying(), types.Typ[types.String]) {
					continue
				}
				m++
				bad := ""
				for _, l := range hs.LeafList("call:") {
					switch {
					case l == "call:strings.ToLower":
					case strings.HasPrefix(l, "call:net."), strings.HasPrefix(l, "call:strings."), strings.HasPrefix(l, "call:net/url."):
						bad = strings.TrimPrefix(l, "call:")
					}
				}
				r.Check(bad == "", "R16.8", key(fname(r, bm), "Host matched as it came", sprintf("#%d", m)), pos(r, c), "the Host header itself is matched against the bases",
					"the Host header is transformed ("+bad+") before it is compared with the configured bases, which are not: a base configured with a port no longer matches, and one without captures host:port requests meant for path-style")
			}
		})
	}
	if m < 1 {
		r.Unresolved("R16.8: the base middleware hands Request.Host to no call")
	}
}
