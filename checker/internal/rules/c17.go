package rules

import (
	"go/constant"
	"go/token"
	"regexp/syntax"
	"sort"
	"strings"

	"golang.org/x/tools/go/ssa"

	"gfs3check/internal/core"
	"gfs3check/internal/oblig"
)

func init() { Registry["C17"] = C17 }

// C17 — bucket names are accepted exactly when they satisfy the documented S3 rules.
func C17(r *core.Run) {
	r.Explanation = "The bucket-name decision, decided statically: (R17.1) create-bucket calls the validator on the very name it creates, obeys it, and every validator error is InvalidBucketName; " +
		"(R17.2) the validator is a sequence of reject-guards ending in acceptance whose length guard accepts exactly 3..63 (computed by evaluating the guard structure over all lengths), with a whole-name pattern test, an IP-address reject and a per-label pattern test over strings.Split(name, \".\"); " +
		"(R17.3) the fs backend lists only directory entries that pass the validator; " +
		"(R17.4) the language accepted by (length set ∧ whole-name pattern ∧ every label matches the pattern) — extracted from the regular-expression constant and the guards — equals the language of the property statement, decided by a product construction of the two automata over a representative alphabet for all lengths up to 65 (the IP predicate is the same uninterpreted atom on both sides). (R17.6) the router takes no naming decision of its own: on the way to createBucket the bucket name is only compared with the empty string. (R10.6, shared) the name the validator sees is the untransformed path segment (no case folding or cleaning on the way). (R16.3, shared) in virtual-host addressing the name is the Host header's label as sent: no case folding or replacement before the validator sees it."
	r.NotDecided = "net.ParseIP semantics; per-backend agreement beyond the shared handler (bolt and memory do not re-validate); names longer than 65 characters are covered by the length guard, not by the automaton search"
	ctx := oblig.NewCtx(r.P)
	rule171(r)
	lens := rule172(r, ctx)
	rule173(r)
	rule174(r, lens)
	rule175(r)
	rule176(r)
	rule106(r)
	rule1013(r)
	rule163(r, hostMiddlewares(r))
	rule101(r, ctx)
	rule1016(r)
}

func rule171(r *core.Run) {
	r.Rule("R17.1", "in createBucket g.storage.CreateBucket(bucket) is dominated by a checked ValidateBucketName(bucket) on the same value; every error ValidateBucketName returns carries ErrInvalidBucketName")
	fn := mustFunc(r, "gofakes3.(*GoFakeS3).createBucket")
	vf := mustFunc(r, "gofakes3.ValidateBucketName")
	if fn == nil || vf == nil {
		return
	}
	var val, create *ssa.Call
	core.Instrs(fn, func(in ssa.Instruction) {
		if c, ok := in.(*ssa.Call); ok {
			switch {
			case core.StaticCallee(c) == vf:
				val = c
			case r.P.CalleeName(c) == "invoke:gofakes3.Backend.CreateBucket":
				create = c
			}
		}
	})
	bp := paramNamed(fn, "bucket")
	ok := val != nil && create != nil && val.Call.Args[0] == ssa.Value(bp) && create.Call.Args[0] == ssa.Value(bp) && core.CheckedBefore(val, create)
	p0 := r.P.Pos(fn.Pos())
	if create != nil {
		p0 = pos(r, create)
	}
	r.Check(ok, "R17.1", key(fname(r, fn), "validated before created"), p0, "CreateBucket(bucket) only after ValidateBucketName(bucket) == nil", "a bucket can be created without its name having passed ValidateBucketName (or another value is validated than is created)")
	// error passed on unchanged
	okErr := false
	if val != nil {
		ev := core.ErrorResult(val)
		for ret, rv := range returnedErrors(fn) {
			if rv == ev || (ev != nil && r.P.SliceOf(rv, core.SliceOpts{Depth: -1, StopAt: func(v ssa.Value) bool { return v == ev }}).HasValue(ev)) {
				if !core.CheckedBefore(val, ret) {
					okErr = true
				}
			}
		}
	}
	r.Check(okErr, "R17.1", key(fname(r, fn), "validator error returned"), p0, "the validator's error is the response", "the validator's error is not returned to the client")
	n := 0
	bad := ""
	for ret, ev := range returnedErrors(vf) {
		if definitelyNil(r, ev) {
			continue
		}
		n++
		codes := errCodes(r.P.SliceOf(ev, core.SliceOpts{Depth: 2}))
		if len(codes) != 1 || codes[0] != "InvalidBucketName" {
			bad = pos(r, ret) + " → " + strings.Join(codes, ",")
		}
	}
	r.Check(n >= 4 && bad == "", "R17.1", key(fname(r, vf), "every rejection is InvalidBucketName"), r.P.Pos(vf.Pos()), sprintf("%d rejecting returns, all InvalidBucketName", n), "a rejection of ValidateBucketName does not carry ErrInvalidBucketName ("+bad+")")
	if tbl := statusTable(r); tbl != nil {
		r.Check(tbl["InvalidBucketName"] == 400, "R17.1", key("status", "InvalidBucketName"), "", "InvalidBucketName → 400", "ErrInvalidBucketName does not map to 400")
	}
	// auto-bucket path also creates buckets: ensureBucketExists → CreateBucket without validation is bounded by routing (only reached for names from the URL); report informationally
}

// lengthAccepted evaluates the guard structure of fn over a concrete length:
// branches on comparisons of len(name) with constants are decided (also when
// the condition is a value merged from a short-circuit expression: the walk
// remembers the edge it came by and resolves phis of the block accordingly), all
// other branches may go either way; reports whether a nil-error return is reachable.
func lengthAccepted(r *core.Run, fn *ssa.Function, name ssa.Value, L int64) bool {
	type state struct{ b, pred *ssa.BasicBlock }
	seen := map[state]bool{}
	// eval: 1 true, -1 false, 0 unknown
	var eval func(v ssa.Value, b, pred *ssa.BasicBlock, d int) int
	eval = func(v ssa.Value, b, pred *ssa.BasicBlock, d int) int {
		if d > 6 {
			return 0
		}
		switch x := v.(type) {
		case *ssa.Const:
			if x.Value != nil && x.Value.Kind() == constant.Bool {
				if constant.BoolVal(x.Value) {
					return 1
				}
				return -1
			}
		case *ssa.UnOp:
			if x.Op == token.NOT {
				return -eval(x.X, b, pred, d+1)
			}
		case *ssa.Phi:
			if x.Block() == b && pred != nil {
				for i, p := range b.Preds {
					if p == pred && i < len(x.Edges) {
						// the incoming value was computed in (or before) pred
						return eval(x.Edges[i], pred, nil, d+1)
					}
				}
			}
		case *ssa.BinOp:
			cd := core.CondOf(x)
			if isLenCall(cd.X) && cd.X.(*ssa.Call).Call.Args[0] == name {
				if k, ok := core.ConstInt(cd.Y); ok {
					var t bool
					switch cd.Op {
					case token.LSS:
						t = L < k
					case token.LEQ:
						t = L <= k
					case token.GTR:
						t = L > k
					case token.GEQ:
						t = L >= k
					case token.EQL:
						t = L == k
					case token.NEQ:
						t = L != k
					default:
						return 0
					}
					if t {
						return 1
					}
					return -1
				}
			}
			if isLenCall(cd.Y) && cd.Y.(*ssa.Call).Call.Args[0] == name {
				if k, ok := core.ConstInt(cd.X); ok {
					var t bool
					switch cd.Op {
					case token.LSS:
						t = k < L
					case token.LEQ:
						t = k <= L
					case token.GTR:
						t = k > L
					case token.GEQ:
						t = k >= L
					case token.EQL:
						t = L == k
					case token.NEQ:
						t = L != k
					default:
						return 0
					}
					if t {
						return 1
					}
					return -1
				}
			}
		}
		return 0
	}
	var walk func(b, pred *ssa.BasicBlock) bool
	walk = func(b, pred *ssa.BasicBlock) bool {
		st := state{b, nil}
		hasPhi := false
		for _, in := range b.Instrs {
			if _, ok := in.(*ssa.Phi); ok {
				hasPhi = true
			}
		}
		if hasPhi {
			st.pred = pred
		}
		if seen[st] {
			return false
		}
		seen[st] = true
		if len(b.Instrs) == 0 {
			return false
		}
		switch t := b.Instrs[len(b.Instrs)-1].(type) {
		case *ssa.Return:
			return len(t.Results) == 1 && definitelyNil(r, t.Results[0])
		case *ssa.If:
			switch eval(t.Cond, b, pred, 0) {
			case 1:
				return walk(b.Succs[0], b)
			case -1:
				return walk(b.Succs[1], b)
			}
			return walk(b.Succs[0], b) || walk(b.Succs[1], b)
		default:
			for _, s := range b.Succs {
				if walk(s, b) {
					return true
				}
			}
		}
		return false
	}
	return walk(fn.Blocks[0], nil)
}

func rule172(r *core.Run, ctx *oblig.Ctx) map[int]bool {
	r.Rule("R17.2", "ValidateBucketName accepts exactly the lengths 3..63 (guard structure evaluated for every length 0..100), rejects when the whole-name pattern does not match, when net.ParseIP(name) != nil, and when any element of strings.Split(name, \".\") does not match the pattern")
	fn := mustFunc(r, "gofakes3.ValidateBucketName")
	lens := map[int]bool{}
	if fn == nil {
		return lens
	}
	name := fn.Params[0]
	var acc []int
	for L := int64(0); L <= 100; L++ {
		if lengthAccepted(r, fn, name, L) {
			lens[int(L)] = true
			acc = append(acc, int(L))
		}
	}
	okLen := len(acc) == 61
	for _, l := range acc {
		if l < 3 || l > 63 {
			okLen = false
		}
	}
	lo, hi := -1, -1
	if len(acc) > 0 {
		lo, hi = acc[0], acc[len(acc)-1]
	}
	r.Check(okLen, "R17.2", key(fname(r, fn), "accepted lengths = 3..63"), r.P.Pos(fn.Pos()), "length guard accepts exactly 3..63", sprintf("the length guard accepts %d lengths, from %d to %d (must be exactly 3..63)", len(acc), lo, hi))
	// pattern tests
	var whole, label *ssa.Call
	var ipTest *ssa.Call
	core.Instrs(fn, func(in ssa.Instruction) {
		c, ok := in.(*ssa.Call)
		if !ok {
			return
		}
		switch r.P.CalleeName(c) {
		case "(*regexp.Regexp).MatchString":
			rs := r.P.SliceOf(c.Call.Args[0], core.SliceOpts{Depth: -1})
			if !rs.Has("global:gofakes3.bucketNamePattern") {
				return
			}
			if c.Call.Args[1] == ssa.Value(name) {
				whole = c
			} else {
				as := r.P.SliceOf(c.Call.Args[1], core.SliceOpts{Depth: -1, NoIndex: true})
				if (as.Has("call:strings.Split") || as.Has("call:strings.Cut") || as.Has("call:strings.SplitN") || as.Has("call:strings.FieldsFunc")) && as.HasValue(name) && (as.Has("const:.") || as.Has("const:46")) {
					label = c
				}
			}
		case "net.ParseIP":
			if c.Call.Args[0] == ssa.Value(name) {
				ipTest = c
			}
		}
	})
	rejectsOn := func(c *ssa.Call, wantFalse bool) bool {
		if c == nil {
			return false
		}
		for _, ref := range *c.Referrers() {
			var iff *ssa.If
			neg := false
			switch x := ref.(type) {
			case *ssa.If:
				iff = x
			case *ssa.UnOp:
				if x.Op == token.NOT {
					for _, u := range *x.Referrers() {
						if i2, ok := u.(*ssa.If); ok {
							iff, neg = i2, true
						}
					}
				}
			case *ssa.BinOp:
				// ParseIP(name) != nil
				if x.Op == token.NEQ && core.IsNilConst(x.Y) {
					for _, u := range *x.Referrers() {
						if i2, ok := u.(*ssa.If); ok {
							if ret := edgeReturn(i2, true); ret != nil && !definitelyNil(r, ret.Results[0]) {
								return true
							}
						}
					}
				}
			}
			if iff == nil {
				continue
			}
			// the edge on which the call's value is `!wantFalse`... we want: value false → reject
			branch := false
			if neg {
				branch = true
			}
			if !wantFalse {
				branch = !branch
			}
			if ret := edgeReturn(iff, branch); ret != nil && !definitelyNil(r, ret.Results[0]) {
				return true
			}
		}
		return false
	}
	r.Check(rejectsOn(whole, true), "R17.2", key(fname(r, fn), "whole-name pattern"), r.P.Pos(fn.Pos()), "rejects when the pattern does not match the whole name", "the whole name is no longer tested against bucketNamePattern with a rejecting arm")
	r.Check(rejectsOn(label, true), "R17.2", key(fname(r, fn), "per-label pattern"), r.P.Pos(fn.Pos()), "rejects when a '.'-separated label does not match", "the labels of strings.Split(name, \".\") are no longer each tested against bucketNamePattern with a rejecting arm")
	r.Check(rejectsOn(ipTest, false), "R17.2", key(fname(r, fn), "IP address reject"), r.P.Pos(fn.Pos()), "rejects names that parse as an IP address", "names formatted as an IP address are no longer rejected")
	// every label is tested: the label loop cannot skip an element, and acceptance needs the last label tested
	if label != nil {
		var head *ssa.If
		for _, g := range core.GuardsOf(label) {
			cd := core.CondOf(g.If.Cond)
			if cd.Op == token.LSS && isLenCall(cd.Y) && g.Branch {
				head = g.If
			}
		}
		isLabel := func(in ssa.Instruction) bool { return in == ssa.Instruction(label) }
		switch {
		case head != nil:
			// range over the split result
			body := head.Block().Succs[0]
			skip, _ := core.SilentSkip(body, head.Block(), isLabel, func(*ssa.If, bool) bool { return false })
			okAll := !skip
			// and acceptance is only reachable after the loop finished
			for _, ret := range core.Returns(fn) {
				if definitelyNil(r, ret.Results[0]) && !core.GuardedBy(ret, head, false) {
					okAll = false
				}
			}
			r.Check(okAll, "R17.2", key(fname(r, fn), "every label tested"), r.P.Pos(fn.Pos()), "acceptance only after all labels matched", "the validator can accept without having tested every label")
		default:
			// an explicit loop that cuts one label off per iteration (strings.Cut / Index):
			// no way round the loop without the test, and acceptance only after the test of
			// the current label, on the "no further separator" outcome of that cut
			var cut *ssa.Call
			as := r.P.SliceOf(label.Call.Args[1], core.SliceOpts{Depth: -1, NoIndex: true})
			for c := range as.Calls {
				if cn := r.P.CalleeName(c); cn == "strings.Cut" || cn == "strings.SplitN" || cn == "strings.IndexByte" || cn == "strings.Index" {
					cut, _ = c.(*ssa.Call)
				}
			}
			inLoop := core.Reaches(label, label)
			if cut == nil || !inLoop {
				r.Unresolved("R17.2: the way ValidateBucketName walks over the labels is not one of the recognised idioms (range over strings.Split; loop over strings.Cut)")
				break
			}
			okAll := true
			why := ""
			// (a) from one cut to the next without the test
			if core.ReachesAvoiding(cut, cut, isLabel) {
				okAll, why = false, "an iteration can go on to the next label without testing the current one"
			}
			// (b) acceptance without the test after the last cut, or not on the "no more separators" outcome
			for _, ret := range core.Returns(fn) {
				if !definitelyNil(r, ret.Results[0]) {
					continue
				}
				if core.ReachableFromEntryAvoiding(ret, isLabel) {
					okAll, why = false, "acceptance is reachable without any label test"
				}
				if core.ReachesAvoiding(cut, ret, isLabel) {
					okAll, why = false, "acceptance is reachable after cutting off a label that was not tested"
				}
				more := false
				for _, g := range core.GuardsOf(ret) {
					gs := r.P.SliceOf(g.If.Cond, core.SliceOpts{Depth: -1, Control: true})
					if gs.HasValue(cut) {
						more = true
					}
				}
				if !more {
					okAll, why = false, "acceptance does not depend on the cut having found no further separator"
				}
			}
			r.Check(okAll, "R17.2", key(fname(r, fn), "every label tested"), r.P.Pos(fn.Pos()), "acceptance only after all labels matched", "the validator can accept without having tested every label ("+why+")")
		}
	}
	return lens
}

func rule173(r *core.Run) {
	r.Rule("R17.3", "MultiBucketBackend.ListBuckets appends a directory entry only where ValidateBucketName(entry.Name()) returned nil; the listed name is that entry's name")
	fn := mustFunc(r, "s3afero.(*MultiBucketBackend).ListBuckets")
	if fn == nil {
		return
	}
	ok := false
	var at ssa.Instruction
	core.Instrs(fn, func(in ssa.Instruction) {
		st, isSt := in.(*ssa.Store)
		if !isSt {
			return
		}
		fa, isFA := st.Addr.(*ssa.FieldAddr)
		if !isFA || r.P.FieldName(fa) != "gofakes3.BucketInfo.Name" {
			return
		}
		at = st
		ns := r.P.SliceOf(st.Val, core.SliceOpts{Depth: -1, NoIndex: true})
		for _, c := range r.P.CallsIn(fn, false, core.NameIs("gofakes3.ValidateBucketName")) {
			cc := c.(*ssa.Call)
			as := r.P.SliceOf(cc.Call.Args[0], core.SliceOpts{Depth: -1, NoIndex: true})
			same := false
			for v := range as.Values {
				if call, isCall := v.(*ssa.Call); isCall && strings.HasSuffix(r.P.CalleeName(call), "FileInfo.Name") && ns.Values[v] == false {
					// same entry: the receiver of Name() is the same range element
					for w := range ns.Values {
						if c2, ok := w.(*ssa.Call); ok && strings.HasSuffix(r.P.CalleeName(c2), "FileInfo.Name") && c2.Call.Value == call.Call.Value {
							same = true
						}
					}
				} else if isCall && ns.Values[v] && strings.HasSuffix(r.P.CalleeName(call), "FileInfo.Name") {
					same = true
				}
			}
			if same && core.CheckedBefore(cc, st) {
				ok = true
			}
		}
	})
	p0 := r.P.Pos(fn.Pos())
	if at != nil {
		p0 = pos(r, at)
	}
	r.Check(ok, "R17.3", key(fname(r, fn), "lists only valid names"), p0, "entry listed only when its name validates", "the fs backend lists directory entries whose names were not checked with ValidateBucketName: a bucket that was never (and could never be) created is listed")
}

// ---------------------------------------------------------------- R17.4

var c17Alphabet = []rune{'a', 'm', 'z', '0', '5', '9', '-', '.', 'A', '_', '/'}

type nfa struct{ prog *syntax.Prog }

func compileNFA(pat string) (*nfa, error) {
	re, err := syntax.Parse(pat, syntax.Perl)
	if err != nil {
		return nil, err
	}
	p, err := syntax.Compile(re.Simplify())
	if err != nil {
		return nil, err
	}
	return &nfa{p}, nil
}

// closure follows empty transitions; atStart/atEnd decide ^ and $.
func (n *nfa) closure(pcs []int, atStart, atEnd bool) []int {
	seen := map[int]bool{}
	var out []int
	var add func(pc int)
	add = func(pc int) {
		if seen[pc] {
			return
		}
		seen[pc] = true
		in := n.prog.Inst[pc]
		switch in.Op {
		case syntax.InstAlt, syntax.InstAltMatch:
			add(int(in.Out))
			add(int(in.Arg))
		case syntax.InstCapture, syntax.InstNop:
			add(int(in.Out))
		case syntax.InstEmptyWidth:
			op := syntax.EmptyOp(in.Arg)
			ok := true
			if op&(syntax.EmptyBeginText|syntax.EmptyBeginLine) != 0 && !atStart {
				ok = false
			}
			if op&(syntax.EmptyEndText|syntax.EmptyEndLine) != 0 && !atEnd {
				ok = false
			}
			if op&(syntax.EmptyWordBoundary|syntax.EmptyNoWordBoundary) != 0 {
				ok = false
			}
			if ok {
				add(int(in.Out))
			} else {
				out = append(out, pc) // may become passable at the end
			}
		default:
			out = append(out, pc)
		}
	}
	for _, pc := range pcs {
		add(pc)
	}
	sort.Ints(out)
	return out
}

// The simulated semantics is regexp.MatchString: a match may start at any
// position and end at any position unless the pattern anchors it. The
// pseudo-pc -1 in a state records "a match has already been completed".
const matchedPC = -1

func (n *nfa) withMatchFlag(st []int) []int {
	for _, pc := range st {
		if pc >= 0 && n.prog.Inst[pc].Op == syntax.InstMatch {
			return append([]int{matchedPC}, st...)
		}
	}
	return st
}

func (n *nfa) start() []int {
	return n.norm(n.withMatchFlag(n.closure([]int{n.prog.Start}, true, false)))
}

func (n *nfa) norm(st []int) []int {
	m := map[int]bool{}
	for _, x := range st {
		m[x] = true
	}
	var out []int
	for x := range m {
		out = append(out, x)
	}
	sort.Ints(out)
	return out
}

func (n *nfa) step(state []int, c rune) []int {
	var next []int
	matched := false
	for _, pc := range state {
		if pc == matchedPC {
			matched = true
			continue
		}
		in := n.prog.Inst[pc]
		switch in.Op {
		case syntax.InstRune, syntax.InstRune1, syntax.InstRuneAny, syntax.InstRuneAnyNotNL:
			if in.MatchRune(c) {
				next = append(next, int(in.Out))
			}
		}
	}
	// a new match attempt may start at this position (not at the beginning of the text)
	next = append(next, n.prog.Start)
	st := n.withMatchFlag(n.closure(next, false, false))
	if matched {
		st = append(st, matchedPC)
	}
	return n.norm(st)
}

// accepts: at end of input, with the state reached so far (atStart tells
// whether no rune was consumed).
func (n *nfa) accepts(state []int, atStart bool) bool {
	var pcs []int
	for _, pc := range state {
		if pc == matchedPC {
			return true
		}
		pcs = append(pcs, pc)
	}
	for _, pc := range n.closure(pcs, atStart, true) {
		if n.prog.Inst[pc].Op == syntax.InstMatch {
			return true
		}
	}
	return false
}

func keyOf(s []int) string {
	var b strings.Builder
	for _, x := range s {
		b.WriteString(sprintf("%d,", x))
	}
	return b.String()
}

// implState: whole-name NFA state, current-label NFA state, label length 0?, dead flag, total length.
type implState struct {
	whole, label []int
	labelEmpty   bool
	dead         bool
	n            int
}

// specState of the property's language: labels of >= 3 chars over [a-z0-9-], beginning and ending with [a-z0-9], separated by single dots.
type specState struct {
	labelLen  int  // capped at 3
	lastAlnum bool // last char of the current label is [a-z0-9]
	dead      bool
	n         int
}

func classOfRune(c rune) string {
	switch {
	case c >= 'a' && c <= 'z', c >= '0' && c <= '9':
		return "alnum"
	case c == '-':
		return "hyphen"
	case c == '.':
		return "dot"
	}
	return "other"
}

func (s specState) step(c rune) specState {
	if s.dead {
		s.n++
		return s
	}
	n := specState{labelLen: s.labelLen, lastAlnum: s.lastAlnum, n: s.n + 1}
	switch classOfRune(c) {
	case "alnum":
		if n.labelLen < 3 {
			n.labelLen++
		}
		n.lastAlnum = true
	case "hyphen":
		if s.labelLen == 0 {
			n.dead = true
		} else {
			if n.labelLen < 3 {
				n.labelLen++
			}
			n.lastAlnum = false
		}
	case "dot":
		if s.labelLen < 3 || !s.lastAlnum {
			n.dead = true
		}
		n.labelLen, n.lastAlnum = 0, false
	default:
		n.dead = true
	}
	return n
}

func (s specState) accepts() bool {
	return !s.dead && s.labelLen >= 3 && s.lastAlnum && s.n >= 3 && s.n <= 63
}

func rule174(r *core.Run, lens map[int]bool) {
	r.Rule("R17.4", "language equality: {names n | len(n) in the accepted length set ∧ pattern matches n ∧ pattern matches every '.'-separated label of n} = {3..63 chars, labels of >= 3 chars from [a-z0-9-] beginning and ending with [a-z0-9], separated by single dots}; both sides explored as automata over the alphabet {a,m,z,0,5,9,-,.,A,_,/} for every length <= 65")
	// the pattern constant
	pat := ""
	if init := r.P.SSAPkgs["gofakes3"].Func("init"); init != nil {
		core.Instrs(init, func(in ssa.Instruction) {
			st, ok := in.(*ssa.Store)
			if !ok {
				return
			}
			g, ok := st.Addr.(*ssa.Global)
			if !ok || g.Name() != "bucketNamePattern" {
				return
			}
			if c, ok := st.Val.(*ssa.Call); ok && (r.P.CalleeName(c) == "regexp.MustCompile" || r.P.CalleeName(c) == "regexp.MustCompilePOSIX") {
				if s, ok := core.ConstString(c.Call.Args[0]); ok {
					pat = s
				}
			}
		})
	}
	if pat == "" {
		r.Unresolved("R17.4: the regular-expression constant of bucketNamePattern could not be extracted")
		return
	}
	n, err := compileNFA(pat)
	if err != nil {
		r.Unresolved("R17.4: pattern %q does not parse: %v", pat, err)
		return
	}
	r.Extra["bucket_name_pattern"] = pat
	type pair struct {
		is implState
		ss specState
		w  string // a witness string
	}
	start := pair{is: implState{whole: n.start(), label: n.start(), labelEmpty: true}, ss: specState{}}
	pkey := func(p pair) string {
		return sprintf("%s|%s|%v|%v|%d||%d|%v|%v", keyOf(p.is.whole), keyOf(p.is.label), p.is.labelEmpty, p.is.dead, p.is.n, p.ss.labelLen, p.ss.lastAlnum, p.ss.dead)
	}
	seen := map[string]bool{pkey(start): true}
	work := []pair{start}
	states, trans := 0, 0
	var witness string
	var wImpl, wSpec bool
	implAccepts := func(s implState) bool {
		if s.dead || !lens[s.n] {
			return false
		}
		return n.accepts(s.whole, s.n == 0) && n.accepts(s.label, s.labelEmpty)
	}
	for len(work) > 0 && witness == "" {
		p := work[0]
		work = work[1:]
		states++
		ia, sa := implAccepts(p.is), p.ss.accepts()
		if ia != sa {
			witness, wImpl, wSpec = p.w, ia, sa
			break
		}
		if p.is.n >= 65 {
			continue
		}
		for _, c := range c17Alphabet {
			trans++
			ni := implState{n: p.is.n + 1, dead: p.is.dead}
			ni.whole = n.step(p.is.whole, c)
			if c == '.' {
				// the label that just ended must match
				if !n.accepts(p.is.label, p.is.labelEmpty) {
					ni.dead = true
				}
				ni.label, ni.labelEmpty = n.start(), true
			} else {
				ni.label, ni.labelEmpty = n.step(p.is.label, c), false
			}
			np := pair{is: ni, ss: p.ss.step(c), w: p.w + string(c)}
			k := pkey(np)
			if !seen[k] {
				seen[k] = true
				work = append(work, np)
			}
		}
	}
	r.Extra["automaton_product_states"] = states
	r.Extra["automaton_transitions"] = trans
	if witness == "" {
		r.Held("R17.4", key("gofakes3.ValidateBucketName", "language equality"), "", sprintf("product of implementation and specification automata explored: %d states, %d transitions, no disagreement up to length 65", states, trans))
		return
	}
	r.Violated("R17.4", key("gofakes3.ValidateBucketName", "language equality"), "", sprintf("the validator (pattern %q, accepted lengths, per-label test) and the documented rules disagree on the name %q: validator accepts=%v, rules accept=%v (the IP-address predicate aside)", pat, witness, wImpl, wSpec))
}

// rule175 — backends do not apply naming rules of their own.
func rule175(r *core.Run) {
	r.Rule("R17.5", "no backend's CreateBucket rejects a name on syntactic grounds of its own (the decision is the shared validator's): a return of InvalidBucketName in a CreateBucket is admissible only as the shared validator's own verdict on that name or under the comparison with the backend's internal bookkeeping name, and no CreateBucket tests len(name)")
	for _, impl := range backendImpls {
		fn := implMethod(r, impl, "CreateBucket")
		if fn == nil {
			continue
		}
		np := fn.Params[1]
		bad := ""
		for _, f := range core.Closures(fn) {
			for ret, ev := range returnedErrors(f) {
				es := r.P.SliceOf(ev, core.SliceOpts{Depth: 2})
				if !has(errCodes(es), "InvalidBucketName") {
					continue
				}
				// the shared validator's own verdict on this very name is the common decision, not a private rule
				if es1 := r.P.SliceOf(ev, core.SliceOpts{Depth: -1}); es1.HasCallTo("gofakes3.ValidateBucketName") {
					shared := false
					for c := range es1.Calls {
						if r.P.CalleeName(c) == "gofakes3.ValidateBucketName" && c.Common().Args[0] == ssa.Value(np) {
							shared = true
						}
					}
					if shared {
						continue
					}
				}
				for _, g := range core.GuardsOf(ret) {
					gs := r.P.SliceOf(g.If.Cond, core.SliceOpts{Depth: -1, Control: true})
					_, _, _, isCmp := byteCompare(r, g.If.Cond, true)
					isMeta := gs.Has("field:s3bolt.Backend.metaBucketName") && (gs.Has("call:bytes.Equal") || gs.Has("call:bytes.Compare") || isCmp)
					if !isMeta || gs.Has("call:builtin:len") {
						bad = "InvalidBucketName returned at " + pos(r, ret) + " under a test that is not the bookkeeping-name comparison"
					}
				}
				if len(core.GuardsOf(ret)) == 0 {
					bad = "unconditional InvalidBucketName at " + pos(r, ret)
				}
			}
			core.Instrs(f, func(in ssa.Instruction) {
				if iff, ok := in.(*ssa.If); ok {
					cd := core.CondOf(iff.Cond)
					for _, v := range []ssa.Value{cd.X, cd.Y} {
						if v != nil && isLenCall(v) {
							as := r.P.SliceOf(v.(*ssa.Call).Call.Args[0], core.SliceOpts{Depth: -1})
							if as.HasValue(np) {
								bad = "len(name) tested at " + pos(r, iff)
							}
						}
					}
				}
			})
		}
		r.Check(bad == "", "R17.5", key(fname(r, fn), "no private naming rule"), r.P.Pos(fn.Pos()), "the backend leaves the naming decision to the validator", "the backend applies a naming rule of its own ("+bad+"): the same name is accepted on one backend and refused on another")
	}
}

// rule176 — the router does not decide which names are acceptable.
func rule176(r *core.Run) {
	r.Rule("R17.6", "in routeBase and routeBucket the bucket name taken from the path is only tested against the empty string and handed to route functions / handlers: no other comparison, pattern or string predicate on it can answer before the validator does (a refusal there would carry another code than InvalidBucketName)")
	n := 0
	for _, fnm := range []string{"gofakes3.(*GoFakeS3).routeBase", "gofakes3.(*GoFakeS3).routeBucket"} {
		fn := mustFunc(r, fnm)
		if fn == nil {
			continue
		}
		// the bucket value: routeBucket's parameter; in routeBase the string handed to routeBucket
		var bvals []ssa.Value
		if p := paramNamed(fn, "bucket"); p != nil {
			bvals = append(bvals, p)
		}
		core.Instrs(fn, func(in ssa.Instruction) {
			if c, ok := in.(*ssa.Call); ok && strings.HasSuffix(r.P.CalleeName(c), ".routeBucket") && len(c.Call.Args) > 1 {
				bvals = append(bvals, c.Call.Args[1])
			}
		})
		if len(bvals) == 0 {
			continue
		}
		isBucket := func(v ssa.Value) bool {
			for _, b := range bvals {
				if v == b {
					return true
				}
			}
			return false
		}
		f := fn
		core.Instrs(f, func(in ssa.Instruction) {
			switch x := in.(type) {
			case *ssa.BinOp:
				if !isBucket(x.X) && !isBucket(x.Y) {
					return
				}
				n++
				other := x.Y
				if isBucket(x.Y) {
					other = x.X
				}
				k, isK := core.ConstString(other)
				okCmp := (x.Op == token.EQL || x.Op == token.NEQ) && isK && k == ""
				r.Check(okCmp, "R17.6", key(fnm, "bucket only compared with the empty string", sprintf("#%d", n)), pos(r, x), "bucket ==/!= \"\"", "the router compares the bucket name with something other than the empty string: a naming decision outside the validator (refusals there do not answer InvalidBucketName)")
			case *ssa.Call:
				uses := false
				for _, a := range x.Call.Args {
					if isBucket(a) {
						uses = true
					}
				}
				if !uses {
					return
				}
				cn := r.P.CalleeName(x)
				if strings.HasPrefix(cn, "gofakes3.(*GoFakeS3).") || strings.HasPrefix(cn, "invoke:") && false {
					return // handed to a route function / handler
				}
				if strings.Contains(cn, "Logger") || strings.HasPrefix(cn, "fmt.") || strings.HasPrefix(cn, "log.") {
					return
				}
				n++
				r.Violated("R17.6", key(fnm, "string predicate on the bucket name", cn), pos(r, x), "the router applies "+cn+" to the bucket name: a naming decision outside the validator (its refusals do not answer InvalidBucketName)")
			}
		})
	}
	if n < 2 {
		r.Unresolved("R17.6: %d uses of the bucket name found in the router (expected at least 2)", n)
	}
}
