package rules

import (
	"go/token"
	"sort"
	"strings"

	"golang.org/x/tools/go/ssa"

	"gfs3check/internal/core"
	"gfs3check/internal/oblig"
)

// storedBodyFields hold bytes that are handed out to readers without copying.
var storedBodyFields = []string{
	"s3mem.bucketData.body", "s3mem.bucketData.hash",
	"gofakes3.multipartUploadPart.Body",
	"s3bolt.boltObject.Contents", "s3bolt.boltObject.Hash",
}

// storedMetaFields hold metadata maps that are shared, not copied.
var storedMetaFields = []string{
	"s3mem.bucketData.metadata", "gofakes3.multipartUpload.Meta", "gofakes3.Object.Metadata", "s3bolt.boltObject.Metadata", "s3afero.Metadata.Meta",
}

// calls that write into their byte-slice argument (index of the written arg)
var sliceWriters = map[string]int{
	"io.ReadFull": 1, "io.ReadAtLeast": 1, "invoke:io.Reader.Read": 1, "crypto/rand.Read": 0,
	"encoding/hex.Encode": 0, "encoding/hex.Decode": 0, "encoding/base64.(*Encoding).Encode": 1,
	"sort.Slice": 0, "slices.Sort": 0, "slices.Reverse": 0, "encoding/binary.(*littleEndian).PutUint64": 1,
}

// rule016 — stored bodies are never mutated (shared by C01 and C07).
func rule016(r *core.Run, prop string) {
	r.Rule("R01.6", "every use of a byte slice loaded from a stored-body field (bucketData.body/hash, multipartUploadPart.Body, boltObject.Contents/Hash) is read-only: no element store, not the destination of copy, not the first operand of append, not passed to a function that fills it")
	p := r.P
	n := 0
	for _, field := range storedBodyFields {
		loads := p.FieldLoads(field)
		for _, ld := range loads {
			n++
			fn := ld.(ssa.Instruction).Parent()
			// forward closure inside the function
			derived := map[ssa.Value]bool{ld: true}
			work := []ssa.Value{ld}
			bad := ""
			var badAt ssa.Instruction
			for len(work) > 0 && bad == "" {
				v := work[len(work)-1]
				work = work[:len(work)-1]
				refs := v.Referrers()
				if refs == nil {
					continue
				}
				for _, u := range *refs {
					switch x := u.(type) {
					case *ssa.Slice:
						if x.X == v && !derived[x] {
							derived[x] = true
							work = append(work, x)
						}
					case *ssa.Phi:
						if !derived[x] {
							derived[x] = true
							work = append(work, x)
						}
					case *ssa.ChangeType:
						if !derived[x] {
							derived[x] = true
							work = append(work, x)
						}
					case *ssa.IndexAddr:
						if x.X != v {
							continue
						}
						if ir := x.Referrers(); ir != nil {
							for _, iu := range *ir {
								if st, ok := iu.(*ssa.Store); ok && st.Addr == ssa.Value(x) {
									bad, badAt = "element store", st
								}
							}
						}
					case *ssa.Send:
						if x.X == v {
							bad, badAt = "sent on a channel (handed to a pool or another goroutine that may refill it while readers still hold it)", x
						}
					case *ssa.Select:
						for _, st := range x.States {
							if st.Send == v {
								bad, badAt = "sent on a channel (handed to a pool or another goroutine that may refill it while readers still hold it)", x
							}
						}
					case *ssa.MapUpdate:
						if x.Value == v {
							bad, badAt = "kept in a map for later reuse", x
						}
					case *ssa.Store:
						// kept in a package-level variable or in a field that is not a stored-body field (a free list)
						if x.Val == v {
							switch a := x.Addr.(type) {
							case *ssa.Global:
								bad, badAt = "kept in a package-level variable for later reuse", x
							case *ssa.FieldAddr:
								fnm := p.FieldName(a)
								okField := strings.HasPrefix(fnm, "gofakes3.Object.") || strings.HasPrefix(fnm, "gofakes3.Content.") || strings.HasPrefix(fnm, "s3io.") || strings.HasPrefix(fnm, "bytes.")
								for _, sf := range storedBodyFields {
									if sf == fnm {
										okField = true
									}
								}
								if !okField && (strings.Contains(fnm, "Backend.") || strings.Contains(fnm, "uploader.")) {
									bad, badAt = "kept in the backend's own state ("+fnm+") for later reuse", x
								}
							}
						}
					case ssa.CallInstruction:
						name := p.CalleeName(x)
						args := x.Common().Args
						if x.Common().IsInvoke() {
							args = core.Args(x)
						}
						switch name {
						case "builtin:append":
							if len(args) > 0 && args[0] == v {
								bad, badAt = "first operand of append (may write into the shared backing array)", x
							}
						case "builtin:copy":
							if len(args) > 0 && args[0] == v {
								bad, badAt = "destination of copy", x
							}
						default:
							if idx, ok := sliceWriters[name]; ok && idx < len(args) && args[idx] == v {
								bad, badAt = "passed as the buffer to "+name, x
							}
						}
					}
				}
			}
			k := key(fname(r, fn), "load "+field, sprintfIdx(ld))
			if bad == "" {
				r.Held("R01.6", k, pos(r, ld.(ssa.Instruction)), "read-only uses")
			} else {
				r.Violated("R01.6", k, pos(r, badAt), "bytes loaded from "+field+" are mutated: "+bad)
			}
		}
	}
	if n < 8 {
		r.Unresolved("R01.6: only %d loads of stored-body fields found (expected ≥ 8)", n)
	}
	// stored metadata maps are shared with readers and with archived versions: never written
	nm := 0
	for _, field := range storedMetaFields {
		for _, ld := range p.FieldLoads(field) {
			nm++
			fn := ld.(ssa.Instruction).Parent()
			derived := map[ssa.Value]bool{ld: true}
			work := []ssa.Value{ld}
			bad := ""
			var badAt ssa.Instruction
			for len(work) > 0 && bad == "" {
				v := work[len(work)-1]
				work = work[:len(work)-1]
				refs := v.Referrers()
				if refs == nil {
					continue
				}
				for _, u := range *refs {
					switch x := u.(type) {
					case *ssa.Phi:
						if !derived[x] {
							derived[x] = true
							work = append(work, x)
						}
					case *ssa.Store:
						// assigned to a local variable: follow its loads
						if a, ok := x.Addr.(*ssa.Alloc); ok && x.Val == v {
							for _, ar := range *a.Referrers() {
								if l2, ok := ar.(*ssa.UnOp); ok && !derived[l2] {
									derived[l2] = true
									work = append(work, l2)
								}
							}
						}
					case *ssa.MapUpdate:
						if x.Map == v {
							bad, badAt = "entry written", x
						}
					case ssa.CallInstruction:
						if b, ok := x.Common().Value.(*ssa.Builtin); ok && b.Name() == "delete" && x.Common().Args[0] == v {
							bad, badAt = "entry deleted", x
						}
					}
				}
			}
			k := key(fname(r, fn), "load "+field, sprintfIdx(ld))
			if bad == "" {
				r.Held("R01.6", k, pos(r, ld.(ssa.Instruction)), "read-only uses")
			} else {
				r.Violated("R01.6", k, pos(r, badAt), "the metadata map loaded from "+field+" is modified ("+bad+"): it is shared with archived versions and with objects already handed to readers, whose metadata changes under them")
			}
		}
	}
	if nm < 4 {
		r.Unresolved("R01.6: only %d loads of stored-metadata fields found (expected ≥ 4)", nm)
	}
	_ = strings.TrimSpace
}

func sprintfIdx(v ssa.Value) string {
	in, ok := v.(ssa.Instruction)
	if !ok {
		return ""
	}
	return sprintf("b%d.%d", in.Block().Index, core.InstrIndex(in))
}

func init() { Registry["C01"] = C01 }

// C01 — stored objects come back byte-for-byte with matching size, ETag and metadata.
func C01(r *core.Run) {
	r.Explanation = "The structure that makes the returned ETag, size and metadata the ones belonging to the stored bytes (not byte equality itself), for every handler path and all four backends: " +
		"(R01.1) the ETag header of PUT/POST is the Sum of the very hashing reader that was handed to PutObject, which wraps the request body; " +
		"(R01.2) in every PutObject the stored hash and the stored body come from one single consumption of the input: ReadAll(input,size)→md5.Sum(same bytes) (memory, bolt) or one io.Copy(input) into a MultiWriter over exactly {the truncating-created object file, the hasher} whose Sum is stored (fs); " +
		"(R01.3) Content-Length/Object.Size derive from the stored bytes' length; (R01.4) header-name constants are canonical and the persisted header set covers Content-Type/-Encoding/-Disposition and x-amz-meta-*; " +
		"(R01.5) GET and HEAD replay every stored metadata header and the ETag through one shared function, before length and body; (R01.6) stored bodies are never mutated; (R01.7) no storage error is dropped. (R01.10) in the memory and bolt backends success is returned only after the new record was written. (R01.12) error discipline in path form: no call's error reaches a return untested / not handed back, and no path that found it non-nil ends in success without passing it on or testing it further."
	r.NotDecided = "byte equality, empty-body behaviour, URL-escaping of keys, that ReadAll reads exactly size bytes, bolt/BSON and JSON round trips of values"
	rule011(r)
	rule012(r)
	rule013(r)
	rule014(r)
	rule015(r)
	rule016(r, "C01")
	rule017(r)
	rule0110(r)
	ruleL8(r)
	rule019(r)
	rule153(r)
	rule0210(r, "C01")
	rule105(r)
	rule0111(r)
	rule0112(r, "C01")
	rule0213(r)
	rule0113(r)
	rule106(r)
	rule163(r, hostMiddlewares(r))
	ruleL9(r, newLockset(r))
}

func rule011(r *core.Run) {
	r.Rule("R01.1", "in createObject and createObjectBrowserUpload the ETag response header derives from (*hashingReader).Sum on the same reader value that is passed as input to storage.PutObject; that reader wraps r.Body (or the chunk decoder over it) / the uploaded form file; the header is set only after a checked PutObject")
	sumFn := mustFunc(r, "gofakes3.(*hashingReader).Sum")
	newFn := mustFunc(r, "gofakes3.newHashingReader")
	if sumFn == nil || newFn == nil {
		return
	}
	for _, hn := range []string{"gofakes3.(*GoFakeS3).createObject", "gofakes3.(*GoFakeS3).createObjectBrowserUpload"} {
		fn := mustFunc(r, hn)
		if fn == nil {
			continue
		}
		var put *ssa.Call
		var etagSet *ssa.Call
		core.Instrs(fn, func(in ssa.Instruction) {
			c, ok := in.(*ssa.Call)
			if !ok {
				return
			}
			switch r.P.CalleeName(c) {
			case "invoke:gofakes3.Backend.PutObject":
				put = c
			case "(net/http.Header).Set":
				if n, ok := core.ConstString(c.Call.Args[1]); ok && n == "ETag" {
					etagSet = c
				}
			}
		})
		if put == nil || etagSet == nil {
			r.Violated("R01.1", key(hn, "anchors"), r.P.Pos(fn.Pos()), "handler no longer calls storage.PutObject and sets the ETag header")
			continue
		}
		// the reader given to PutObject
		in3 := put.Call.Args[3]
		if mi, ok := in3.(*ssa.MakeInterface); ok {
			in3 = mi.X
		}
		s := r.P.SliceOf(etagSet.Call.Args[2], core.SliceOpts{Depth: 2})
		sameReader := false
		for c := range s.Calls {
			if core.StaticCallee(c) != sumFn {
				continue
			}
			recv := c.Common().Args[0]
			if recv == in3 {
				sameReader = true
			}
			// Sum() inside a formatting helper: the helper's parameter must be bound to that reader here
			if p, isParam := recv.(*ssa.Parameter); isParam && p.Parent() != fn {
				for _, site := range r.P.StaticCallers(p.Parent()) {
					if site.Parent() != fn {
						continue
					}
					for i, q := range p.Parent().Params {
						if q == p && i < len(site.Common().Args) && site.Common().Args[i] == in3 {
							sameReader = true
						}
					}
				}
			}
		}
		r.Check(sameReader && s.Has("call:encoding/hex.EncodeToString"), "R01.1", key(hn, "ETag = hex(Sum of the reader given to PutObject)"), pos(r, etagSet),
			"ETag header is the digest of exactly the stream that was stored", "the ETag header is not the Sum() of the hashing reader that was passed to storage.PutObject (a different reader, or no hash at all)")
		r.Check(core.CheckedBefore(put, etagSet), "R01.1", key(hn, "ETag only after successful PutObject"), pos(r, etagSet), "set after checked PutObject", "the ETag header is written although PutObject may have failed / before it ran")
		// the reader wraps the body
		src := r.P.SliceOf(in3, core.SliceOpts{Depth: -1})
		var wraps bool
		for c := range src.Calls {
			if core.StaticCallee(c) == newFn {
				inner := r.P.SliceOf(c.Common().Args[0], core.SliceOpts{Depth: -1})
				if inner.Has("field:net/http.Request.Body") || inner.Has("call:(*mime/multipart.FileHeader).Open") {
					wraps = true
				}
			}
		}
		r.Check(wraps, "R01.1", key(hn, "reader wraps the request body"), pos(r, put), "newHashingReader over r.Body / the form file", "the reader passed to PutObject is not a hashing reader over the request body")
		// bucket/key args are the handler's
		bp := paramNamed(fn, "bucket")
		r.Check(bp != nil && put.Call.Args[0] == ssa.Value(bp), "R01.1", key(hn, "PutObject(bucket)"), pos(r, put), "stored in the addressed bucket", "PutObject does not receive the handler's bucket")
		if op := paramNamed(fn, "object"); op != nil {
			r.Check(put.Call.Args[1] == ssa.Value(op), "R01.1", key(hn, "PutObject(object)"), pos(r, put), "stored under the addressed key", "PutObject does not receive the handler's object key unchanged")
		}
		// meta argument is the result of metadataHeaders
		ms := r.P.SliceOf(put.Call.Args[2], core.SliceOpts{Depth: -1})
		r.Check(ms.Has("call:gofakes3.metadataHeaders"), "R01.1", key(hn, "PutObject(meta)"), pos(r, put), "metadata from metadataHeaders", "PutObject's metadata is not the result of metadataHeaders(request headers)")
	}
}

func rule012(r *core.Run) {
	r.Rule("R01.2", "each PutObject consumes input exactly once and stores hash and body of that same consumption: memory/bolt — x := ReadAll(input,size); body←x; hash←md5.Sum(x); fs — one io.Copy(dst,input), dst = MultiWriter over exactly {object file opened truncating at the object path, hasher}, Metadata.Hash←hasher.Sum, Size/ModTime←Stat of the same path")
	readAll := mustFunc(r, "gofakes3.ReadAll")
	// memory + bolt
	type kv struct{ impl, bodyField, hashField string }
	for _, b := range []kv{{"s3mem.(*Backend)", "s3mem.bucketData.body", "s3mem.bucketData.hash"}, {"s3bolt.(*Backend)", "s3bolt.boltObject.Contents", "s3bolt.boltObject.Hash"}} {
		fn := implMethod(r, b.impl, "PutObject")
		if fn == nil {
			continue
		}
		name := fname(r, fn)
		var ra *ssa.Call
		core.Instrs(fn, func(in ssa.Instruction) {
			if c, ok := in.(*ssa.Call); ok && core.StaticCallee(c) == readAll {
				ra = c
			}
		})
		inp, szp := paramNamed(fn, "input"), paramNamed(fn, "size")
		if ra == nil {
			r.Violated("R01.2", key(name, "ReadAll"), r.P.Pos(fn.Pos()), "PutObject no longer reads the body with gofakes3.ReadAll(input, size)")
			continue
		}
		r.Check(ra.Call.Args[0] == ssa.Value(inp) && ra.Call.Args[1] == ssa.Value(szp), "R01.2", key(name, "ReadAll(input,size)"), pos(r, ra), "reads the input with the declared size", "ReadAll is not called with exactly (input, size)")
		var x ssa.Value
		for _, ref := range *ra.Referrers() {
			if e, ok := ref.(*ssa.Extract); ok && e.Index == 0 {
				x = e
			}
		}
		// body store
		var bodyStores, hashStores []*ssa.Store
		for _, f := range core.Closures(fn) {
			for _, st := range r.P.FieldStores(b.bodyField) {
				if st.Parent() == f {
					bodyStores = append(bodyStores, st)
				}
			}
			for _, st := range r.P.FieldStores(b.hashField) {
				if st.Parent() == f {
					hashStores = append(hashStores, st)
				}
			}
		}
		if len(bodyStores) != 1 || len(hashStores) != 1 {
			r.Violated("R01.2", key(name, "literal"), r.P.Pos(fn.Pos()), sprintf("expected exactly one store of %s and of %s in PutObject, found %d and %d", b.bodyField, b.hashField, len(bodyStores), len(hashStores)))
			continue
		}
		isX := func(v ssa.Value) bool {
			// x itself, or a load of the captured variable holding x
			if v == x {
				return true
			}
			s := r.P.SliceOf(v, core.SliceOpts{Depth: -1})
			for l := range s.Leaves {
				if strings.HasPrefix(l, "op:") || strings.HasPrefix(l, "slice-expr") || strings.HasPrefix(l, "call:builtin:append") || strings.HasPrefix(l, "make:") {
					return false
				}
			}
			return s.HasValue(x) && len(s.CallsTo("gofakes3.ReadAll")) == 1 && !s.HasPrefix("call:bytes.")
		}
		r.Check(isX(bodyStores[0].Val), "R01.2", key(name, "body = ReadAll result"), pos(r, bodyStores[0]), "stored body is exactly the bytes read", "the stored body is not exactly the ReadAll result (sliced, appended or from another source)")
		hs := r.P.SliceOf(hashStores[0].Val, core.SliceOpts{Depth: -1})
		okHash := false
		for c := range hs.Calls {
			if r.P.CalleeName(c) == "crypto/md5.Sum" && isX(c.Common().Args[0]) {
				okHash = true
			}
		}
		r.Check(okHash, "R01.2", key(name, "hash = md5.Sum(same bytes)"), pos(r, hashStores[0]), "stored hash is md5.Sum of the stored body value", "the stored hash is not md5.Sum over exactly the value stored as the body")
		// hash slice must be the full array: hash[:] only
		fullSlice := true
		for v := range hs.Values {
			if sl, ok := v.(*ssa.Slice); ok && (sl.Low != nil || sl.High != nil) {
				fullSlice = false
			}
		}
		r.Check(fullSlice, "R01.2", key(name, "hash not truncated"), pos(r, hashStores[0]), "whole digest stored", "only part of the MD5 digest is stored")
	}
	// fs backends
	for _, impl := range []string{"s3afero.(*MultiBucketBackend)", "s3afero.(*SingleBucketBackend)"} {
		fn := implMethod(r, impl, "PutObject")
		if fn == nil {
			continue
		}
		name := fname(r, fn)
		inp := paramNamed(fn, "input")
		var copies []*ssa.Call
		core.Instrs(fn, func(in ssa.Instruction) {
			if c, ok := in.(*ssa.Call); ok && (r.P.CalleeName(c) == "io.Copy" || r.P.CalleeName(c) == "io.CopyN" || r.P.CalleeName(c) == "io.CopyBuffer") {
				copies = append(copies, c)
			}
		})
		if len(copies) != 1 {
			r.Violated("R01.2", key(name, "single io.Copy"), r.P.Pos(fn.Pos()), sprintf("expected exactly one io.Copy consuming the input, found %d", len(copies)))
			continue
		}
		cp := copies[0]
		r.Check(cp.Call.Args[1] == ssa.Value(inp), "R01.2", key(name, "io.Copy(_, input)"), pos(r, cp), "copies from the input parameter", "io.Copy's source is not the input parameter itself")
		// dst = MultiWriter(f, hasher)
		var mw *ssa.Call
		if c, ok := cp.Call.Args[0].(*ssa.Call); ok && r.P.CalleeName(c) == "io.MultiWriter" {
			mw = c
		}
		if mw == nil {
			r.Violated("R01.2", key(name, "dst = io.MultiWriter(file, hasher)"), pos(r, cp), "the copy destination is not io.MultiWriter(file, hasher): bytes and digest are no longer produced by one pass")
			continue
		}
		var file, hasher *ssa.Call
		nW := 0
		if sl, ok := mw.Call.Args[0].(*ssa.Slice); ok {
			if arr, ok := sl.X.(*ssa.Alloc); ok {
				for _, ref := range *arr.Referrers() {
					ia, ok := ref.(*ssa.IndexAddr)
					if !ok {
						continue
					}
					for _, u := range *ia.Referrers() {
						st, ok := u.(*ssa.Store)
						if !ok {
							continue
						}
						nW++
						v := st.Val
						for {
							if mi, ok := v.(*ssa.MakeInterface); ok {
								v = mi.X
							} else if ci, ok := v.(*ssa.ChangeInterface); ok {
								v = ci.X
							} else if rl := oblig.ResolveLocal(v); rl != v {
								v = rl
							} else {
								break
							}
						}
						if ex, ok := v.(*ssa.Extract); ok {
							v = ex.Tuple
						}
						if c, ok := v.(*ssa.Call); ok {
							switch n := r.P.CalleeName(c); {
							case n == "crypto/md5.New":
								hasher = c
							case strings.HasPrefix(n, "invoke:github.com/spf13/afero.Fs."):
								file = c
							}
						}
					}
				}
			}
		}
		r.Check(nW == 2 && file != nil && hasher != nil, "R01.2", key(name, "MultiWriter over exactly {file, md5}"), pos(r, mw), "two writers: the object file and the MD5 hasher", "io.MultiWriter does not combine exactly the created object file and one md5 hasher")
		if file == nil || hasher == nil {
			continue
		}
		// truncating open at the object path
		m := file.Common().Method.Name()
		trunc := m == "Create"
		if m == "OpenFile" {
			if fl, ok := core.ConstInt(file.Common().Args[1]); ok {
				const oTRUNC, oCREATE, oAPPEND, oWR = 0x200, 0x40, 0x400, 0x3
				trunc = fl&oTRUNC != 0 && fl&oCREATE != 0 && fl&oAPPEND == 0 && fl&oWR != 0
			}
		}
		r.Check(trunc, "R01.2", key(name, "object file opened truncating"), pos(r, file), "Create / OpenFile with O_TRUNC|O_CREATE", "the object file is opened without truncation (or appending): overwriting with a shorter body leaves the old tail")
		objPath := file.Common().Args[0]
		ps := r.P.SliceOf(objPath, core.SliceOpts{Depth: -1})
		op := paramNamed(fn, "objectName")
		r.Check(op != nil && ps.HasValue(op), "R01.2", key(name, "file path from objectName"), pos(r, file), "path derives from the key", "the created file's path does not derive from the object key")
		// Metadata literal
		for _, f := range []string{"Hash", "Size", "ModTime", "Meta"} {
			var st *ssa.Store
			for _, s2 := range r.P.FieldStores("s3afero.Metadata." + f) {
				if s2.Parent() == fn {
					st = s2
				}
			}
			if st == nil {
				r.Violated("R01.2", key(name, "Metadata."+f), r.P.Pos(fn.Pos()), "PutObject no longer sets Metadata."+f)
				continue
			}
			vs := r.P.SliceOf(st.Val, core.SliceOpts{Depth: -1})
			switch f {
			case "Hash":
				okH := false
				for c := range vs.Calls {
					if r.P.CalleeName(c) == "invoke:hash.Hash.Sum" {
						rv := oblig.ResolveLocal(c.Common().Value)
						if rv == ssa.Value(hasher) {
							okH = true
						}
					}
				}
				r.Check(okH, "R01.2", key(name, "Metadata.Hash = hasher.Sum"), pos(r, st), "digest of the copied stream", "Metadata.Hash is not the Sum of the hasher fed by the copy")
			case "Size", "ModTime":
				okS := false
				for c := range vs.Calls {
					if strings.HasSuffix(r.P.CalleeName(c), ".Stat") && strings.HasPrefix(r.P.CalleeName(c), "invoke:github.com/spf13/afero.Fs") && sameValue(r, c.Common().Args[0], objPath, 0) {
						okS = true
					}
				}
				r.Check(okS && !vs.HasPrefix("op:"), "R01.2", key(name, "Metadata."+f+" from Stat(object path)"), pos(r, st), "from Stat of the written file", "Metadata."+f+" does not come from Stat of the file just written")
			case "Meta":
				mp := paramNamed(fn, "meta")
				r.Check(st.Val == ssa.Value(mp), "R01.2", key(name, "Metadata.Meta = meta"), pos(r, st), "the request metadata", "Metadata.Meta is not the meta parameter")
			}
		}
		// saveMeta(metaPath(bucketName, objectName), storedMeta) checked
		saved := false
		core.Instrs(fn, func(in ssa.Instruction) {
			if c, ok := in.(*ssa.Call); ok && r.P.CalleeName(c) == "s3afero.(*metaStore).saveMeta" {
				ms := r.P.SliceOf(c.Call.Args[1], core.SliceOpts{Depth: -1})
				bp := paramNamed(fn, "bucketName")
				if ms.Has("call:s3afero.(*metaStore).metaPath") && ms.HasValue(op) && ms.HasValue(bp) && successOnlyAfter(r, fn, []*ssa.Call{c}) {
					saved = true
				}
			}
		})
		r.Check(saved, "R01.2", key(name, "metadata saved under (bucket,key)"), r.P.Pos(fn.Pos()), "saveMeta(metaPath(bucketName, objectName)) checked before success", "metadata is not saved under metaPath(bucketName, objectName) with its error checked before success is returned")
	}
	r.Floor("R01.2", 24, "PutObject provenance obligations")
	// ReadAll itself: result buffer is filled from r only
	if readAll != nil {
		s := errorSliceOf(r, readAll, 1)
		r.Check(has(errCodes(s), "IncompleteBody"), "R01.2", key(fname(r, readAll), "IncompleteBody"), r.P.Pos(readAll.Pos()), "short/long bodies are refused", "ReadAll no longer returns ErrIncompleteBody")
	}
}

func rule013(r *core.Run) {
	r.Rule("R01.3", "HEAD's Content-Length is obj.Size; every backend's Object.Size is the length of the stored bytes (len(body) / stored Size / Stat().Size of the opened object) and Object.Hash/Metadata come from the same stored record")
	if fn := mustFunc(r, "gofakes3.(*GoFakeS3).headObject"); fn != nil {
		ok := false
		var at ssa.Instruction
		core.Instrs(fn, func(in ssa.Instruction) {
			if c, okc := in.(*ssa.Call); okc && r.P.CalleeName(c) == "(net/http.Header).Set" {
				if n, _ := core.ConstString(c.Call.Args[1]); n == "Content-Length" {
					at = c
					s := r.P.SliceOf(c.Call.Args[2], core.SliceOpts{Depth: -1})
					ok = s.Has("field:gofakes3.Object.Size") && !s.HasPrefix("op:")
				}
			}
		})
		p0 := r.P.Pos(fn.Pos())
		if at != nil {
			p0 = pos(r, at)
		}
		r.Check(ok, "R01.3", key(fname(r, fn), "Content-Length = obj.Size"), p0, "HEAD reports obj.Size", "HEAD's Content-Length is not obj.Size")
	}
	type src struct{ fn, size, hash, meta string }
	for _, b := range []src{
		{"s3mem.(*bucketData).toObject", "call:builtin:len+field:s3mem.bucketData.body", "field:s3mem.bucketData.hash", "field:s3mem.bucketData.metadata"},
		{"s3bolt.(*boltObject).Object", "field:s3bolt.boltObject.Size", "field:s3bolt.boltObject.Hash", "field:s3bolt.boltObject.Metadata"},
		{"s3afero.(*MultiBucketBackend).GetObject", "STATSIZE", "field:s3afero.Metadata.Hash", "field:s3afero.Metadata.Meta"},
		{"s3afero.(*MultiBucketBackend).HeadObject", "STATSIZE", "field:s3afero.Metadata.Hash", "field:s3afero.Metadata.Meta"},
		{"s3afero.(*SingleBucketBackend).GetObject", "STATSIZE", "field:s3afero.Metadata.Hash", "field:s3afero.Metadata.Meta"},
		{"s3afero.(*SingleBucketBackend).HeadObject", "STATSIZE", "field:s3afero.Metadata.Hash", "field:s3afero.Metadata.Meta"},
	} {
		fn := mustFunc(r, b.fn)
		if fn == nil {
			continue
		}
		get := func(field string) ssa.Value {
			for _, st := range r.P.FieldStores("gofakes3.Object." + field) {
				if st.Parent() == fn {
					return st.Val
				}
			}
			return nil
		}
		chk := func(field, want string) {
			v := get(field)
			if v == nil {
				r.Violated("R01.3", key(b.fn, "Object."+field), r.P.Pos(fn.Pos()), "Object."+field+" is not set")
				return
			}
			s := r.P.SliceOf(v, core.SliceOpts{Depth: -1})
			ok := true
			for _, w := range strings.Split(want, "+") {
				if w == "STATSIZE" {
					if !s.Has("call:invoke:io/fs.FileInfo.Size") && !s.Has("call:invoke:os.FileInfo.Size") {
						ok = false
					}
					continue
				}
				if !s.Has(w) {
					ok = false
				}
			}
			if field == "Size" && s.HasPrefix("op:") {
				ok = false
			}
			r.Check(ok, "R01.3", key(b.fn, "Object."+field), vpos(r, v), "from "+want, "Object."+field+" does not derive from "+want)
		}
		chk("Size", b.size)
		chk("Hash", b.hash)
		chk("Metadata", b.meta)
		// Name is the requested key
		if v := get("Name"); v != nil {
			s := r.P.SliceOf(v, core.SliceOpts{Depth: -1})
			r.Check(s.HasPrefix("param:") || s.Has("field:s3mem.bucketData.name"), "R01.3", key(b.fn, "Object.Name"), vpos(r, v), "the requested key", "Object.Name is not the requested key")
		}
	}
	// fs: the meta record is loaded for the same (bucket,key,size,mtime) as the opened file
	for _, n := range []string{"s3afero.(*MultiBucketBackend).GetObject", "s3afero.(*MultiBucketBackend).HeadObject", "s3afero.(*SingleBucketBackend).GetObject", "s3afero.(*SingleBucketBackend).HeadObject"} {
		fn := mustFunc(r, n)
		if fn == nil {
			continue
		}
		ok := false
		core.Instrs(fn, func(in ssa.Instruction) {
			c, okc := in.(*ssa.Call)
			if !okc {
				return
			}
			cn := r.P.CalleeName(c)
			if cn != "s3afero.(*metaStore).loadMeta" && cn != "s3afero.(*SingleBucketBackend).ensureMeta" {
				return
			}
			a := c.Call.Args
			bp, op := paramNamed(fn, "bucketName"), paramNamed(fn, "objectName")
			ss := r.P.SliceOf(a[3], core.SliceOpts{Depth: -1})
			if a[1] == ssa.Value(bp) && a[2] == ssa.Value(op) && (ss.Has("call:invoke:io/fs.FileInfo.Size") || ss.Has("call:invoke:os.FileInfo.Size")) {
				ok = true
			}
		})
		r.Check(ok, "R01.3", key(n, "metadata record of the same key"), r.P.Pos(fn.Pos()), "loadMeta(bucketName, objectName, stat size, mtime)", "the metadata record is not loaded for the requested (bucket, key) with the opened file's size")
	}
	r.Floor("R01.3", 20, "size/hash/metadata wiring")
}

func canonicalHeader(s string) string {
	// net/textproto.CanonicalMIMEHeaderKey evaluated on a constant
	b := []byte(s)
	upper := true
	for i, c := range b {
		if upper && 'a' <= c && c <= 'z' {
			c -= 'a' - 'A'
		} else if !upper && 'A' <= c && c <= 'Z' {
			c += 'a' - 'A'
		}
		b[i] = c
		upper = c == '-'
	}
	return string(b)
}

func rule014(r *core.Run) {
	r.Rule("R01.4", "every string constant compared with / used as prefix test against / used to index a header-style map is in canonical MIME form; metadataHeaders persists Content-Type, Content-Encoding, Content-Disposition and a prefix covering X-Amz-Meta-")
	fn := mustFunc(r, "gofakes3.metadataHeaders")
	if fn == nil {
		return
	}
	// constants tested against the range key of the headers parameter
	var eq, pre []string
	core.Instrs(fn, func(in ssa.Instruction) {
		switch x := in.(type) {
		case *ssa.BinOp:
			if x.Op == token.EQL {
				for _, o := range []ssa.Value{x.X, x.Y} {
					if c, ok := core.ConstString(o); ok && c != "" {
						eq = append(eq, c)
					}
				}
			}
		case *ssa.Call:
			if r.P.CalleeName(x) == "strings.HasPrefix" {
				if c, ok := core.ConstString(x.Call.Args[1]); ok {
					pre = append(pre, c)
				}
			}
		}
	})
	for _, want := range []string{"Content-Type", "Content-Encoding", "Content-Disposition"} {
		r.Check(has(eq, want), "R01.4", key(fname(r, fn), "persists "+want), r.P.Pos(fn.Pos()), want+" kept", "metadataHeaders does not keep the "+want+" header: it will not come back on GET/HEAD")
	}
	covers := false
	for _, p := range pre {
		if strings.HasPrefix("X-Amz-Meta-", p) && p != "" {
			covers = true
		}
	}
	r.Check(covers, "R01.4", key(fname(r, fn), "persists X-Amz-Meta-*"), r.P.Pos(fn.Pos()), "prefix test covers X-Amz-Meta-", "no prefix test in metadataHeaders covers X-Amz-Meta-*: user metadata is dropped")
	for _, c := range append(append([]string{}, eq...), pre...) {
		r.Check(canonicalHeader(c) == c, "R01.4", key(fname(r, fn), "canonical", c), r.P.Pos(fn.Pos()), "canonical form", "header constant "+c+" is not in canonical MIME form ("+canonicalHeader(c)+"): net/http delivers canonical keys, the comparison never matches")
	}
	// the value kept is the header's first value and the key is the range key
	okKV := false
	core.Instrs(fn, func(in ssa.Instruction) {
		if mu, ok := in.(*ssa.MapUpdate); ok {
			if _, isConst := mu.Key.(*ssa.Const); isConst {
				return
			}
			ks := r.P.SliceOf(mu.Key, core.SliceOpts{Depth: -1})
			vs := r.P.SliceOf(mu.Value, core.SliceOpts{Depth: -1})
			if ks.HasValue(fn.Params[0]) && vs.HasValue(fn.Params[0]) && !ks.HasPrefix("call:strings.") {
				okKV = true
			}
		}
	})
	r.Check(okKV, "R01.4", key(fname(r, fn), "meta[hk] = hv[0]"), r.P.Pos(fn.Pos()), "key unchanged, first value kept", "metadataHeaders does not store the header under its own (unmodified) name with its first value")
	// constant keys used to index header-like maps anywhere in the root package and backends
	n := 0
	for _, f := range r.P.RepoFuncs() {
		g := f
		core.Instrs(f, func(in ssa.Instruction) {
			var m, k ssa.Value
			switch x := in.(type) {
			case *ssa.Lookup:
				m, k = x.X, x.Index
			case *ssa.MapUpdate:
				m, k = x.Map, x.Key
			default:
				return
			}
			c, ok := core.ConstString(k)
			if !ok {
				return
			}
			ts := r.P.TypeShort(m.Type())
			if ts != "map[string]string" && ts != "map[string][]string" && ts != "net/http.Header" {
				return
			}
			// only maps that carry headers: provenance mentions headers/metadata
			s := r.P.SliceOf(m, core.SliceOpts{Depth: 1})
			if !(s.Has("call:gofakes3.metadataHeaders") || s.Has("via:gofakes3.metadataHeaders") || s.Has("field:gofakes3.Object.Metadata") || s.Has("field:net/http.Request.Header") || s.HasPrefix("param:gofakes3.metadataHeaders") || s.Has("param:gofakes3.(*GoFakeS3).copyObject.meta")) {
				return
			}
			n++
			r.Check(canonicalHeader(c) == c, "R01.4", key(fname(r, g), "header key", c), pos(r, in), "canonical", "header-map key "+c+" is not canonical ("+canonicalHeader(c)+"): the entry stored under the canonical name is never found")
		})
	}
	if n < 6 {
		r.Unresolved("R01.4: only %d constant header-map keys found (expected >= 6)", n)
	}
}

func rule015(r *core.Run) {
	r.Rule("R01.5", "writeGetOrHeadObjectResponse sets every (key,value) of obj.Metadata as a response header and ETag = quoted hex(obj.Hash) on every non-delete-marker path; getObject and headObject both call it (checked) before writing length/body")
	fn := mustFunc(r, "gofakes3.(*GoFakeS3).writeGetOrHeadObjectResponse")
	if fn == nil {
		return
	}
	name := fname(r, fn)
	var metaSet, etagSet *ssa.Call
	core.Instrs(fn, func(in ssa.Instruction) {
		c, ok := in.(*ssa.Call)
		if !ok || r.P.CalleeName(c) != "(net/http.Header).Set" {
			return
		}
		if n, ok := core.ConstString(c.Call.Args[1]); ok {
			if n == "ETag" {
				etagSet = c
			}
			return
		}
		ks := r.P.SliceOf(c.Call.Args[1], core.SliceOpts{Depth: -1})
		vs := r.P.SliceOf(c.Call.Args[2], core.SliceOpts{Depth: -1})
		if ks.Has("field:gofakes3.Object.Metadata") && vs.Has("field:gofakes3.Object.Metadata") {
			// key and value are the range key/value themselves
			_, k1 := c.Call.Args[1].(*ssa.Extract)
			_, v1 := c.Call.Args[2].(*ssa.Extract)
			if k1 && v1 {
				metaSet = c
			}
		}
	})
	if metaSet == nil {
		r.Violated("R01.5", key(name, "replays metadata"), r.P.Pos(fn.Pos()), "the response no longer sets Header(k, v) for every (k, v) of obj.Metadata")
	} else {
		// every iteration reaches the Set: from the loop body entry no path
		// returns to the loop head (or leaves the function) without passing it
		skip := ""
		for _, g := range core.GuardsOf(metaSet) {
			if _, isNext := findNext(g.If.Cond); !isNext || !g.Branch {
				continue
			}
			body := g.If.Block().Succs[0]
			if len(body.Instrs) == 0 {
				continue
			}
			head := g.If.Block()
			first := body.Instrs[0]
			if first == ssa.Instruction(metaSet) {
				continue
			}
			if core.ReachesAvoiding(first, head.Instrs[len(head.Instrs)-1], func(in ssa.Instruction) bool { return in == ssa.Instruction(metaSet) }) {
				skip = "an iteration can return to the loop head without setting the header"
			}
			for _, ret := range core.Returns(fn) {
				if core.ReachesAvoiding(first, ret, func(in ssa.Instruction) bool {
					return in == ssa.Instruction(metaSet) || in == head.Instrs[len(head.Instrs)-1]
				}) {
					skip = "the loop can be left from inside its body before the header is set"
				}
			}
		}
		extra := ""
		for _, g := range core.GuardsOf(metaSet) {
			s := r.P.SliceOf(g.If.Cond, core.SliceOpts{Depth: -1, Control: true})
			if s.Has("field:gofakes3.Object.IsDeleteMarker") {
				continue
			}
			if _, isNext := findNext(g.If.Cond); isNext {
				continue
			}
			extra = "an extra test at " + pos(r, g.If)
		}
		if extra == "" {
			extra = skip
		}
		r.Check(extra == "", "R01.5", key(name, "replays metadata"), pos(r, metaSet), "every stored header replayed", "replaying a stored metadata header is conditional ("+extra+"): some headers do not come back")
	}
	if etagSet == nil {
		r.Violated("R01.5", key(name, "ETag"), r.P.Pos(fn.Pos()), "the response no longer sets the ETag header")
	} else {
		s := r.P.SliceOf(etagSet.Call.Args[2], core.SliceOpts{Depth: -1})
		r.Check(s.Has("field:gofakes3.Object.Hash") && s.Has("call:encoding/hex.EncodeToString") && s.Has(`const:"`), "R01.5", key(name, "ETag = quoted hex(obj.Hash)"), pos(r, etagSet),
			"quoted hex of obj.Hash", "the ETag header is not the quoted hex of obj.Hash")
		okg := true
		for _, g := range core.GuardsOf(etagSet) {
			s := r.P.SliceOf(g.If.Cond, core.SliceOpts{Depth: -1, Control: true})
			if _, isNext := findNext(g.If.Cond); isNext {
				continue
			}
			if !s.Has("field:gofakes3.Object.IsDeleteMarker") {
				okg = false
			}
		}
		r.Check(okg, "R01.5", key(name, "ETag unconditional"), pos(r, etagSet), "set on every non-delete-marker path", "the ETag header is set only conditionally")
	}
	for _, hn := range []string{"gofakes3.(*GoFakeS3).getObject", "gofakes3.(*GoFakeS3).headObject"} {
		h := mustFunc(r, hn)
		if h == nil {
			continue
		}
		var call *ssa.Call
		var after []ssa.Instruction
		core.Instrs(h, func(in ssa.Instruction) {
			c, ok := in.(*ssa.Call)
			if !ok {
				return
			}
			switch n := r.P.CalleeName(c); {
			case core.StaticCallee(c) == fn:
				call = c
			case n == "io.Copy" || n == "gofakes3.(*ObjectRange).writeHeader":
				after = append(after, c)
			case n == "(net/http.Header).Set":
				if k, _ := core.ConstString(c.Call.Args[1]); k == "Content-Length" {
					after = append(after, c)
				}
			}
		})
		if call == nil {
			r.Violated("R01.5", key(hn, "shared response path"), r.P.Pos(h.Pos()), "handler no longer builds its entity headers through writeGetOrHeadObjectResponse")
			continue
		}
		ok := len(after) > 0
		for _, a := range after {
			if !core.CheckedBefore(call, a) {
				ok = false
			}
		}
		// the obj passed is the backend's result
		s := r.P.SliceOf(call.Call.Args[1], core.SliceOpts{Depth: -1})
		fromBackend := s.HasPrefix("call:invoke:gofakes3.Backend.") || s.HasPrefix("call:invoke:gofakes3.VersionedBackend.")
		r.Check(ok && fromBackend, "R01.5", key(hn, "shared response path"), pos(r, call), "entity headers from the backend's object, before length/body", "length/body are written without the (checked) shared entity-header function on the backend's object")
	}
}

func findNext(v ssa.Value) (*ssa.Next, bool) {
	if e, ok := v.(*ssa.Extract); ok {
		if n, ok := e.Tuple.(*ssa.Next); ok {
			return n, true
		}
	}
	return nil, false
}

// ---------------------------------------------------------------- R01.7

// storageErrPrefixes: callees whose error result must not be dropped in code reachable from Backend methods.
func isStorageCall(name string) bool {
	for _, p := range []string{"io.", "io/ioutil.", "github.com/spf13/afero.", "invoke:github.com/spf13/afero.", "(*go.etcd.io/bbolt.", "gopkg.in/mgo.v2/bson.", "encoding/json.", "os.", "invoke:io.", "(*os.File)"} {
		if strings.HasPrefix(name, p) {
			return true
		}
	}
	return false
}

func rule017(r *core.Run) {
	r.Rule("R01.7", "in code reachable from Backend methods no error result of io.*, afero.*, afero.Fs/File methods, bolt.*, bson/json (Un)Marshal is discarded; accepted idioms: Close of a read-only handle or inside a deferred cleanup, hash.Hash.Write, the deferred Remove of the mod-time probe file, Close after the error path already returns an error")
	var roots []*ssa.Function
	for _, impl := range backendImpls {
		for _, fn := range r.P.RepoFuncs() {
			if strings.HasPrefix(fname(r, fn), impl+".") && fn.Parent() == nil {
				roots = append(roots, fn)
			}
		}
	}
	for _, n := range []string{"gofakes3.CopyObject", "gofakes3.MergeMetadata", "gofakes3.ReadAll"} {
		if f := optFunc(r, n); f != nil {
			roots = append(roots, f)
		}
	}
	reach := reachableFrom(r, roots)
	n := 0
	var fns []*ssa.Function
	for f := range reach {
		fns = append(fns, f)
	}
	sortFuncs(r, fns)
	for _, f := range fns {
		g := f
		core.Instrs(f, func(in ssa.Instruction) {
			c, ok := in.(ssa.CallInstruction)
			if !ok {
				return
			}
			name := r.P.CalleeName(c)
			if !isStorageCall(name) {
				return
			}
			sig := c.Common().Signature()
			hasErr := false
			for i := 0; i < sig.Results().Len(); i++ {
				if core.IsErrorType(sig.Results().At(i).Type()) {
					hasErr = true
				}
			}
			if !hasErr {
				return
			}
			n++
			used := false
			if call, ok := c.(*ssa.Call); ok {
				if ev := core.ErrorResult(call); ev != nil {
					if refs := ev.Referrers(); refs != nil && len(*refs) > 0 {
						used = true
					}
				}
			}
			k := key(fname(r, g), "error of "+name, sprintf("#%d", n))
			if used {
				r.Held("R01.7", k, pos(r, in), "error used")
				return
			}
			// accepted idioms
			_, isDefer := in.(*ssa.Defer)
			why := ""
			switch {
			case strings.HasSuffix(name, ".Close") && isDefer:
				why = "deferred Close"
			case strings.HasSuffix(name, ".Close") && g.Parent() != nil:
				why = "Close inside a deferred cleanup closure"
			case strings.HasSuffix(name, ".Close") && c.Common().IsInvoke() && openedReadOnly(r, c.Common().Value, 0):
				why = "Close of a handle opened read-only (Fs.Open): nothing is flushed"
			case strings.HasSuffix(name, ".Close") && closeOnErrorPath(r, in):
				why = "Close on a path that already returns an error"
			case strings.HasSuffix(name, "Fs.Remove") && isDefer && fname(r, g) == "s3afero.modTimeResolution":
				why = "deferred removal of the mod-time probe file"
			}
			if why != "" {
				r.Held("R01.7", k, pos(r, in), "accepted idiom: "+why)
				return
			}
			r.Violated("R01.7", k, pos(r, in), "the error returned by "+name+" is discarded: a failed read/write/persist is reported as success")
		})
	}
	r.Floor("R01.7", 60, "storage calls with an error result")
}

// openedReadOnly: the handle is the result of Fs.Open (on every incoming edge).
func openedReadOnly(r *core.Run, v ssa.Value, d int) bool {
	if d > 4 {
		return false
	}
	switch x := v.(type) {
	case *ssa.Extract:
		if c, ok := x.Tuple.(ssa.CallInstruction); ok && x.Index == 0 {
			return strings.HasSuffix(r.P.CalleeName(c), "afero.Fs.Open")
		}
	case *ssa.Phi:
		for _, e := range x.Edges {
			if !openedReadOnly(r, e, d+1) {
				return false
			}
		}
		return len(x.Edges) > 0
	case *ssa.UnOp:
		if lv := core.BlockLocalLoad(x); lv != ssa.Value(x) {
			return openedReadOnly(r, lv, d+1)
		}
	case *ssa.MakeInterface:
		return openedReadOnly(r, x.X, d+1)
	case *ssa.ChangeInterface:
		return openedReadOnly(r, x.X, d+1)
	}
	return false
}

func closeOnErrorPath(r *core.Run, in ssa.Instruction) bool {
	// every return reachable from here returns a non-nil error
	fn := in.Parent()
	any := false
	for ret, ev := range returnedErrors(fn) {
		if core.Reaches(in, ret) {
			any = true
			if definitelyNil(r, ev) {
				return false
			}
		}
	}
	return any
}

func sortFuncs(r *core.Run, fns []*ssa.Function) {
	sort.Slice(fns, func(i, j int) bool { return fname(r, fns[i]) < fname(r, fns[j]) })
}

// rule019 — request metadata is never overridden on its way to storage.
func rule019(r *core.Run) {
	r.Rule("R01.9", "every write into a map[string]string metadata map outside metadataHeaders either copies an entry of the request's own meta parameter into a fresh map, or is guarded by a not-found lookup of the same key in the same map (merging inherited metadata never overrides, and nothing deletes, what the request sent)")
	n := 0
	for _, pk := range []string{"gofakes3", "s3mem", "s3bolt", "s3afero"} {
		for _, fn := range r.P.FuncsOfPkg(pk) {
			name := fname(r, fn)
			if name == "gofakes3.metadataHeaders" {
				continue
			}
			f := fn
			core.Instrs(fn, func(in ssa.Instruction) {
				var m, k ssa.Value
				isDelete := false
				switch x := in.(type) {
				case *ssa.MapUpdate:
					m, k = x.Map, x.Key
				case ssa.CallInstruction:
					if b, ok := x.Common().Value.(*ssa.Builtin); ok && b.Name() == "delete" {
						m, k = x.Common().Args[0], x.Common().Args[1]
						isDelete = true
					}
				}
				if m == nil || r.P.TypeShort(m.Type()) != "map[string]string" {
					return
				}
				n++
				key0 := key(name, "metadata map write", sprintf("#%d", n))
				if isDelete {
					r.Violated("R01.9", key0, pos(r, in), "an entry is deleted from a metadata map on its way to storage: a header sent with the PUT is not returned")
					return
				}
				mu := in.(*ssa.MapUpdate)
				// (c) guarded by a not-found lookup of the same key in the same map
				guarded := false
				for _, g := range core.GuardsOf(mu) {
					cd := core.CondOf(g.If.Cond)
					ex, ok := cd.X.(*ssa.Extract)
					if !ok || ex.Index != 1 {
						continue
					}
					lk, ok := ex.Tuple.(*ssa.Lookup)
					if !ok || !lk.CommaOk {
						continue
					}
					notFound := !g.Branch
					if cd.Neg {
						notFound = !notFound
					}
					if notFound && lk.Index == k && (sameMapValue(lk.X, m) || copiedInto(m, lk.X)) {
						guarded = true
					}
				}
				if guarded {
					r.Held("R01.9", key0, pos(r, in), "merge writes only keys the request did not send")
					return
				}
				// (a) copy of the request's own meta parameter into a fresh map
				if _, fresh := m.(*ssa.MakeMap); fresh {
					kx, ok1 := k.(*ssa.Extract)
					vx, ok2 := mu.Value.(*ssa.Extract)
					if ok1 && ok2 && kx.Tuple == vx.Tuple {
						if nx, ok := kx.Tuple.(*ssa.Next); ok {
							if rg, ok := nx.Iter.(*ssa.Range); ok {
								src := rg.X
								if c, isCall := src.(*ssa.Call); isCall && r.P.CalleeName(c) == "gofakes3.metadataHeaders" {
									r.Held("R01.9", key0, pos(r, in), "copies the request's own metadata into a fresh map")
									return
								}
								if unwrapParamMap(src, f) {
									r.Held("R01.9", key0, pos(r, in), "copies the request's own metadata into a fresh map")
									return
								}
							}
						}
					}
				}
				r.Violated("R01.9", key0, pos(r, in), "a metadata entry is written unconditionally (not under a not-found test of the same key): a value sent with the PUT can be replaced by an inherited or rewritten one and is not returned unchanged")
			})
		}
	}
	r.Floor("R01.9", 2, "metadata map writes outside metadataHeaders")
}

// copiedInto: m is a fresh map that receives every entry of src unchanged (a
// `for k, v := range src { m[k] = v }` with nothing but the copy in the
// loop's way): a key absent from src is absent from the copy at that point.
func copiedInto(m, src ssa.Value) bool {
	mk, ok := m.(*ssa.MakeMap)
	if !ok || mk.Referrers() == nil {
		return false
	}
	for _, u := range *mk.Referrers() {
		mu, ok := u.(*ssa.MapUpdate)
		if !ok || mu.Map != ssa.Value(mk) {
			continue
		}
		kx, ok1 := mu.Key.(*ssa.Extract)
		vx, ok2 := mu.Value.(*ssa.Extract)
		if !ok1 || !ok2 || kx.Tuple != vx.Tuple || kx.Index != 1 || vx.Index != 2 {
			continue
		}
		nx, ok := kx.Tuple.(*ssa.Next)
		if !ok {
			continue
		}
		rg, ok := nx.Iter.(*ssa.Range)
		if !ok || !sameMapValue(rg.X, src) {
			continue
		}
		// unconditional inside the loop: the only guard is the loop's own "more entries" test
		plain := true
		for _, g := range core.GuardsOf(mu) {
			if !core.Dominates(nx, g.If) {
				continue // a guard in front of the loop
			}
			cd := core.CondOf(g.If.Cond)
			if ex, isEx := cd.X.(*ssa.Extract); !isEx || ex.Tuple != ssa.Value(nx) || ex.Index != 0 {
				plain = false
			}
		}
		if plain {
			return true
		}
	}
	return false
}

func sameMapValue(a, b ssa.Value) bool {
	if a == b {
		return true
	}
	return oblig.ResolveLocal(a) == oblig.ResolveLocal(b)
}

// unwrapParamMap: v is a map parameter of f or of an enclosing function
// (captured by the closure).
func unwrapParamMap(v ssa.Value, f *ssa.Function) bool {
	switch x := v.(type) {
	case *ssa.Parameter:
		return true
	case *ssa.FreeVar:
		_ = x
		return true
	case *ssa.UnOp:
		if fv, ok := x.X.(*ssa.FreeVar); ok {
			_ = fv
			return true
		}
		if a, ok := x.X.(*ssa.Alloc); ok {
			for _, ref := range *a.Referrers() {
				if st, ok := ref.(*ssa.Store); ok {
					if _, isP := st.Val.(*ssa.Parameter); isP {
						return true
					}
				}
			}
		}
	}
	return false
}

// rule0110 — an acknowledged upload was written, whatever was stored before.
func rule0110(r *core.Run) {
	r.Rule("R01.10", "in the memory and bolt backends every successful return of PutObject (and of its transaction closure) is preceded on all paths by the write of the new record (bucket.put / (*bolt.Bucket).Put): no fast path acknowledges an upload without storing it (e.g. because the stored object looks identical — its metadata may differ)")
	type w struct{ fn, write string }
	n := 0
	for _, x := range []w{
		{"s3mem.(*Backend).PutObject", "s3mem.(*bucket).put"},
		{"s3bolt.(*Backend).PutObject", "(*go.etcd.io/bbolt.Bucket).Put"},
	} {
		top := mustFunc(r, x.fn)
		if top == nil {
			continue
		}
		found := false
		for _, f := range core.Closures(top) {
			writes := r.P.CallsIn(f, false, core.NameIs(x.write))
			if len(writes) == 0 {
				continue
			}
			found = true
			n++
			var ws []*ssa.Call
			for _, wc := range writes {
				if c, ok := wc.(*ssa.Call); ok {
					ws = append(ws, c)
				}
			}
			// a nil-error return needs the write before it on all paths; `return b.Put(…)` succeeds exactly when the write did
			okW := true
			for ret, ev := range returnedErrors(f) {
				if !definitelyNil(r, core.BlockLocalLoad(ev)) {
					continue
				}
				if core.ReachableFromEntryAvoiding(ret, func(in ssa.Instruction) bool {
					for _, wc := range writes {
						if in == wc.(ssa.Instruction) {
							return true
						}
					}
					return false
				}) {
					okW = false
				}
			}
			_ = ws
			r.Check(okW, "R01.10", key(fname(r, f), "success only after the write"), r.P.Pos(f.Pos()), "the record is written on every successful path",
				"PutObject can acknowledge an upload without writing it (a path to success bypasses "+x.write+"): what a later GET returns — body or metadata — is not what this upload sent")
		}
		if !found {
			r.Violated("R01.10", key(x.fn, "write present"), r.P.Pos(top.Pos()), "PutObject no longer writes through "+x.write)
		}
	}
	if n < 2 {
		r.Unresolved("R01.10: %d success returns with a preceding write found (expected at least 2)", n)
	}
}

// rule0111 — the bytes a backend stores are its own.
func rule0111(r *core.Run) {
	r.Rule("R01.11", "gofakes3.ReadAll returns memory it allocated itself: no returned slice derives from a type assertion or type switch on the reader argument (handing back the caller's own buffer — a *bytes.Buffer's Bytes/Next — stores memory the caller may reuse; the stored body then changes after the upload was acknowledged while size and ETag still describe the original bytes)")
	fn := mustFunc(r, "gofakes3.ReadAll")
	if fn == nil {
		return
	}
	rp := fn.Params[0]
	bad := ""
	n := 0
	for _, ret := range core.Returns(fn) {
		if len(ret.Results) == 0 {
			continue
		}
		n++
		s := r.P.SliceOf(ret.Results[0], core.SliceOpts{Depth: -1})
		for v := range s.Values {
			ta, ok := v.(*ssa.TypeAssert)
			if !ok {
				continue
			}
			if ta.X == ssa.Value(rp) || r.P.SliceOf(ta.X, core.SliceOpts{Depth: -1}).HasValue(rp) {
				bad = pos(r, ta)
			}
		}
	}
	r.Check(bad == "" && n > 0, "R01.11", key(fname(r, fn), "returned bytes are freshly allocated"), r.P.Pos(fn.Pos()), sprintf("%d returns, none built from the reader's own memory", n),
		"ReadAll can return bytes obtained from a concrete reader type (type assertion at "+bad+"): the stored body aliases memory the caller still owns")
}

// rule0112 — error discipline in path form: no path carries an error past the
// point where the caller is told "done" without it having been looked at, and
// no path that saw it non-nil ends in success without doing something about it.
func rule0112(r *core.Run, prop string) {
	r.Rule("R01.12", "for every call in the product packages whose error result is bound to a variable: (1) on every feasible path from the call to a return of the enclosing function the error is handed back by that return, or a branch on it (== nil, != nil, == io.EOF, a predicate or type assertion of it) or a call that receives it lies on the path; (2) if the function returns an error, no return of a definitely-nil error is reachable from the non-nil side of a nil test of the error without passing a further test of it, a call that receives it, or a WriteHeader (the handler answers itself). A result that is not bound at all is accepted only for Close / response writes / printing. Otherwise a failed step is acknowledged as success")
	n := 0
	for _, pk := range []string{"gofakes3", "s3mem", "s3bolt", "s3afero", "goskipiter", "s3io"} {
		for _, fn := range r.P.FuncsOfPkg(pk) {
			f := fn
			if prop == "C12" && !uploadDecodeFile(r, f) {
				continue
			}
			fnRet := returnedErrors(f)
			returnsErr := false
			if res := f.Signature.Results(); res.Len() > 0 && core.IsErrorType(res.At(res.Len()-1).Type()) {
				returnsErr = true
			}
			k0 := 0
			core.Instrs(f, func(in ssa.Instruction) {
				c, ok := in.(*ssa.Call)
				if !ok {
					return
				}
				res := c.Call.Signature().Results()
				if res.Len() == 0 || !core.IsErrorType(res.At(res.Len()-1).Type()) {
					return
				}
				name := r.P.CalleeName(c)
				switch {
				case strings.HasPrefix(name, "fmt."), strings.HasPrefix(name, "log."), strings.HasSuffix(name, "hash.Hash.Write"),
					strings.HasPrefix(name, "(*bytes.Buffer)."), strings.HasPrefix(name, "(*strings.Builder)."):
					return
				}
				errv := core.ErrorResult(c)
				if errv != nil && core.NilnessAt(errv, nil) == core.NonNil {
					return // a constructor of an error value, not a step that can fail
				}
				n++
				k0++
				k := key(fname(r, f), "error of "+name, sprintf("#%d", k0))
				if errv == nil || errv.Referrers() == nil || len(*errv.Referrers()) == 0 {
					why := ""
					switch {
					case strings.HasSuffix(name, ".Close"):
						why = "Close (deferred cleanup, already-failing path, or a handle whose contents were delivered)"
					case strings.Contains(name, "http.ResponseWriter.Write"), strings.HasPrefix(name, "io.WriteString"), strings.Contains(name, "Encoder).Encode"), strings.Contains(name, "Encoder).Flush"):
						why = "write of the response: the status line is out, nothing is left to report to"
					case strings.HasPrefix(name, "time.Parse"), strings.HasPrefix(name, "(*time.Location)"):
						why = "parsed value used only if non-zero"
					}
					if why != "" {
						r.Held("R01.12", k, pos(r, in), "accepted: "+why)
						return
					}
					r.Violated("R01.12", k, pos(r, in), "the error returned by "+name+" is not bound to anything: a failed step is acknowledged as success")
					return
				}
				al := core.ValueAliases(errv)
				// everything derived from the error by boxing / merging
				derived := map[ssa.Value]bool{}
				var grow func(v ssa.Value, d int)
				grow = func(v ssa.Value, d int) {
					if derived[v] || d > 4 {
						return
					}
					derived[v] = true
					if refs := v.Referrers(); refs != nil {
						for _, u := range *refs {
							switch x := u.(type) {
							case *ssa.MakeInterface, *ssa.ChangeInterface, *ssa.Phi, *ssa.TypeAssert, *ssa.Extract:
								grow(x.(ssa.Value), d+1)
							}
						}
					}
				}
				for a := range al {
					grow(a, 0)
				}
				involves := func(v ssa.Value) bool {
					if v == nil {
						return false
					}
					sl := r.P.SliceOf(v, core.SliceOpts{Depth: -1})
					for a := range derived {
						if sl.HasValue(a) {
							return true
						}
					}
					return false
				}
				tests := map[ssa.Instruction]bool{}
				uses := map[ssa.Instruction]bool{}
				core.Instrs(f, func(x ssa.Instruction) {
					switch y := x.(type) {
					case *ssa.If:
						if involves(y.Cond) {
							tests[x] = true
						}
					case ssa.CallInstruction:
						if x == ssa.Instruction(c) {
							return
						}
						for _, a := range y.Common().Args {
							if derived[a] || packsAny(a, derived) {
								uses[x] = true
							}
						}
						if strings.HasSuffix(r.P.CalleeName(y), "http.ResponseWriter.WriteHeader") {
							// the handler answers the failure itself: only an error status counts
							if as := y.Common().Args; len(as) > 0 {
								if st, ok := core.ConstInt(as[len(as)-1]); ok && st >= 400 {
									uses[x] = true
								}
							}
						}
					case *ssa.Store:
						if derived[y.Val] {
							if _, local := y.Addr.(*ssa.Alloc); !local {
								uses[x] = true
							}
						}
					case *ssa.Panic:
						if derived[y.X] {
							uses[x] = true
						}
					}
				})
				// a predicate of the error whose verdict is branched on is a test, not a hand-over
				for t := range tests {
					cs := r.P.SliceOf(t.(*ssa.If).Cond, core.SliceOpts{Depth: -1})
					for u := range uses {
						if uv, ok := u.(ssa.Value); ok && cs.HasValue(uv) {
							delete(uses, u)
						}
					}
				}
				propagates := func(ret *ssa.Return) bool {
					if ev, ok := fnRet[ret]; ok && ev != nil {
						return involves(ev)
					}
					// any result carrying it (a struct with an Err field, a result tuple)
					for _, rv := range ret.Results {
						if derived[rv] {
							return true
						}
					}
					return false
				}
				bad := ""
				for _, ret := range core.Returns(f) {
					if !core.Reaches(c, ret) || propagates(ret) {
						continue
					}
					if ev := fnRet[ret]; ev != nil && core.NilnessAt(core.BlockLocalLoad(ev), ret.Block()) == core.NonNil {
						continue // another failure is reported on this path
					}
					// (1) a nil test (either side), the recognising side of a specific test (err == X,
					// os.IsNotExist(err)), an opaque test (type assertion), or a use must lie on every path
					{
						blocked1 := map[core.Edge]bool{}
						stop := map[ssa.Instruction]bool{}
						for t := range tests {
							iff := t.(*ssa.If)
							isNilT := false
							for a := range al {
								if _, ok := core.ErrNilFact(core.Guard{If: iff, Branch: true}, a); ok {
									isNilT = true
								}
							}
							if isNilT {
								stop[t] = true
							} else if side, ok := recognisedSide(r, iff.Cond, derived); ok && len(iff.Block().Succs) == 2 {
								blocked1[core.Edge{From: iff.Block().Index, To: iff.Block().Succs[side].Index}] = true
							} else {
								stop[t] = true
							}
						}
						if core.ReachesAvoidingEdges(c, ret, func(x ssa.Instruction) bool { return stop[x] || uses[x] }, blocked1) {
							bad = "reaches the return at " + pos(r, ret) + " without a nil test of it, without having been recognised as a specific error, handed back or passed on"
							continue
						}
					}
					if !returnsErr || verdictCalls[name] || probeCalls[name] {
						continue
					}
					// (2) counts every return that is not itself a failure report: nil, or whatever a later
					// step returns
					for t := range tests {
						iff := t.(*ssa.If)
						nonNil := -1
						for a := range al {
							if isNil, ok := core.ErrNilFact(core.Guard{If: iff, Branch: true}, a); ok {
								if isNil {
									nonNil = 1
								} else {
									nonNil = 0
								}
							}
						}
						if nonNil < 0 || len(iff.Block().Succs) != 2 || !core.Reaches(c, iff) {
							continue
						}
						start := iff.Block().Succs[nonNil]
						if len(start.Instrs) == 0 {
							continue
						}
						first := start.Instrs[0]
						// further tests: a comparison with a specific error value or a predicate of the error
						// handles it only on the side where the error was recognised; other tests (type
						// assertions, composite conditions) count on both sides
						blockedEdges := map[core.Edge]bool{}
						opaque := map[ssa.Instruction]bool{}
						for t2 := range tests {
							if t2 == t {
								continue
							}
							if2 := t2.(*ssa.If)
							if side, ok := recognisedSide(r, if2.Cond, derived); ok && len(if2.Block().Succs) == 2 {
								blockedEdges[core.Edge{From: if2.Block().Index, To: if2.Block().Succs[side].Index}] = true
							} else {
								opaque[t2] = true
							}
						}
						avoid := func(x ssa.Instruction) bool { return opaque[x] || uses[x] }
						if avoid(first) {
							continue
						}
						if blockedEdges[core.Edge{From: iff.Block().Index, To: start.Index}] {
							continue
						}
						// where the returned error is merged at the return (single exit), only the incoming
						// edges that do not carry an evident failure count
						targets := []ssa.Instruction{ret}
						if ph, ok := core.BlockLocalLoad(fnRet[ret]).(*ssa.Phi); ok && fnRet[ret] != nil && ph.Block() == ret.Block() {
							targets = nil
							for i, e := range ph.Edges {
								if i >= len(ph.Block().Preds) {
									continue
								}
								pb := ph.Block().Preds[i]
								if core.NilnessAt(e, pb) == core.NonNil || involves(e) || len(pb.Instrs) == 0 {
									continue
								}
								targets = append(targets, pb.Instrs[len(pb.Instrs)-1])
							}
						}
						// walk from the test itself along its non-nil edge only, so that what is known on
						// that edge (a flag merged right behind it) is kept
						succs := iff.Block().Succs
						if succs[0] != succs[1] {
							blockedEdges[core.Edge{From: iff.Block().Index, To: succs[1-nonNil].Index}] = true
						}
						reached := false
						for _, tg := range targets {
							if core.ReachesAvoidingEdges(iff, tg, avoid, blockedEdges) {
								reached = true
							}
						}
						if reached {
							// the non-nil side must not be the nil side as well (a test whose arms rejoin at once is caught here too)
							bad = "was found non-nil at " + pos(r, iff) + " and the function still returns success at " + pos(r, ret)
						}
					}
				}
				r.Check(bad == "", "R01.12", k, pos(r, in), "handed back, tested or passed on on every path; never swallowed", "the error returned by "+name+" "+bad+": a failed step is acknowledged as success")
			})
		}
	}
	if prop == "C12" {
		r.Floor("R01.12", 8, "calls returning an error in the body-decoding path")
	} else {
		r.Floor("R01.12", 150, "calls returning an error in the product packages")
	}
}

// recognisedSide: for a condition that compares the error with a specific
// value (err == X / err != X, X not nil) or applies a predicate to it
// (os.IsNotExist(err), errors.Is(err, X)), possibly negated, the index of the
// successor taken when the error WAS recognised (0: then, 1: else).
func recognisedSide(r *core.Run, cond ssa.Value, derived map[ssa.Value]bool) (int, bool) {
	cd := core.CondOf(cond)
	side := 0
	flip := func() { side = 1 - side }
	if cd.Neg {
		flip()
	}
	switch {
	case cd.Op == token.EQL || cd.Op == token.NEQ:
		x, y := cd.X, cd.Y
		if !derived[x] {
			x, y = y, x
		}
		if !derived[x] || core.IsNilConst(y) {
			return 0, false
		}
		if cd.Op == token.NEQ {
			flip()
		}
		return side, true
	case cd.Op == 0 || cd.Op == token.ILLEGAL:
		c, ok := cd.X.(*ssa.Call)
		if !ok {
			return 0, false
		}
		for _, a := range c.Call.Args {
			if derived[a] {
				return side, true
			}
		}
	}
	return 0, false
}

// verdictCalls are pure validators: their error is a verdict ("not a valid
// name"), and answering "absent" / "empty" is what handling it means.
var verdictCalls = map[string]bool{"gofakes3.ValidateBucketName": true, "s3afero.checkObjectName": true}

// probeCalls are queries: an error means "not there", and going on without the
// thing is the handling (only what is done when it IS there matters).
var probeCalls = map[string]bool{
	"invoke:github.com/spf13/afero.Fs.Stat": true, "github.com/spf13/afero.Exists": true, "github.com/spf13/afero.DirExists": true,
	"github.com/spf13/afero.IsDir": true, "os.Stat": true, "invoke:github.com/spf13/afero.File.Stat": true,
}

// packsAny: v is a variadic pack one of whose elements is in set.
func packsAny(v ssa.Value, set map[ssa.Value]bool) bool {
	for _, e := range packedElems(v) {
		if set[e] {
			return true
		}
		if mi, ok := e.(*ssa.MakeInterface); ok && set[mi.X] {
			return true
		}
	}
	return false
}

// rule0113 — an error is handed back where it can be non-nil, not where it is nil.
func rule0113(r *core.Run) {
	r.Rule("R01.13", "no return hands back, as its error result, the error of a call on a path where a guard has just established that this error is nil (`if err == nil { return err }`): the test is inverted — the failure case falls through as success and the success case returns early with the rest of the operation not done")
	n := 0
	for _, pk := range []string{"gofakes3", "s3mem", "s3bolt", "s3afero", "goskipiter", "s3io"} {
		for _, fn := range r.P.FuncsOfPkg(pk) {
			f := fn
			re := returnedErrors(f)
			for ri, ret := range core.Returns(f) {
				ev := re[ret]
				if ev == nil {
					continue
				}
				v := core.BlockLocalLoad(ev)
				// only values that are (aliases of) a call's error result
				var src *ssa.Call
				switch x := v.(type) {
				case *ssa.Extract:
					src, _ = x.Tuple.(*ssa.Call)
				case *ssa.Call:
					src = x
				}
				if src == nil {
					continue
				}
				n++
				bad := ""
				for _, g := range core.GuardsOf(ret) {
					for a := range core.ValueAliases(v) {
						if isNil, ok := core.ErrNilFact(g, a); ok && isNil && core.Dominates(src, g.If) {
							bad = pos(r, g.If)
						}
					}
				}
				r.Check(bad == "", "R01.13", key(fname(r, f), "error returned where it can be non-nil", sprintf("%s ret%d", r.P.CalleeName(src), ri)), pos(r, ret), "not on the nil side of its own test",
					"the error of "+r.P.CalleeName(src)+" is returned on the side of the test at "+bad+" where it is nil: the test is inverted, failures fall through as success")
			}
		}
	}
	r.Floor("R01.13", 60, "returns handing back a call's error")
}

// uploadDecodeFile: fn belongs to the request-body decoding path (the chunked
// decoder, the digest reader, the bounded read helper, the upload handlers).
func uploadDecodeFile(r *core.Run, fn *ssa.Function) bool {
	p := r.P.Pos(fn.Pos())
	for _, f := range []string{"chunk.go:", "hash.go:", "util.go:"} {
		if strings.HasPrefix(p, f) {
			return true
		}
	}
	switch fname(r, fn) {
	case "gofakes3.(*GoFakeS3).createObject", "gofakes3.(*GoFakeS3).putMultipartUploadPart", "gofakes3.(*uploader).UploadPart",
		"s3mem.(*Backend).PutObject", "s3bolt.(*Backend).PutObject", "s3afero.(*MultiBucketBackend).PutObject", "s3afero.(*SingleBucketBackend).PutObject":
		return true // the consumers of the decoded stream: a decoder error must not be swallowed there either
	}
	return false
}
