package rules

import (
	"strings"

	"golang.org/x/tools/go/ssa"

	"gfs3check/internal/core"
)

// storedBodyFields hold bytes that are handed out to readers without copying.
var storedBodyFields = []string{
	"s3mem.bucketData.body", "s3mem.bucketData.hash",
	"gofakes3.multipartUploadPart.Body",
	"s3bolt.boltObject.Contents", "s3bolt.boltObject.Hash",
}

// calls that write into their byte-slice argument (index of the written arg)
var sliceWriters = map[string]int{
	"io.ReadFull": 1, "io.ReadAtLeast": 1, "invoke:io.Reader.Read": 1, "crypto/rand.Read": 0,
	"encoding/hex.Encode": 0, "encoding/hex.Decode": 0, "encoding/base64.(*Encoding).Encode": 1,
	"sort.Slice": 0, "slices.Sort": 0, "slices.Reverse": 0, "encoding/binary.(*littleEndian).PutUint64": 1,
}

// rule016 — stored bodies are never mutated (shared by C01 and C07).
func rule016(r *core.Run, prop string) {
	r.Rule("R01.6", "every use of a byte slice loaded from a stored-body field (bucketData.body/hash, multipartUploadPart.Body, boltObject.Contents/Hash) is read-only: no element store, not the destination of copy, not the first operand of append, not passed to a function that fills it")
	p := r.P
	n := 0
	for _, field := range storedBodyFields {
		loads := p.FieldLoads(field)
		for _, ld := range loads {
			n++
			fn := ld.(ssa.Instruction).Parent()
			// forward closure inside the function
			derived := map[ssa.Value]bool{ld: true}
			work := []ssa.Value{ld}
			bad := ""
			var badAt ssa.Instruction
			for len(work) > 0 && bad == "" {
				v := work[len(work)-1]
				work = work[:len(work)-1]
				refs := v.Referrers()
				if refs == nil {
					continue
				}
				for _, u := range *refs {
					switch x := u.(type) {
					case *ssa.Slice:
						if x.X == v && !derived[x] {
							derived[x] = true
							work = append(work, x)
						}
					case *ssa.Phi:
						if !derived[x] {
							derived[x] = true
							work = append(work, x)
						}
					case *ssa.ChangeType:
						if !derived[x] {
							derived[x] = true
							work = append(work, x)
						}
					case *ssa.IndexAddr:
						if x.X != v {
							continue
						}
						if ir := x.Referrers(); ir != nil {
							for _, iu := range *ir {
								if st, ok := iu.(*ssa.Store); ok && st.Addr == ssa.Value(x) {
									bad, badAt = "element store", st
								}
							}
						}
					case ssa.CallInstruction:
						name := p.CalleeName(x)
						args := x.Common().Args
						if x.Common().IsInvoke() {
							args = core.Args(x)
						}
						switch name {
						case "builtin:append":
							if len(args) > 0 && args[0] == v {
								bad, badAt = "first operand of append (may write into the shared backing array)", x
							}
						case "builtin:copy":
							if len(args) > 0 && args[0] == v {
								bad, badAt = "destination of copy", x
							}
						default:
							if idx, ok := sliceWriters[name]; ok && idx < len(args) && args[idx] == v {
								bad, badAt = "passed as the buffer to "+name, x
							}
						}
					}
				}
			}
			k := key(fname(r, fn), "load "+field, sprintfIdx(ld))
			if bad == "" {
				r.Held("R01.6", k, pos(r, ld.(ssa.Instruction)), "read-only uses")
			} else {
				r.Violated("R01.6", k, pos(r, badAt), "bytes loaded from "+field+" are mutated: "+bad)
			}
		}
	}
	if n < 8 {
		r.Unresolved("R01.6: only %d loads of stored-body fields found (expected ≥ 8)", n)
	}
	_ = strings.TrimSpace
}

func sprintfIdx(v ssa.Value) string {
	in, ok := v.(ssa.Instruction)
	if !ok {
		return ""
	}
	return sprintf("b%d.%d", in.Block().Index, core.InstrIndex(in))
}
