package rules

import (
	"gfs3check/internal/oblig"
	"go/token"
	"strings"

	"golang.org/x/tools/go/ssa"

	"gfs3check/internal/core"
)

func init() { Registry["C02"] = C02 }

// contract is (method, mandated error code) transcribed from the interface
// comments of backend.go and from the property statement — never from an
// implementation.
type contract struct {
	method, code string
	versioned    bool
}

var backendContracts = []contract{
	{"ListBucket", "NoSuchBucket", false},
	{"GetObject", "NoSuchBucket", false},
	{"HeadObject", "NoSuchBucket", false},
	{"PutObject", "NoSuchBucket", false},
	{"DeleteObject", "NoSuchBucket", false},
	{"DeleteMulti", "NoSuchBucket", false},
	{"GetObject", "NoSuchKey", false},
	{"HeadObject", "NoSuchKey", false},
	{"CreateBucket", "BucketAlreadyExists", false},
	{"DeleteBucket", "BucketNotEmpty", false},
	{"DeleteBucket", "NoSuchBucket", false},
	{"VersioningConfiguration", "NoSuchBucket", true},
	{"SetVersioningConfiguration", "NoSuchBucket", true},
	{"GetObjectVersion", "NoSuchVersion", true},
	{"GetObjectVersion", "NoSuchKey", true},
	{"HeadObjectVersion", "NoSuchVersion", true},
	{"DeleteObjectVersion", "NoSuchBucket", true},
	{"ListBucketVersions", "NoSuchBucket", true},
}

// contractExceptions: implementation+method that by design do not follow the
// table, one reason each.
var contractExceptions = map[string]string{
	"s3afero.(*SingleBucketBackend).CreateBucket": "single-bucket backend cannot create buckets: returns ErrNotImplemented by design",
	"s3afero.(*SingleBucketBackend).DeleteBucket": "single-bucket backend cannot delete its bucket: returns ErrNotImplemented by design",
}

// C02 — operation sequences follow S3 bucket/object semantics.
func C02(r *core.Run) {
	r.Explanation = "Structural necessary conditions of the S3 bucket/object semantics, decided on the type-checked SSA of the working tree for all four bundled backends and every handler: " +
		"(R02.1) every bucket-scoped storage call in a handler is dominated by a checked ensureBucketExists on that bucket; " +
		"(R02.2) every Backend/VersionedBackend method of every implementation can return the error code its contract mandates (NoSuchBucket, NoSuchKey, BucketAlreadyExists, BucketNotEmpty, NoSuchVersion); " +
		"(R02.3) no delete operation can return NoSuchKey (idempotence); (R02.4) every ErrorCode used has an explicit HTTP status and the five codes of the property map to 404/409, every handler error reaches httpError, ensureErrorResponse is total; " +
		"(R02.5) CopyObject wires source to destination with the fetched object's contents, size and hash; (R02.6) bucket removal happens only on the non-empty-test's empty arm; " +
		"(R01.2, shared) every PutObject replaces the stored bytes by one consumption of the input (fs: truncating open of the object path); (R10.7, shared) object deletion is never recursive; (R02.7) deleting a nested key on the fs backends prunes the directories it leaves empty, so an emptied bucket can be deleted. (R02.8) the existence check that may auto-create a bucket is applied only to the addressed bucket; R02.7 also requires the emptiness test to be of the very directory that is removed. (R02.9) the fs delete path does not hand a directory to Remove. (R02.10) the front end and the fs/bolt backends keep no serving-time copy of the store's state in process memory (no remembered directory, bucket or answer). (R02.11) a bolt cursor deletes only after the key it landed on was compared equal with the key sought. (R01.12) error discipline in path form: no call's error reaches a return untested / not handed back, and no path that found it non-nil ends in success without passing it on or testing it further. (R02.12) the fs delete path prunes from the very path it removed, deletes the metadata record after the file, and pruning climbs on after every successful Remove. (R02.13) the copy handler copies the pair it examined to the pair it was asked for."
	r.NotDecided = "read-your-writes, overwrite/copy value semantics, agreement of whole responses with a reference model, auto-bucket behaviour"
	rule021(r)
	rule022(r)
	rule023(r)
	rule024(r)
	rule025(r)
	rule026(r)
	// shared necessary conditions of "reads return the most recent acknowledged
	// write" and "a delete affects only the addressed key"
	rule012(r)
	rule107(r)
	rule027(r)
	rule028(r)
	rule029(r)
	rule0210(r, "C02")
	rule0211(r)
	rule0212(r)
	rule0213(r)
	rule085(r, oblig.NewCtx(r.P))
	rule0112(r, "C02")
	rule0113(r)
	rule105(r)
	rule016(r, "C02")
	rule1510(r)
	rule1014(r)
	rule0214(r)
	rule099(r)
	rule0215(r)
}

// handler exceptions for R02.1, one reason each
var r021Exceptions = map[string]string{
	"gofakes3.(*GoFakeS3).createBucket":            "creates the bucket; its name is validated instead (C17)",
	"gofakes3.(*GoFakeS3).listBuckets":             "not bucket-scoped",
	"gofakes3.(*GoFakeS3).putMultipartUploadPart":  "addressed by upload id: uploader.getUnlocked rejects unknown (bucket,key,id) first (R06.2)",
	"gofakes3.(*GoFakeS3).completeMultipartUpload": "addressed by upload id: uploader.getUnlocked rejects unknown (bucket,key,id) first (R06.2)",
	"gofakes3.(*GoFakeS3).abortMultipartUpload":    "addressed by upload id: uploader.getUnlocked rejects unknown (bucket,key,id) first (R06.2)",
}

func rule021(r *core.Run) {
	r.Rule("R02.1", "in every handler, each storage/versioned/uploader call whose arguments derive from the handler's bucket parameter is dominated by a checked g.ensureBucketExists(bucket)")
	ensure := mustFunc(r, "gofakes3.(*GoFakeS3).ensureBucketExists")
	if ensure == nil {
		return
	}
	hs := handlers(r)
	// copyObject is reached from createObject, not from a route function
	if f := optFunc(r, "gofakes3.(*GoFakeS3).copyObject"); f != nil {
		hs = append(hs, f)
	}
	for _, h := range hs {
		hname := fname(r, h)
		if _, ex := r021Exceptions[hname]; ex {
			continue
		}
		bp := paramNamed(h, "bucket", "bucketName")
		if bp == nil {
			continue
		}
		// checked ensure calls on the bucket parameter
		var ensures []*ssa.Call
		core.Instrs(h, func(in ssa.Instruction) {
			if c, ok := in.(*ssa.Call); ok && core.StaticCallee(c) == ensure {
				if len(c.Call.Args) == 2 && c.Call.Args[1] == ssa.Value(bp) {
					ensures = append(ensures, c)
				}
			}
		})
		core.Instrs(h, func(in ssa.Instruction) {
			c, ok := in.(ssa.CallInstruction)
			if !ok {
				return
			}
			field, ok := storageCall(r, c)
			if !ok {
				return
			}
			uses := false
			for _, a := range c.Common().Args {
				if a == ssa.Value(bp) {
					uses = true
				} else if s := r.P.SliceOf(a, core.SliceOpts{Depth: 1}); s.HasValue(bp) {
					uses = true
				}
			}
			if !uses {
				return
			}
			k := key(hname, field+"."+c.Common().Method.Name())
			ok2 := false
			for _, e := range ensures {
				if core.CheckedBefore(e, c) {
					ok2 = true
				}
			}
			r.Check(ok2, "R02.1", k, pos(r, c),
				"dominated by checked ensureBucketExists(bucket)",
				"storage call on the handler's bucket is reachable without a successful ensureBucketExists(bucket)")
		})
	}
	r.Floor("R02.1", 18, "bucket-scoped storage calls in handlers")

	// ensureBucketExists itself answers NoSuchBucket on the not-exists arm
	s := errorSliceOf(r, ensure, 3)
	codes := errCodes(s)
	r.Check(has(codes, "NoSuchBucket") && s.HasCallTo("invoke:gofakes3.Backend.BucketExists"),
		"R02.1", key(fname(r, ensure), "returns NoSuchBucket"), r.P.Pos(ensure.Pos()),
		"returns ResourceError(ErrNoSuchBucket) and consults Backend.BucketExists",
		"ensureBucketExists no longer returns ErrNoSuchBucket / no longer consults BucketExists")
}

func rule022(r *core.Run) {
	r.Rule("R02.2", "each Backend/VersionedBackend method of each bundled implementation has a return whose error derives from the ErrorCode its contract (backend.go comments, property text) mandates")
	for _, impl := range backendImpls {
		for _, ct := range backendContracts {
			if ct.versioned && impl != "s3mem.(*Backend)" {
				continue
			}
			name := impl + "." + ct.method
			if why, ex := contractExceptions[name]; ex {
				r.Info("R02.2", key(name, ct.code), "", "exception: "+why)
				continue
			}
			fn := implMethod(r, impl, ct.method)
			if fn == nil {
				continue
			}
			s := errorSliceOf(r, fn, 5)
			codes := errCodes(s)
			r.Check(has(codes, ct.code), "R02.2", key(name, ct.code), r.P.Pos(fn.Pos()),
				"can return "+ct.code,
				sprintf("no return of %s derives from ErrorCode %s (codes found: %s)", ct.method, ct.code, strings.Join(codes, ",")))
		}
	}
	r.Floor("R02.2", 40, "contract instances")
}

func rule023(r *core.Run) {
	r.Rule("R02.3", "ErrNoSuchKey is in no error-return slice of any delete operation (deletes are idempotent)")
	var fns []string
	for _, impl := range backendImpls {
		fns = append(fns, impl+".DeleteObject", impl+".DeleteMulti")
	}
	fns = append(fns, "s3mem.(*Backend).DeleteObjectVersion", "s3mem.(*Backend).DeleteMultiVersions",
		"s3mem.(*bucket).rm", "s3mem.(*bucket).rmVersion",
		"s3afero.(*MultiBucketBackend).deleteObjectLocked", "s3afero.(*SingleBucketBackend).deleteObjectLocked")
	for _, n := range fns {
		fn := mustFunc(r, n)
		if fn == nil {
			continue
		}
		s := errorSliceOf(r, fn, 5)
		codes := errCodes(s)
		r.Check(!has(codes, "NoSuchKey") && !has(codes, "NoSuchVersion"), "R02.3", key(n, "no NoSuchKey"), r.P.Pos(fn.Pos()),
			"error returns derive only from: "+strings.Join(codes, ","),
			"a delete operation can return NoSuchKey/NoSuchVersion: deleting an absent key must succeed")
	}
	r.Floor("R02.3", 12, "delete operations")
}

// statusTable extracts the explicit cases of ErrorCode.Status: code -> status.
func statusTable(r *core.Run) map[string]int64 {
	fn := mustFunc(r, "gofakes3.(ErrorCode).Status")
	if fn == nil {
		return nil
	}
	out := map[string]int64{}
	recv := fn.Params[0]
	for _, b := range fn.Blocks {
		if len(b.Instrs) == 0 {
			continue
		}
		iff, ok := b.Instrs[len(b.Instrs)-1].(*ssa.If)
		if !ok {
			continue
		}
		c := core.CondOf(iff.Cond)
		if c.Op != token.EQL || c.Neg {
			continue
		}
		var cv ssa.Value
		if c.X == ssa.Value(recv) {
			cv = c.Y
		} else if c.Y == ssa.Value(recv) {
			cv = c.X
		} else {
			continue
		}
		code, ok := core.ConstString(cv)
		if !ok {
			continue
		}
		// follow the true edge to a return of a constant
		t := b.Succs[0]
		for hops := 0; hops < 4 && t != nil; hops++ {
			if len(t.Instrs) == 0 {
				break
			}
			last := t.Instrs[len(t.Instrs)-1]
			if ret, ok := last.(*ssa.Return); ok && len(ret.Results) == 1 {
				if v, ok := core.ConstInt(ret.Results[0]); ok {
					out[code] = v
				}
				break
			}
			if _, ok := last.(*ssa.Jump); ok && len(t.Instrs) == 1 {
				t = t.Succs[0]
				continue
			}
			break
		}
	}
	return out
}

func rule024(r *core.Run) {
	r.Rule("R02.4", "every ErrorCode constant used in product code has an explicit case in ErrorCode.Status; NoSuchKey/NoSuchBucket→404, BucketAlreadyExists/BucketNotEmpty→409; ensureErrorResponse is total; routeBase passes every handler error to httpError")
	tbl := statusTable(r)
	if tbl == nil {
		return
	}
	// the five codes of the property
	want := map[string]int64{"NoSuchKey": 404, "NoSuchBucket": 404, "BucketAlreadyExists": 409, "BucketNotEmpty": 409,
		"InvalidRange": 416, "InvalidBucketName": 400, "NoSuchVersion": 404, "NoSuchUpload": 404}
	statusFn := r.P.Func("gofakes3.(ErrorCode).Status")
	for code, st := range want {
		got, ok := tbl[code]
		r.Check(ok && got == st, "R02.4", key("status", code), r.P.Pos(statusFn.Pos()),
			sprintf("%s → %d", code, st), sprintf("%s must map to %d, table has %d (present=%v)", code, st, got, ok))
	}
	// every code used anywhere
	used := map[string]string{}
	for _, fn := range r.P.RepoFuncs() {
		if fname(r, fn) == "gofakes3.(ErrorCode).Status" || fname(r, fn) == "gofakes3.(ErrorCode).Message" {
			continue
		}
		core.Instrs(fn, func(in ssa.Instruction) {
			for _, op := range in.Operands(nil) {
				if *op == nil {
					continue
				}
				c, ok := (*op).(*ssa.Const)
				if !ok {
					continue
				}
				if !isNamed(r, c.Type(), "gofakes3", "ErrorCode") {
					continue
				}
				if sv, ok := core.ConstString(c); ok && sv != "" {
					if _, seen := used[sv]; !seen {
						used[sv] = pos(r, in)
					}
				}
			}
		})
	}
	for code, where := range used {
		_, ok := tbl[code]
		r.Check(ok, "R02.4", key("used-code-has-status", code), where,
			"explicit status case", "ErrorCode "+code+" is used but has no explicit case in ErrorCode.Status (falls to 500)")
	}
	r.Floor("R02.4", 25, "status-table instances")

	// ensureErrorResponse total: default arm yields ErrInternal, never returns nil
	if fn := mustFunc(r, "gofakes3.ensureErrorResponse"); fn != nil {
		var vs []ssa.Value
		nilRet := false
		for _, ret := range core.Returns(fn) {
			for _, v := range ret.Results {
				vs = append(vs, v)
				if core.IsNilConst(v) {
					nilRet = true
				}
			}
		}
		s := r.P.SliceOfMany(vs, core.SliceOpts{Depth: 2})
		r.Check(has(errCodes(s), "InternalError") && !nilRet, "R02.4", key(fname(r, fn), "default→ErrInternal"), r.P.Pos(fn.Pos()),
			"default arm builds ErrInternal; no nil return", "ensureErrorResponse lost its ErrInternal default or can return nil")
	}
	// routeBase funnels all errors
	if rb := mustFunc(r, "gofakes3.(*GoFakeS3).routeBase"); rb != nil {
		he := mustFunc(r, "gofakes3.(*GoFakeS3).httpError")
		var heCall *ssa.Call
		var routeCalls []*ssa.Call
		core.Instrs(rb, func(in ssa.Instruction) {
			c, ok := in.(*ssa.Call)
			if !ok {
				return
			}
			cal := core.StaticCallee(c)
			if cal == nil {
				return
			}
			if cal == he {
				heCall = c
			} else if r.P.IsRepo(cal) && core.ErrorResult(c) != nil {
				routeCalls = append(routeCalls, c)
			}
		})
		if heCall == nil {
			r.Violated("R02.4", key(fname(r, rb), "httpError"), r.P.Pos(rb.Pos()), "routeBase no longer calls httpError")
		} else {
			errArg := heCall.Call.Args[len(heCall.Call.Args)-1]
			s := r.P.SliceOf(errArg, core.SliceOpts{Depth: -1, StopAt: func(v ssa.Value) bool {
				_, isCall := v.(*ssa.Call)
				return isCall
			}})
			guarded := false
			for _, g := range core.GuardsOf(heCall) {
				for v := range s.Values {
					if isNil, ok := core.ErrNilFact(g, v); ok && !isNil {
						guarded = true
					}
				}
			}
			for _, c := range routeCalls {
				ok := s.HasValue(c) && core.Reaches(c, heCall)
				r.Check(ok, "R02.4", key(fname(r, rb), "error of "+r.P.CalleeName(c)+" reaches httpError"), pos(r, c),
					"flows to httpError", "the error returned by this route is not passed to httpError")
			}
			r.Check(guarded, "R02.4", key(fname(r, rb), "httpError iff err != nil"), pos(r, heCall),
				"httpError guarded by err != nil", "httpError is not guarded by err != nil")
		}
	}
}

func rule025(r *core.Run) {
	r.Rule("R02.5", "gofakes3.CopyObject: GetObject(src bucket,key) → PutObject(dst bucket,key, contents and size of that object); returned ETag derives from that object's Hash")
	fn := mustFunc(r, "gofakes3.CopyObject")
	if fn == nil {
		return
	}
	var get, put *ssa.Call
	core.Instrs(fn, func(in ssa.Instruction) {
		if c, ok := in.(*ssa.Call); ok {
			switch r.P.CalleeName(c) {
			case "invoke:gofakes3.Backend.GetObject":
				get = c
			case "invoke:gofakes3.Backend.PutObject":
				put = c
			}
		}
	})
	k := fname(r, fn)
	if get == nil || put == nil {
		r.Violated("R02.5", key(k, "get+put"), r.P.Pos(fn.Pos()), "CopyObject no longer calls GetObject and PutObject on the backend")
		return
	}
	par := func(n string) ssa.Value { return paramNamed(fn, n) }
	r.Check(get.Call.Args[0] == par("srcBucket") && get.Call.Args[1] == par("srcKey"), "R02.5", key(k, "GetObject(src)"), pos(r, get),
		"reads (srcBucket, srcKey)", "GetObject is not called with (srcBucket, srcKey)")
	r.Check(put.Call.Args[0] == par("dstBucket") && put.Call.Args[1] == par("dstKey"), "R02.5", key(k, "PutObject(dst)"), pos(r, put),
		"writes (dstBucket, dstKey)", "PutObject is not called with (dstBucket, dstKey)")
	r.Check(put.Call.Args[2] == par("meta"), "R02.5", key(k, "PutObject(meta)"), pos(r, put), "meta passed through", "PutObject does not receive the meta parameter")
	sIn := r.P.SliceOf(put.Call.Args[3], core.SliceOpts{Depth: 1})
	r.Check(sIn.Has("field:gofakes3.Object.Contents") && sIn.HasValue(get), "R02.5", key(k, "PutObject(input=c.Contents)"), pos(r, put),
		"input is the fetched object's Contents", "PutObject's input is not the Contents of the object fetched by GetObject")
	sSz := r.P.SliceOf(put.Call.Args[4], core.SliceOpts{Depth: 1})
	r.Check(sSz.Has("field:gofakes3.Object.Size") && sSz.HasValue(get) && !sSz.HasPrefix("op:"), "R02.5", key(k, "PutObject(size=c.Size)"), pos(r, put),
		"size is the fetched object's Size", "PutObject's size is not exactly the Size of the object fetched by GetObject")
	r.Check(core.CheckedBefore(get, put), "R02.5", key(k, "GetObject checked"), pos(r, put), "GetObject error checked before PutObject", "PutObject reachable with a failed GetObject")
	// returned ETag
	var etags []ssa.Value
	for _, st := range r.P.FieldStores("gofakes3.CopyObjectResult.ETag") {
		if st.Parent() == fn {
			etags = append(etags, st.Val)
		}
	}
	if len(etags) == 0 {
		r.Violated("R02.5", key(k, "ETag"), r.P.Pos(fn.Pos()), "CopyObjectResult.ETag is never set")
	} else {
		s := r.P.SliceOfMany(etags, core.SliceOpts{Depth: 1})
		r.Check(s.Has("field:gofakes3.Object.Hash") && s.HasValue(get) && s.HasCallTo("encoding/hex.EncodeToString"), "R02.5", key(k, "ETag=hex(c.Hash)"), pos(r, etags[0].(ssa.Instruction)),
			"ETag derives from hex(c.Hash)", "returned ETag is not the hex of the fetched object's Hash")
	}
	// every backend's CopyObject delegates to gofakes3.CopyObject with itself and unchanged arguments
	for _, impl := range backendImpls {
		m := implMethod(r, impl, "CopyObject")
		if m == nil {
			continue
		}
		okDeleg := false
		core.Instrs(m, func(in ssa.Instruction) {
			if c, ok := in.(*ssa.Call); ok && core.StaticCallee(c) == fn {
				okDeleg = len(c.Call.Args) == 6
				for i := 1; i < 6 && okDeleg; i++ {
					if c.Call.Args[i] != ssa.Value(m.Params[i]) {
						okDeleg = false
					}
				}
				if okDeleg {
					s := r.P.SliceOf(c.Call.Args[0], core.SliceOpts{Depth: 1})
					okDeleg = s.HasValue(m.Params[0])
				}
			}
		})
		r.Check(okDeleg, "R02.5", key(fname(r, m), "delegates"), r.P.Pos(m.Pos()),
			"delegates to gofakes3.CopyObject(db, same args)", "CopyObject does not delegate to gofakes3.CopyObject with its own receiver and unchanged arguments")
	}
}

func rule026(r *core.Run) {
	r.Rule("R02.6", "in each DeleteBucket the bucket-removing call is guarded by the opposite edge of the test whose other edge returns ErrBucketNotEmpty")
	removers := map[string]func(string) bool{
		"s3mem.(*Backend)":              core.NameIs("builtin:delete"),
		"s3bolt.(*Backend)":             core.NameIs("(*go.etcd.io/bbolt.Tx).DeleteBucket"),
		"s3afero.(*MultiBucketBackend)": core.NameIs("invoke:github.com/spf13/afero.Fs.RemoveAll", "invoke:github.com/spf13/afero.Fs.Remove"),
	}
	for _, impl := range []string{"s3mem.(*Backend)", "s3bolt.(*Backend)", "s3afero.(*MultiBucketBackend)"} {
		fn := implMethod(r, impl, "DeleteBucket")
		if fn == nil {
			continue
		}
		n := 0
		for _, f := range core.Closures(fn) {
			// returns of BucketNotEmpty in f
			var notEmptyExits [][]core.Guard
			for _, x := range errorExits(f) {
				if _, isPhi := x.val.(*ssa.Phi); isPhi {
					continue
				}
				s := r.P.SliceOf(x.val, core.SliceOpts{Depth: 3})
				if has(errCodes(s), "BucketNotEmpty") {
					// a direct return, or one arm of a merged exit: the failing arm
					notEmptyExits = append(notEmptyExits, x.guards)
				}
			}
			for _, c := range r.P.CallsIn(f, false, removers[impl]) {
				n++
				ok := false
				cg := core.GuardsOf(c)
				for _, rgs := range notEmptyExits {
					for _, rg := range rgs {
						for _, g := range cg {
							if g.If == rg.If && g.Branch != rg.Branch {
								ok = true
							}
						}
					}
				}
				r.Check(ok, "R02.6", key(fname(r, fn), "remove after emptiness test"), pos(r, c),
					"removal only on the empty arm of the BucketNotEmpty test",
					"bucket removal is reachable without passing the emptiness test that returns ErrBucketNotEmpty")
			}
		}
		if n == 0 {
			r.Unresolved("R02.6: no bucket-removing call recognised in %s.DeleteBucket", impl)
		}
	}
	r.Floor("R02.6", 3, "DeleteBucket removers")
}

// rule027 — deleting a nested key on the fs backends prunes the directories it
// leaves empty (shared with C03: leftovers of deleted keys never appear).
func rule027(r *core.Run) {
	r.Rule("R02.7", "in each fs backend the object-delete path, after removing the object file, removes parent directories of the object path that an emptiness test (ReadDir, len == 0) found empty, up to the bucket root, and checks the error")
	for _, impl := range []string{"s3afero.(*MultiBucketBackend)", "s3afero.(*SingleBucketBackend)"} {
		fn := mustFunc(r, impl+".deleteObjectLocked")
		if fn == nil {
			continue
		}
		name := fname(r, fn)
		var objRemove ssa.CallInstruction
		for _, c := range r.P.CallsIn(fn, false, core.NameIs("invoke:github.com/spf13/afero.Fs.Remove")) {
			objRemove = c
		}
		if objRemove == nil {
			r.Violated("R02.7", key(name, "object remove"), r.P.Pos(fn.Pos()), "deleteObjectLocked no longer removes the object file with Fs.Remove")
			continue
		}
		// a pruning site: Fs.Remove of a path derived from path.Dir(...) of the key, under an emptiness fact
		reach := reachableFrom(r, []*ssa.Function{fn})
		pruned := false
		nPrune := 0
		var pruneFn *ssa.Function
		for f := range reach {
			for _, c := range r.P.CallsIn(f, false, core.NameIs("invoke:github.com/spf13/afero.Fs.Remove", "invoke:github.com/spf13/afero.Fs.RemoveAll")) {
				if c == objRemove {
					continue
				}
				ps := r.P.SliceOf(c.Common().Args[0], core.SliceOpts{Depth: -1})
				if !ps.Has("call:path.Dir") && !ps.Has("call:path/filepath.Dir") {
					continue
				}
				if strings.HasSuffix(r.P.CalleeName(c), "RemoveAll") {
					continue // recursive removal of a parent would delete sibling keys
				}
				// emptiness guard: a fact on len(ReadDir result) at the call — of the very
				// directory that is removed (same path value, not merely some directory)
				thisTested := false
				rmPath := stripPathConv(r, c.Common().Args[0])
				for _, g := range core.GuardsOf(c.(ssa.Instruction)) {
					gs := r.P.SliceOf(g.If.Cond, core.SliceOpts{Depth: -1, Control: true})
					if gs.Has("call:builtin:len") && (gs.Has("call:github.com/spf13/afero.ReadDir") || gs.Has("call:invoke:github.com/spf13/afero.File.Readdir") || gs.Has("call:invoke:github.com/spf13/afero.File.Readdirnames")) {
						cd := core.CondOf(g.If.Cond)
						truth := g.Branch
						if cd.Neg {
							truth = !truth
						}
						k, isK := core.ConstInt(cd.Y)
						emptyArm := isK && k == 0 && ((cd.Op == token.GTR && !truth) || (cd.Op == token.EQL && truth) || (cd.Op == token.NEQ && !truth) || (cd.Op == token.LEQ && truth))
						if !emptyArm {
							continue
						}
						same := false
						for rc := range gs.Calls {
							if r.P.CalleeName(rc) == "github.com/spf13/afero.ReadDir" && len(rc.Common().Args) == 2 && stripPathConv(r, rc.Common().Args[1]) == rmPath {
								same = true
							}
							if strings.HasSuffix(r.P.CalleeName(rc), "afero.Fs.Open") && len(rc.Common().Args) == 1 && stripPathConv(r, rc.Common().Args[0]) == rmPath {
								same = true
							}
						}
						if same {
							pruned = true
							pruneFn = f
							thisTested = true
						}
					}
				}
				nPrune++
				r.Check(thisTested, "R02.7", key(name, "removed directory was tested empty", fname(r, f), sprintf("#%d", nPrune)), pos(r, c.(ssa.Instruction)),
					"Remove(dir) under len(ReadDir(dir)) == 0 for that same dir", "a parent directory is removed without an emptiness test of that very directory (Remove is not a reliable emptiness test on every afero filesystem): keys under a sibling directory can disappear with it")
			}
		}
		r.Check(pruned, "R02.7", key(name, "prunes empty parent directories"), pos(r, objRemove.(ssa.Instruction)),
			"parent directories found empty are removed after the object", "deleting a nested key leaves its now-empty parent directories behind: they keep appearing as common prefixes and make DeleteBucket answer BucketNotEmpty for a bucket whose objects were all deleted")
		if pruned && pruneFn != fn {
			// the helper is called after the object removal, with the object's path, and its error is returned
			okCall := false
			core.Instrs(fn, func(in ssa.Instruction) {
				c, ok := in.(*ssa.Call)
				if !ok || core.StaticCallee(c) != pruneFn {
					return
				}
				as := r.P.SliceOfMany(c.Call.Args, core.SliceOpts{Depth: -1})
				kp := paramNamed(fn, "objectName")
				if kp != nil && as.HasValue(kp) && core.Reaches(objRemove.(ssa.Instruction), c) {
					for ret, ev := range returnedErrors(fn) {
						// a success before anything was removed (e.g. the path is a directory, not a key) has nothing to prune
						if definitelyNil(r, ev) && core.Reaches(objRemove.(ssa.Instruction), ret) && !core.CheckedBefore(c, ret) {
							return
						}
					}
					okCall = true
				}
			})
			r.Check(okCall, "R02.7", key(name, "prune called with the object path, error checked"), pos(r, objRemove.(ssa.Instruction)), "pruning follows the removal and its error is returned", "the pruning helper is not called after the object removal with the object's path and a checked error")
		}
	}
	r.Floor("R02.7", 2, "fs delete paths")
}

// stripPathConv peels separator conversions (filepath.FromSlash/ToSlash) off a path value.
func stripPathConv(r *core.Run, v ssa.Value) ssa.Value {
	for i := 0; i < 4; i++ {
		c, ok := v.(*ssa.Call)
		if !ok {
			return v
		}
		switch r.P.CalleeName(c) {
		case "path/filepath.FromSlash", "path/filepath.ToSlash":
			v = c.Call.Args[0]
		default:
			return v
		}
	}
	return v
}

// rule028 — the existence check (which creates the bucket when auto-bucket is on) is applied to the addressed bucket only.
func rule028(r *core.Run) {
	r.Rule("R02.8", "g.ensureBucketExists — which creates the bucket when the auto-bucket option is on — is called only with the bucket the request addresses (the handler's own bucket parameter), never with a name taken from a header or body (e.g. a copy source): reading from a bucket must not create it")
	eb := mustFunc(r, "gofakes3.(*GoFakeS3).ensureBucketExists")
	if eb == nil {
		return
	}
	n := 0
	for _, c := range r.P.StaticCallers(eb) {
		n++
		f := c.Parent()
		a := core.Forward(c.Common().Args[1])
		_, isParam := a.(*ssa.Parameter)
		if fv, ok := a.(*ssa.FreeVar); ok {
			// a closure of a handler using the handler's parameter
			_ = fv
			isParam = true
		}
		r.Check(isParam, "R02.8", key(fname(r, f), "existence check on the addressed bucket", sprintf("#%d", n)), pos(r, c.(ssa.Instruction)), "argument is the handler's bucket parameter",
			"ensureBucketExists is applied to a bucket name that is not the handler's own bucket parameter (a value parsed from the request): with auto-bucket on, merely naming a bucket as a source creates it")
	}
	r.Floor("R02.8", 10, "ensureBucketExists call sites")
}

// rule029 — a directory at a key's path is not an object to delete.
func rule029(r *core.Run) {
	r.Rule("R02.9", "in each fs backend the object-delete path removes the file at the object's path only where a Stat of that same path did not report a directory: a directory exists only because keys live below it, it is not a key (deleting a never-written key must succeed and change nothing; Remove of a directory fails on a real filesystem and, on MemMapFs, silently drops the directory entry of live keys)")
	for _, impl := range []string{"s3afero.(*MultiBucketBackend)", "s3afero.(*SingleBucketBackend)"} {
		fn := mustFunc(r, impl+".deleteObjectLocked")
		if fn == nil {
			continue
		}
		name := fname(r, fn)
		var objRemove *ssa.Call
		for _, c := range r.P.CallsIn(fn, false, core.NameIs("invoke:github.com/spf13/afero.Fs.Remove")) {
			ps := r.P.SliceOf(c.Common().Args[0], core.SliceOpts{Depth: -1})
			if !ps.Has("call:path.Dir") && !ps.Has("call:path/filepath.Dir") {
				objRemove, _ = c.(*ssa.Call)
			}
		}
		if objRemove == nil {
			r.Unresolved("R02.9: object Remove not found in %s", name)
			continue
		}
		rmPath := stripPathConv(r, objRemove.Call.Args[0])
		assume := map[ssa.Value]bool{}
		core.Instrs(fn, func(in ssa.Instruction) {
			c, ok := in.(*ssa.Call)
			if !ok || !c.Call.IsInvoke() || c.Call.Method.Name() != "IsDir" {
				return
			}
			rs := r.P.SliceOf(c.Call.Value, core.SliceOpts{Depth: -1})
			for sc := range rs.Calls {
				if strings.HasSuffix(r.P.CalleeName(sc), "afero.Fs.Stat") && len(sc.Common().Args) == 1 && sameValue(r, stripPathConv(r, sc.Common().Args[0]), rmPath, 0) {
					assume[c] = true
				}
			}
		})
		ok := len(assume) > 0
		for c := range assume {
			// on the paths that asked: a directory never reaches the Remove
			if core.ReachesAssuming(c.(ssa.Instruction), objRemove, assume) {
				ok = false
			}
		}
		r.Check(ok, "R02.9", key(name, "a directory is not a key"), pos(r, objRemove), "Remove(object path) unreachable when Stat(object path).IsDir()",
			"the object file is removed without first ruling out that the path is a directory: DELETE of a never-written key that is a directory on disk answers 500 on a real filesystem (and on MemMapFs drops the directory entry of the keys below it)")
	}
}

// statelessStructs hold configuration and handles only: the state of truth is
// in the store they front (the filesystem, the bolt file, the Backend). The
// memory backend and the uploader ARE stores and are not listed.
var statelessStructs = map[string]string{
	"gofakes3.GoFakeS3":           "the HTTP front end (state lives in the Backend)",
	"s3afero.MultiBucketBackend":  "multi-bucket fs backend (state lives in the filesystem)",
	"s3afero.SingleBucketBackend": "single-bucket fs backend (state lives in the filesystem)",
	"s3afero.metaStore":           "fs metadata store (state lives in the metadata filesystem)",
	"s3bolt.Backend":              "bolt backend (state lives in the bolt file)",
	"gofakes3.withCORS":           "CORS wrapper",
}

// servingTimeFields: fields of the stateless layers that are legitimately assigned while serving (reviewed).
var servingTimeFields = map[string]string{
	"s3afero.metaStore.modTimeRes": "the measured mod-time resolution of the filesystem, a constant of the environment computed lazily once",
	"gofakes3.GoFakeS3.requestID":  "request counter (sync/atomic; L5)",
}

var syncMapMutators = map[string]bool{"Store": true, "Delete": true, "LoadOrStore": true, "LoadAndDelete": true, "Swap": true, "CompareAndSwap": true, "CompareAndDelete": true, "Clear": true}

// rule0210 — no serving-time copy of the store's state in process memory.
func rule0210(r *core.Run, prop string) {
	r.Rule("R02.10", "the front end and the filesystem / bolt backends keep no in-memory copy of what the store holds: no map, sync.Map or package-level map of theirs is updated outside construction (a remembered directory, bucket, ETag or HEAD answer goes stale as soon as another operation — a delete that prunes the directory, an explicit create, an overwrite, a restart — changes the store, and the next answer is the remembered one)")
	n := 0
	for _, fn := range r.P.RepoFuncs() {
		f := fn
		if r.P.PkgShort(f) == "cmd" {
			continue
		}
		core.Instrs(f, func(in ssa.Instruction) {
			var container ssa.Value
			what := ""
			switch x := in.(type) {
			case *ssa.MapUpdate:
				container, what = x.Map, "map entry written"
			case ssa.CallInstruction:
				cn := r.P.CalleeName(x)
				switch {
				case cn == "builtin:delete" && len(x.Common().Args) > 0:
					container, what = x.Common().Args[0], "map entry deleted"
				case strings.HasPrefix(cn, "(*sync.Map)."):
					if !syncMapMutators[strings.TrimPrefix(cn, "(*sync.Map).")] || len(x.Common().Args) == 0 {
						return
					}
					container, what = x.Common().Args[0], cn
				default:
					return
				}
			default:
				return
			}
			n++
			// where does the container live? Only its own address counts (the map loaded from a field /
			// the sync.Map that is a field / a package-level variable) — not what its entries derive from.
			owner := containerOwner(r, container, 0)
			if owner == "" {
				return
			}
			okCtx := isConstruction(r, f) || f.Name() == "init"
			r.Check(okCtx, "R02.10", key(fname(r, f), "serving-time in-memory state", owner, what), pos(r, in), "construction only",
				what+" in "+owner+" while serving: a remembered copy of the store's state that later operations (or a restart) do not keep in step")
		})
	}
	// the same for plain fields: a stateless layer's struct gets its fields in construction; a field
	// assigned while serving is remembered state (a "last read object", a cached listing)
	nf := 0
	for _, fn := range r.P.RepoFuncs() {
		f := fn
		if r.P.PkgShort(f) == "cmd" {
			continue
		}
		core.Instrs(f, func(in ssa.Instruction) {
			st, ok := in.(*ssa.Store)
			if !ok {
				return
			}
			fa, ok := st.Addr.(*ssa.FieldAddr)
			if !ok {
				return
			}
			fld := r.P.FieldName(fa)
			i := strings.LastIndex(fld, ".")
			if i < 0 {
				return
			}
			why, stateless := statelessStructs[fld[:i]]
			if !stateless || servingTimeFields[fld] != "" {
				return
			}
			nf++
			if baseRoot(fa.X) != nil {
				return // a struct under construction in this very function
			}
			okCtx := isConstruction(r, f) || f.Name() == "init"
			r.Check(okCtx, "R02.10", key(fname(r, f), "serving-time field of a stateless layer", fld), pos(r, in), "construction only",
				"the field "+fld+" ("+why+") is assigned while serving: state kept in process memory that later operations (a multi-delete, a restart) do not keep in step with the store")
		})
	}
	r.Held("R02.10", key("repo", "container mutations enumerated"), "", sprintf("%d map / sync.Map mutations and %d field stores of stateless layers examined", n, nf))
	if n < 10 {
		r.Unresolved("R02.10: only %d map mutations found in the repository (expected the stores' own)", n)
	}
	_ = prop
}

// rule0211 — a bolt cursor deletes only the record it was verified to stand on.
func rule0211(r *core.Run) {
	r.Rule("R02.11", "in the bolt backend every (*bolt.Cursor).Delete that can follow a Seek on that cursor is guarded by a byte comparison of the key Seek returned with the key that was sought, with the outcome 'equal': Seek lands on the next key when the sought one is absent, and an unverified Delete removes a neighbouring record (a delete of a missing key deletes another key)")
	n := 0
	for _, fn := range r.P.FuncsOfPkg("s3bolt") {
		f := fn
		var dels, seeks []*ssa.Call
		core.Instrs(f, func(in ssa.Instruction) {
			if c, ok := in.(*ssa.Call); ok {
				switch r.P.CalleeName(c) {
				case "(*go.etcd.io/bbolt.Cursor).Delete":
					dels = append(dels, c)
				case "(*go.etcd.io/bbolt.Cursor).Seek":
					seeks = append(seeks, c)
				}
			}
		})
		for _, d := range dels {
			for _, sk := range seeks {
				if !core.Reaches(sk, d) {
					continue
				}
				n++
				verified := false
				for _, ec := range expandedConds(d) {
					a, b, eq, ok := byteCompare(r, ec.cond, ec.truth)
					if !ok || !eq {
						continue
					}
					isKey := func(v ssa.Value) bool {
						ex, ok := v.(*ssa.Extract)
						return ok && ex.Tuple == ssa.Value(sk) && ex.Index == 0
					}
					sought := sk.Call.Args[1]
					same := func(v ssa.Value) bool {
						return v == sought || sameValue(r, v, sought, 0) || r.P.SliceOf(v, core.SliceOpts{Depth: -1}).HasValue(sought)
					}
					if isKey(a) && same(b) || isKey(b) && same(a) {
						verified = true
					}
				}
				r.Check(verified, "R02.11", key(fname(r, f), "cursor delete verified against the sought key", sprintf("#%d", n)), pos(r, d), "Delete only when Seek returned the sought key",
					"Cursor.Delete after Cursor.Seek without checking that the key Seek landed on is the one sought: when the key is absent the next record is deleted instead")
			}
		}
	}
	r.Held("R02.11", key("s3bolt", "cursor deletes enumerated"), "", sprintf("%d Seek→Delete pairs", n))
}

// containerOwner names the stateless struct field or package-level variable a
// map / *sync.Map value is, or "".
func containerOwner(r *core.Run, v ssa.Value, depth int) string {
	if v == nil || depth > 6 {
		return ""
	}
	fieldOwner := func(fa *ssa.FieldAddr) string {
		// the field itself, or any enclosing field it is nested in
		var cur ssa.Value = fa
		for i := 0; i < 6; i++ {
			f, ok := cur.(*ssa.FieldAddr)
			if !ok {
				break
			}
			fld := r.P.FieldName(f)
			if i := strings.LastIndex(fld, "."); i > 0 {
				if why, ok := statelessStructs[fld[:i]]; ok {
					return fld + " — " + why
				}
			}
			cur = f.X
			if ld, ok := cur.(*ssa.UnOp); ok && ld.Op == token.MUL {
				cur = ld.X
			}
		}
		return ""
	}
	switch x := v.(type) {
	case *ssa.FieldAddr:
		return fieldOwner(x)
	case *ssa.Global:
		g := r.P.GlobalName(x)
		if strings.HasPrefix(g, "gofakes3.") || strings.HasPrefix(g, "s3afero.") || strings.HasPrefix(g, "s3bolt.") {
			return "package-level " + g
		}
	case *ssa.UnOp:
		if x.Op != token.MUL {
			return ""
		}
		if lv := core.BlockLocalLoad(x); lv != ssa.Value(x) {
			return containerOwner(r, lv, depth+1)
		}
		return containerOwner(r, x.X, depth+1)
	case *ssa.Phi:
		for _, e := range x.Edges {
			if o := containerOwner(r, e, depth+1); o != "" {
				return o
			}
		}
	case *ssa.ChangeType:
		return containerOwner(r, x.X, depth+1)
	case *ssa.Field:
		// value of a struct field loaded as a whole struct
		return containerOwner(r, x.X, depth+1)
	case *ssa.Parameter:
		// a helper that takes the map / *sync.Map: look at what its callers pass
		fn := x.Parent()
		for i, p := range fn.Params {
			if p != x {
				continue
			}
			for _, site := range r.P.StaticCallers(fn) {
				if i < len(site.Common().Args) {
					if o := containerOwner(r, site.Common().Args[i], depth+1); o != "" {
						return o
					}
				}
			}
		}
	}
	return ""
}

// rule0212 — the fs delete path is one coherent sequence on one path.
func rule0212(r *core.Run) {
	r.Rule("R02.12", "in each fs backend's deleteObjectLocked (a) the path handed to pruneEmptyDirs is the very path whose file was removed (same expression: for the multi-bucket backend it includes the bucket directory — a bare key would be resolved against the directory that holds all buckets); (b) the metadata record is deleted only after the object file's Remove (a crash in between leaves an orphan record, not an object the multi-bucket backend can no longer read); (c) inside pruneEmptyDirs a return that follows the directory Remove inside the loop lies on the side where that Remove's error is non-nil: after a successful Remove the loop goes on to the parent")
	for _, impl := range []string{"s3afero.(*MultiBucketBackend)", "s3afero.(*SingleBucketBackend)"} {
		fn := mustFunc(r, impl+".deleteObjectLocked")
		if fn == nil {
			continue
		}
		name := fname(r, fn)
		var rm, prune, delMeta *ssa.Call
		core.Instrs(fn, func(in ssa.Instruction) {
			c, ok := in.(*ssa.Call)
			if !ok {
				return
			}
			switch cn := r.P.CalleeName(c); {
			case cn == "invoke:github.com/spf13/afero.Fs.Remove":
				ps := r.P.SliceOf(c.Call.Args[0], core.SliceOpts{Depth: -1})
				if !ps.Has("call:path.Dir") && !ps.Has("call:path/filepath.Dir") {
					rm = c
				}
			case cn == "s3afero.pruneEmptyDirs":
				prune = c
			case strings.HasSuffix(cn, "metaStore).deleteMeta"):
				delMeta = c
			}
		})
		if rm == nil || prune == nil || delMeta == nil {
			r.Unresolved("R02.12: Remove / pruneEmptyDirs / deleteMeta not all found in %s", name)
			continue
		}
		same := sameValue(r, stripPathConv(r, prune.Call.Args[2]), stripPathConv(r, rm.Call.Args[0]), 0)
		r.Check(same, "R02.12", key(name, "prune starts at the removed file's path"), pos(r, prune), "pruneEmptyDirs(fs, root, <path that was removed>)",
			"pruneEmptyDirs is handed another path than the one whose file was just removed: in the multi-bucket backend a bare key is resolved against the directory of all buckets (an empty bucket named like the key's first segment is deleted; the key's own directories are left behind)")
		r.Check(core.Dominates(rm, delMeta), "R02.12", key(name, "metadata record deleted after the object file"), pos(r, delMeta), "Remove(object) first, then deleteMeta",
			"the metadata record is deleted before (or without) the object file's Remove: a failure or crash in between leaves an object file without its record, which the multi-bucket backend answers with 500 on GET/HEAD/LIST")
	}
	pe := mustFunc(r, "s3afero.pruneEmptyDirs")
	if pe == nil {
		return
	}
	var drm *ssa.Call
	core.Instrs(pe, func(in ssa.Instruction) {
		if c, ok := in.(*ssa.Call); ok && r.P.CalleeName(c) == "invoke:github.com/spf13/afero.Fs.Remove" {
			drm = c
		}
	})
	if drm == nil {
		r.Unresolved("R02.12: pruneEmptyDirs no longer removes directories")
		return
	}
	errv := core.ErrorResult(drm)
	bad := ""
	for _, ret := range core.Returns(pe) {
		if !core.Reaches(drm, ret) {
			continue
		}
		// returns that end the function after the loop are fine: only those reachable from the Remove
		// without going round the loop again
		loopHead := drm.Block()
		_ = loopHead
		nonNil := false
		for _, g := range core.GuardsOf(ret) {
			for a := range core.ValueAliases(errv) {
				if isNil, ok := core.ErrNilFact(g, a); ok && !isNil {
					nonNil = true
				}
			}
		}
		if nonNil {
			continue
		}
		// reachable from the Remove without passing the ReadDir of the next round?
		if core.ReachesAvoiding(drm, ret, func(x ssa.Instruction) bool {
			c, ok := x.(*ssa.Call)
			return ok && r.P.CalleeName(c) == "github.com/spf13/afero.ReadDir"
		}) {
			if ev := returnedErrors(pe)[ret]; ev != nil && !definitelyNil(r, core.BlockLocalLoad(ev)) {
				bad = pos(r, ret)
			}
		}
	}
	r.Check(bad == "", "R02.12", key(fname(r, pe), "a successful Remove goes on to the parent"), pos(r, drm), "return after Remove only when it failed",
		"pruneEmptyDirs can return (at "+bad+") right after removing one directory although the Remove succeeded: the parents of a deeply nested key stay behind as empty directories (phantom prefixes, BucketNotEmpty on an empty bucket)")
}

// rule0213 — the copy handler copies what it looked at, to where it was asked.
func rule0213(r *core.Run) {
	r.Rule("R02.13", "in the copyObject handler the (bucket, key) pair handed to Backend.CopyObject as source is the very pair HeadObject examined (both parsed from X-Amz-Copy-Source), and the destination pair is the handler's own (bucket, object) parameters: the source is not looked up in the destination bucket, nor the copy written next to the source")
	fn := mustFunc(r, "gofakes3.(*GoFakeS3).copyObject")
	if fn == nil {
		return
	}
	name := fname(r, fn)
	var head, cp *ssa.Call
	core.Instrs(fn, func(in ssa.Instruction) {
		if c, ok := in.(*ssa.Call); ok {
			switch r.P.CalleeName(c) {
			case "invoke:gofakes3.Backend.HeadObject":
				head = c
			case "invoke:gofakes3.Backend.CopyObject":
				cp = c
			}
		}
	})
	if head == nil || cp == nil {
		r.Unresolved("R02.13: HeadObject / CopyObject not found in %s", name)
		return
	}
	bp, op := paramNamed(fn, "bucket"), paramNamed(fn, "object")
	a := cp.Call.Args
	h := head.Call.Args
	okSrc := len(a) >= 4 && len(h) >= 2 && sameValue(r, core.BlockLocalLoad(a[0]), core.BlockLocalLoad(h[0]), 0) && sameValue(r, core.BlockLocalLoad(a[1]), core.BlockLocalLoad(h[1]), 0)
	srcS := r.P.SliceOfMany([]ssa.Value{a[0], a[1]}, core.SliceOpts{Depth: -1})
	okSrc = okSrc && srcS.Has("const:X-Amz-Copy-Source") && !srcS.HasValue(bp)
	r.Check(okSrc, "R02.13", key(name, "source = the pair HeadObject examined"), pos(r, cp), "CopyObject(src bucket, src key, …) with the values given to HeadObject", "the source handed to CopyObject is not the (bucket, key) pair that was parsed from X-Amz-Copy-Source and examined with HeadObject: a cross-bucket copy reads another object")
	okDst := len(a) >= 4 && bp != nil && op != nil && a[2] == ssa.Value(bp) && a[3] == ssa.Value(op)
	r.Check(okDst, "R02.13", key(name, "destination = the addressed bucket and key"), pos(r, cp), "CopyObject(…, bucket, object, …)", "the destination handed to CopyObject is not the request's own bucket and key")
}

// maySucceedWithout returns the position of a return of fn that may report
// success (its error result is not known to be non-nil there) and that is
// reachable from the entry without any of the calls in group having been
// made; "" if there is none. A return that hands back the error of a group
// member itself is success exactly when that member succeeded and is fine.
func maySucceedWithout(r *core.Run, fn *ssa.Function, group []ssa.Instruction) string {
	inGroup := func(y ssa.Instruction) bool {
		for _, c := range group {
			if y == c {
				return true
			}
		}
		return false
	}
	// path by path (flags, merged results and named results kept in memory are followed, the outcome
	// of every nil test taken is remembered): what is the error when a return is reached on a path
	// that avoids the mutation?
	for ret, ev := range returnedErrors(fn) {
		outs, complete := core.PathOutcomes(ret, ev, inGroup)
		if !complete {
			return pos(r, ret) + " (exploration cut off)"
		}
		for _, o := range outs {
			if o.NonNil {
				continue
			}
			own := false
			for _, gi := range group {
				c, isCall := gi.(*ssa.Call)
				if !isCall {
					continue
				}
				if e := core.ErrorResult(c); e != nil && (e == o.Val || carries(o.Val, e)) {
					own = true
				}
				if ssa.Value(c) == o.Val {
					own = true
				}
			}
			if own {
				continue
			}
			return pos(r, ret)
		}
	}
	return ""
}

// rule0214 — a bolt mutation is acknowledged only after it was made.
func rule0214(r *core.Run) {
	r.Rule("R02.14", "(and for the memory and filesystem backends: CreateBucket / DeleteBucket / ForceDeleteBucket / PutObject / DeleteObject return a possibly-nil error only after their own mutation — the write into Backend.buckets, bucket.put / bucket.rm, MkdirAll, the removal of the bucket directory and of its metadata, saveMeta) in the bolt backend the transaction body of CreateBucket, DeleteBucket, ForceDeleteBucket, PutObject and DeleteObject can end with a possibly-nil error only after the operation's own mutation was issued — tx.CreateBucket and the creation record, tx.DeleteBucket, Bucket.Put, Bucket.Delete (must-pass-through on every path to a return whose error is not known to be non-nil; a return of the mutation's own result counts): an operation that returns early with the nil it has just tested acknowledges a write it never made (the bolt backend has no tests of its own)")
	type op struct {
		method string
		groups [][]string
	}
	n := 0
	for _, o := range []op{
		{"CreateBucket", [][]string{{"(*go.etcd.io/bbolt.Tx).CreateBucket", "(*go.etcd.io/bbolt.Tx).CreateBucketIfNotExists"}, {"s3bolt.(*metaBucket).createS3Bucket"}}},
		{"DeleteBucket", [][]string{{"(*go.etcd.io/bbolt.Tx).DeleteBucket"}}},
		{"ForceDeleteBucket", [][]string{{"(*go.etcd.io/bbolt.Tx).DeleteBucket"}}},
		{"PutObject", [][]string{{"(*go.etcd.io/bbolt.Bucket).Put"}}},
		{"DeleteObject", [][]string{{"(*go.etcd.io/bbolt.Bucket).Delete"}}},
	} {
		m := mustFunc(r, "s3bolt.(*Backend)."+o.method)
		if m == nil {
			continue
		}
		for gi, names := range o.groups {
			// the function (the method or one of its closures) that makes the mutation
			var host *ssa.Function
			var group []ssa.Instruction
			for _, f := range append([]*ssa.Function{m}, m.AnonFuncs...) {
				var g []ssa.Instruction
				core.Instrs(f, func(in ssa.Instruction) {
					if c, ok := in.(*ssa.Call); ok && has(names, r.P.CalleeName(c)) {
						g = append(g, c)
					}
				})
				if len(g) > 0 {
					host, group = f, g
				}
			}
			k := key(fname(r, m), "acknowledged only after "+names[0], sprintf("#%d", gi+1))
			if host == nil {
				r.Violated("R02.14", k, r.P.Pos(m.Pos()), "the operation no longer issues "+names[0]+": it acknowledges a mutation it does not make")
				continue
			}
			n++
			bad := maySucceedWithout(r, host, group)
			r.Check(bad == "", "R02.14", k, r.P.Pos(host.Pos()), "every possibly-successful end of the transaction body passes the mutation",
				"the transaction body can end with a possibly-nil error at "+bad+" without "+names[0]+" having been issued: the operation is acknowledged although nothing was written")
		}
	}
	// the same question for the memory and filesystem backends, where the mutation is a call or a
	// write into the bucket map; operations with a legitimate "nothing to do" success (deleting a key
	// that names a directory) are not listed
	type op2 struct {
		fn    string
		what  string
		isMut func(in ssa.Instruction) bool
	}
	callTo := func(suffixes ...string) func(ssa.Instruction) bool {
		return func(in ssa.Instruction) bool {
			c, ok := in.(ssa.CallInstruction)
			if !ok {
				return false
			}
			cn := r.P.CalleeName(c)
			for _, sfx := range suffixes {
				if strings.HasSuffix(cn, sfx) {
					return true
				}
			}
			return false
		}
	}
	bucketsWrite := func(in ssa.Instruction) bool {
		switch x := in.(type) {
		case *ssa.MapUpdate:
			return strings.HasSuffix(containerField(r, x.Map), ".Backend.buckets")
		case ssa.CallInstruction:
			if b, ok := x.Common().Value.(*ssa.Builtin); ok && b.Name() == "delete" && len(x.Common().Args) > 0 {
				return strings.HasSuffix(containerField(r, x.Common().Args[0]), ".Backend.buckets")
			}
		}
		return false
	}
	for _, o := range []op2{
		{"s3mem.(*Backend).CreateBucket", "the store into Backend.buckets", bucketsWrite},
		{"s3mem.(*Backend).DeleteBucket", "the delete from Backend.buckets", bucketsWrite},
		{"s3mem.(*Backend).ForceDeleteBucket", "the delete from Backend.buckets", bucketsWrite},
		{"s3mem.(*Backend).PutObject", "bucket.put", callTo("s3mem.(*bucket).put")},
		{"s3mem.(*Backend).DeleteObject", "bucket.rm", callTo("s3mem.(*bucket).rm")},
		{"s3afero.(*MultiBucketBackend).CreateBucket", "Fs.MkdirAll / Mkdir", callTo("afero.Fs.MkdirAll", "afero.Fs.Mkdir")},
		{"s3afero.(*MultiBucketBackend).DeleteBucket", "the removal of the bucket directory", callTo("afero.Fs.Remove", "afero.Fs.RemoveAll")},
		{"s3afero.(*MultiBucketBackend).DeleteBucket", "metaStore.deleteBucket", callTo("s3afero.(*metaStore).deleteBucket")},
		{"s3afero.(*MultiBucketBackend).ForceDeleteBucket", "the removal of the bucket directory", callTo("afero.Fs.Remove", "afero.Fs.RemoveAll")},
		{"s3afero.(*MultiBucketBackend).ForceDeleteBucket", "metaStore.deleteBucket", callTo("s3afero.(*metaStore).deleteBucket")},
		{"s3afero.(*MultiBucketBackend).PutObject", "metaStore.saveMeta", callTo("s3afero.(*metaStore).saveMeta")},
		{"s3afero.(*SingleBucketBackend).PutObject", "metaStore.saveMeta", callTo("s3afero.(*metaStore).saveMeta")},
		{"s3afero.(*SingleBucketBackend).ForceDeleteBucket", "Fs.RemoveAll of the root", callTo("afero.Fs.RemoveAll")},
	} {
		m := mustFunc(r, o.fn)
		if m == nil {
			continue
		}
		// the function that makes the mutation: the method, or a closure of it (a `withBucketLocked(func…)` body)
		host := m
		var group []ssa.Instruction
		for _, f := range core.Closures(m) {
			var g []ssa.Instruction
			core.Instrs(f, func(in ssa.Instruction) {
				if o.isMut(in) {
					g = append(g, in)
				}
			})
			if len(g) > 0 && (len(group) == 0 || f == m) {
				host, group = f, g
			}
		}
		k := key(fname(r, m), "acknowledged only after "+o.what)
		if len(group) == 0 {
			r.Violated("R02.14", k, r.P.Pos(m.Pos()), "the operation no longer issues "+o.what+": it acknowledges a mutation it does not make")
			continue
		}
		n++
		bad := maySucceedWithout(r, host, group)
		r.Check(bad == "", "R02.14", k, r.P.Pos(m.Pos()), "every possibly-successful return passes the mutation",
			"the operation can return a possibly-nil error at "+bad+" without "+o.what+" having been issued: it is acknowledged although nothing was changed")
	}
	r.Floor("R02.14", 15, "mutating operations")
}

// containerField names the struct field a map value is loaded from ("" if it is not a field load).
func containerField(r *core.Run, v ssa.Value) string {
	for i := 0; i < 4; i++ {
		switch x := v.(type) {
		case *ssa.UnOp:
			if x.Op != token.MUL {
				return ""
			}
			if fa, ok := x.X.(*ssa.FieldAddr); ok {
				return r.P.FieldName(fa)
			}
			if lv := core.BlockLocalLoad(x); lv != ssa.Value(x) {
				v = lv
				continue
			}
			return ""
		case *ssa.ChangeType:
			v = x.X
		default:
			return ""
		}
	}
	return ""
}

// rule0215 — a bucket listing is not cut short from inside its loop.
func rule0215(r *core.Run) {
	r.Rule("R02.15", "in every ListBuckets implementation (and in the closures it runs) a return whose error is not known to be non-nil does not leave from inside the loop over the buckets: skipping one entry is `continue` (or `return nil` from a per-entry callback), never the end of the listing — a `return nil` that used to skip the bookkeeping bucket inside a ForEach callback ends the whole listing once the callback has become a loop body")
	n := 0
	for _, impl := range []string{"s3mem.(*Backend)", "s3bolt.(*Backend)", "s3afero.(*MultiBucketBackend)", "s3afero.(*SingleBucketBackend)"} {
		fn := implMethod(r, impl, "ListBuckets")
		if fn == nil {
			continue
		}
		for _, f := range core.Closures(fn) {
			for _, x := range errorExits(f) {
				n++
				ev := core.BlockLocalLoad(x.val)
				if !definitelyNil(r, ev) && core.NilnessAt(ev, x.ret.Block()) == core.NonNil {
					continue
				}
				inside := exitsLoopFromInside(x.ret)
				if x.via != nil {
					inside = blockExitsLoopFromInside(x.via, x.ret.Block())
				}
				nonNil := false
				for _, g := range x.guards {
					if isNil, known := core.ErrNilFact(g, ev); known && !isNil {
						nonNil = true
					}
				}
				if nonNil {
					continue
				}
				r.Check(!inside, "R02.15", key(fname(r, f), "no successful return from inside the loop", sprintf("#%d", n)), pos(r, x.ret), "returns after the loop",
					"ListBuckets can return successfully from inside its loop over the buckets: every bucket after that point is missing from the listing")
			}
		}
	}
	r.Floor("R02.15", 4, "returns of ListBuckets implementations")
}
