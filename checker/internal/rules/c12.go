package rules

import (
	"go/token"

	"golang.org/x/tools/go/ssa"

	"gfs3check/internal/core"
	"gfs3check/internal/oblig"
)

func init() { Registry["C12"] = C12 }

// C12 — aws-chunked streaming uploads decode to the payload however they arrive.
func C12(r *core.Run) {
	r.Explanation = "Accounting and wiring rules of the aws-chunked decoder, on all paths (not the hex/CRLF grammar itself): " +
		"(R12.1) every update of chunkRemain, of the returned count and of the remaining request size moves by exactly the byte count the transport delivered in that step (result 0 of the inner Read performed in the same block), chunkRemain is otherwise only set from the parsed chunk header, and the slice handed to the transport starts at the bytes delivered so far and is bounded by the smaller of what is asked and what the chunk still holds; " +
		"(R12.2) every error of the transport and of the framing reads is returned; (R12.3) the decoder is selected by the x-amz-content-sha256 streaming constant, wraps r.Body, feeds the hashing reader, and the declared decoded length is parsed, checked and passed as size; " +
		"(R08.3) every backend enforces that size — the fs backends do not (known findings F15); (R09.1a) a hostile declared length cannot drive an allocation. (R08.6) ReadAll always drives the decoder to the end of the stream: a declared decoded length of 0 cannot skip the framing and trailing-bytes checks."
	r.NotDecided = "correctness of the hex/CRLF/signature grammar handling (fixed-width skips), data-with-EOF readers, final zero-chunk handling, payload byte equality"
	ctx := oblig.NewCtx(r.P)
	rule121(r, ctx)
	rule122(r)
	rule123(r, ctx)
	rule083(r, ctx)
	rule086(r)
	rule0112(r, "C12")
	rule085(r, ctx)
	reach := reachableFrom(r, handlerRoots(r))
	rule091alloc(r, ctx, reach)
	// the decoder's own bounds sites
	scope := map[*ssa.Function]bool{}
	if f := r.P.Func("gofakes3.(*chunkedReader).Read"); f != nil {
		scope[f] = true
	}
	r.Rule("R12.4", "the two slice expressions handed to the transport in chunkedReader.Read are discharged (reviewed loop invariant with re-checked premise)")
	boundsRule(r, ctx, "R12.4", scope)
	r.Floor("R12.4", 1, "decoder slice sites")
}

func rule121(r *core.Run, ctx *oblig.Ctx) {
	r.Rule("R12.1", "in chunkedReader.Read: each store to chunkRemain is the parsed chunk size or (previous chunkRemain − k); each loop update of n is n + k and of sizeToRead is sizeToRead − k, where k is result 0 of the inner Read executed in that same block; the slice passed to the inner Read is p[n : n+m] with m = sizeToRead on the arm chunkRemain > sizeToRead and m = chunkRemain on the other")
	fn := mustFunc(r, "gofakes3.(*chunkedReader).Read")
	if fn == nil {
		return
	}
	name := fname(r, fn)
	isInnerRead := func(v ssa.Value) *ssa.Call {
		ex, ok := v.(*ssa.Extract)
		if !ok || ex.Index != 0 {
			return nil
		}
		c, ok := ex.Tuple.(*ssa.Call)
		if !ok || r.P.CalleeName(c) != "invoke:io.Reader.Read" {
			return nil
		}
		s := r.P.SliceOf(c.Call.Value, core.SliceOpts{Depth: -1})
		if !s.Has("field:gofakes3.chunkedReader.inner") {
			return nil
		}
		return c
	}
	n := 0
	for _, st := range r.P.FieldStores("gofakes3.chunkedReader.chunkRemain") {
		if st.Parent() != fn {
			continue
		}
		n++
		k := key(name, "chunkRemain store", sprintf("#%d", n))
		ok := false
		why := "neither the parsed chunk size nor previous-minus-delivered"
		switch v := st.Val.(type) {
		case *ssa.BinOp:
			if v.Op == token.SUB && isLoadOf(r, v.X, "gofakes3.chunkedReader.chunkRemain") {
				if c := isInnerRead(v.Y); c != nil && (c.Block() == st.Block() || core.Dominates(c, st)) {
					ok = true
				} else {
					why = "chunkRemain is reduced by something other than the byte count the transport delivered in this step (e.g. the requested size): short transport reads desynchronise the chunk framing"
				}
			}
		case *ssa.UnOp:
			// load of the variable Fscanf parsed into
			if a, isA := v.X.(*ssa.Alloc); isA {
				// the variable whose address was handed to fmt.Fscanf on the chunk header, checked
				for _, ci := range r.P.CallsIn(fn, false, core.NameIs("fmt.Fscanf")) {
					c := ci.(*ssa.Call)
					as := r.P.SliceOf(c.Call.Args[len(c.Call.Args)-1], core.SliceOpts{Depth: -1})
					is := r.P.SliceOf(c.Call.Args[0], core.SliceOpts{Depth: -1})
					if as.HasValue(a) && is.Has("field:gofakes3.chunkedReader.inner") && core.CheckedBefore(c, st) {
						if f, isS := core.ConstString(c.Call.Args[1]); isS && f == "%x;" {
							ok = true
						}
					}
				}
				why = "chunkRemain is set from a variable that is not the checked result of parsing the hex chunk header"
			}
		}
		r.Check(ok, "R12.1", k, pos(r, st), "parsed size / previous − delivered", why)
	}
	if n < 2 {
		r.Unresolved("R12.1: %d stores to chunkRemain found (expected at least 2: the parsed header and a decrement)", n)
	}
	// loop counters, identified structurally: sizeToRead starts as len(p); n starts at 0 and is the returned count
	var nPhi, szPhi *ssa.Phi
	core.Instrs(fn, func(in ssa.Instruction) {
		ph, ok := in.(*ssa.Phi)
		if !ok || r.P.TypeShort(ph.Type()) != "int" {
			return
		}
		for _, e := range ph.Edges {
			if isLenCall(e) && e.(*ssa.Call).Call.Args[0] == ssa.Value(fn.Params[1]) {
				szPhi = ph
			}
		}
	})
	for _, ret := range core.Returns(fn) {
		v := ret.Results[0]
		for i := 0; i < 3; i++ {
			if ph, ok := v.(*ssa.Phi); ok {
				isInit0 := false
				for _, e := range ph.Edges {
					if k, isK := core.ConstInt(e); isK && k == 0 {
						isInit0 = true
					}
				}
				if isInit0 {
					nPhi = ph
				}
				break
			}
			if b, ok := v.(*ssa.BinOp); ok {
				v = b.X
				continue
			}
			break
		}
	}
	if nPhi == nil || szPhi == nil {
		r.Unresolved("R12.1: the loop counters of chunkedReader.Read (delivered count starting at 0, remaining size starting at len(p)) were not recognised")
		return
	}
	nEdges := 0
	for _, ph := range []*ssa.Phi{nPhi, szPhi} {
		what := "delivered count"
		if ph == szPhi {
			what = "remaining request size"
		}
		for i, e := range ph.Edges {
			if e == ssa.Value(ph) {
				continue
			}
			if _, isConst := e.(*ssa.Const); isConst {
				continue
			}
			if isLenCall(e) {
				continue
			}
			b, ok := e.(*ssa.BinOp)
			pred := ph.Block().Preds[i]
			nEdges++
			k := key(name, "loop update of the "+what, sprintf("edge#%d", i))
			okE := false
			if ok && b.X == ssa.Value(ph) {
				if c := isInnerRead(b.Y); c != nil && (c.Block() == pred || core.BlockDominates(c.Block(), pred)) {
					if (ph == nPhi && b.Op == token.ADD) || (ph == szPhi && b.Op == token.SUB) {
						okE = true
					}
				}
			}
			r.Check(okE, "R12.1", k, r.P.InstrPos(pred.Instrs[len(pred.Instrs)-1]), "moves by the delivered byte count of this step", "the "+what+" is updated by something other than the byte count delivered by the inner Read of this step")
		}
	}
	if nEdges < 2 {
		r.Unresolved("R12.1: %d loop counter updates found (expected at least 2)", nEdges)
	}
	// slices handed to the transport: p[n : n+m], 0 < m <= sizeToRead and m <= chunkRemain
	isRemain := func(v ssa.Value) bool { return isLoadOf(r, v, "gofakes3.chunkedReader.chunkRemain") }
	hasFact := func(facts []oblig.Fact, pred func(f oblig.Fact) bool) bool {
		for _, f := range facts {
			if pred(f) {
				return true
			}
		}
		return false
	}
	// remain >= sz (or >)
	remainGeSz := func(f oblig.Fact) bool {
		return ((f.Op == token.GTR || f.Op == token.GEQ) && isRemain(f.X) && f.Y == ssa.Value(szPhi)) ||
			((f.Op == token.LSS || f.Op == token.LEQ) && f.X == ssa.Value(szPhi) && isRemain(f.Y))
	}
	// remain <= sz (or <)
	remainLeSz := func(f oblig.Fact) bool {
		return ((f.Op == token.LSS || f.Op == token.LEQ) && isRemain(f.X) && f.Y == ssa.Value(szPhi)) ||
			((f.Op == token.GTR || f.Op == token.GEQ) && f.X == ssa.Value(szPhi) && isRemain(f.Y))
	}
	remainPos := func(f oblig.Fact) bool {
		if f.Op == token.GTR && isRemain(f.X) {
			if kk, isK := core.ConstInt(f.Y); isK && kk >= 0 {
				return true
			}
		}
		return false
	}
	var okM func(v ssa.Value, at ssa.Instruction, extra []oblig.Fact, d int) bool
	okM = func(v ssa.Value, at ssa.Instruction, extra []oblig.Fact, d int) bool {
		if d > 3 {
			return false
		}
		facts := append(append([]oblig.Fact{}, ctx.FactsAt(at)...), extra...)
		switch {
		case v == ssa.Value(szPhi):
			return hasFact(facts, remainGeSz)
		case isRemain(v):
			return hasFact(facts, remainLeSz) && hasFact(facts, remainPos)
		}
		if ph, ok := v.(*ssa.Phi); ok {
			for i, e := range ph.Edges {
				pred := ph.Block().Preds[i]
				term := pred.Instrs[len(pred.Instrs)-1]
				ex := append([]oblig.Fact{}, extra...)
				if ef, ok := ctx.EdgeFact(pred, ph.Block()); ok {
					ex = append(ex, ef)
				}
				// facts that hold at the merge point hold on every edge too
				ex = append(ex, ctx.FactsAt(at)...)
				if !okM(e, term, ex, d+1) {
					return false
				}
			}
			return len(ph.Edges) > 0
		}
		return false
	}
	nSl := 0
	core.Instrs(fn, func(in ssa.Instruction) {
		c, ok := in.(*ssa.Call)
		if !ok || r.P.CalleeName(c) != "invoke:io.Reader.Read" {
			return
		}
		sl, ok := c.Call.Args[0].(*ssa.Slice)
		if !ok {
			return
		}
		nSl++
		k := key(name, "slice handed to the transport", sprintf("#%d", nSl))
		p := fn.Params[1]
		hi, _ := sl.High.(*ssa.BinOp)
		okS := sl.X == ssa.Value(p) && sl.Low == ssa.Value(nPhi) && hi != nil && hi.Op == token.ADD && hi.X == ssa.Value(nPhi)
		if okS {
			okS = okM(hi.Y, c, nil, 0)
		}
		r.Check(okS, "R12.1", k, pos(r, c), "p[n : n+m] with 0 < m <= min(requested, left in chunk)", "the buffer handed to the transport is not p[n : n+m] with m bounded by both the requested size and the bytes left in the chunk (reads across a chunk boundary or over already delivered bytes)")
	})
	if nSl < 1 {
		r.Unresolved("R12.1: no inner Read with a slice of p found in chunkedReader.Read")
	}
}

func rule122(r *core.Run) {
	r.Rule("R12.2", "in chunkedReader.Read every call with an error result (inner Read, Fscanf of the chunk header, the two CopyN skips) has its non-nil-error edge lead straight to a return of that error")
	fn := mustFunc(r, "gofakes3.(*chunkedReader).Read")
	if fn == nil {
		return
	}
	n := 0
	core.Instrs(fn, func(in ssa.Instruction) {
		c, ok := in.(*ssa.Call)
		if !ok {
			return
		}
		errv := core.ErrorResult(c)
		sig := c.Call.Signature()
		hasErr := false
		for i := 0; i < sig.Results().Len(); i++ {
			if core.IsErrorType(sig.Results().At(i).Type()) {
				hasErr = true
			}
		}
		if !hasErr {
			return
		}
		n++
		k := key(fname(r, fn), "error of "+r.P.CalleeName(c), sprintf("#%d", n))
		if errv == nil {
			r.Violated("R12.2", k, pos(r, c), "the error of "+r.P.CalleeName(c)+" is discarded: a truncated or malformed stream is decoded as if it were complete")
			return
		}
		ok2 := false
		for _, ref := range *errv.Referrers() {
			b, isB := ref.(*ssa.BinOp)
			if !isB || b.Op != token.NEQ || !(core.IsNilConst(b.X) || core.IsNilConst(b.Y)) {
				continue
			}
			for _, u := range *b.Referrers() {
				iff, isIf := u.(*ssa.If)
				if !isIf {
					continue
				}
				if ret := edgeReturn(iff, true); ret != nil && len(ret.Results) == 2 && ret.Results[1] == errv {
					ok2 = true
				}
			}
		}
		r.Check(ok2, "R12.2", k, pos(r, c), "non-nil error returned at once", "a non-nil error of "+r.P.CalleeName(c)+" does not lead straight to returning it (the loop continues on a broken stream)")
	})
	if n < 4 {
		r.Unresolved("R12.2: %d error-returning calls in chunkedReader.Read (expected at least 4: transport read, chunk header, two framing skips)", n)
	}
	// the skips have the protocol's fixed widths
	widths := map[int64]bool{}
	core.Instrs(fn, func(in ssa.Instruction) {
		if c, ok := in.(*ssa.Call); ok && r.P.CalleeName(c) == "io.CopyN" {
			if k, isK := core.ConstInt(c.Call.Args[2]); isK {
				widths[k] = true
			}
		}
	})
	r.Check(widths[2] && widths[82], "R12.2", key(fname(r, fn), "fixed skips"), r.P.Pos(fn.Pos()), "CRLF (2) and chunk-signature (16+64+2) skips", "the fixed-width skips of the chunk framing (2 and 82 bytes) changed")
}

func rule123(r *core.Run, ctx *oblig.Ctx) {
	r.Rule("R12.3", "createObject selects the chunk decoder exactly when meta[\"X-Amz-Content-Sha256\"] equals STREAMING-AWS4-HMAC-SHA256-PAYLOAD; on that arm the reader is newChunkedReader(r.Body) and size is ParseInt(meta[\"X-Amz-Decoded-Content-Length\"]) with parse errors and negative values refused; that reader is what the hashing reader wraps and that size is what PutObject receives")
	fn := mustFunc(r, "gofakes3.(*GoFakeS3).createObject")
	if fn == nil {
		return
	}
	name := fname(r, fn)
	var nc *ssa.Call
	core.Instrs(fn, func(in ssa.Instruction) {
		if c, ok := in.(*ssa.Call); ok && r.P.CalleeName(c) == "gofakes3.newChunkedReader" {
			nc = c
		}
	})
	if nc == nil {
		r.Violated("R12.3", key(name, "decoder"), r.P.Pos(fn.Pos()), "createObject no longer installs the aws-chunked decoder")
		return
	}
	bs := r.P.SliceOf(nc.Call.Args[0], core.SliceOpts{Depth: -1})
	r.Check(bs.Has("field:net/http.Request.Body"), "R12.3", key(name, "decoder wraps r.Body"), pos(r, nc), "newChunkedReader(r.Body)", "the decoder does not wrap the request body")
	okConst, okKey := false, false
	for _, ec := range expandedConds(nc) {
		if ec.merged {
			continue
		}
		cd := core.CondOf(ec.cond)
		if cd.Op != token.EQL && cd.Op != token.NEQ {
			continue
		}
		eq := (ec.truth != cd.Neg) == (cd.Op == token.EQL)
		gs := r.P.SliceOfMany([]ssa.Value{cd.X, cd.Y}, core.SliceOpts{Depth: -1})
		if eq && gs.Has("const:STREAMING-AWS4-HMAC-SHA256-PAYLOAD") && gs.Has("const:X-Amz-Content-Sha256") {
			okConst, okKey = true, true
		}
	}
	r.Check(okConst && okKey, "R12.3", key(name, "selected by the streaming constant"), pos(r, nc), "meta[X-Amz-Content-Sha256] == STREAMING-AWS4-HMAC-SHA256-PAYLOAD", "the decoder is not selected exactly by the x-amz-content-sha256 streaming constant (canonical header key)")
	// the non-streaming arm must not decode: reader phi has r.Body directly on the other arm
	var nh *ssa.Call
	core.Instrs(fn, func(in ssa.Instruction) {
		if c, ok := in.(*ssa.Call); ok && r.P.CalleeName(c) == "gofakes3.newHashingReader" {
			nh = c
		}
	})
	okWrap := false
	if nh != nil {
		if alts := altValues(nh.Call.Args[0], 0); len(alts) == 2 {
			var a, b bool
			for _, e := range alts {
				s := r.P.SliceOf(e, core.SliceOpts{Depth: -1})
				if s.HasValue(nc) {
					a = true
				} else if s.Has("field:net/http.Request.Body") {
					b = true
				}
			}
			okWrap = a && b
		}
	}
	// nothing else may sit between the body and the backend: a length-limiting or
	// buffering wrapper hides trailing bytes and framing errors from the size check
	if nh != nil {
		if _, ok := nh.Call.Args[0].(*ssa.Phi); ok {
			for _, e := range altValues(nh.Call.Args[0], 0) {
				v := e
				for {
					if mi, ok := v.(*ssa.MakeInterface); ok {
						v = mi.X
					} else if ci, ok := v.(*ssa.ChangeInterface); ok {
						v = ci.X
					} else {
						break
					}
				}
				if c, ok := v.(*ssa.Call); ok && c != nc {
					okWrap = false
					r.Violated("R12.3", key(name, "no extra wrapper around the body"), pos(r, c), "the request body is wrapped in "+r.P.CalleeName(c)+" before it reaches the hashing reader: the backend no longer sees bytes beyond the declared length (over-long streams are cut instead of refused) or framing errors")
				}
			}
		}
	}
	r.Check(okWrap, "R12.3", key(name, "hashing reader wraps decoder or body"), pos(r, nc), "reader = decoder on the streaming arm, r.Body otherwise", "the hashing reader does not wrap exactly the decoder (streaming) / the raw body (otherwise)")
	// decoded length
	scs := storingCalls(r, fn)
	okSize := false
	if len(scs) == 1 {
		if ph, ok := scs[0].Call.Args[4].(*ssa.Phi); ok {
			for i, e := range ph.Edges {
				s := r.P.SliceOf(e, core.SliceOpts{Depth: -1})
				if s.Has("const:X-Amz-Decoded-Content-Length") && s.Has("call:strconv.ParseInt") {
					// this edge comes from the streaming arm
					pred := ph.Block().Preds[i]
					if core.BlockDominates(nc.Block(), pred) || nc.Block() == pred {
						okSize = true
					}
				}
			}
		}
		if lb, ok := ctx.LowerBound(scs[0].Call.Args[4], scs[0]); !ok || lb < 0 {
			okSize = false
		}
	}
	r.Check(okSize, "R12.3", key(name, "declared decoded length is the size"), pos(r, nc), "size = ParseInt(X-Amz-Decoded-Content-Length) >= 0 on the streaming arm", "on the streaming arm PutObject's size is not the parsed, non-negative X-Amz-Decoded-Content-Length")
	// parse error → 400
	okErr := false
	core.Instrs(fn, func(in ssa.Instruction) {
		c, ok := in.(*ssa.Call)
		if !ok || r.P.CalleeName(c) != "strconv.ParseInt" {
			return
		}
		s := r.P.SliceOf(c.Call.Args[0], core.SliceOpts{Depth: -1})
		if !s.Has("const:X-Amz-Decoded-Content-Length") {
			return
		}
		if len(scs) == 1 && (core.CheckedBefore(c, scs[0]) || core.CheckedOnPaths(c, scs[0])) {
			okErr = true
		}
	})
	r.Check(okErr, "R12.3", key(name, "unparsable decoded length refused"), pos(r, nc), "parse error checked before storage", "an unparsable X-Amz-Decoded-Content-Length reaches storage")
}
