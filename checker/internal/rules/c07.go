package rules

import (
	"go/token"
	"go/types"
	"sort"
	"strings"

	"golang.org/x/tools/go/ssa"

	"gfs3check/internal/core"
	"gfs3check/internal/lockset"
)

func init() { Registry["C07"] = C07 }

// guard is one row of the guard table: state → owning lock class(es).
type guardRow struct {
	classes []string // any of these satisfies
	why     string
}

var (
	memLock   = []string{"s3mem.Backend.lock"}
	vgLock    = []string{"s3mem.versionGenerator.mu"}
	upLock    = []string{"gofakes3.uploader.mu"}
	multiLock = []string{"s3afero.<backend>.lock"}
	singlLock = []string{"s3afero.<backend>.lock"}
	anyAfero  = []string{"s3afero.<backend>.lock"}
)

// guardedFields: confirmed by reading (DESIGN.md §2.5). Fields of a struct type
// listed with "*" cover all its fields.
var guardedFields = map[string]guardRow{
	"s3mem.Backend.buckets":          {memLock, "bucket map of the memory backend"},
	"s3mem.Backend.versionScratch":   {memLock, "scratch buffer of the version generator, owned by the backend"},
	"s3mem.bucket.*":                 {memLock, "bucket state"},
	"s3mem.bucketObject.*":           {memLock, "object state (current version, archived versions)"},
	"s3mem.bucketData.*":             {memLock, "version data"},
	"s3mem.versionGenerator.state":   {vgLock, "PRNG state"},
	"s3mem.versionGenerator.next":    {vgLock, "version counter"},
	"gofakes3.uploader.buckets":      {upLock, "uploads per bucket"},
	"gofakes3.uploader.uploadID":     {upLock, "upload id counter"},
	"gofakes3.bucketUploads.*":       {upLock, "upload map and object index"},
	"gofakes3.multipartUpload.parts": {upLock, "parts of a pending upload"},
	"s3afero.metaStore.modTimeRes":   {anyAfero, "lazily computed mod-time resolution"},
}

// fsFields: afero.Fs-typed fields whose every use must hold the backend lock.
var fsFields = map[string]guardRow{
	"s3afero.MultiBucketBackend.bucketFs": {multiLock, "bucket filesystem"},
	"s3afero.MultiBucketBackend.baseFs":   {multiLock, "base filesystem"},
	"s3afero.SingleBucketBackend.fs":      {singlLock, "bucket filesystem"},
	"s3afero.metaStore.fs":                {anyAfero, "metadata filesystem (shared helper of both fs backends)"},
}

// immutable-after-construction fields (stores allowed only into a fresh
// allocation or in construction context).
var immutableStructs = []string{
	"gofakes3.multipartUpload", "gofakes3.multipartUploadPart", "gofakes3.GoFakeS3", "gofakes3.uploader",
	"s3mem.Backend", "s3bolt.Backend", "s3afero.MultiBucketBackend", "s3afero.SingleBucketBackend", "s3afero.metaStore",
	"s3mem.versionGenerator", "gofakes3.withCORS", "gofakes3.locatedTimeSource",
}

// constructors: functions that build the objects before they are shared.
var constructors = map[string]bool{
	"gofakes3.New": true, "gofakes3.newUploader": true, "gofakes3.newBucketUploads": true,
	"s3mem.New": true, "s3mem.newBucket": true, "s3mem.newVersionGenerator": true,
	"s3bolt.New": true, "s3bolt.NewFile": true,
	"s3afero.MultiBucket": true, "s3afero.SingleBucket": true, "s3afero.newMetaStore": true,
	"gofakes3.wrapCORS": true, "gofakes3.wrapInsecureCORS": true,
}

// skiplist mutators
var skiplistWrite = map[string]bool{"Set": true, "Delete": true}

func guardFor(field string) (guardRow, bool) {
	if g, ok := guardedFields[field]; ok {
		return g, true
	}
	if i := strings.LastIndex(field, "."); i > 0 {
		if g, ok := guardedFields[field[:i]+".*"]; ok {
			return g, true
		}
	}
	return guardRow{}, false
}

// baseRoot strips field/index addressing and returns the local allocation the
// address is based on, or nil.
func baseRoot(v ssa.Value) *ssa.Alloc {
	for i := 0; i < 10; i++ {
		switch x := v.(type) {
		case *ssa.Alloc:
			return x
		case *ssa.FieldAddr:
			v = x.X
		case *ssa.IndexAddr:
			v = x.X
		case *ssa.ChangeType:
			v = x.X
		default:
			return nil
		}
	}
	return nil
}

// isConstruction reports whether fn builds objects before they are shared: a
// listed constructor, or a closure returned as a functional option.
func isConstruction(r *core.Run, fn *ssa.Function) bool {
	if constructors[fname(r, fn)] {
		return true
	}
	// a named function of the option's own shape — func(*GoFakeS3) / func(*Backend) error — that no
	// code calls directly: it only ever runs as an option value handed to the constructor
	if fn.Parent() == nil && fn.Signature.Recv() == nil && fn.Signature.Params().Len() == 1 {
		if pt, ok := fn.Signature.Params().At(0).Type().(*types.Pointer); ok {
			if n, ok := pt.Elem().(*types.Named); ok && (n.Obj().Name() == "GoFakeS3" || strings.HasSuffix(n.Obj().Name(), "Backend")) {
				called := false
				for _, f := range r.P.RepoFuncs() {
					core.Instrs(f, func(in ssa.Instruction) {
						if c, ok := in.(ssa.CallInstruction); ok && core.StaticCallee(c) == fn {
							called = true
						}
					})
				}
				if !called {
					return true
				}
			}
		}
	}
	if p := fn.Parent(); p != nil && p.Parent() == nil {
		res := p.Signature.Results()
		if res.Len() == 1 {
			if n, ok := res.At(0).Type().(*types.Named); ok && strings.HasSuffix(n.Obj().Name(), "Option") {
				if _, ok := n.Underlying().(*types.Signature); ok {
					return true
				}
			}
		}
	}
	return false
}

// C07 — concurrent clients see race-free behaviour (lock discipline).
func C07(r *core.Run) {
	r.Explanation = "Data-race freedom with respect to the lock abstraction, decided for every instruction of every product function on all paths and all call sites: " +
		"(L1) every mutex acquire is released on every path to every return (explicitly or by a defer registered on all paths); " +
		"(L2) static lockset — every access to guarded state (guard table confirmed by reading: memory backend maps/skiplists/version data, version generator, uploader bookkeeping, every afero.Fs use of the fs backends) holds its owning lock in the needed mode on every call path from every entry point; " +
		"(L3) the lock-order graph is acyclic and no lock is acquired while it may already be held (sync mutexes are not reentrant); " +
		"(L5) configuration fields are written only before the object is shared, requestID only through sync/atomic; bolt handles are used only inside View/Update transactions; " +
		"(L8) bytes owned by a bolt transaction are copied before they are decoded into anything that outlives it; (R01.6) stored bodies handed to readers are never mutated."
	r.NotDecided = "linearizability of histories, lost updates at the S3-semantics level (MergeMetadata reads and writes in different critical sections — printed as REVIEW), torn reads on a real directory (see C15/C08 known findings F14), fairness"
	a := newLockset(r)
	for _, u := range a.Unresolved {
		r.Unresolved("%s", u)
	}
	r.Extra["lockset_rounds"] = a.Rounds
	r.Extra["callgraph_nodes"] = a.CallGraphNodes()
	var classes []string
	for c := range a.Classes {
		classes = append(classes, c)
	}
	sort.Strings(classes)
	r.Extra["lock_classes"] = classes
	ruleL1(r, a)
	ruleL2(r, a)
	ruleL3(r, a)
	ruleL5(r, a)
	ruleL7(r)
	ruleL8(r)
	ruleL9(r, a)
	rule016(r, "C07")
	rule0210(r, "C07")
}

func ruleL1(r *core.Run, a *lockset.Analysis) {
	r.Rule("L1", "every Lock/RLock is followed on all paths to every return by the matching unlock (immediate defer or explicit)")
	for _, fn := range a.Funcs {
		n, bad := a.Pairing(fn)
		if n == 0 {
			continue
		}
		if len(bad) == 0 {
			r.Held("L1", key(fname(r, fn), "pairing"), r.P.Pos(fn.Pos()), sprintf("%d acquire(s) released on every path", n))
			continue
		}
		for _, b := range bad {
			r.Violated("L1", key(fname(r, fn), "pairing", b.Class), pos(r, b.Return),
				sprintf("%s (%s) may still be held at this return: no explicit unlock on the path and no deferred unlock registered on every path", b.Class, b.Mode))
		}
	}
	r.Floor("L1", 40, "functions that acquire a lock")
}

type access struct {
	in    ssa.Instruction
	fn    *ssa.Function
	what  string
	need  lockset.Mode
	row   guardRow
	field string
}

func collectAccesses(r *core.Run, a *lockset.Analysis) []access {
	var out []access
	p := r.P
	for _, fn := range a.Funcs {
		f := fn
		core.Instrs(fn, func(in ssa.Instruction) {
			switch x := in.(type) {
			case *ssa.FieldAddr:
				field := p.FieldName(x)
				row, ok := guardFor(field)
				if !ok {
					return
				}
				if baseRoot(x.X) != nil {
					return // object under construction in this function
				}
				refs := x.Referrers()
				if refs == nil {
					return
				}
				for _, ref := range *refs {
					switch u := ref.(type) {
					case *ssa.Store:
						if u.Addr == ssa.Value(x) {
							out = append(out, access{u, f, "write " + field, lockset.W, row, field})
						}
					case *ssa.UnOp:
						if u.Op != token.MUL {
							continue
						}
						out = append(out, access{u, f, "read " + field, lockset.R, row, field})
						// uses of the loaded container
						if ur := u.Referrers(); ur != nil {
							for _, uu := range *ur {
								switch w := uu.(type) {
								case *ssa.MapUpdate:
									if w.Map == ssa.Value(u) {
										out = append(out, access{w, f, "map update " + field, lockset.W, row, field})
									}
								case ssa.CallInstruction:
									cc := w.Common()
									if b, ok := cc.Value.(*ssa.Builtin); ok && b.Name() == "delete" && len(cc.Args) > 0 && cc.Args[0] == ssa.Value(u) {
										out = append(out, access{w, f, "map delete " + field, lockset.W, row, field})
									}
									if !cc.IsInvoke() && len(cc.Args) > 0 && cc.Args[0] == ssa.Value(u) {
										if cal := core.StaticCallee(w); cal != nil && strings.Contains(cal.String(), "skiplist.SkipList)") {
											need := lockset.R
											if skiplistWrite[cal.Name()] {
												need = lockset.W
											}
											out = append(out, access{w, f, "skiplist." + cal.Name() + " on " + field, need, row, field})
										}
									}
								}
							}
						}
					default:
						// address escapes (e.g. &v.next passed to a call): treat as write
						if ci, ok := ref.(ssa.CallInstruction); ok && a.Op(ref) == nil {
							out = append(out, access{ci, f, "address of " + field + " passed to " + p.CalleeName(ci), lockset.W, row, field})
						}
					}
				}
			case ssa.CallInstruction:
				// afero.Fs uses
				cc := x.Common()
				var fsVal ssa.Value
				if cc.IsInvoke() && p.TypeShort(cc.Value.Type()) == "github.com/spf13/afero.Fs" {
					fsVal = cc.Value
				} else if cal := core.StaticCallee(x); cal != nil && cal.Pkg != nil && cal.Pkg.Pkg.Path() == "github.com/spf13/afero" {
					for _, arg := range cc.Args {
						if p.TypeShort(arg.Type()) == "github.com/spf13/afero.Fs" {
							fsVal = arg
							break
						}
					}
				}
				if fsVal == nil {
					return
				}
				s := p.SliceOf(fsVal, core.SliceOpts{Depth: 2, BindParams: true})
				for field, row := range fsFields {
					if s.Has("field:" + field) {
						out = append(out, access{x, f, "use of " + field + " via " + p.CalleeName(x), lockset.W, row, field})
					}
				}
			}
		})
	}
	sort.SliceStable(out, func(i, j int) bool { return out[i].in.Pos() < out[j].in.Pos() })
	return out
}

func ruleL2(r *core.Run, a *lockset.Analysis) {
	r.Rule("L2", "every access to guarded state holds the owning lock in the needed mode (R for reads, W for writes) on every call path from every entry point")
	acc := collectAccesses(r, a)
	count := map[string]int{}
	for _, ac := range acc {
		if isConstruction(r, ac.fn) {
			continue
		}
		held := a.MustAt(ac.in)
		ok := false
		for _, c := range ac.row.classes {
			if held.Get(c) >= ac.need {
				ok = true
			}
		}
		count[ac.what]++
		k := key(fname(r, ac.fn), ac.what, sprintf("#%d", count[fname(r, ac.fn)+ac.what]))
		count[fname(r, ac.fn)+ac.what]++
		if ok {
			r.Held("L2", k, pos(r, ac.in), "holds "+held.String())
			continue
		}
		detail := sprintf("%s (%s) needs %s in mode %s; held on all paths here: %s", ac.what, ac.row.why, strings.Join(ac.row.classes, " or "), ac.need, held)
		// locally held weaker / not at all: witness path
		w := ""
		if a.MustEntry(ac.fn).Get(ac.row.classes[0]) < ac.need {
			w = a.Witness(ac.fn, ac.row.classes, ac.need)
		}
		if w != "" {
			detail += " [path: " + w + "]"
		}
		r.Violated("L2", k, pos(r, ac.in), detail)
	}
	r.Floor("L2", 120, "guarded accesses")
}

func ruleL3(r *core.Run, a *lockset.Analysis) {
	r.Rule("L3", "lock-order graph (B acquired while A may be held ⇒ A→B) is acyclic and has no self edge: sync.Mutex/RWMutex are not reentrant (R→R deadlocks behind a queued writer)")
	edges := a.OrderEdges()
	adj := map[string][]string{}
	var es []string
	for _, e := range edges {
		es = append(es, e.From+"→"+e.To)
		if e.From == e.To {
			r.Violated("L3", key("self", e.From, fname(r, e.Site.Parent())), pos(r, e.Site),
				sprintf("%s is acquired (%s) in %s while it may already be held (%s): self-deadlock", e.To, e.ToMode, fname(r, e.Site.Parent()), e.FromMode))
			continue
		}
		adj[e.From] = append(adj[e.From], e.To)
		r.Held("L3", key("edge", e.From, e.To), pos(r, e.Site), "order edge")
	}
	r.Extra["lock_order_edges"] = es
	// cycle detection
	color := map[string]int{}
	var stack []string
	var dfs func(n string) bool
	dfs = func(n string) bool {
		color[n] = 1
		stack = append(stack, n)
		for _, m := range adj[n] {
			if color[m] == 1 {
				cyc := append([]string{}, stack...)
				cyc = append(cyc, m)
				r.Violated("L3", key("cycle", strings.Join(cyc, "→")), "", "lock-order cycle: "+strings.Join(cyc, " → "))
				return true
			}
			if color[m] == 0 && dfs(m) {
				return true
			}
		}
		stack = stack[:len(stack)-1]
		color[n] = 2
		return false
	}
	var nodes []string
	for n := range adj {
		nodes = append(nodes, n)
	}
	sort.Strings(nodes)
	cyc := false
	for _, n := range nodes {
		if color[n] == 0 && dfs(n) {
			cyc = true
			break
		}
	}
	if !cyc {
		r.Held("L3", "acyclic", "", sprintf("%d order edge(s), no cycle", len(edges)))
	}
	// every acquire site is evaluated
	for _, op := range a.Ops() {
		if op.Acquire && !op.Deferred {
			held := a.MayAt(op.Instr)
			if held.Get(op.Class) == lockset.None {
				r.Held("L3", key("acquire", fname(r, op.Instr.Parent()), op.Class, sprintf("%d", core.InstrIndex(op.Instr))), pos(r, op.Instr), "not held at acquire; may-held: "+held.String())
			}
		}
	}
	r.Floor("L3", 40, "acquire sites + edges")
}

func ruleL5(r *core.Run, a *lockset.Analysis) {
	r.Rule("L5", "configuration fields are written only while the object is under construction; GoFakeS3.requestID is touched only through sync/atomic")
	p := r.P
	imm := map[string]bool{}
	for _, s := range immutableStructs {
		imm[s] = true
	}
	n := 0
	for _, fn := range a.Funcs {
		f := fn
		core.Instrs(fn, func(in ssa.Instruction) {
			fa, ok := in.(*ssa.FieldAddr)
			if !ok {
				return
			}
			field := p.FieldName(fa)
			i := strings.LastIndex(field, ".")
			if i < 0 || !imm[field[:i]] {
				return
			}
			if _, guarded := guardFor(field); guarded {
				return // covered by L2
			}
			if strings.HasSuffix(field, ".lock") || strings.HasSuffix(field, ".mu") {
				return
			}
			refs := fa.Referrers()
			if refs == nil {
				return
			}
			for _, ref := range *refs {
				if field == "gofakes3.GoFakeS3.requestID" {
					okUse := false
					switch u := ref.(type) {
					case ssa.CallInstruction:
						okUse = strings.HasPrefix(p.CalleeName(u), "sync/atomic.")
					case *ssa.Store:
						okUse = baseRoot(fa.X) != nil || isConstruction(r, f)
					}
					n++
					r.Check(okUse, "L5", key(fname(r, f), "requestID use", sprintf("%T", ref)), pos(r, ref),
						"atomic / construction", "GoFakeS3.requestID is accessed other than through sync/atomic outside construction")
					continue
				}
				st, ok := ref.(*ssa.Store)
				if !ok || st.Addr != ssa.Value(fa) {
					continue
				}
				n++
				okStore := baseRoot(fa.X) != nil || isConstruction(r, f)
				r.Check(okStore, "L5", key(fname(r, f), "store "+field), pos(r, st),
					"written during construction", "configuration field "+field+" is written after the object may be shared (outside constructors and option closures)")
			}
		})
	}
	r.Floor("L5", 20, "configuration field stores")
}

// ruleL7: bolt handles only inside transactions.
func ruleL7(r *core.Run) {
	r.Rule("L7", "every use of a *bolt.Tx / *bolt.Bucket / *bolt.Cursor in s3bolt happens inside a closure passed to (*bolt.DB).View/Update, or in a function that receives the handle as a parameter")
	p := r.P
	isBoltHandle := func(t types.Type) bool {
		s := t.String()
		return s == "*go.etcd.io/bbolt.Tx" || s == "*go.etcd.io/bbolt.Bucket" || s == "*go.etcd.io/bbolt.Cursor"
	}
	for _, fn := range p.FuncsOfPkg("s3bolt") {
		f := fn
		core.Instrs(fn, func(in ssa.Instruction) {
			c, ok := in.(ssa.CallInstruction)
			if !ok {
				return
			}
			cal := core.StaticCallee(c)
			if cal == nil || cal.Signature.Recv() == nil || !isBoltHandle(cal.Signature.Recv().Type()) {
				return
			}
			// where does the receiver come from
			s := p.SliceOf(c.Common().Args[0], core.SliceOpts{Depth: 3})
			// only a parameter of the using function itself counts: a handle that
			// reached here through a captured variable escaped its transaction
			fromParam := s.HasPrefix("param:"+fname(r, f)+".") && !s.HasPrefix("freevar:")
			for _, l := range s.LeafList("param:") {
				if !strings.HasPrefix(l, "param:"+fname(r, f)+".") {
					fromParam = false
				}
			}
			inTx := false
			for g := f; g != nil; g = g.Parent() {
				if g.Parent() == nil {
					break
				}
				// g is a closure: is it passed to View/Update?
				core.Instrs(g.Parent(), func(pi ssa.Instruction) {
					if pc, ok := pi.(ssa.CallInstruction); ok {
						n := p.CalleeName(pc)
						if n == "(*go.etcd.io/bbolt.DB).View" || n == "(*go.etcd.io/bbolt.DB).Update" {
							for _, a := range pc.Common().Args {
								if mc, ok := a.(*ssa.MakeClosure); ok && mc.Fn == ssa.Value(g) {
									inTx = true
								}
							}
						}
					}
				})
			}
			r.Check(inTx || fromParam, "L7", key(fname(r, f), cal.Name(), sprintf("%d", core.InstrIndex(in))), pos(r, in),
				"inside a transaction closure / handle received as parameter", "bolt handle used outside a View/Update transaction closure")
		})
	}
	r.Floor("L7", 15, "bolt handle uses")
}

// newLockset runs E3 with the repo's lock-class aliases.
func newLockset(r *core.Run) *lockset.Analysis {
	lockset.Alias = map[string]string{
		"s3afero.MultiBucketBackend.lock":  "s3afero.<backend>.lock",
		"s3afero.SingleBucketBackend.lock": "s3afero.<backend>.lock",
	}
	return lockset.New(r.P)
}

// ruleL8 — bolt-owned bytes do not outlive their transaction.
func ruleL8(r *core.Run) {
	r.Rule("L8", "in s3bolt a record decoded (bson.Unmarshal) into storage that outlives the transaction closure is decoded from a private copy of the bytes bolt returned (append([]byte(nil), v...), bytes.Clone, make+copy): bolt's slices alias its memory map and are invalid after the transaction; a record decoded into a closure-local value must not leak its []byte fields")
	boltSources := func(n string) bool {
		return n == "(*go.etcd.io/bbolt.Bucket).Get" || strings.HasPrefix(n, "(*go.etcd.io/bbolt.Cursor).")
	}
	n := 0
	for _, fn := range r.P.FuncsOfPkg("s3bolt") {
		f := fn
		for _, ci := range r.P.CallsIn(fn, false, core.NameIs("gopkg.in/mgo.v2/bson.Unmarshal", "encoding/json.Unmarshal")) {
			c := ci.(*ssa.Call)
			src, dst := c.Call.Args[0], c.Call.Args[1]
			ss := r.P.SliceOf(src, core.SliceOpts{Depth: -1})
			fromBolt := false
			for sc := range ss.Calls {
				if boltSources(r.P.CalleeName(sc)) {
					fromBolt = true
				}
			}
			if !fromBolt {
				continue
			}
			n++
			// is there a copy between bolt and the decoder?
			copied := isPrivateCopy(r, src, 0)
			// where does the decoded value live?
			ds := r.P.SliceOf(dst, core.SliceOpts{Depth: -1})
			outlives := ds.HasPrefix("freevar:") || ds.HasPrefix("param:") || ds.HasPrefix("global:")
			for l := range ds.Leaves {
				// a captured variable shows up as the parent's alloc
				if strings.HasPrefix(l, "alloc:") {
					for _, v := range ds.LeafVals[l] {
						if a, ok := v.(*ssa.Alloc); ok && a.Parent() != f {
							outlives = true
						}
					}
				}
			}
			k := key(fname(r, f), "decode of bolt-owned bytes", sprintf("#%d", n))
			if !outlives {
				// closure-local record: its []byte fields must not be returned/stored outside
				leak := ""
				if a, ok := dst.(*ssa.Alloc); ok {
					for _, ref := range *a.Referrers() {
						fa, ok := ref.(*ssa.FieldAddr)
						if !ok {
							continue
						}
						if _, isSlice := derefType(fa.Type()).Underlying().(*types.Slice); !isSlice {
							continue
						}
						for _, u := range *fa.Referrers() {
							ld, ok := u.(*ssa.UnOp)
							if !ok {
								continue
							}
							for _, uu := range *ld.Referrers() {
								switch x := uu.(type) {
								case *ssa.Store:
									leak = "stored at " + pos(r, x)
								case *ssa.Return:
									leak = "returned at " + pos(r, x)
								case *ssa.MakeInterface:
									leak = "boxed at " + pos(r, x)
								}
							}
						}
					}
				}
				r.Check(leak == "" || copied, "L8", k, pos(r, c), "decoded into a transaction-local value whose byte fields do not leave the closure", "a []byte field decoded from bolt-owned memory leaves the transaction ("+leak+")")
				continue
			}
			r.Check(copied, "L8", k, pos(r, c), "decoded from a private copy", "a record is decoded straight from bolt-owned bytes into a value that outlives the transaction: its []byte fields (object contents, hash) alias bolt's memory map, and reading them after later writes returns changed bytes or faults")
		}
	}
	if n < 2 {
		r.Unresolved("L8: only %d decodes of bolt-owned bytes found in s3bolt (expected >= 2)", n)
	}
}

func derefType(t types.Type) types.Type {
	if pt, ok := t.Underlying().(*types.Pointer); ok {
		return pt.Elem()
	}
	return t
}

// isPrivateCopy: v is a fresh copy of some bytes: append(nil-or-fresh, x...),
// bytes.Clone(x), or a make()d slice filled by copy.
func isPrivateCopy(r *core.Run, v ssa.Value, d int) bool {
	if d > 4 {
		return false
	}
	switch x := v.(type) {
	case *ssa.Phi:
		for _, e := range x.Edges {
			if !isPrivateCopy(r, e, d+1) {
				return false
			}
		}
		return len(x.Edges) > 0
	case *ssa.Call:
		n := r.P.CalleeName(x)
		if n == "bytes.Clone" || n == "slices.Clone" {
			return true
		}
		if n == "builtin:append" && len(x.Call.Args) == 2 {
			a0 := x.Call.Args[0]
			if core.IsNilConst(a0) {
				return true
			}
			if c, ok := a0.(*ssa.Const); ok && c.Value == nil {
				return true
			}
			if _, ok := a0.(*ssa.MakeSlice); ok {
				return true
			}
			if cv, ok := a0.(*ssa.Convert); ok {
				if c, ok := cv.X.(*ssa.Const); ok && c.Value == nil {
					return true
				}
			}
		}
	case *ssa.MakeSlice:
		return true
	case *ssa.Convert:
		if c, ok := x.X.(*ssa.Const); ok && c.Value == nil {
			return true
		}
	}
	return false
}

// ruleL9 — nothing looked up in one critical section is used in a later one.
func ruleL9(r *core.Run, a *lockset.Analysis) {
	r.Rule("L9", "within one function, a reference obtained while a lock is held (a map lookup, a field or element load of pointer / map / slice type executed between an acquire and an explicit, non-deferred release of that lock) is not used after the same lock has been released and acquired again: between the two critical sections the state may have changed (the bucket deleted and recreated, the upload completed), so acting on the old reference acknowledges a write into an object nobody can reach — check-then-act across a lock release. Today's tree releases explicitly in one place only (the version-id generator), which is the positive control")
	byFn := map[*ssa.Function][]*lockset.LockOp{}
	for _, op := range a.Ops() {
		if fn := op.Instr.Parent(); fn != nil {
			byFn[fn] = append(byFn[fn], op)
		}
	}
	nRel, n := 0, 0
	for fn, ops := range byFn {
		f := fn
		for _, rel := range ops {
			if rel.Acquire || rel.Deferred {
				continue
			}
			nRel++
			// a later acquire of the same lock
			var again []*lockset.LockOp
			for _, acq := range ops {
				if acq.Acquire && acq.Class == rel.Class && core.Reaches(rel.Instr, acq.Instr) {
					again = append(again, acq)
				}
			}
			if len(again) == 0 {
				continue
			}
			// references read while the lock was held (before this release)
			core.Instrs(f, func(in ssa.Instruction) {
				v, ok := in.(ssa.Value)
				if !ok || !core.Reaches(in, rel.Instr) || a.MustAt(in).Get(rel.Class) == 0 {
					return
				}
				switch x := in.(type) {
				case *ssa.Lookup:
				case *ssa.UnOp:
					if x.Op != token.MUL {
						return
					}
					if _, isFA := x.X.(*ssa.FieldAddr); !isFA {
						if _, isIA := x.X.(*ssa.IndexAddr); !isIA {
							return
						}
					}
				default:
					return
				}
				switch v.Type().Underlying().(type) {
				case *types.Pointer, *types.Map, *types.Slice:
				default:
					if tup, isT := v.Type().(*types.Tuple); !isT || tup.Len() == 0 {
						return
					}
				}
				// uses after a re-acquire
				seen := map[ssa.Value]bool{v: true}
				work := []ssa.Value{v}
				for len(work) > 0 {
					w := work[len(work)-1]
					work = work[:len(work)-1]
					if w.Referrers() == nil {
						continue
					}
					for _, u := range *w.Referrers() {
						switch y := u.(type) {
						case *ssa.Phi, *ssa.Extract, *ssa.ChangeType, *ssa.MakeInterface:
							if yv := y.(ssa.Value); !seen[yv] {
								seen[yv] = true
								work = append(work, yv)
							}
							continue
						case *ssa.DebugRef:
							continue
						case *ssa.BinOp:
							continue // comparing the reference (nil test) is not acting on it
						}
						for _, acq := range again {
							if core.Reaches(acq.Instr, u) && core.Reaches(rel.Instr, acq.Instr) && !core.Reaches(u, rel.Instr) {
								n++
								r.Violated("L9", key(fname(r, f), "reference kept across critical sections", rel.Class, sprintf("#%d", n)), pos(r, u),
									"a reference read under "+rel.Class+" at "+pos(r, in)+" is used after the lock was released ("+pos(r, rel.Instr)+") and taken again ("+pos(r, acq.Instr)+"): the object it points to may no longer be the one reachable under that name")
								return
							}
						}
					}
				}
			})
		}
	}
	r.Held("L9", key("repo", "explicit releases examined"), "", sprintf("%d explicit (non-deferred) releases; %d stale uses", nRel, n))
	if nRel < 1 {
		r.Unresolved("L9: no explicit lock release found (the version-id generator's is the positive control)")
	}
}
