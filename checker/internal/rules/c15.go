package rules

import (
	"go/constant"
	"go/token"
	"go/types"
	"strings"

	"golang.org/x/tools/go/ssa"

	"gfs3check/internal/core"
)

func init() { Registry["C15"] = C15 }

// C15 — acknowledged state of the persistent backends survives restart.
func C15(r *core.Run) {
	r.Explanation = "Durability discipline of the persistent backends, decided on all paths (what a filesystem or bbolt does on kill -9 is the trusted base): " +
		"(R15.1) every bolt mutation happens inside exactly one (*bolt.DB).Update closure per operation whose error is returned, and no no-sync option is ever set; " +
		"(R15.2) for every persisted record type the fields read after decoding are fields that every encoding site writes, all exported and serialisable; " +
		"(R15.3) the object hash kept in the metadata store is only ever computed from the object's bytes (the upload stream or a file of the object filesystem), never from the metadata filesystem — violated today by loadMeta's re-hash (known finding F17); " +
		"(R08.2 = R15.4) an object is replaced only after the new content is complete — violated today by the fs backends (known findings F14); (R01.7) no persist error is dropped; " +
		"(R15.5) each -backend option of the command passes its path flags to the matching constructor; (R15.6) an operation is acknowledged only after its metadata record was saved / its transaction committed. (R15.8) opening a backend removes nothing from its storage, and the HTTP front end keeps no per-object state of its own: entity headers of GET/HEAD come from the object the backend returned. (R01.12) error discipline in path form: no call's error reaches a return untested / not handed back, and no path that found it non-nil ends in success without passing it on or testing it further. (R02.12, shared) a delete removes the object file before its metadata record."
	r.NotDecided = "what survives kill -9 on a real filesystem, JSON/BSON value round trips, mod-time tolerance, legacy _meta-less databases"
	rule151(r)
	rule152(r)
	rule153(r)
	rule082(r)
	rule017(r)
	rule155(r)
	rule156(r)
	rule157(r)
	rule158(r)
	rule0210(r, "C15")
	rule0112(r, "C15")
	rule0212(r)
	rule1013(r)
	rule0113(r)
	rule1510(r)
	rule105(r)
	rule1511(r)
}

var boltMutators = map[string]bool{
	"(*go.etcd.io/bbolt.Bucket).Put": true, "(*go.etcd.io/bbolt.Bucket).Delete": true,
	"(*go.etcd.io/bbolt.Tx).CreateBucket": true, "(*go.etcd.io/bbolt.Tx).CreateBucketIfNotExists": true, "(*go.etcd.io/bbolt.Tx).DeleteBucket": true,
	"(*go.etcd.io/bbolt.Bucket).CreateBucket": true, "(*go.etcd.io/bbolt.Bucket).DeleteBucket": true, "(*go.etcd.io/bbolt.Cursor).Delete": true,
}

// inUpdateClosure: fn is (nested in) a closure passed to (*bolt.DB).Update / Batch.
func inTxClosure(r *core.Run, fn *ssa.Function, writable bool) bool {
	for g := fn; g != nil && g.Parent() != nil; g = g.Parent() {
		ok := false
		core.Instrs(g.Parent(), func(in ssa.Instruction) {
			c, isC := in.(ssa.CallInstruction)
			if !isC {
				return
			}
			n := r.P.CalleeName(c)
			if n == "(*go.etcd.io/bbolt.DB).Update" || n == "(*go.etcd.io/bbolt.DB).Batch" || (!writable && n == "(*go.etcd.io/bbolt.DB).View") {
				for _, a := range c.Common().Args {
					if mc, isMC := a.(*ssa.MakeClosure); isMC && mc.Fn == ssa.Value(g) {
						ok = true
					}
				}
			}
		})
		if ok {
			return true
		}
	}
	return false
}

func rule151(r *core.Run) {
	r.Rule("R15.1", "every bolt mutator call is inside a closure passed to (*bolt.DB).Update, or in a helper whose every caller is (metaBucket(): under tx.Writable()); each mutating Backend method of s3bolt calls Update exactly once and returns its error; no NoSync/NoGrowSync/NoFreelistSync is set and bolt.Open gets nil options")
	n := 0
	var helperOK func(fn *ssa.Function, depth int) bool
	helperOK = func(fn *ssa.Function, depth int) bool {
		if depth > 4 {
			return false
		}
		if inTxClosure(r, fn, true) {
			return true
		}
		callers := r.P.StaticCallers(fn)
		if len(callers) == 0 {
			return false
		}
		for _, c := range callers {
			if !helperOK(c.Parent(), depth+1) {
				return false
			}
		}
		return true
	}
	for _, fn := range r.P.FuncsOfPkg("s3bolt") {
		f := fn
		core.Instrs(fn, func(in ssa.Instruction) {
			c, ok := in.(ssa.CallInstruction)
			if !ok || !boltMutators[r.P.CalleeName(c)] {
				return
			}
			n++
			okTx := helperOK(f, 0)
			if !okTx && fname(r, f) == "s3bolt.(*Backend).metaBucket" {
				// guarded by tx.Writable()
				for _, g := range core.GuardsOf(in) {
					if cc, isC := core.CondOf(g.If.Cond).X.(*ssa.Call); isC && r.P.CalleeName(cc) == "(*go.etcd.io/bbolt.Tx).Writable" && g.Branch {
						okTx = true
					}
				}
			}
			r.Check(okTx, "R15.1", key(fname(r, f), strings.TrimPrefix(r.P.CalleeName(c), "(*go.etcd.io/bbolt."), sprintf("#%d", n)), pos(r, in),
				"inside an Update transaction", "a bolt mutation is performed outside a (*bolt.DB).Update closure: it is not atomic with the rest of the operation and not committed (fsynced) as one unit")
		})
	}
	r.Floor("R15.1", 8, "bolt mutator sites")
	for _, m := range []string{"CreateBucket", "DeleteBucket", "ForceDeleteBucket", "PutObject", "DeleteObject", "DeleteMulti"} {
		fn := implMethod(r, "s3bolt.(*Backend)", m)
		if fn == nil {
			continue
		}
		ups := r.P.CallsIn(fn, false, core.NameIs("(*go.etcd.io/bbolt.DB).Update"))
		okOne := len(ups) == 1
		okErr := false
		if okOne {
			up := ups[0].(*ssa.Call)
			for _, ev := range returnedErrors(fn) {
				s := r.P.SliceOf(ev, core.SliceOpts{Depth: -1, StopAt: func(v ssa.Value) bool { return v == ssa.Value(up) }})
				if s.HasValue(up) {
					okErr = true
				}
			}
			// no success return bypasses it
			for ret, ev := range returnedErrors(fn) {
				if definitelyNil(r, ev) && !core.Reaches(up, ret) {
					okErr = false
				}
			}
		}
		r.Check(okOne && okErr, "R15.1", key(fname(r, fn), "one Update, error returned"), r.P.Pos(fn.Pos()), "exactly one transaction whose commit error is returned", "the operation does not run in exactly one Update transaction whose error (commit failure) is returned to the caller")
	}
	// no-sync options
	bad := ""
	for _, fn := range r.P.RepoFuncs() {
		core.Instrs(fn, func(in ssa.Instruction) {
			switch x := in.(type) {
			case *ssa.Store:
				if fa, ok := x.Addr.(*ssa.FieldAddr); ok {
					fnm := r.P.FieldName(fa)
					if strings.HasSuffix(fnm, "bbolt.DB.NoSync") || strings.HasSuffix(fnm, "bbolt.DB.NoGrowSync") || strings.HasSuffix(fnm, "bbolt.DB.NoFreelistSync") || strings.HasSuffix(fnm, "bbolt.Options.NoSync") || strings.HasSuffix(fnm, "bbolt.Options.NoGrowSync") || strings.HasSuffix(fnm, "bbolt.Options.NoFreelistSync") {
						bad = fnm + " at " + pos(r, x)
					}
				}
			case *ssa.Call:
				if r.P.CalleeName(x) == "go.etcd.io/bbolt.Open" {
					if !core.IsNilConst(x.Call.Args[2]) {
						s := r.P.SliceOf(x.Call.Args[2], core.SliceOpts{Depth: -1})
						if s.HasPrefix("alloc:") {
							// options literal: checked by the field-store scan above
						} else {
							bad = "bolt.Open with non-literal options at " + pos(r, x)
						}
					}
				}
			}
		})
	}
	r.Check(bad == "", "R15.1", key("s3bolt", "sync options"), "", "bolt runs with its default fsync-on-commit", "a bolt no-sync option is set ("+bad+"): an acknowledged write can be lost on a crash")
}

type schemaType struct {
	short, name string
	marshal     []string // encoder callee names
	unmarshal   []string
}

func rule152(r *core.Run) {
	r.Rule("R15.2", "for boltObject, boltBucket and s3afero.Metadata: every field read from a decoded record is set at every encoding site; every field is exported, untagged-out and of a serialisable type")
	for _, st := range []struct{ short, name string }{{"s3bolt", "boltObject"}, {"s3bolt", "boltBucket"}, {"s3afero", "Metadata"}} {
		nt := r.P.NamedType(st.short, st.name)
		if nt == nil {
			r.Unresolved("R15.2: type %s.%s not found", st.short, st.name)
			continue
		}
		str := nt.Underlying().(*types.Struct)
		tname := st.short + "." + st.name
		// fields: exported, no "-" tag
		for i := 0; i < str.NumFields(); i++ {
			f := str.Field(i)
			tag := str.Tag(i)
			okF := f.Exported() && !strings.Contains(tag, `:"-"`)
			switch f.Type().Underlying().(type) {
			case *types.Chan, *types.Signature, *types.Interface:
				okF = false
			}
			r.Check(okF, "R15.2", key(tname, "field serialisable", f.Name()), r.P.Pos(f.Pos()), "exported, encodable", "field "+f.Name()+" of the persisted record "+tname+" is not encoded (unexported, tagged out or of an unencodable type): it is lost on restart")
		}
		// fields written at each encoding site: composite literals (fresh allocs) of the type that flow to Marshal / saveMeta
		written := map[string]int{}
		sites := 0
		for _, fn := range r.P.FuncsOfPkg(st.short) {
			core.Instrs(fn, func(in ssa.Instruction) {
				a, ok := in.(*ssa.Alloc)
				if !ok || !isNamed(r, a.Type(), st.short, st.name) {
					return
				}
				// is it encoded? (passed to bson/json Marshal or saveMeta, directly or boxed)
				enc := false
				var walk func(v ssa.Value, d int)
				walk = func(v ssa.Value, d int) {
					if d > 5 || enc {
						return
					}
					if v.Referrers() == nil {
						return
					}
					for _, ref := range *v.Referrers() {
						switch x := ref.(type) {
						case *ssa.MakeInterface:
							walk(x, d+1)
						case *ssa.Phi:
							walk(x, d+1)
						case *ssa.Store:
							// kept in a local variable, possibly one captured by a transaction closure
							if cell, ok := x.Addr.(*ssa.Alloc); ok && x.Val == v {
								for _, cr := range *cell.Referrers() {
									switch y := cr.(type) {
									case *ssa.UnOp:
										walk(y, d+1)
									case *ssa.MakeClosure:
										cf, _ := y.Fn.(*ssa.Function)
										for bi, b := range y.Bindings {
											if b == ssa.Value(cell) && cf != nil && bi < len(cf.FreeVars) {
												for _, fr := range *cf.FreeVars[bi].Referrers() {
													if ld, ok := fr.(*ssa.UnOp); ok {
														walk(ld, d+1)
													}
												}
											}
										}
									}
								}
							}
						case *ssa.MakeClosure:
							// captured directly (by value)
							cf, _ := x.Fn.(*ssa.Function)
							for bi, b := range x.Bindings {
								if b == v && cf != nil && bi < len(cf.FreeVars) {
									walk(cf.FreeVars[bi], d+1)
								}
							}
						case ssa.CallInstruction:
							n := r.P.CalleeName(x)
							if n == "gopkg.in/mgo.v2/bson.Marshal" || n == "encoding/json.Marshal" || n == "s3afero.(*metaStore).saveMeta" {
								enc = true
							}
						case *ssa.Return:
							// ensureMeta returns a Metadata that is not persisted: not an encoding site
						}
					}
				}
				walk(a, 0)
				if !enc {
					return
				}
				sites++
				set := map[string]bool{}
				if decodedInto(r, a) {
					// decoded and re-encoded: every field the decoder filled is present
					for i := 0; i < str.NumFields(); i++ {
						set[str.Field(i).Name()] = true
					}
				}
				for _, ref := range *a.Referrers() {
					if fa, ok := ref.(*ssa.FieldAddr); ok {
						for _, u := range *fa.Referrers() {
							if _, isSt := u.(*ssa.Store); isSt {
								set[str.Field(fa.Field).Name()] = true
							}
						}
					}
				}
				for f := range set {
					written[f]++
				}
			})
		}
		// loadMeta re-saves the decoded record itself (all fields present by construction): count as a site writing what it updated plus what it read
		if sites == 0 {
			r.Violated("R15.2", key(tname, "encoding sites"), "", "no encoding site of the persisted record "+tname+" found")
			continue
		}
		// fields read from decoded records
		read := map[string]string{}
		for i := 0; i < str.NumFields(); i++ {
			fnm := tname + "." + str.Field(i).Name()
			for _, ld := range r.P.FieldLoads(fnm) {
				in := ld.(ssa.Instruction)
				// loads from a literal under construction do not count
				if u, ok := ld.(*ssa.UnOp); ok {
					if fa, ok := u.X.(*ssa.FieldAddr); ok {
						if _, fresh := fa.X.(*ssa.Alloc); fresh && !decodedInto(r, fa.X.(*ssa.Alloc)) {
							continue
						}
					}
				}
				read[str.Field(i).Name()] = pos(r, in)
			}
		}
		for f, where := range read {
			r.Check(written[f] == sites, "R15.2", key(tname, "read field is always written", f), where, sprintf("written at all %d encoding site(s)", sites),
				sprintf("field %s of %s is read after decoding but written at only %d of %d encoding sites: after a restart it reads as zero", f, tname, written[f], sites))
		}
	}
	r.Floor("R15.2", 12, "schema obligations")
}

// decodedInto: the local record is the target of an Unmarshal.
func decodedInto(r *core.Run, a *ssa.Alloc) bool {
	for _, ref := range *a.Referrers() {
		switch x := ref.(type) {
		case *ssa.MakeInterface:
			for _, u := range *x.Referrers() {
				if c, ok := u.(ssa.CallInstruction); ok && strings.HasSuffix(r.P.CalleeName(c), ".Unmarshal") {
					return true
				}
			}
		case ssa.CallInstruction:
			if strings.HasSuffix(r.P.CalleeName(x), ".Unmarshal") {
				return true
			}
		}
	}
	return false
}

func rule153(r *core.Run) {
	r.Rule("R15.3", "every value stored into Metadata.Hash derives from an MD5 over the upload stream (PutObject's input) or over a file opened on an object filesystem (MultiBucketBackend.bucketFs / SingleBucketBackend.fs) — never over a file of the metadata filesystem (metaStore.fs)")
	n := 0
	for _, st := range r.P.FieldStores("s3afero.Metadata.Hash") {
		n++
		fn := st.Parent()
		s := r.P.SliceOf(st.Val, core.SliceOpts{Depth: 3, BindParams: false})
		name := fname(r, fn)
		k := key(name, "Metadata.Hash source", sprintf("#%d", n))
		fromMeta := s.Has("field:s3afero.metaStore.fs")
		fromObj := s.Has("field:s3afero.MultiBucketBackend.bucketFs") || s.Has("field:s3afero.SingleBucketBackend.fs") || s.HasPrefix("param:s3afero.(*MultiBucketBackend).PutObject.input") || s.HasPrefix("param:s3afero.(*SingleBucketBackend).PutObject.input")
		switch {
		case fromMeta:
			r.Violated("R15.3", key(name, "Metadata.Hash source"), pos(r, st), "the object hash is recomputed from a file of the METADATA filesystem (hashFile(ms.fs, metaPath)): when the metadata record is missing or stale (e.g. the process was killed between writing the object and its metadata, or the object changed on disk) LIST/GET answer with a wrong ETag or 500 instead of re-hashing the object")
		case fromObj && s.Has("call:crypto/md5.New"):
			r.Held("R15.3", k, pos(r, st), "MD5 over the object's bytes")
		default:
			r.Violated("R15.3", k, pos(r, st), "Metadata.Hash does not derive from an MD5 over the object's bytes")
		}
	}
	r.Floor("R15.3", 3, "Metadata.Hash stores")
}

func rule155(r *core.Run) {
	r.Rule("R15.5", "in cmd/gofakes3 each -backend arm builds its backend from its own path flags: bolt ← bolt.db; fs ← FsPath(fs.path) (+ fs.meta); directfs ← FsPath(directfs.path), directfs.bucket (+ directfs.meta); the constructed backend is what gofakes3.New receives")
	fn := mustFunc(r, "cmd.run")
	if fn == nil {
		return
	}
	type w struct {
		ctor   string
		fields []string
	}
	for _, x := range []w{
		{"s3bolt.NewFile", []string{"cmd.fakeS3Flags.boltDb"}},
		{"s3afero.MultiBucket", []string{"cmd.fakeS3Flags.fsPath"}},
		{"s3afero.SingleBucket", []string{"cmd.fakeS3Flags.directFsPath", "cmd.fakeS3Flags.directFsBucket"}},
	} {
		var call *ssa.Call
		for _, cf := range r.P.FuncsOfPkg("cmd") {
			core.Instrs(cf, func(in ssa.Instruction) {
				if c, ok := in.(*ssa.Call); ok && r.P.CalleeName(c) == x.ctor {
					call = c
				}
			})
		}
		if call == nil {
			r.Violated("R15.5", key("cmd.run", x.ctor), r.P.Pos(fn.Pos()), "the command no longer constructs "+x.ctor)
			continue
		}
		s := r.P.SliceOfMany(call.Call.Args, core.SliceOpts{Depth: 3, BindParams: true})
		ok := true
		for _, f := range x.fields {
			if !s.Has("field:" + f) {
				ok = false
			}
		}
		r.Check(ok, "R15.5", key("cmd.run", x.ctor), pos(r, call), "constructed from "+strings.Join(x.fields, ", "), x.ctor+" is not given the values of its own flags ("+strings.Join(x.fields, ", ")+"): the data is written somewhere else than configured and not found after a restart")
	}
	// optional metadata paths
	for ctor, f := range map[string]string{"s3afero.MultiWithMetaFs": "cmd.fakeS3Flags.fsMeta", "s3afero.SingleBucket": "cmd.fakeS3Flags.directFsMeta"} {
		for _, cf := range r.P.FuncsOfPkg("cmd") {
			core.Instrs(cf, func(in ssa.Instruction) {
				if c, ok := in.(*ssa.Call); ok && r.P.CalleeName(c) == ctor {
					s := r.P.SliceOfMany(c.Call.Args, core.SliceOpts{Depth: 3, BindParams: true})
					r.Check(s.Has("field:"+f), "R15.5", key("cmd.run", ctor, "meta"), pos(r, c), "metadata filesystem from "+f, ctor+" does not receive the metadata path flag "+f)
				}
			})
		}
	}
	// the backend reaches gofakes3.New
	ok := false
	core.Instrs(fn, func(in ssa.Instruction) {
		if c, isC := in.(*ssa.Call); isC && r.P.CalleeName(c) == "gofakes3.New" {
			s := r.P.SliceOf(c.Call.Args[0], core.SliceOpts{Depth: 3})
			has := func(n string) bool { return s.Has("call:"+n) || s.Has("via:"+n) }
			if has("s3bolt.NewFile") && has("s3afero.MultiBucket") && has("s3afero.SingleBucket") && has("s3mem.New") {
				ok = true
			}
		}
	})
	r.Check(ok, "R15.5", key("cmd.run", "backend → gofakes3.New"), r.P.Pos(fn.Pos()), "the selected backend serves the requests", "gofakes3.New does not receive the backend selected by -backend")
	// NewFile opens the named file
	if nf := mustFunc(r, "s3bolt.NewFile"); nf != nil {
		okf := false
		core.Instrs(nf, func(in ssa.Instruction) {
			if c, isC := in.(*ssa.Call); isC && r.P.CalleeName(c) == "go.etcd.io/bbolt.Open" && c.Call.Args[0] == ssa.Value(nf.Params[0]) {
				okf = true
			}
		})
		r.Check(okf, "R15.5", key(fname(r, nf), "opens the named file"), r.P.Pos(nf.Pos()), "bolt.Open(file, …)", "NewFile does not open the file it is given")
	}
}

func rule156(r *core.Run) {
	r.Rule("R15.6", "fs PutObject returns success only after saveMeta succeeded and the object file was closed (close error checked); fs DeleteObject removes the metadata record as well; bolt operations return the transaction's error (R15.1)")
	for _, impl := range []string{"s3afero.(*MultiBucketBackend)", "s3afero.(*SingleBucketBackend)"} {
		fn := implMethod(r, impl, "PutObject")
		if fn == nil {
			continue
		}
		var saves, closes []*ssa.Call
		core.Instrs(fn, func(in ssa.Instruction) {
			if c, ok := in.(*ssa.Call); ok {
				switch r.P.CalleeName(c) {
				case "s3afero.(*metaStore).saveMeta":
					saves = append(saves, c)
				case "invoke:github.com/spf13/afero.File.Close":
					closes = append(closes, c)
				}
			}
		})
		ok := len(saves) > 0 && len(closes) > 0 && successOnlyAfter(r, fn, saves, closes)
		r.Check(ok, "R15.6", key(fname(r, fn), "ack after close + saveMeta"), r.P.Pos(fn.Pos()), "success only after the file was closed and the metadata saved", "PutObject can acknowledge before the object file was closed or its metadata record saved (or ignores their errors)")
		del := mustFunc(r, impl+".deleteObjectLocked")
		if del != nil {
			dm := r.P.CallsIn(del, false, core.NameIs("s3afero.(*metaStore).deleteMeta"))
			okd := len(dm) == 1
			if okd {
				c := dm[0].(*ssa.Call)
				s := r.P.SliceOf(c.Call.Args[1], core.SliceOpts{Depth: -1})
				okd = s.Has("call:s3afero.(*metaStore).metaPath") && s.HasValue(paramNamed(del, "objectName")) && s.HasValue(paramNamed(del, "bucketName"))
				// a success before the object file was removed (the path is a directory, not a key) removed nothing
				var rm ssa.Instruction
				for _, rc := range r.P.CallsIn(del, false, core.NameIs("invoke:github.com/spf13/afero.Fs.Remove")) {
					if rm == nil {
						rm = rc.(ssa.Instruction)
					}
				}
				for ret, ev := range returnedErrors(del) {
					if rm != nil && !core.Reaches(rm, ret) {
						continue
					}
					if definitelyNil(r, ev) && !core.CheckedBefore(c, ret) {
						okd = false
					}
				}
			}
			r.Check(okd, "R15.6", key(fname(r, del), "metadata record removed with the object"), r.P.Pos(del.Pos()), "deleteMeta(metaPath(bucket, key)) checked", "deleting an object does not (reliably) remove its metadata record: a later object under the same key can pick up stale metadata after restart")
		}
	}
	// saveMeta writes the encoded record to the path it is given
	if sm := mustFunc(r, "s3afero.(*metaStore).saveMeta"); sm != nil {
		ok := false
		core.Instrs(sm, func(in ssa.Instruction) {
			if c, isC := in.(*ssa.Call); isC && r.P.CalleeName(c) == "github.com/spf13/afero.WriteFile" {
				ps := r.P.SliceOf(c.Call.Args[1], core.SliceOpts{Depth: -1})
				ds := r.P.SliceOf(c.Call.Args[2], core.SliceOpts{Depth: -1})
				fs := r.P.SliceOf(c.Call.Args[0], core.SliceOpts{Depth: -1})
				if ps.HasValue(sm.Params[1]) && ds.Has("call:encoding/json.Marshal") && ds.HasValue(sm.Params[2]) && fs.Has("field:s3afero.metaStore.fs") {
					ok = true
				}
			}
		})
		r.Check(ok, "R15.6", key(fname(r, sm), "writes json(meta) to its path on the metadata fs"), r.P.Pos(sm.Pos()), "WriteFile(ms.fs, path, json(meta))", "saveMeta does not write the encoded record to the given path on the metadata filesystem")
	}
	if lm := mustFunc(r, "s3afero.(*metaStore).loadMeta"); lm != nil {
		okp := false
		core.Instrs(lm, func(in ssa.Instruction) {
			if c, isC := in.(*ssa.Call); isC && r.P.CalleeName(c) == "github.com/spf13/afero.ReadFile" {
				ps := r.P.SliceOf(c.Call.Args[1], core.SliceOpts{Depth: -1})
				if ps.Has("call:s3afero.(*metaStore).metaPath") && ps.HasValue(lm.Params[1]) && ps.HasValue(lm.Params[2]) {
					okp = true
				}
			}
		})
		r.Check(okp, "R15.6", key(fname(r, lm), "reads the record saved for (bucket, key)"), r.P.Pos(lm.Pos()), "ReadFile(metaPath(bucket, object))", "loadMeta does not read the record from metaPath(bucket, object): saved metadata is not found again")
	}
}

// rule157 — persistent backends answer from, and name their records by, what is persistent.
func rule157(r *core.Run) {
	r.Rule("R15.7", "every exported s3bolt.Backend method returns success only after a bolt transaction ran (its answer comes from the file, not from process memory); metaStore.metaPath is a deterministic function of (bucket, key): no per-instance or per-process input (maphash seed, random, time, pid, instance fields); in the command a metadata path flag is used under a test of that same flag")
	for _, fn := range r.P.FuncsOfPkg("s3bolt") {
		n := fname(r, fn)
		if !strings.HasPrefix(n, "s3bolt.(*Backend).") || fn.Parent() != nil || !isExportedName(fn.Name()) {
			continue
		}
		if fn.Name() == "CopyObject" {
			continue // delegates to GetObject/PutObject through gofakes3.CopyObject
		}
		var txs []ssa.Instruction
		for _, f := range reachableList(r, fn) {
			if f != fn && !strings.HasPrefix(fname(r, f), "s3bolt.") {
				continue
			}
			core.Instrs(f, func(in ssa.Instruction) {
				if c, ok := in.(ssa.CallInstruction); ok {
					cn := r.P.CalleeName(c)
					if f == fn && (cn == "(*go.etcd.io/bbolt.DB).View" || cn == "(*go.etcd.io/bbolt.DB).Update" || strings.HasPrefix(cn, "s3bolt.(*Backend).")) {
						txs = append(txs, in)
					}
				}
			})
		}
		ok := len(txs) > 0
		k := 0
		for ret, ev := range returnedErrors(fn) {
			if !definitelyNil(r, ev) {
				continue
			}
			k++
			if core.ReachableFromEntryAvoiding(ret, func(in ssa.Instruction) bool {
				for _, t := range txs {
					if in == t {
						return true
					}
				}
				return false
			}) {
				ok = false
			}
		}
		// methods whose error is the transaction's own (return x, db.bolt.Update(...)) have no definitely-nil return
		if k == 0 && len(txs) > 0 {
			ok = true
		}
		r.Check(ok, "R15.7", key(n, "answers from the bolt file"), r.P.Pos(fn.Pos()), "success only after a bolt transaction", "the method can answer successfully without consulting the bolt file (from process memory): after a restart on the same file the answer differs")
	}
	if mp := mustFunc(r, "s3afero.(*metaStore).metaPath"); mp != nil {
		var rets []ssa.Value
		for _, ret := range core.Returns(mp) {
			rets = append(rets, ret.Results...)
		}
		s := r.P.SliceOfMany(rets, core.SliceOpts{Depth: -1})
		bad := ""
		for l := range s.Leaves {
			switch {
			case strings.HasPrefix(l, "call:hash/maphash"), strings.HasPrefix(l, "feeds:(*hash/maphash"), strings.HasPrefix(l, "call:(*hash/maphash"), strings.Contains(l, "math/rand"), strings.Contains(l, "crypto/rand"), strings.Contains(l, "time.Now"), strings.Contains(l, "os.Getpid"), strings.Contains(l, "os.Hostname"):
				bad = l
			case strings.HasPrefix(l, "field:s3afero.metaStore."):
				bad = l + " (instance state)"
			}
		}
		detHash := s.Has("call:hash/fnv.New128a") || s.Has("call:hash/fnv.New64a") || s.Has("call:crypto/md5.New") || s.Has("call:crypto/sha256.New") || s.Has("call:crypto/md5.Sum") || s.Has("call:crypto/sha256.Sum256") || s.Has("call:crypto/sha1.New") || s.Has("call:hash/fnv.New128") || s.Has("call:hash/fnv.New64") || s.Has("call:hash/fnv.New32a")
		r.Check(bad == "" && detHash, "R15.7", key(fname(r, mp), "record name is deterministic"), r.P.Pos(mp.Pos()), "name = f(bucket, key) with a fixed hash function", "the metadata record name depends on something other than (bucket, key) and a fixed hash function ("+bad+"): a new process over the same directories cannot find the records written by the previous one")
	}
	if mustFunc(r, "cmd.run") != nil {
		r.Rule("R15.9", "in the command, a metadata path flag that was given is always used: the FsPath call on it is guarded by nothing but its own presence test, the -backend selection and earlier error checks (a heuristic that sometimes ignores the flag leaves metadata in process memory)")
		n := 0
		for _, run := range r.P.FuncsOfPkg("cmd") {
			run := run
			core.Instrs(run, func(in ssa.Instruction) {
				c, ok := in.(*ssa.Call)
				if !ok || r.P.CalleeName(c) != "s3afero.FsPath" {
					return
				}
				as := r.P.SliceOf(c.Call.Args[0], core.SliceOpts{Depth: -1})
				var used []string
				for _, l := range as.LeafList("field:cmd.fakeS3Flags.") {
					used = append(used, l)
				}
				if len(used) != 1 {
					return
				}
				n++
				bad := ""
				for _, g := range core.GuardsOf(c) {
					// only presence tests of a string flag (flag ==/!= "") are considered
					cd := core.CondOf(g.If.Cond)
					if cd.Op != token.EQL && cd.Op != token.NEQ {
						continue
					}
					var fv ssa.Value
					if k, ok := cd.Y.(*ssa.Const); ok && k.Value != nil && k.Value.Kind() == constant.String && constant.StringVal(k.Value) == "" {
						fv = cd.X
					} else if k, ok := cd.X.(*ssa.Const); ok && k.Value != nil && k.Value.Kind() == constant.String && constant.StringVal(k.Value) == "" {
						fv = cd.Y
					}
					if fv == nil {
						continue
					}
					gs := r.P.SliceOf(fv, core.SliceOpts{Depth: -1})
					for _, l := range gs.LeafList("field:cmd.fakeS3Flags.") {
						if l != used[0] && (strings.HasSuffix(l, "Meta") || strings.HasSuffix(l, "Path") || strings.HasSuffix(l, "Db")) {
							bad = l
						}
					}
				}
				r.Check(bad == "", "R15.7", key("cmd.run", "flag guarded by itself", strings.TrimPrefix(used[0], "field:cmd.fakeS3Flags.")), pos(r, c), "path flag used under a test of the same flag", "the path flag "+used[0]+" is used under a test of a different flag ("+bad+"): the option is silently ignored and the data does not go where it was configured")
				// a metadata path that was given is honoured: assuming every presence test of the flag says
				// "given", no backend constructor is reachable without having passed this FsPath call
				if strings.HasSuffix(used[0], "Meta") {
					assume := map[ssa.Value]bool{}
					core.Instrs(run, func(x ssa.Instruction) {
						b, ok := x.(*ssa.BinOp)
						if !ok || (b.Op != token.EQL && b.Op != token.NEQ) || !isConstString(b.X, b.Y) {
							return
						}
						k, _ := core.ConstString(b.Y)
						other := b.X
						if _, isK := b.X.(*ssa.Const); isK {
							k, _ = core.ConstString(b.X)
							other = b.Y
						}
						if k != "" || !r.P.SliceOf(other, core.SliceOpts{Depth: -1}).Has(used[0]) {
							return
						}
						assume[b] = b.Op == token.NEQ
					})
					ctor := "s3afero.MultiBucket"
					if strings.Contains(used[0], "direct") {
						ctor = "s3afero.SingleBucket"
					}
					skipped := ""
					core.Instrs(run, func(x ssa.Instruction) {
						cc, ok := x.(*ssa.Call)
						if !ok || r.P.CalleeName(cc) != ctor {
							return
						}
						if core.ReachableFromEntryAssumingAvoiding(cc, assume, func(y ssa.Instruction) bool { return y == ssa.Instruction(c) }) {
							skipped = pos(r, cc)
						}
					})
					r.Check(skipped == "" && len(assume) > 0, "R15.9", key("cmd.run", "metadata path honoured whenever given", strings.TrimPrefix(used[0], "field:cmd.fakeS3Flags.")), pos(r, c), sprintf("with the flag given, %s is reached only through FsPath(flag)", ctor),
						"with "+used[0]+" given, the backend can still be constructed (at "+skipped+") without the metadata filesystem having been opened from it: under some further condition the flag is ignored, metadata stays in process memory and is gone after a restart")
				}
			})
		}
		if n < 4 {
			r.Unresolved("R15.7: %d FsPath(flag) calls in the command (expected 4)", n)
		}
	}
}

// rule158 — restart neither destroys nor forgets.
func rule158(r *core.Run) {
	r.Rule("R15.8", "no destructive storage call (Fs.Remove/RemoveAll/Rename, bolt DeleteBucket/Delete) is reachable from the constructors of the persistent backends (opening a store on existing data removes nothing — not even 'leftover' empty directories, which are what an empty bucket is); the GoFakeS3 front end keeps no per-object state: its fields are written only during construction (requestID aside) and the ETag header of GET/HEAD derives from the returned object's Hash alone")
	ctors := []string{"s3afero.MultiBucket", "s3afero.SingleBucket", "s3bolt.New", "s3bolt.NewFile", "s3afero.newMetaStore"}
	var roots []*ssa.Function
	for _, c := range ctors {
		if f := optFunc(r, c); f != nil {
			roots = append(roots, f)
		}
	}
	if len(roots) < 4 {
		r.Unresolved("R15.8: only %d of the persistent backends' constructors found", len(roots))
	}
	n := 0
	for f := range reachableFrom(r, roots) {
		if !r.P.IsRepo(f) {
			continue
		}
		ff := f
		core.Instrs(ff, func(in ssa.Instruction) {
			c, ok := in.(ssa.CallInstruction)
			if !ok {
				return
			}
			cn := r.P.CalleeName(c)
			destructive := strings.HasSuffix(cn, "afero.Fs.Remove") || strings.HasSuffix(cn, "afero.Fs.RemoveAll") || strings.HasSuffix(cn, "afero.Fs.Rename") ||
				cn == "(*go.etcd.io/bbolt.Tx).DeleteBucket" || cn == "(*go.etcd.io/bbolt.Bucket).Delete" || cn == "(*go.etcd.io/bbolt.Bucket).DeleteBucket" ||
				cn == "github.com/spf13/afero.Walk" && false
			if !destructive {
				return
			}
			if args := c.Common().Args; len(args) > 0 {
				if constName(args[0]) || createdExclusivelyHere(r, ff, args[0]) {
					return // a scratch file the function made itself (modtime probe)
				}
			}
			n++
			r.Violated("R15.8", key(fname(r, ff), "constructor removes stored state", cn, sprintf("#%d", n)), pos(r, in), "a destructive storage call ("+cn+") is reachable from a backend constructor: reopening existing storage can remove buckets or objects that were acknowledged before the restart")
		})
	}
	r.Held("R15.8", key("constructors", "no destructive call"), "", sprintf("%d constructor roots, destructive calls found: %d", len(roots), n))
	// front end: no state of its own
	nStores := 0
	for _, f := range r.P.FuncsOfPkg("gofakes3") {
		ff := f
		core.Instrs(ff, func(in ssa.Instruction) {
			switch x := in.(type) {
			case *ssa.Store:
				fa, ok := x.Addr.(*ssa.FieldAddr)
				if !ok || !strings.HasPrefix(r.P.FieldName(fa), "gofakes3.GoFakeS3.") {
					return
				}
				nStores++
				okS := baseRoot(fa.X) != nil || isConstruction(r, ff)
				r.Check(okS, "R15.8", key(fname(r, ff), "front end field written", r.P.FieldName(fa)), pos(r, in), "written during construction", "a field of GoFakeS3 is written while serving: the front end keeps state that a restart loses")
			case *ssa.MapUpdate:
				// the map's identity (where it lives), not what its size or contents derive from
				if strings.HasPrefix(containerOwner(r, x.Map, 0), "gofakes3.GoFakeS3.") {
					nStores++
					r.Violated("R15.8", key(fname(r, ff), "front end map updated"), pos(r, in), "a map held by GoFakeS3 is updated while serving: what it remembers (e.g. an ETag) is gone after a restart and the same object is then answered differently")
				}
			}
		})
	}
	if w := optFunc(r, "gofakes3.(*GoFakeS3).writeGetOrHeadObjectResponse"); w != nil {
		core.Instrs(w, func(in ssa.Instruction) {
			c, ok := in.(*ssa.Call)
			if !ok || r.P.CalleeName(c) != "(net/http.Header).Set" {
				return
			}
			if nme, ok := core.ConstString(c.Call.Args[1]); !ok || nme != "ETag" {
				return
			}
			vs := r.P.SliceOf(c.Call.Args[2], core.SliceOpts{Depth: 0})
			bad := ""
			for _, l := range vs.LeafList("") {
				switch {
				case l == "field:gofakes3.Object.Hash", strings.HasPrefix(l, "const:"), l == "call:encoding/hex.EncodeToString", l == "via:encoding/hex.EncodeToString", strings.HasPrefix(l, "op:"):
				case strings.HasPrefix(l, "param:"):
					for _, v := range vs.LeafVals[l] {
						if !strings.HasSuffix(v.Type().String(), "gofakes3.Object") {
							bad += " " + l
						}
					}
				default:
					bad += " " + l
				}
			}
			r.Check(bad == "" && vs.Has("field:gofakes3.Object.Hash"), "R15.8", key(fname(r, w), "ETag from the stored object only"), pos(r, c), "ETag = f(obj.Hash)", "the ETag header depends on something besides the stored object's Hash ("+strings.TrimSpace(bad)+"): state the backend did not store, which differs after a restart")
		})
	}
	if nStores < 5 {
		r.Unresolved("R15.8: only %d stores to GoFakeS3 fields found (expected the constructor's)", nStores)
	}
}

// constName: the value is a string constant, or a load of a local variable
// that is only ever assigned string constants.
func constName(v ssa.Value) bool {
	if _, ok := core.ConstString(v); ok {
		return true
	}
	u, ok := v.(*ssa.UnOp)
	if !ok || u.Op != token.MUL {
		return false
	}
	a, ok := u.X.(*ssa.Alloc)
	if !ok {
		return false
	}
	n := 0
	for _, ref := range *a.Referrers() {
		switch x := ref.(type) {
		case *ssa.Store:
			if x.Addr != a {
				return false
			}
			if _, ok := core.ConstString(x.Val); !ok {
				return false
			}
			n++
		case *ssa.UnOp, *ssa.MakeClosure, *ssa.DebugRef:
		default:
			return false
		}
	}
	return n > 0
}

// createdExclusivelyHere: the path value names a file that this very function
// created with O_CREATE|O_EXCL (so it existed for no one else).
func createdExclusivelyHere(r *core.Run, fn *ssa.Function, path ssa.Value) bool {
	const oCREATE, oEXCL = 0x40, 0x80
	varOf := func(v ssa.Value) ssa.Value {
		if u, ok := v.(*ssa.UnOp); ok && u.Op == token.MUL {
			return u.X
		}
		return v
	}
	want := varOf(path)
	found := false
	core.Instrs(fn, func(in ssa.Instruction) {
		c, ok := in.(ssa.CallInstruction)
		if !ok || r.P.CalleeName(c) != "invoke:github.com/spf13/afero.Fs.OpenFile" {
			return
		}
		args := c.Common().Args
		fl, ok := core.ConstInt(args[1])
		if !ok || fl&oEXCL == 0 || fl&oCREATE == 0 {
			return
		}
		if varOf(args[0]) == want {
			found = true
		}
	})
	return found
}

// isConstString: one of the two operands is a string constant.
func isConstString(a, b ssa.Value) bool {
	for _, v := range []ssa.Value{a, b} {
		if k, ok := v.(*ssa.Const); ok && k.Value != nil && k.Value.Kind() == constant.String {
			return true
		}
	}
	return false
}

// rule1510 — a bucket's metadata is discarded only together with the bucket.
func rule1510(r *core.Run) {
	r.Rule("R15.10", "metaStore.deleteBucket (which removes every metadata record of a bucket) is called only by the fs backends' DeleteBucket / ForceDeleteBucket, and there only after the removal of the bucket directory itself (RemoveAll/Remove of the bucket name on the bucket filesystem) on every path: no other operation — in particular none that can still be refused — discards the records of live objects")
	df := mustFunc(r, "s3afero.(*metaStore).deleteBucket")
	if df == nil {
		return
	}
	n := 0
	for _, fn := range r.P.FuncsOfPkg("s3afero") {
		f := fn
		core.Instrs(f, func(in ssa.Instruction) {
			c, ok := in.(*ssa.Call)
			if !ok || core.StaticCallee(c) != df {
				return
			}
			n++
			name := fname(r, f)
			okOwner := strings.HasSuffix(name, ").DeleteBucket") || strings.HasSuffix(name, ").ForceDeleteBucket")
			r.Check(okOwner, "R15.10", key(name, "deleteBucket only from bucket deletion", sprintf("#%d", n)), pos(r, c), "called by a bucket-deleting operation",
				"the metadata records of a whole bucket are removed by "+name+", which is not a bucket deletion: the records of live objects are lost (every later read of them fails or re-derives different values)")
			if !okOwner || len(c.Call.Args) < 2 {
				return
			}
			// the bucket directory is removed first
			isRm := func(y ssa.Instruction) bool {
				cc, isCall := y.(ssa.CallInstruction)
				if !isCall {
					return false
				}
				cn := r.P.CalleeName(cc)
				if !strings.HasSuffix(cn, "afero.Fs.RemoveAll") && !strings.HasSuffix(cn, "afero.Fs.Remove") {
					return false
				}
				args := cc.Common().Args
				return len(args) >= 1 && (args[len(args)-1] == c.Call.Args[1] || sameValue(r, args[len(args)-1], c.Call.Args[1], 0))
			}
			r.Check(!core.ReachableFromEntryAvoiding(c, isRm), "R15.10", key(name, "bucket directory removed first", sprintf("#%d", n)), pos(r, c), "RemoveAll(bucket) precedes on every path",
				"the bucket's metadata records can be removed before (or without) the bucket directory itself: if the operation is then refused or fails, the bucket lives on without its records")
		})
	}
	r.Floor("R15.10", 2, "calls of metaStore.deleteBucket")
}

// rule1511 — an empty metadata record is "no record", not a decoding error.
func rule1511(r *core.Run) {
	r.Rule("R15.11", "metaStore.loadMeta decodes the record (json.Unmarshal) only where the bytes read were found non-empty: saveMeta writes with a truncating open, so a process killed inside it leaves a zero-length record — decoding that unconditionally turns every later read and listing that visits the key into an error, while treating it like a missing record re-derives it")
	fn := mustFunc(r, "s3afero.(*metaStore).loadMeta")
	if fn == nil {
		return
	}
	n := 0
	core.Instrs(fn, func(in ssa.Instruction) {
		c, ok := in.(*ssa.Call)
		if !ok || r.P.CalleeName(c) != "encoding/json.Unmarshal" {
			return
		}
		n++
		guarded := false
		for _, g := range core.GuardsOf(c) {
			if lc, zero, known := lenZeroFact(g); known && !zero {
				if call, isCall := lc.(*ssa.Call); isCall && len(call.Call.Args) == 1 && sameValue(r, core.Forward(call.Call.Args[0]), core.Forward(c.Call.Args[0]), 0) {
					guarded = true
				}
			}
		}
		r.Check(guarded, "R15.11", key(fname(r, fn), "decode only a non-empty record", sprintf("#%d", n)), pos(r, c), "json.Unmarshal under len(bytes) > 0",
			"the metadata record is decoded without a non-empty test of the bytes read: a zero-length record left by a killed write makes every read of the key (and every listing that visits it) fail after the restart")
	})
	if n == 0 {
		r.Unresolved("R15.11: loadMeta no longer decodes the record with json.Unmarshal")
	}
}
