package rules

import (
	"go/token"
	"go/types"
	"strings"

	"golang.org/x/tools/go/ssa"

	"gfs3check/internal/core"
	"gfs3check/internal/oblig"
)

func init() { Registry["C11"] = C11 }

// C11 — range reads return exactly the requested bytes or InvalidRange.
func C11(r *core.Run) {
	r.Explanation = "The safety envelope and the wiring of range reads, not the arithmetic exactness (an off-by-one in the computed length is invisible to these rules): " +
		"(R11.1) every non-nil result of ObjectRangeRequest.Range(size) is dominated by guards entailing 0 <= Start < size and 0 <= Length <= size-Start, and the subtraction used in those guards cannot wrap; " +
		"(R11.2) every backend slices/seeks/limits with exactly that result and the stored size, returns Range()'s error unchanged and reports the range in Object.Range; " +
		"(R11.3) Content-Range/Content-Length are written from that range and the object size, after the entity headers and before the body; " +
		"(R11.4) every parse failure of the Range header returns ErrInvalidRange, which maps to 416; " +
		"(R11.6) no body-returning read answers before Range() was consulted, and a function that receives a range request hands exactly that request to every callee that takes one (no path serves the whole object, or an unchecked range, for a ranged read). (R11.7) in the fs backends the file positioned at the range start is handed to nothing but the length-limiting wrapper before it becomes the body. (R11.8) with a range present the fs backends return the file only through the length-limiting wrapper. (R11.9) Object.Size is the size the range was validated against."
	r.NotDecided = "value exactness of start/length for in-range requests, whitespace variants, the multi-range answer (501 today)"
	ctx := oblig.NewCtx(r.P)
	rule111(r, ctx)
	rule115(r, ctx)
	rule112(r, ctx)
	rule113(r)
	rule114(r)
	rule116(r)
	rule117(r)
	rule118(r)
	rule119(r)
}

// rule111 checks the result envelope of Range(); returns true if it holds.
func rule111(r *core.Run, ctx *oblig.Ctx) bool {
	r.Rule("R11.1", "every returned &ObjectRange{Start:s, Length:l} is dominated by guards entailing 0<=s<size, 0<=l, l<=size-s (l is size-s itself, or on the false arm of l > size-s), and size-s is evaluated only where 0<=s<size (no wrap)")
	fn := mustFunc(r, "gofakes3.(*ObjectRangeRequest).Range")
	if fn == nil {
		return false
	}
	size := paramNamed(fn, "size")
	if size == nil && len(fn.Params) == 2 {
		size = fn.Params[1]
	}
	if size == nil {
		r.Unresolved("R11.1: Range has no size parameter")
		return false
	}
	all := true
	n := 0
	for _, ret := range core.Returns(fn) {
		if len(ret.Results) != 2 {
			continue
		}
		res := ret.Results[0]
		if core.IsNilConst(res) {
			continue
		}
		n++
		k := key(fname(r, fn), "return", sprintf("#%d", n))
		alloc, ok := res.(*ssa.Alloc)
		if !ok {
			r.Violated("R11.1", k, pos(r, ret), "returned *ObjectRange is not a freshly built literal: its fields cannot be related to the guards")
			all = false
			continue
		}
		var sv, lv ssa.Value
		var sst ssa.Instruction
		for _, ref := range *alloc.Referrers() {
			fa, ok := ref.(*ssa.FieldAddr)
			if !ok {
				continue
			}
			for _, u := range *fa.Referrers() {
				if st, ok := u.(*ssa.Store); ok && st.Addr == ssa.Value(fa) {
					switch r.P.FieldName(fa) {
					case "gofakes3.ObjectRange.Start":
						sv, sst = st.Val, st
					case "gofakes3.ObjectRange.Length":
						lv = st.Val
					}
				}
			}
		}
		if sv == nil || lv == nil {
			r.Violated("R11.1", k, pos(r, ret), "Start or Length of the returned range is not set")
			all = false
			continue
		}
		isSizeMinusS := func(v ssa.Value) *ssa.BinOp {
			b, ok := v.(*ssa.BinOp)
			if ok && b.Op == token.SUB && b.X == ssa.Value(size) && ctx.Equiv(b.Y, sv) {
				return b
			}
			return nil
		}
		wrapFree := func(b *ssa.BinOp) bool {
			lb, ok := ctx.LowerBound(b.Y, b)
			return ok && lb >= 0 && ctx.Holds(b, b.Y, token.LSS, size)
		}
		var problems []string
		if lb, ok := ctx.LowerBound(sv, sst); !ok || lb < 0 {
			problems = append(problems, "no dominating guard establishes Start >= 0")
		}
		if !ctx.Holds(sst, sv, token.LSS, size) {
			problems = append(problems, "no dominating guard establishes Start < size")
		}
		// Length: recursively through phis, each edge judged with the facts of its own path
		var lenProblems func(v ssa.Value, at ssa.Instruction, extra []oblig.Fact, d int) []string
		var direct func(v ssa.Value, at ssa.Instruction, extra []oblig.Fact) []string
		lenProblems = func(v ssa.Value, at ssa.Instruction, extra []oblig.Fact, d int) []string {
			if d > 4 {
				return []string{"Length is computed through too many merges to relate it to the guards"}
			}
			if b := isSizeMinusS(v); b != nil {
				if !wrapFree(b) {
					return []string{"Length = size-Start is computed where 0 <= Start < size is not established (may wrap)"}
				}
				return nil
			}
			if ph, ok := v.(*ssa.Phi); ok && len(direct(v, at, extra)) > 0 {
				var out []string
				for i, e := range ph.Edges {
					pred := ph.Block().Preds[i]
					term := pred.Instrs[len(pred.Instrs)-1]
					var ex []oblig.Fact
					if ef, ok := ctx.EdgeFact(pred, ph.Block()); ok {
						ex = append(ex, ef)
					}
					out = append(out, lenProblems(e, term, ex, d+1)...)
				}
				return out
			}
			return direct(v, at, extra)
		}
		direct = func(v ssa.Value, at ssa.Instruction, extra []oblig.Fact) []string {
			var out []string
			if lb, ok := ctx.LowerBoundWith(v, at, extra); !ok || lb < 0 {
				// the guard may sit after the merge: also accept facts at the store
				if lb2, ok2 := ctx.LowerBound(v, sst); !ok2 || lb2 < 0 {
					out = append(out, "no dominating guard establishes Length >= 0")
				}
			}
			clipped := false
			facts := append(append([]oblig.Fact{}, ctx.FactsAt(at)...), extra...)
			facts = append(facts, ctx.FactsAt(sst)...)
			for _, f := range facts {
				if f.Op != token.LEQ && f.Op != token.GEQ && f.Op != token.LSS && f.Op != token.GTR {
					continue
				}
				a, b, op := f.X, f.Y, f.Op
				if ctx.Equiv(b, v) {
					a, b, op = b, a, flipTok(op)
				} else if !ctx.Equiv(a, v) {
					continue
				}
				_ = a
				if op != token.LEQ && op != token.LSS {
					continue
				}
				if sb := isSizeMinusS(b); sb != nil {
					if wrapFree(sb) {
						clipped = true
					} else {
						out = append(out, "the clip guard compares Length with size-Start computed where it may wrap")
					}
				}
			}
			if !clipped {
				out = append(out, "no dominating guard establishes Length <= size-Start (a guard on Start+Length can wrap and does not count)")
			}
			return out
		}
		problems = append(problems, lenProblems(lv, sst, nil, 0)...)
		if len(problems) == 0 {
			r.Held("R11.1", k, pos(r, ret), "0<=Start<size, 0<=Length<=size-Start established by dominating guards")
		} else {
			all = false
			for i, pr := range problems {
				r.Violated("R11.1", key(k, sprintf("p%d", i)), pos(r, ret), pr)
			}
		}
	}
	if n < 1 {
		r.Unresolved("R11.1: Range() has no non-nil result")
		return false
	}
	return all
}

func flipTok(op token.Token) token.Token {
	switch op {
	case token.LSS:
		return token.GTR
	case token.GTR:
		return token.LSS
	case token.LEQ:
		return token.GEQ
	case token.GEQ:
		return token.LEQ
	}
	return op
}

// rangeUse describes how one backend consumes Range().
type rangeUse struct {
	fn       string // function holding the Range() call
	sizeFrom string // what the size argument must derive from
	mode     string // "slice" or "seek"
}

var rangeUses = []rangeUse{
	{"s3mem.(*bucketData).toObject", "len(body)", "slice"},
	{"s3bolt.(*boltObject).Object", "field:s3bolt.boltObject.Size", "slice"},
	{"s3afero.(*MultiBucketBackend).GetObject", "stat.Size", "seek"},
	{"s3afero.(*SingleBucketBackend).GetObject", "stat.Size", "seek"},
}

func rule112(r *core.Run, ctx *oblig.Ctx) {
	r.Rule("R11.2", "each backend calls rangeRequest.Range(storedSize), returns its error unchanged, slices data[Start:Start+Length] / Seek(Start)+limit(Length) with exactly that result, and stores it in Object.Range")
	rangeFn := mustFunc(r, "gofakes3.(*ObjectRangeRequest).Range")
	if rangeFn == nil {
		return
	}
	for _, u := range rangeUses {
		fn := mustFunc(r, u.fn)
		if fn == nil {
			continue
		}
		var call *ssa.Call
		core.Instrs(fn, func(in ssa.Instruction) {
			if c, ok := in.(*ssa.Call); ok && core.StaticCallee(c) == rangeFn {
				call = c
			}
		})
		if call == nil {
			r.Violated("R11.2", key(u.fn, "Range call"), r.P.Pos(fn.Pos()), "backend no longer calls ObjectRangeRequest.Range")
			continue
		}
		// size argument
		sz := call.Call.Args[1]
		ss := r.P.SliceOf(sz, core.SliceOpts{Depth: 1})
		okSize := false
		switch u.sizeFrom {
		case "len(body)":
			okSize = ss.Has("call:builtin:len") && ss.Has("field:s3mem.bucketData.body") && !ss.HasPrefix("op:")
		case "field:s3bolt.boltObject.Size":
			okSize = ss.Has("field:s3bolt.boltObject.Size") && !ss.HasPrefix("op:")
		case "stat.Size":
			okSize = (ss.Has("call:invoke:io/fs.FileInfo.Size") || ss.Has("call:invoke:os.FileInfo.Size")) && !ss.HasPrefix("op:")
		}
		r.Check(okSize, "R11.2", key(u.fn, "size argument"), pos(r, call), "Range(size) receives the stored size ("+u.sizeFrom+")", "the size passed to Range() is not the stored object size ("+u.sizeFrom+")")
		// error returned unchanged
		errv := core.ErrorResult(call)
		okErr := false
		if errv != nil {
			for ret, ev := range returnedErrors(fn) {
				s := r.P.SliceOf(ev, core.SliceOpts{Depth: -1, StopAt: func(v ssa.Value) bool { return v == errv }})
				if s.HasValue(errv) && !core.CheckedBefore(call, ret) {
					okErr = true
				}
			}
		}
		r.Check(okErr, "R11.2", key(u.fn, "error propagated"), pos(r, call), "Range() error returned", "the error of Range() is not returned to the caller")
		// the range value
		var rng ssa.Value
		for _, ref := range *call.Referrers() {
			if e, ok := ref.(*ssa.Extract); ok && e.Index == 0 {
				rng = e
			}
		}
		if rng == nil {
			r.Violated("R11.2", key(u.fn, "range used"), pos(r, call), "the range returned by Range() is discarded")
			continue
		}
		isField := func(v ssa.Value, field string) bool {
			ld, ok := v.(*ssa.UnOp)
			if !ok || ld.Op != token.MUL {
				return false
			}
			fa, ok := ld.X.(*ssa.FieldAddr)
			return ok && r.P.FieldName(fa) == field && sameRange(fa.X, rng)
		}
		switch u.mode {
		case "slice":
			found := false
			core.Instrs(fn, func(in ssa.Instruction) {
				sl, ok := in.(*ssa.Slice)
				if !ok || sl.Low == nil || sl.High == nil {
					return
				}
				if !isField(sl.Low, "gofakes3.ObjectRange.Start") {
					return
				}
				found = true
				hi, ok := sl.High.(*ssa.BinOp)
				okHi := ok && hi.Op == token.ADD && isField(hi.X, "gofakes3.ObjectRange.Start") && isField(hi.Y, "gofakes3.ObjectRange.Length")
				guarded := false
				for _, g := range core.GuardsOf(sl) {
					if isNil, ok := core.ErrNilFact(g, rng); ok && !isNil {
						guarded = true
					}
				}
				r.Check(okHi && guarded, "R11.2", key(u.fn, "data[Start:Start+Length]"), pos(r, sl),
					"sliced with exactly Start and Start+Length of the Range() result under rnge != nil", "the body is not sliced as data[rnge.Start : rnge.Start+rnge.Length] under rnge != nil")
			})
			if !found {
				r.Violated("R11.2", key(u.fn, "data[Start:Start+Length]"), pos(r, call), "no slice of the body by the Range() result")
			}
		case "seek":
			var seekOK, limitOK bool
			var seekAt, limAt ssa.Instruction
			core.Instrs(fn, func(in ssa.Instruction) {
				c, ok := in.(*ssa.Call)
				if !ok {
					return
				}
				switch r.P.CalleeName(c) {
				case "invoke:github.com/spf13/afero.File.Seek":
					seekAt = c
					args := c.Call.Args
					if len(args) == 2 && isField(args[0], "gofakes3.ObjectRange.Start") {
						if k, ok := core.ConstInt(args[1]); ok && k == 0 {
							seekOK = true
						}
					}
				case "s3afero.limitReadCloser":
					limAt = c
					args := c.Call.Args
					if len(args) == 3 && isField(args[2], "gofakes3.ObjectRange.Length") {
						limitOK = true
					}
				}
			})
			r.Check(seekOK && seekAt != nil, "R11.2", key(u.fn, "Seek(Start, SeekStart)"), posOr(r, seekAt, call), "seeks to Start from the beginning", "the file is not positioned with Seek(rnge.Start, io.SeekStart)")
			r.Check(limitOK && limAt != nil, "R11.2", key(u.fn, "limit(Length)"), posOr(r, limAt, call), "reader limited to Length", "the reader is not limited to rnge.Length")
			if seekAt != nil && limAt != nil {
				r.Check(core.CheckedBefore(seekAt.(*ssa.Call), limAt), "R11.2", key(u.fn, "Seek checked"), pos(r, seekAt), "Seek error checked", "Seek's error is not checked before the limited reader is built")
			}
		}
		// Object.Range = that value
		okStore := false
		for _, st := range r.P.FieldStores("gofakes3.Object.Range") {
			if st.Parent() == fn && sameRange(st.Val, rng) {
				okStore = true
			}
		}
		r.Check(okStore, "R11.2", key(u.fn, "Object.Range"), pos(r, call), "Object.Range is the Range() result", "Object.Range is not set to the Range() result")
	}
	r.Floor("R11.2", 16, "backend range-use instances")
	// limitReadCloser limits with its sz argument
	if lf := mustFunc(r, "s3afero.limitReadCloser"); lf != nil {
		ok := false
		core.Instrs(lf, func(in ssa.Instruction) {
			if c, ok2 := in.(*ssa.Call); ok2 && r.P.CalleeName(c) == "io.LimitReader" {
				if len(c.Call.Args) == 2 && c.Call.Args[0] == ssa.Value(lf.Params[0]) && c.Call.Args[1] == ssa.Value(lf.Params[2]) {
					ok = true
				}
			}
		})
		r.Check(ok, "R11.2", key(fname(r, lf), "io.LimitReader(rdr, sz)"), r.P.Pos(lf.Pos()), "limits rdr to sz", "limitReadCloser does not wrap rdr in io.LimitReader(rdr, sz)")
	}
}

func posOr(r *core.Run, a ssa.Instruction, b ssa.Instruction) string {
	if a != nil {
		return pos(r, a)
	}
	return pos(r, b)
}

// sameRange: v is rng itself or a phi/copy carrying only rng.
func sameRange(v, rng ssa.Value) bool {
	if v == rng {
		return true
	}
	if ph, ok := v.(*ssa.Phi); ok {
		n := 0
		for _, e := range ph.Edges {
			if e == rng {
				n++
			} else if !core.IsNilConst(e) {
				return false
			}
		}
		return n > 0
	}
	return false
}

func rule113(r *core.Run) {
	r.Rule("R11.3", "getObject calls obj.Range.writeHeader(obj.Size, w) after the entity headers and before the body copy; writeHeader sets Content-Range from Start, Length, sz and Content-Length from Length (range) or sz (whole)")
	get := mustFunc(r, "gofakes3.(*GoFakeS3).getObject")
	wh := mustFunc(r, "gofakes3.(*ObjectRange).writeHeader")
	if get == nil || wh == nil {
		return
	}
	var whCall, respCall, copyCall *ssa.Call
	core.Instrs(get, func(in ssa.Instruction) {
		c, ok := in.(*ssa.Call)
		if !ok {
			return
		}
		switch {
		case core.StaticCallee(c) == wh:
			whCall = c
		case r.P.CalleeName(c) == "gofakes3.(*GoFakeS3).writeGetOrHeadObjectResponse":
			respCall = c
		case r.P.CalleeName(c) == "io.Copy":
			copyCall = c
		}
	})
	k := fname(r, get)
	if whCall == nil || respCall == nil || copyCall == nil {
		r.Violated("R11.3", key(k, "calls"), r.P.Pos(get.Pos()), "getObject no longer calls writeGetOrHeadObjectResponse, writeHeader and io.Copy")
	} else {
		s0 := r.P.SliceOf(whCall.Call.Args[0], core.SliceOpts{Depth: -1})
		s1 := r.P.SliceOf(whCall.Call.Args[1], core.SliceOpts{Depth: -1})
		r.Check(s0.Has("field:gofakes3.Object.Range") && s1.Has("field:gofakes3.Object.Size") && !s1.HasPrefix("op:"), "R11.3", key(k, "writeHeader(obj.Range, obj.Size)"), pos(r, whCall),
			"receiver obj.Range, size obj.Size", "writeHeader is not called as obj.Range.writeHeader(obj.Size, w)")
		r.Check(core.Dominates(respCall, whCall) && core.Dominates(whCall, copyCall) && core.CheckedBefore(respCall, whCall), "R11.3", key(k, "order"), pos(r, whCall),
			"entity headers → range headers → body", "writeHeader is not between the (checked) entity-header write and the body copy")
		sc := r.P.SliceOf(copyCall.Call.Args[1], core.SliceOpts{Depth: -1})
		r.Check(sc.Has("field:gofakes3.Object.Contents"), "R11.3", key(k, "body=obj.Contents"), pos(r, copyCall), "body copied from obj.Contents", "the body is not copied from obj.Contents")
	}
	// writeHeader body
	type hs struct {
		name string
		val  ssa.Value
		at   *ssa.Call
	}
	var sets []hs
	core.Instrs(wh, func(in ssa.Instruction) {
		c, ok := in.(*ssa.Call)
		if !ok || r.P.CalleeName(c) != "(net/http.Header).Set" {
			return
		}
		if n, ok := core.ConstString(c.Call.Args[1]); ok {
			sets = append(sets, hs{n, c.Call.Args[2], c})
		}
	})
	recv := wh.Params[0]
	szp := wh.Params[1]
	nCR, nCL := 0, 0
	for _, h := range sets {
		s := r.P.SliceOf(h.val, core.SliceOpts{Depth: -1})
		nonNil := false
		isNilArm := false
		for _, g := range core.GuardsOf(h.at) {
			if isNil, ok := core.ErrNilFact(g, recv); ok {
				nonNil = !isNil
				isNilArm = isNil
			}
		}
		switch h.name {
		case "Content-Range":
			nCR++
			r.Check(nonNil && s.Has("field:gofakes3.ObjectRange.Start") && s.Has("field:gofakes3.ObjectRange.Length") && s.HasValue(szp), "R11.3", key(fname(r, wh), "Content-Range"), pos(r, h.at),
				"built from Start, Length and sz on the range arm", "Content-Range is not built from o.Start, o.Length and sz under o != nil")
		case "Content-Length":
			nCL++
			if nonNil {
				r.Check(s.Has("field:gofakes3.ObjectRange.Length") && !s.Has("field:gofakes3.ObjectRange.Start") && !s.HasPrefix("op:"), "R11.3", key(fname(r, wh), "Content-Length(range)"), pos(r, h.at),
					"Content-Length = Length", "on the range arm Content-Length is not exactly o.Length")
			} else if isNilArm {
				r.Check(s.HasValue(szp) && !s.HasPrefix("op:") && !s.HasPrefix("field:"), "R11.3", key(fname(r, wh), "Content-Length(whole)"), pos(r, h.at),
					"Content-Length = sz", "without a range Content-Length is not exactly sz")
			} else {
				r.Violated("R11.3", key(fname(r, wh), "Content-Length(arm)"), pos(r, h.at), "Content-Length is set on an arm that does not test o != nil")
			}
		}
	}
	r.Check(nCR == 1 && nCL == 2, "R11.3", key(fname(r, wh), "header set count"), r.P.Pos(wh.Pos()), "one Content-Range, two Content-Length arms", sprintf("writeHeader sets Content-Range %d time(s) and Content-Length %d time(s); expected 1 and 2", nCR, nCL))
}

func rule114(r *core.Run) {
	r.Rule("R11.4", "in parseRangeHeader every strconv.ParseInt error arm, the missing 'bytes=' arm, the empty and no-dash arms and the negative-start / start>end arms return ErrInvalidRange; ErrInvalidRange maps to 416")
	fn := mustFunc(r, "gofakes3.parseRangeHeader")
	if fn == nil {
		return
	}
	// every return with a non-nil error derives from InvalidRange (or NotImplemented for multi-range)
	n := 0
	for ret, ev := range returnedErrors(fn) {
		if core.IsNilConst(ev) {
			continue
		}
		n++
		s := r.P.SliceOf(ev, core.SliceOpts{Depth: 2})
		codes := errCodes(s)
		ok := len(codes) == 1 && (codes[0] == "InvalidRange" || codes[0] == "NotImplemented")
		r.Check(ok, "R11.4", key(fname(r, fn), "error return", sprintf("#%d", n)), pos(r, ret), "returns "+sprintf("%v", codes), sprintf("a parse failure returns %v instead of ErrInvalidRange", codes))
	}
	// every ParseInt is checked: the success path is guarded by err == nil
	nParse := 0
	core.Instrs(fn, func(in ssa.Instruction) {
		c, ok := in.(*ssa.Call)
		if !ok || r.P.CalleeName(c) != "strconv.ParseInt" {
			return
		}
		nParse++
		// the parsed value's uses (stores into the request) must be guarded by err == nil
		var val ssa.Value
		for _, ref := range *c.Referrers() {
			if e, ok := ref.(*ssa.Extract); ok && e.Index == 0 {
				val = e
			}
		}
		okAll := true
		if val != nil {
			for _, u := range *val.Referrers() {
				if st, ok := u.(*ssa.Store); ok {
					if !core.CheckedBefore(c, st) {
						okAll = false
					}
				}
			}
		}
		r.Check(okAll, "R11.4", key(fname(r, fn), "ParseInt checked", sprintf("#%d", nParse)), pos(r, c), "parsed value used only when err == nil", "a parsed number is stored although ParseInt failed")
	})
	// structural arms: negative start and start > end are rejected
	ctx := oblig.NewCtx(r.P)
	for _, st := range r.P.FieldStores("gofakes3.ObjectRangeRequest.Start") {
		if st.Parent() != fn {
			continue
		}
		lb, ok := ctx.LowerBound(st.Val, st)
		r.Check(ok && lb >= 0, "R11.4", key(fname(r, fn), "Start >= 0"), pos(r, st), "Start stored only when >= 0", "ObjectRangeRequest.Start can be stored negative")
	}
	nEnd := 0
	for _, st := range r.P.FieldStores("gofakes3.ObjectRangeRequest.End") {
		if st.Parent() != fn {
			continue
		}
		if _, isConst := st.Val.(*ssa.Const); isConst {
			continue
		}
		// on the non-suffix arm End >= Start must be guarded
		var startLoad ssa.Value
		for _, f := range ctx.FactsAt(st) {
			if f.Op == token.LEQ || f.Op == token.GEQ || f.Op == token.LSS || f.Op == token.GTR {
				if ctx.Equiv(f.Y, st.Val) || ctx.Equiv(f.X, st.Val) {
					startLoad = f.X
				}
			}
		}
		fromEnd := false
		// the FromEnd arm stores End without comparing to Start: recognise it by a dominating store FromEnd = true in the same block chain
		for _, fs := range r.P.FieldStores("gofakes3.ObjectRangeRequest.FromEnd") {
			if fs.Parent() == fn && core.Dominates(fs, st) {
				fromEnd = true
			}
		}
		nEnd++
		r.Check(fromEnd || startLoad != nil, "R11.4", key(fname(r, fn), "End vs Start", sprintf("#%d", nEnd)), pos(r, st), "End stored under a comparison with Start (or suffix form)", "End is stored without the Start <= End test")
	}
	r.Floor("R11.4", 10, "parse arms")
	if tbl := statusTable(r); tbl != nil {
		r.Check(tbl["InvalidRange"] == 416, "R11.4", key("status", "InvalidRange"), "", "InvalidRange → 416", "ErrInvalidRange does not map to 416")
	}
	// getObject returns parse errors before touching the backend
	if get := mustFunc(r, "gofakes3.(*GoFakeS3).getObject"); get != nil {
		var parse *ssa.Call
		var storageCalls []ssa.CallInstruction
		core.Instrs(get, func(in ssa.Instruction) {
			if c, ok := in.(*ssa.Call); ok {
				if r.P.CalleeName(c) == "gofakes3.parseRangeHeader" {
					parse = c
				} else if _, ok := storageCall(r, c); ok && c.Common().Method != nil && (c.Common().Method.Name() == "GetObject" || c.Common().Method.Name() == "GetObjectVersion") {
					storageCalls = append(storageCalls, c)
				}
			}
		})
		if parse == nil {
			r.Violated("R11.4", key(fname(r, get), "parseRangeHeader"), r.P.Pos(get.Pos()), "getObject no longer parses the Range header")
		} else {
			s := r.P.SliceOf(parse.Call.Args[0], core.SliceOpts{Depth: -1})
			r.Check(s.Has("const:Range") && s.Has("call:(net/http.Header).Get"), "R11.4", key(fname(r, get), "Range header"), pos(r, parse), "parses r.Header.Get(\"Range\")", "parseRangeHeader does not receive the Range request header")
			for i, sc := range storageCalls {
				okc := core.CheckedBefore(parse, sc)
				var rv ssa.Value
				for _, ref := range *parse.Referrers() {
					if e, ok := ref.(*ssa.Extract); ok && e.Index == 0 {
						rv = e
					}
				}
				args := sc.Common().Args
				passes := len(args) > 0 && args[len(args)-1] == rv
				r.Check(okc && passes, "R11.4", key(fname(r, get), "range passed to backend", sprintf("#%d", i)), pos(r, sc), "parsed range passed after err check", "the backend read is not given the parsed range under a checked parse")
			}
		}
	}
}

// rule115 — increments of request-controlled values need an upper bound.
func rule115(r *core.Run, ctx *oblig.Ctx) {
	r.Rule("R11.5", "in Range(), every '+ positive constant' applied to a value derived from the request's End is evaluated only where End < size (or <=) is established by a dominating guard: otherwise End near the int64 limit wraps and a satisfiable range is refused")
	fn := mustFunc(r, "gofakes3.(*ObjectRangeRequest).Range")
	if fn == nil {
		return
	}
	size := fn.Params[len(fn.Params)-1]
	n := 0
	core.Instrs(fn, func(in ssa.Instruction) {
		b, ok := in.(*ssa.BinOp)
		if !ok {
			return
		}
		var other ssa.Value
		switch b.Op {
		case token.ADD:
			if k, ok := core.ConstInt(b.Y); ok && k > 0 {
				other = b.X
			} else if k, ok := core.ConstInt(b.X); ok && k > 0 {
				other = b.Y
			}
		case token.SUB:
			if k, ok := core.ConstInt(b.Y); ok && k < 0 {
				other = b.X
			}
		}
		if other == nil {
			return
		}
		// does End contribute positively to `other`?
		ends := positiveEndLoads(r, other, true, 0)
		if len(ends) == 0 {
			return
		}
		n++
		okAll := true
		for _, e := range ends {
			if !ctx.Holds(b, e, token.LSS, size) && !ctx.Holds(b, e, token.LEQ, size) {
				okAll = false
			}
		}
		r.Check(okAll, "R11.5", key(fname(r, fn), "increment of End-derived value", sprintf("#%d", n)), pos(r, b),
			"evaluated under End < size", "a request-controlled End is incremented where no guard bounds it by size: End = 2^63-1 wraps (e.g. bytes=0-9223372036854775807 is refused instead of clipped)")
	})
	if n == 0 {
		r.Info("R11.5", "none", "", "no increment of an End-derived value in Range()")
	}
}

// positiveEndLoads returns the loads of ObjectRangeRequest.End that contribute
// with positive sign to v (through +, - and conversions).
func positiveEndLoads(r *core.Run, v ssa.Value, positive bool, d int) []ssa.Value {
	if d > 5 {
		return nil
	}
	switch x := v.(type) {
	case *ssa.UnOp:
		if x.Op == token.MUL {
			if fa, ok := x.X.(*ssa.FieldAddr); ok && r.P.FieldName(fa) == "gofakes3.ObjectRangeRequest.End" && positive {
				return []ssa.Value{x}
			}
		}
	case *ssa.BinOp:
		switch x.Op {
		case token.ADD:
			return append(positiveEndLoads(r, x.X, positive, d+1), positiveEndLoads(r, x.Y, positive, d+1)...)
		case token.SUB:
			return append(positiveEndLoads(r, x.X, positive, d+1), positiveEndLoads(r, x.Y, !positive, d+1)...)
		}
	case *ssa.Convert:
		return positiveEndLoads(r, x.X, positive, d+1)
	case *ssa.Phi:
		var out []ssa.Value
		for _, e := range x.Edges {
			out = append(out, positiveEndLoads(r, e, positive, d+1)...)
		}
		return out
	}
	return nil
}

// rule116 — the range request is consulted on every read path and never dropped on the way.
func rule116(r *core.Run) {
	r.Rule("R11.6", "in every function that calls ObjectRangeRequest.Range, each successful return is preceded on all paths by that call — except the paths chosen by a boolean parameter of the function on the side that does not lead to Range (the HEAD / no-body flag) — so there is no early answer for special cases such as empty objects; every function with a *ObjectRangeRequest parameter passes exactly that parameter to every callee parameter of that type (never nil or another request): the request cannot be lost between the handler and Range()")
	rangeFn := mustFunc(r, "gofakes3.(*ObjectRangeRequest).Range")
	if rangeFn == nil {
		return
	}
	isRangeReq := func(t types.Type) bool {
		p, ok := t.(*types.Pointer)
		return ok && isNamed(r, p.Elem(), "gofakes3", "ObjectRangeRequest")
	}
	n := 0
	for _, fn := range r.P.RepoFuncs() {
		if fn == rangeFn {
			continue
		}
		f := fn
		name := fname(r, f)
		// (a) success only after Range()
		var calls []ssa.Instruction
		core.Instrs(f, func(in ssa.Instruction) {
			if c, ok := in.(*ssa.Call); ok && core.StaticCallee(c) == rangeFn {
				calls = append(calls, c)
			}
		})
		if len(calls) > 0 {
			k := 0
			for ret, ev := range returnedErrors(f) {
				if !definitelyNil(r, ev) {
					continue
				}
				k++
				n++
				early := core.ReachableFromEntryAvoidingEdges(ret, func(in ssa.Instruction) bool {
					for _, c := range calls {
						if in == c {
							return true
						}
					}
					return false
				}, noBodyEdges(f, calls))
				r.Check(!early, "R11.6", key(name, "answers only after Range()", sprintf("#%d", k)), pos(r, ret), "success return preceded by Range() on all paths",
					"the read can answer successfully without having consulted Range(): a ranged request is served without its range being applied or checked (e.g. 200 instead of 416)")
			}
		}
		// (b) the request is handed on unchanged
		var own []*ssa.Parameter
		for _, p := range f.Params {
			if isRangeReq(p.Type()) && p != f.Params[0] || (isRangeReq(p.Type()) && f.Signature.Recv() == nil) {
				own = append(own, p)
			}
		}
		if len(own) != 1 {
			continue
		}
		core.Instrs(f, func(in ssa.Instruction) {
			c, ok := in.(ssa.CallInstruction)
			if !ok {
				return
			}
			sig := c.Common().Signature()
			args := c.Common().Args
			off := 0
			if c.Common().IsInvoke() {
				off = 0
			} else if sig.Recv() != nil {
				off = 1
				// receiver position: a Range() call on the request itself
				if core.StaticCallee(c) == rangeFn {
					n++
					r.Check(core.Forward(args[0]) == ssa.Value(own[0]), "R11.6", key(name, "request handed on", "Range receiver"), pos(r, in), "Range() is called on the function's own request", "Range() is called on something other than the request this function received")
					return
				}
			}
			for i := 0; i < sig.Params().Len(); i++ {
				if !isRangeReq(sig.Params().At(i).Type()) || i+off >= len(args) {
					continue
				}
				n++
				a := core.Forward(args[i+off])
				r.Check(a == ssa.Value(own[0]), "R11.6", key(name, "request handed on", r.P.CalleeName(c)), pos(r, in), "the callee receives this function's range request",
					"a callee that takes a range request is given "+describeArg(a)+" instead of the request this function received: the range is silently dropped and the whole object is served")
			}
		})
	}
	r.Floor("R11.6", 8, "range hand-over and answer-after-Range instances")
}

func describeArg(v ssa.Value) string {
	if core.IsNilConst(v) {
		return "nil"
	}
	return "another value"
}

// noBodyEdges: for every branch on a boolean parameter of f, the edge that does
// not lead to any Range() call (the "no body wanted" side, as in toObject's
// withBody flag) is excused from the answer-after-Range obligation.
func noBodyEdges(f *ssa.Function, calls []ssa.Instruction) map[core.Edge]bool {
	out := map[core.Edge]bool{}
	for _, b := range f.Blocks {
		if len(b.Instrs) == 0 || len(b.Succs) != 2 {
			continue
		}
		iff, ok := b.Instrs[len(b.Instrs)-1].(*ssa.If)
		if !ok {
			continue
		}
		cd := core.CondOf(iff.Cond)
		p, isParam := cd.X.(*ssa.Parameter)
		if cd.Op != 0 || !isParam {
			continue
		}
		if bt, ok := p.Type().Underlying().(*types.Basic); !ok || bt.Kind() != types.Bool {
			continue
		}
		leads := func(t *ssa.BasicBlock) bool {
			for _, c := range calls {
				if c.Block() == t || (len(t.Instrs) > 0 && core.Reaches(t.Instrs[0], c)) {
					return true
				}
			}
			return false
		}
		l0, l1 := leads(b.Succs[0]), leads(b.Succs[1])
		if l0 && !l1 {
			out[core.Edge{From: b.Index, To: b.Succs[1].Index}] = true
		}
		if l1 && !l0 {
			out[core.Edge{From: b.Index, To: b.Succs[0].Index}] = true
		}
	}
	return out
}

// rule117 — once positioned at the range start, the object file is only read
// by whoever receives the response body.
func rule117(r *core.Run) {
	r.Rule("R11.7", "in the fs backends' GetObject, after the object file was positioned with Seek(range start) nothing else reads, seeks or is handed that file handle before it is returned as the body (only its Close, and the length-limiting wrapper): a helper that hashes or rewinds the handle returns bytes from another offset under correct Content-Range headers")
	n := 0
	for _, impl := range []string{"s3afero.(*MultiBucketBackend)", "s3afero.(*SingleBucketBackend)"} {
		fn := implMethod(r, impl, "GetObject")
		if fn == nil {
			continue
		}
		name := fname(r, fn)
		var seeks []*ssa.Call
		core.Instrs(fn, func(in ssa.Instruction) {
			if c, ok := in.(*ssa.Call); ok && c.Call.IsInvoke() && r.P.CalleeName(c) == "invoke:github.com/spf13/afero.File.Seek" {
				seeks = append(seeks, c)
			}
		})
		if len(seeks) == 0 {
			r.Unresolved("R11.7: no Seek on the object file in %s", name)
			continue
		}
		for _, sk := range seeks {
			n++
			file := sk.Call.Value
			bad := ""
			core.Instrs(fn, func(in ssa.Instruction) {
				c, ok := in.(ssa.CallInstruction)
				if !ok || in == ssa.Instruction(sk) || !core.Reaches(sk, in) {
					return
				}
				uses := false
				if c.Common().IsInvoke() && sameHandle(c.Common().Value, file) {
					uses = true
				}
				for _, a := range c.Common().Args {
					if sameHandle(a, file) {
						uses = true
					}
				}
				if !uses {
					return
				}
				cn := r.P.CalleeName(c)
				switch {
				case cn == "invoke:github.com/spf13/afero.File.Close", cn == "s3afero.limitReadCloser", cn == "io.LimitReader", strings.HasSuffix(cn, ".Close"):
					return
				}
				if _, isDefer := in.(*ssa.Defer); isDefer {
					return
				}
				bad = cn + " at " + pos(r, in)
			})
			// the positioned offset is the range start
			os := r.P.SliceOf(sk.Call.Args[0], core.SliceOpts{Depth: -1})
			okOff := os.Has("field:gofakes3.ObjectRange.Start")
			r.Check(bad == "" && okOff, "R11.7", key(name, "positioned handle goes straight to the body", sprintf("#%d", n)), pos(r, sk), "Seek(range.Start), then only the limiting wrapper",
				"after Seek(range start) the file handle is used again ("+bad+") before it becomes the response body: the body is read from another offset than Content-Range says")
		}
	}
	if n < 2 {
		r.Unresolved("R11.7: %d positioned reads found (expected one per fs backend)", n)
	}
}

// sameHandle: v is file, an interface conversion of it, or another load of
// the variable file was loaded from (a handle captured by a deferred closure
// lives in memory; every use is a fresh load).
func sameHandle(v, file ssa.Value) bool {
	cell := func(x ssa.Value) ssa.Value {
		if u, ok := x.(*ssa.UnOp); ok && u.Op == token.MUL {
			return u.X
		}
		return nil
	}
	for i := 0; i < 4; i++ {
		if v == file {
			return true
		}
		if c := cell(v); c != nil && c == cell(file) {
			return true
		}
		switch x := v.(type) {
		case *ssa.ChangeInterface:
			v = x.X
		case *ssa.MakeInterface:
			v = x.X
		default:
			return false
		}
	}
	return false
}

// rule118 — a ranged read hands out a length-limited body.
func rule118(r *core.Run) {
	r.Rule("R11.8", "in the fs backends' GetObject, whenever Range() returned a range (non-nil) the Contents of the returned object is the length-limiting wrapper: assuming every nil test of the range says 'there is one', no successful return is reachable without passing limitReadCloser — a further condition on the range (Start > 0, Length < size) lets some ranges return the whole file under short-range headers")
	n := 0
	for _, impl := range []string{"s3afero.(*MultiBucketBackend)", "s3afero.(*SingleBucketBackend)"} {
		fn := implMethod(r, impl, "GetObject")
		if fn == nil {
			continue
		}
		name := fname(r, fn)
		var rangeCall, limit *ssa.Call
		core.Instrs(fn, func(in ssa.Instruction) {
			if c, ok := in.(*ssa.Call); ok {
				switch cn := r.P.CalleeName(c); {
				case strings.HasSuffix(cn, "ObjectRangeRequest).Range"):
					rangeCall = c
				case cn == "s3afero.limitReadCloser" || cn == "io.LimitReader":
					limit = c
				}
			}
		})
		if rangeCall == nil || limit == nil {
			r.Unresolved("R11.8: Range() / limitReadCloser not found in %s", name)
			continue
		}
		var rv ssa.Value
		for _, u := range *rangeCall.Referrers() {
			if ex, ok := u.(*ssa.Extract); ok && ex.Index == 0 {
				rv = ex
			}
		}
		n++
		// every condition the wrapper depends on is a nil test: of the range itself ("there is one") or of an
		// error (an earlier step failed). Anything else — a comparison of Start, Length, size — makes the
		// wrapper depend on WHICH range it is.
		bad := ""
		hasRangeTest := false
		for _, ec := range expandedConds(limit) {
			if ec.merged {
				continue
			}
			cd := core.CondOf(ec.cond)
			isNilTest := (cd.Op == token.EQL || cd.Op == token.NEQ) && (core.IsNilConst(cd.X) || core.IsNilConst(cd.Y))
			if !isNilTest {
				// only conditions on the range itself matter
				if rv != nil && r.P.SliceOf(ec.cond, core.SliceOpts{Depth: -1}).HasValue(rv) {
					if ci, ok := ec.cond.(ssa.Instruction); ok {
						bad = pos(r, ci)
					} else {
						bad = "?"
					}
				}
				continue
			}
			other := cd.X
			if core.IsNilConst(cd.X) {
				other = cd.Y
			}
			if other == rv {
				hasRangeTest = true
			}
		}
		r.Check(bad == "" && hasRangeTest && rv != nil, "R11.8", key(name, "every range gets the limiting wrapper"), pos(r, limit), "limitReadCloser under `range != nil` (and error checks) only",
			"the length-limiting wrapper is applied only if a further condition on the range holds (test at "+bad+"): some ranges are answered with the whole remaining file under the headers of the short range")
	}
	if n < 2 {
		r.Unresolved("R11.8: %d fs GetObject methods examined (expected 2)", n)
	}
}

// rule119 — the size reported with a ranged read is the size the range was computed against.
func rule119(r *core.Run) {
	r.Rule("R11.9", "in every backend function that calls ObjectRangeRequest.Range(size) and builds the Object it returns, Object.Size has the same provenance as that size argument (the stored size field, the length of the unsliced stored body, the stat result): Content-Range's total and the 416 decision are about the same number — never the length of the already sliced data")
	n := 0
	for _, fn := range r.P.RepoFuncs() {
		var rc *ssa.Call
		core.Instrs(fn, func(in ssa.Instruction) {
			if c, ok := in.(*ssa.Call); ok && r.P.CalleeName(c) == "gofakes3.(*ObjectRangeRequest).Range" {
				rc = c
			}
		})
		if rc == nil || len(rc.Call.Args) < 2 {
			continue
		}
		want := provenance(r, rc.Call.Args[1])
		for _, st := range r.P.FieldStores("gofakes3.Object.Size") {
			if st.Parent() != fn {
				continue
			}
			n++
			got := provenance(r, st.Val)
			r.Check(got == want, "R11.9", key(fname(r, fn), "Object.Size = the size given to Range"), pos(r, st), "same provenance: "+want,
				"Object.Size derives from {"+got+"} while the range was computed against {"+want+"}: the total in Content-Range (and the size a HEAD reports) is not the size the range was validated with")
		}
	}
	r.Floor("R11.9", 3, "backend functions building an Object after Range()")
}

// provenance: the sorted field / call / operator labels a value derives from.
func provenance(r *core.Run, v ssa.Value) string {
	s := r.P.SliceOf(v, core.SliceOpts{Depth: 0})
	var out []string
	for _, l := range s.LeafList("") {
		if strings.HasPrefix(l, "field:") || strings.HasPrefix(l, "call:") || strings.HasPrefix(l, "op:") || strings.HasPrefix(l, "via:") {
			out = append(out, l)
		}
	}
	return strings.Join(out, " ")
}
