package rules

import (
	"go/token"
	"go/types"
	"strings"

	"golang.org/x/tools/go/ssa"

	"gfs3check/internal/core"
	"gfs3check/internal/lockset"
	"gfs3check/internal/oblig"
)

func init() { Registry["C06"] = C06 }

var sorters = map[string]bool{
	"sort.Ints": true, "sort.Strings": true, "sort.Float64s": true, "sort.Sort": true, "sort.Stable": true,
	"sort.Slice": true, "sort.SliceStable": true, "slices.Sort": true, "slices.SortFunc": true, "slices.SortStableFunc": true,
}

var sortedTests = map[string]bool{
	"sort.IntsAreSorted": true, "sort.StringsAreSorted": true, "sort.IsSorted": true, "sort.SliceIsSorted": true,
	"slices.IsSorted": true, "slices.IsSortedFunc": true,
}

// C06 — completing a multipart upload stores exactly the listed parts, once, or nothing.
func C06(r *core.Run) {
	r.Explanation = "Structural necessary conditions of multipart completion, on all paths of the in-memory uploader: " +
		"(R06.1) the part-order test examines the list as sent (no sort of the tested slice anywhere on its provenance) and its failing arm returns InvalidPartOrder; " +
		"(R06.2) validate-then-mutate: no validation error can be returned after PutObject or after the upload was removed; remove() only after a checked PutObject (complete) / checked lookup (abort); " +
		"(R06.3) both bounds of the part index are guarded (compiler-reported bounds sites of the uploader discharged); " +
		"(R06.4) every listed part is compared with the stored part's ETag and a nil slot, unequal/absent ⇒ InvalidPart; " +
		"(R06.5) abort cannot reach any Backend method; (R06.6) a part is read completely and length-checked before any lock or slot is touched, stored at its own number with the MD5 of that body; " +
		"(R06.7) the assembled body is appended only from the listed parts' bodies, stored with the initiation metadata, and the ETag is built from the part ETags and the part count. (R06.8) a part's ETag is stored with its body, and lookup and removal of an upload are one critical section of uploader.mu. (R06.9) a refused complete has not modified the upload's parts, and the request's part list is decoded from the whole body. (R01.9, shared) the metadata given at initiation is what is stored: merging never overrides a value the request sent."
	r.NotDecided = "byte equality of the concatenation, 'most recent upload of each part' as a value statement (follows from overwrite-at-index), strictness of ascending order for duplicate numbers"
	ctx := oblig.NewCtx(r.P)
	installNonNilHook(r, ctx)
	rule061(r)
	rule062(r)
	rule063(r, ctx)
	rule064(r)
	rule065(r)
	rule066(r, ctx)
	rule067(r)
	rule068(r)
	rule069(r)
	rule019(r)
	rule012(r)
}

func rule061(r *core.Run) {
	r.Rule("R06.1", "the argument of every sortedness test (sort.IntsAreSorted, ...) has no sorting call on its provenance; CompleteMultipartUpload returns ErrInvalidPartOrder on the false outcome of such a test over input.Parts[].PartNumber")
	n := 0
	for _, fn := range r.P.RepoFuncs() {
		f := fn
		for _, c := range r.P.CallsIn(fn, false, func(n string) bool { return sortedTests[n] }) {
			n++
			arg := c.Common().Args[0]
			s := r.P.SliceOf(arg, core.SliceOpts{Depth: 4})
			bad := ""
			for sc := range s.Calls {
				if sorters[r.P.CalleeName(sc)] {
					bad = r.P.CalleeName(sc) + " at " + pos(r, sc.(ssa.Instruction))
				}
			}
			// sort calls are statements (no result): find any sorter anywhere whose argument is on the provenance
			for _, g := range r.P.RepoFuncs() {
				for _, sc := range r.P.CallsIn(g, false, func(n string) bool { return sorters[n] }) {
					a0 := sc.Common().Args[0]
					if mi, ok := a0.(*ssa.MakeInterface); ok {
						a0 = mi.X
					}
					if s.HasValue(a0) {
						bad = r.P.CalleeName(sc) + " at " + pos(r, sc.(ssa.Instruction))
					}
				}
			}
			r.Check(bad == "", "R06.1", key(fname(r, f), "sortedness test argument"), pos(r, c.(ssa.Instruction)),
				"tested slice is never sorted before the test", "the slice whose order is tested is sorted first ("+bad+"): the test is a tautology and any part order is accepted")
			r.Check(s.Has("field:gofakes3.CompletedPart.PartNumber") || fname(r, f) != "gofakes3.(CompleteMultipartUploadRequest).partsAreSorted", "R06.1", key(fname(r, f), "tests PartNumber order"), pos(r, c.(ssa.Instruction)),
				"tests the PartNumber sequence of the request", "the sortedness test does not examine the PartNumber values of the request")
		}
	}
	if n == 0 {
		r.Violated("R06.1", "no sortedness test", "", "no sortedness test exists in the repository: part order is never validated")
	}
	// wiring in CompleteMultipartUpload
	fn := mustFunc(r, "gofakes3.(*uploader).CompleteMultipartUpload")
	if fn == nil {
		return
	}
	found := false
	for ret, ev := range returnedErrors(fn) {
		s := r.P.SliceOf(ev, core.SliceOpts{Depth: 2})
		if !has(errCodes(s), "InvalidPartOrder") {
			continue
		}
		for _, g := range core.GuardsOf(ret) {
			cs := r.P.SliceOf(g.If.Cond, core.SliceOpts{Depth: 3})
			isSortedTest := false
			for c := range cs.Calls {
				if sortedTests[r.P.CalleeName(c)] {
					isSortedTest = true
				}
			}
			cd := core.CondOf(g.If.Cond)
			truth := g.Branch
			if cd.Neg {
				truth = !truth
			}
			if isSortedTest && !truth && cs.Has("field:gofakes3.CompleteMultipartUploadRequest.Parts") {
				found = true
			}
		}
	}
	r.Check(found, "R06.1", key(fname(r, fn), "InvalidPartOrder on unsorted"), r.P.Pos(fn.Pos()),
		"ErrInvalidPartOrder returned on the false outcome of the order test over input.Parts", "CompleteMultipartUpload does not return ErrInvalidPartOrder on the false outcome of a sortedness test over input.Parts")
}

func rule062(r *core.Run) {
	r.Rule("R06.2", "in CompleteMultipartUpload no return of a validation error (InvalidPart, InvalidPartOrder, NoSuchUpload) is reachable after PutObject or remove; remove is dominated by a checked PutObject; in AbortMultipartUpload remove is dominated by a checked getUnlocked")
	fn := mustFunc(r, "gofakes3.(*uploader).CompleteMultipartUpload")
	ab := mustFunc(r, "gofakes3.(*uploader).AbortMultipartUpload")
	if fn == nil || ab == nil {
		return
	}
	var put *ssa.Call
	var removes []*ssa.Call
	var get *ssa.Call
	core.Instrs(fn, func(in ssa.Instruction) {
		c, ok := in.(*ssa.Call)
		if !ok {
			return
		}
		switch r.P.CalleeName(c) {
		case "invoke:gofakes3.Backend.PutObject":
			put = c
		case "gofakes3.(*bucketUploads).remove":
			removes = append(removes, c)
		case "gofakes3.(*uploader).getUnlocked":
			get = c
		}
	})
	k := fname(r, fn)
	if put == nil || len(removes) == 0 || get == nil {
		r.Violated("R06.2", key(k, "anchors"), r.P.Pos(fn.Pos()), "CompleteMultipartUpload no longer calls getUnlocked, storage.PutObject and remove")
		return
	}
	muts := []ssa.Instruction{put}
	for _, rm := range removes {
		muts = append(muts, rm)
	}
	n := 0
	for ret, ev := range returnedErrors(fn) {
		if core.IsNilConst(ev) {
			continue
		}
		s := r.P.SliceOf(ev, core.SliceOpts{Depth: 2})
		codes := errCodes(s)
		isValidation := has(codes, "InvalidPart") || has(codes, "InvalidPartOrder") || has(codes, "NoSuchUpload")
		if !isValidation {
			continue
		}
		n++
		bad := ""
		for _, m := range muts {
			if core.Reaches(m, ret) {
				bad = pos(r, m)
			}
		}
		r.Check(bad == "", "R06.2", key(k, "validation return", strings.Join(codes, ","), sprintf("#%d", n)), pos(r, ret),
			"not reachable after any mutation", "a validation error ("+strings.Join(codes, ",")+") can be returned after the object was stored or the upload removed (mutation at "+bad+")")
	}
	r.Floor("R06.2", 4, "validation returns in CompleteMultipartUpload")
	for i, rm := range removes {
		r.Check(core.CheckedBefore(put, rm), "R06.2", key(k, "remove after checked PutObject", sprintf("#%d", i)), pos(r, rm),
			"upload removed only after PutObject succeeded", "the pending upload is removed although PutObject may have failed (or before it ran)")
	}
	r.Check(core.CheckedBefore(get, put), "R06.2", key(k, "PutObject after checked getUnlocked"), pos(r, put), "lookup checked first", "PutObject is reachable without a successful upload lookup")
	// every path from the first validation to PutObject: all validation checks dominate PutObject — the part loop's error returns are not bypassable
	// abort
	var aget, arm *ssa.Call
	core.Instrs(ab, func(in ssa.Instruction) {
		if c, ok := in.(*ssa.Call); ok {
			switch r.P.CalleeName(c) {
			case "gofakes3.(*uploader).getUnlocked":
				aget = c
			case "gofakes3.(*bucketUploads).remove":
				arm = c
			}
		}
	})
	r.Check(aget != nil && arm != nil && core.CheckedBefore(aget, arm), "R06.2", key(fname(r, ab), "remove after checked getUnlocked"), r.P.Pos(ab.Pos()),
		"abort removes only an upload it found", "AbortMultipartUpload removes without a successful lookup of (bucket, key, id)")
	// getUnlocked rejects mismatching bucket/object
	if gu := mustFunc(r, "gofakes3.(*uploader).getUnlocked"); gu != nil {
		s := errorSliceOf(r, gu, 2)
		r.Check(has(errCodes(s), "NoSuchUpload") && uploadAddressedExactly(r, gu), "R06.2", key(fname(r, gu), "rejects unknown/mismatching upload"), r.P.Pos(gu.Pos()),
			"returns NoSuchUpload; compares bucket and object", "getUnlocked no longer rejects an upload id that belongs to another bucket/key")
	}
}

func rule063(r *core.Run, ctx *oblig.Ctx) {
	r.Rule("R06.3", "every compiler-reported bounds site in the uploader (part index in complete/upload/list, slices in remove) is discharged")
	scope := map[*ssa.Function]bool{}
	for _, fn := range r.P.FuncsOfPkg("gofakes3") {
		n := fname(r, fn)
		if strings.HasPrefix(n, "gofakes3.(*uploader).") || strings.HasPrefix(n, "gofakes3.(*bucketUploads).") || strings.HasPrefix(n, "gofakes3.(CompleteMultipartUploadRequest).") {
			scope[fn] = true
		}
	}
	boundsRule(r, ctx, "R06.3", scope)
	r.Floor("R06.3", 5, "uploader bounds sites")
}

func rule064(r *core.Run) {
	r.Rule("R06.4", "inside the loop over input.Parts, the listed ETag is compared with the stored part's ETag (stored part addressed by the listed PartNumber) and a nil slot is tested; the failing arms return ErrInvalidPart")
	fn := mustFunc(r, "gofakes3.(*uploader).CompleteMultipartUpload")
	if fn == nil {
		return
	}
	etagCmp, nilTest := false, false
	var where ssa.Instruction
	for ret, ev := range returnedErrors(fn) {
		s := r.P.SliceOf(ev, core.SliceOpts{Depth: 2})
		if !has(errCodes(s), "InvalidPart") {
			continue
		}
		for _, g := range core.GuardsOf(ret) {
			cd := core.CondOf(g.If.Cond)
			if cd.Op != token.NEQ && cd.Op != token.EQL {
				continue
			}
			truth := g.Branch
			if cd.Neg {
				truth = !truth
			}
			sx := r.P.SliceOf(cd.X, core.SliceOpts{Depth: -1})
			sy := r.P.SliceOf(cd.Y, core.SliceOpts{Depth: -1})
			inX, upX := sx.Has("field:gofakes3.CompletedPart.ETag"), sx.Has("field:gofakes3.multipartUploadPart.ETag")
			inY, upY := sy.Has("field:gofakes3.CompletedPart.ETag"), sy.Has("field:gofakes3.multipartUploadPart.ETag")
			unequalArm := (cd.Op == token.NEQ && truth) || (cd.Op == token.EQL && !truth)
			if ((inX && upY && !upX && !inY) || (inY && upX && !upY && !inX)) && unequalArm {
				// the stored part is addressed by the listed number
				up := sx
				if upY {
					up = sy
				}
				if up.Has("field:gofakes3.multipartUpload.parts") && up.Has("field:gofakes3.CompletedPart.PartNumber") {
					etagCmp = true
					where = ret
				}
			}
		}
	}
	// nil slot test: some If tests the slot with the listed number against nil
	// and its nil arm leads straight to a return of ErrInvalidPart
	core.Instrs(fn, func(in ssa.Instruction) {
		iff, ok := in.(*ssa.If)
		if !ok {
			return
		}
		cd := core.CondOf(iff.Cond)
		if cd.Op != token.NEQ && cd.Op != token.EQL {
			return
		}
		var o ssa.Value
		if core.IsNilConst(cd.Y) {
			o = cd.X
		} else if core.IsNilConst(cd.X) {
			o = cd.Y
		} else {
			return
		}
		so := r.P.SliceOf(o, core.SliceOpts{Depth: -1})
		if !so.Has("field:gofakes3.multipartUpload.parts") || !so.Has("field:gofakes3.CompletedPart.PartNumber") {
			return
		}
		nilBranch := cd.Op == token.EQL
		if cd.Neg {
			nilBranch = !nilBranch
		}
		if ret := edgeReturn(iff, nilBranch); ret != nil {
			if ev, ok := returnedErrors(fn)[ret]; ok {
				if has(errCodes(r.P.SliceOf(ev, core.SliceOpts{Depth: 2})), "InvalidPart") {
					nilTest = true
				}
			}
		}
	})
	k := fname(r, fn)
	p0 := r.P.Pos(fn.Pos())
	if where != nil {
		p0 = pos(r, where)
	}
	r.Check(etagCmp, "R06.4", key(k, "ETag compared"), p0, "listed ETag != stored ETag ⇒ InvalidPart", "no return of ErrInvalidPart is guarded by an inequality between the listed ETag and the ETag of the stored part with the listed number: a stale ETag is accepted")
	r.Check(nilTest, "R06.4", key(k, "never-uploaded part rejected"), p0, "nil slot ⇒ InvalidPart", "no return of ErrInvalidPart is guarded by a nil test of the slot with the listed number: a part never uploaded is accepted (and dereferenced)")
	// PutObject not reachable from the loop without passing the checks: the check sites dominate... the loop header dominates PutObject and each error arm returns
}

func rule065(r *core.Run) {
	r.Rule("R06.5", "no call-graph path from (*uploader).AbortMultipartUpload to any Backend method; positive control: CompleteMultipartUpload reaches Backend.PutObject")
	ab := mustFunc(r, "gofakes3.(*uploader).AbortMultipartUpload")
	cp := mustFunc(r, "gofakes3.(*uploader).CompleteMultipartUpload")
	if ab == nil || cp == nil {
		return
	}
	touches := func(root *ssa.Function) string {
		reach := reachableFrom(r, []*ssa.Function{root})
		for f := range reach {
			n := fname(r, f)
			for _, impl := range backendImpls {
				if strings.HasPrefix(n, impl+".") {
					return n
				}
			}
			hit := ""
			core.Instrs(f, func(in ssa.Instruction) {
				if c, ok := in.(ssa.CallInstruction); ok {
					if strings.HasPrefix(r.P.CalleeName(c), "invoke:gofakes3.Backend.") || strings.HasPrefix(r.P.CalleeName(c), "invoke:gofakes3.VersionedBackend.") {
						hit = r.P.CalleeName(c) + " in " + n
					}
				}
			})
			if hit != "" {
				return hit
			}
		}
		return ""
	}
	t := touches(ab)
	r.Check(t == "", "R06.5", key(fname(r, ab), "never reaches storage"), r.P.Pos(ab.Pos()), "abort touches no Backend method", "AbortMultipartUpload can reach the storage backend: "+t)
	if touches(cp) == "" {
		r.Unresolved("R06.5: positive control failed — CompleteMultipartUpload does not reach Backend.PutObject in the call graph")
	}
}

func rule066(r *core.Run, ctx *oblig.Ctx) {
	r.Rule("R06.6", "UploadPart reads the whole body and checks its length against contentLength before any lock is taken; the part is stored at index partNumber with Body = that body and ETag = MD5 of that body; no store to parts precedes an error return")
	fn := mustFunc(r, "gofakes3.(*uploader).UploadPart")
	if fn == nil {
		return
	}
	k := fname(r, fn)
	var read *ssa.Call
	var locks []ssa.Instruction
	core.Instrs(fn, func(in ssa.Instruction) {
		if c, ok := in.(*ssa.Call); ok {
			switch r.P.CalleeName(c) {
			case "io.ReadAll", "io/ioutil.ReadAll", "gofakes3.ReadAll":
				read = c
			case "(*sync.Mutex).Lock":
				locks = append(locks, c)
			}
		}
	})
	if read == nil || len(locks) == 0 {
		r.Violated("R06.6", key(k, "anchors"), r.P.Pos(fn.Pos()), "UploadPart no longer reads the body with ReadAll / takes the uploader lock")
		return
	}
	inp := paramNamed(fn, "input")
	cl := paramNamed(fn, "contentLength")
	r.Check(inp != nil && read.Call.Args[0] == ssa.Value(inp), "R06.6", key(k, "reads input"), pos(r, read), "ReadAll(input)", "the body is not read from the input parameter")
	var body ssa.Value
	for _, ref := range *read.Referrers() {
		if e, ok := ref.(*ssa.Extract); ok && e.Index == 0 {
			body = e
		}
	}
	for i, l := range locks {
		okRead := core.CheckedBefore(read, l)
		// length guard: len(body) vs contentLength, unequal arm returns
		lenGuard := false
		for _, f := range ctx.FactsAt(l) {
			if f.Op != token.EQL {
				continue
			}
			s := r.P.SliceOfMany([]ssa.Value{f.X, f.Y}, core.SliceOpts{Depth: -1})
			if body != nil && s.HasValue(body) && s.Has("call:builtin:len") && cl != nil && s.HasValue(cl) {
				lenGuard = true
			}
		}
		r.Check(okRead && lenGuard, "R06.6", key(k, "read+length check before lock", sprintf("#%d", i)), pos(r, l),
			"body fully read and len(body)==contentLength established before locking", "a lock is taken (and the slot may be written) before the body is completely read and its length compared with contentLength")
	}
	// the slot store
	pn := paramNamed(fn, "partNumber")
	nStore := 0
	core.Instrs(fn, func(in ssa.Instruction) {
		st, ok := in.(*ssa.Store)
		if !ok {
			return
		}
		ia, ok := st.Addr.(*ssa.IndexAddr)
		if !ok || ctx.BaseDesc(ia.X) != "field:gofakes3.multipartUpload.parts" {
			return
		}
		nStore++
		r.Check(pn != nil && core.Forward(ia.Index) == ssa.Value(pn), "R06.6", key(k, "stored at partNumber"), pos(r, st), "slot index is the partNumber parameter", "the part is stored at an index other than its part number")
		// stored value: &part with Body = body, ETag = md5(body)
		sv := r.P.SliceOf(st.Val, core.SliceOpts{Depth: 1})
		r.Check(body != nil && sv.HasValue(body), "R06.6", key(k, "Body is the read body"), pos(r, st), "part.Body is the body read from input", "the stored part's Body is not the body read from the request")
		var etagVals []ssa.Value
		if a, ok := st.Val.(*ssa.Alloc); ok {
			for _, ref := range *a.Referrers() {
				if fa, ok := ref.(*ssa.FieldAddr); ok && r.P.FieldName(fa) == "gofakes3.multipartUploadPart.ETag" {
					for _, u := range *fa.Referrers() {
						if s2, ok := u.(*ssa.Store); ok {
							etagVals = append(etagVals, s2.Val)
						}
					}
				}
			}
		}
		se := r.P.SliceOfMany(etagVals, core.SliceOpts{Depth: 1})
		r.Check(len(etagVals) > 0 && (se.Has("call:crypto/md5.New") || se.Has("call:crypto/md5.Sum")) && body != nil && se.HasValue(body) && se.Has("call:encoding/hex.EncodeToString"), "R06.6", key(k, "ETag is MD5(body)"), pos(r, st),
			"ETag derives from md5 over the read body", "the stored part's ETag is not the hex MD5 of the body that was stored")
		// no error return after the store
		for ret, ev := range returnedErrors(fn) {
			if !definitelyNil(r, ev) && core.Reaches(st, ret) {
				r.Violated("R06.6", key(k, "no error after slot store"), pos(r, ret), "an error can be returned after the part slot was overwritten: a rejected part must leave the slot untouched")
			}
		}
	})
	r.Check(nStore == 1, "R06.6", key(k, "single slot store"), r.P.Pos(fn.Pos()), "exactly one store into parts[...]", sprintf("%d stores into parts[...] (expected 1)", nStore))
	// partNumber upper bound
	ub := false
	if pn != nil {
		for _, l := range locks {
			if upperConst(ctx, pn, l) {
				ub = true
			}
		}
	}
	r.Check(ub, "R06.6", key(k, "partNumber <= MaxUploadPartNumber"), r.P.Pos(fn.Pos()), "part number bounded before the slice is grown", "UploadPart no longer bounds partNumber by MaxUploadPartNumber before growing the slice")
}

func rule067(r *core.Run) {
	r.Rule("R06.7", "PutObject receives bytes.NewReader(body) with body appended only from mpu.parts[inPart.PartNumber].Body while ranging input.Parts, meta = mpu.Meta, size = len(body); the returned ETag derives from md5 over the decoded part ETags and len(input.Parts)")
	fn := mustFunc(r, "gofakes3.(*uploader).CompleteMultipartUpload")
	if fn == nil {
		return
	}
	k := fname(r, fn)
	var put *ssa.Call
	core.Instrs(fn, func(in ssa.Instruction) {
		if c, ok := in.(*ssa.Call); ok && r.P.CalleeName(c) == "invoke:gofakes3.Backend.PutObject" {
			put = c
		}
	})
	if put == nil {
		return
	}
	args := put.Call.Args
	bp, op := paramNamed(fn, "bucket"), paramNamed(fn, "object")
	r.Check(args[0] == ssa.Value(bp) && args[1] == ssa.Value(op), "R06.7", key(k, "PutObject(bucket, object)"), pos(r, put), "stored under the addressed bucket and key", "the assembled object is not stored under the bucket/key of the request")
	sm := r.P.SliceOf(args[2], core.SliceOpts{Depth: -1})
	r.Check(sm.Has("field:gofakes3.multipartUpload.Meta") && !sm.HasPrefix("make:"), "R06.7", key(k, "meta = mpu.Meta"), pos(r, put), "initiation metadata passed", "PutObject does not receive the metadata given at initiation (mpu.Meta)")
	sb := r.P.SliceOf(args[3], core.SliceOpts{Depth: -1})
	okBody := sb.Has("call:bytes.NewReader") && sb.Has("field:gofakes3.multipartUploadPart.Body") && sb.Has("field:gofakes3.CompletedPart.PartNumber") && sb.Has("field:gofakes3.CompleteMultipartUploadRequest.Parts")
	r.Check(okBody, "R06.7", key(k, "body from listed parts"), pos(r, put), "reader over the bodies of the listed parts", "the stored body is not assembled from mpu.parts[inPart.PartNumber].Body over input.Parts")
	// the only appends into body take part bodies
	var bodyVal ssa.Value
	if c, ok := args[3].(*ssa.MakeInterface); ok {
		if nr, ok := c.X.(*ssa.Call); ok && r.P.CalleeName(nr) == "bytes.NewReader" {
			bodyVal = nr.Call.Args[0]
		}
	}
	if bodyVal != nil {
		okApp := true
		nApp := 0
		var walk func(v ssa.Value, d int)
		seen := map[ssa.Value]bool{}
		walk = func(v ssa.Value, d int) {
			if seen[v] || d > 6 {
				return
			}
			seen[v] = true
			switch x := v.(type) {
			case *ssa.Phi:
				for _, e := range x.Edges {
					walk(e, d+1)
				}
			case *ssa.Call:
				if b, ok := x.Call.Value.(*ssa.Builtin); ok && b.Name() == "append" {
					nApp++
					src := r.P.SliceOf(x.Call.Args[1], core.SliceOpts{Depth: -1})
					if !src.Has("field:gofakes3.multipartUploadPart.Body") || src.HasPrefix("slice-expr") {
						okApp = false
					}
					walk(x.Call.Args[0], d+1)
				} else {
					okApp = false
				}
			case *ssa.MakeSlice:
				if k, ok := core.ConstInt(x.Len); !ok || k != 0 {
					okApp = false
				}
			case *ssa.Const:
			default:
				okApp = false
			}
		}
		walk(bodyVal, 0)
		r.Check(okApp && nApp >= 1, "R06.7", key(k, "body = concatenation of whole part bodies"), pos(r, put), "body starts empty and only whole part bodies are appended", "the assembled body is not exactly empty + whole part bodies (a slice, a prefix or foreign bytes are appended)")
	}
	ss := r.P.SliceOf(args[4], core.SliceOpts{Depth: -1, StopAt: func(v ssa.Value) bool { return v == bodyVal }})
	r.Check(ss.Has("call:builtin:len") && bodyVal != nil && ss.HasValue(bodyVal) && !ss.HasPrefix("op:"), "R06.7", key(k, "size = len(body)"), pos(r, put), "declared size is len(body)", "PutObject's size is not len(body)")
	// etag
	var etags []ssa.Value
	for ret := range returnedErrors(fn) {
		if len(ret.Results) == 3 {
			if s, ok := core.ConstString(ret.Results[1]); ok && s == "" {
				continue
			}
			etags = append(etags, ret.Results[1])
		}
	}
	se := r.P.SliceOfMany(etags, core.SliceOpts{Depth: -1})
	okE := se.Has("call:crypto/md5.New") && se.Has("field:gofakes3.multipartUploadPart.ETag") && se.Has("call:encoding/hex.DecodeString") &&
		se.Has("field:gofakes3.CompleteMultipartUploadRequest.Parts") && se.Has("call:builtin:len") && se.Has("call:encoding/hex.EncodeToString")
	r.Check(okE, "R06.7", key(k, "ETag = md5(part md5s)-count"), r.P.Pos(fn.Pos()), "ETag from md5 over decoded part ETags and len(input.Parts)", "the returned ETag is not built from the MD5 over the decoded part ETags and the number of listed parts")
	// the count in the ETag is exactly len(input.Parts)
	for c := range se.Calls {
		call, ok := c.(*ssa.Call)
		if !ok || r.P.CalleeName(call) != "fmt.Sprintf" || call.Parent() != fn {
			continue
		}
		sl, ok := call.Call.Args[len(call.Call.Args)-1].(*ssa.Slice)
		if !ok {
			continue
		}
		arr, ok := sl.X.(*ssa.Alloc)
		if !ok {
			continue
		}
		for _, ref := range *arr.Referrers() {
			ia, ok := ref.(*ssa.IndexAddr)
			if !ok {
				continue
			}
			for _, u := range *ia.Referrers() {
				st, ok := u.(*ssa.Store)
				if !ok {
					continue
				}
				mi, ok := st.Val.(*ssa.MakeInterface)
				if !ok || !isIntVal(mi.X) {
					continue
				}
				okCnt := false
				if isLenCall(mi.X) {
					sa := r.P.SliceOf(mi.X.(*ssa.Call).Call.Args[0], core.SliceOpts{Depth: -1})
					okCnt = sa.Has("field:gofakes3.CompleteMultipartUploadRequest.Parts") && !sa.HasPrefix("op:") && !sa.HasPrefix("slice-expr")
				}
				r.Check(okCnt, "R06.7", key(k, "ETag count = len(input.Parts)"), pos(r, st), "count is len(input.Parts)", "the '-<n>' suffix of the multipart ETag is not len(input.Parts) (the number of listed parts)")
			}
		}
	}
	// result version from PutObject
	var vers []ssa.Value
	for ret := range returnedErrors(fn) {
		if len(ret.Results) == 3 {
			vers = append(vers, ret.Results[0])
		}
	}
	sv := r.P.SliceOfMany(vers, core.SliceOpts{Depth: -1})
	r.Check(sv.HasValue(put), "R06.7", key(k, "version from PutObject"), r.P.Pos(fn.Pos()), "returned version id is PutObject's", "the returned version id does not come from the PutObject result")
}

func isIntVal(v ssa.Value) bool {
	b, ok := v.Type().Underlying().(*types.Basic)
	return ok && b.Info()&types.IsInteger != 0
}

// rule068 — a part's ETag always belongs to its body; lookup and removal of an upload are one critical section.
func rule068(r *core.Run) {
	r.Rule("R06.8", "every store to multipartUploadPart.Body is accompanied, on every path to a successful return, by a store to the ETag of that same part (a re-uploaded part cannot keep the ETag of its previous body); in CompleteMultipartUpload and AbortMultipartUpload uploader.mu is not released between the lookup of the upload and its removal (an abort or a second complete cannot slip in between)")
	n := 0
	for _, fn := range r.P.FuncsOfPkg("gofakes3") {
		f := fn
		if !strings.Contains(fname(r, f), "uploader") && !strings.Contains(fname(r, f), "multipartUpload") {
			continue
		}
		bodyStores := []*ssa.Store{}
		etagStores := map[ssa.Value][]*ssa.Store{} // by struct base
		core.Instrs(f, func(in ssa.Instruction) {
			st, ok := in.(*ssa.Store)
			if !ok {
				return
			}
			fa, ok := st.Addr.(*ssa.FieldAddr)
			if !ok {
				return
			}
			switch r.P.FieldName(fa) {
			case "gofakes3.multipartUploadPart.Body":
				bodyStores = append(bodyStores, st)
			case "gofakes3.multipartUploadPart.ETag":
				etagStores[fa.X] = append(etagStores[fa.X], st)
			}
		})
		for i, bs := range bodyStores {
			n++
			base := bs.Addr.(*ssa.FieldAddr).X
			ets := etagStores[base]
			ok := len(ets) > 0
			if ok {
				// an ETag store of the same part before the body store (same literal), or on every path from it to success
				before := false
				for _, es := range ets {
					if core.Dominates(es, bs) && !phiBase(base) {
						before = true
					}
				}
				// `before` only counts when the part is the fresh struct both stores initialise
				if _, fresh := base.(*ssa.Alloc); !(before && fresh) {
					for ret, ev := range returnedErrors(f) {
						if !definitelyNil(r, core.BlockLocalLoad(ev)) || !core.Reaches(bs, ret) {
							continue
						}
						if core.ReachesAvoiding(bs, ret, func(in ssa.Instruction) bool {
							for _, es := range ets {
								if in == ssa.Instruction(es) {
									return true
								}
							}
							return false
						}) {
							ok = false
						}
					}
				}
			}
			r.Check(ok, "R06.8", key(fname(r, f), "ETag stored with the body", sprintf("#%d", i)), pos(r, bs), "Body and ETag of the part are set together",
				"a part's Body is replaced on a path that does not set the ETag of that same part: a re-uploaded part keeps the ETag of its previous content (the fresh ETag is refused at complete, the stale one accepted)")
		}
	}
	// one critical section from lookup to removal
	a := newLockset(r)
	for _, m := range []string{"gofakes3.(*uploader).CompleteMultipartUpload", "gofakes3.(*uploader).AbortMultipartUpload"} {
		fn := mustFunc(r, m)
		if fn == nil {
			continue
		}
		var get, rem ssa.Instruction
		core.Instrs(fn, func(in ssa.Instruction) {
			if c, ok := in.(*ssa.Call); ok {
				switch r.P.CalleeName(c) {
				case "gofakes3.(*uploader).getUnlocked":
					if get == nil {
						get = c
					}
				case "gofakes3.(*bucketUploads).remove":
					rem = c
				}
			}
		})
		if get == nil || rem == nil {
			r.Unresolved("R06.8: lookup/removal anchors not found in %s", m)
			continue
		}
		n++
		released := false
		core.Instrs(fn, func(in ssa.Instruction) {
			for _, op := range a.OpsAt(in) {
				if op.Acquire || op.Deferred || op.Class != "gofakes3.uploader.mu" {
					continue
				}
				if core.Reaches(get, in) && core.Reaches(in, rem) {
					released = true
				}
			}
		})
		heldAtRemove := a.MustAt(rem).Get("gofakes3.uploader.mu") != lockset.None && a.MustAt(get).Get("gofakes3.uploader.mu") != lockset.None
		r.Check(!released && heldAtRemove, "R06.8", key(m, "lookup and removal in one critical section"), pos(r, rem), "uploader.mu held from getUnlocked to remove",
			"uploader.mu is released between the lookup of the upload and its removal: an abort that arrives during a complete is acknowledged although the object is created, and two completes of one upload both store")
	}
	if n < 3 {
		r.Unresolved("R06.8: %d instances (expected at least 3)", n)
	}
}

func phiBase(v ssa.Value) bool {
	_, ok := v.(*ssa.Phi)
	return ok
}

// rule069 — a refused complete leaves the pending upload as it was; the
// request's part list is read completely.
func rule069(r *core.Run) {
	r.Rule("R06.9", "in uploader.CompleteMultipartUpload no return of a non-nil error is reachable after a store into the upload's parts (an element of multipartUpload.parts, a field of a part reached through it, or the parts field itself): a complete that is refused — wrong ETag, unknown part, wrong order, backend error — must leave every uploaded part in place for the corrected retry; and xmlDecodeBody hands the decoder the whole request body (read to EOF, no length-limiting wrapper, no slice of it): a part list of any size is seen completely")
	fn := mustFunc(r, "gofakes3.(*uploader).CompleteMultipartUpload")
	n := 0
	if fn != nil {
		core.Instrs(fn, func(in ssa.Instruction) {
			st, ok := in.(*ssa.Store)
			if !ok {
				return
			}
			as := r.P.SliceOf(st.Addr, core.SliceOpts{Depth: -1, NoIndex: true})
			if !as.Has("field:gofakes3.multipartUpload.parts") && !as.Has("fieldaddr:gofakes3.multipartUpload.parts") {
				if fa, isFA := st.Addr.(*ssa.FieldAddr); !isFA || r.P.FieldName(fa) != "gofakes3.multipartUpload.parts" {
					return
				}
			}
			// a local slice built from the parts (a copy) is not the upload
			if root := baseRoot(st.Addr); root != nil {
				return
			}
			n++
			bad := ""
			for ret, ev := range returnedErrors(fn) {
				if !definitelyNil(r, core.BlockLocalLoad(ev)) && core.Reaches(st, ret) {
					bad = pos(r, ret)
				}
			}
			r.Check(bad == "", "R06.9", key(fname(r, fn), "no refusal after the upload's parts were modified", sprintf("#%d", n)), pos(r, st), "no error return after the store",
				"the pending upload's parts are modified and an error can still be returned afterwards (return at "+bad+"): a refused complete has already lost uploaded parts, the corrected retry fails with InvalidPart")
		})
		r.Held("R06.9", key(fname(r, fn), "stores into the upload's parts enumerated"), "", sprintf("%d", n))
	}
	xd := mustFunc(r, "gofakes3.(*GoFakeS3).xmlDecodeBody")
	if xd == nil {
		return
	}
	var decoded []ssa.Value
	var decCalls []*ssa.Call
	core.Instrs(xd, func(in ssa.Instruction) {
		c, ok := in.(*ssa.Call)
		if !ok {
			return
		}
		switch r.P.CalleeName(c) {
		case "encoding/xml.Unmarshal", "encoding/xml.NewDecoder":
			decoded = append(decoded, c.Call.Args[0])
			decCalls = append(decCalls, c)
		}
	})
	if len(decoded) == 0 {
		r.Unresolved("R06.9: xmlDecodeBody no longer decodes through encoding/xml")
		return
	}
	rp := paramNamed(xd, "rdr")
	if rp == nil && len(xd.Params) > 1 {
		rp = xd.Params[1]
	}
	for i, d := range decoded {
		ds := r.P.SliceOf(d, core.SliceOpts{Depth: 2})
		bad := ""
		for c := range ds.Calls {
			switch cn := r.P.CalleeName(c); cn {
			case "io.LimitReader", "net/http.MaxBytesReader", "io.CopyN", "io.ReadAtLeast", "io.ReadFull", "(*io.LimitedReader).Read", "io.NewSectionReader":
				bad = cn
			}
		}
		if ds.Has("slice-expr") {
			bad = "a slice of the body"
		}
		r.Check(bad == "" && rp != nil && ds.HasValue(rp), "R06.9", key(fname(r, xd), "whole body decoded", sprintf("#%d", i)), pos(r, decCalls[i]), "decoder input = the request body read to EOF",
			"the XML decoder does not get the whole request body ("+bad+"): a long part list is cut and answered MalformedXML — an upload with many parts can never be completed")
	}
}
