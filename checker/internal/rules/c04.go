package rules

import (
	"go/token"
	"strings"

	"golang.org/x/tools/go/ssa"

	"gfs3check/internal/core"
)

func init() { Registry["C04"] = C04 }

// C04 — paginated listing visits every key exactly once and terminates.
func C04(r *core.Run) {
	r.Explanation = "Structural necessary conditions of object-listing pagination (memory backend paginates, the others use the fallback), on all paths: " +
		"(R04.1) every listed entry (Add or AddPrefix) passes the page counter and the test counter >= page.MaxKeys before the next entry, and nothing is listed after the bound is hit; " +
		"(R04.2) IsTruncated is only ever set together with NextMarker = the last examined key; the handler derives NextContinuationToken (V2) / NextMarker (V1, delimiter) from it on the arm where it is non-empty; " +
		"(R04.3) the continuation token is encoded and decoded with the same base64 alphabet and a decode failure answers InvalidToken; (R04.4) after seeking to the marker the entry equal to the marker is skipped; " +
		"(R04.5) non-paginating backends refuse a non-empty page before touching their store, and the handler retries with the zero page exactly when that error came back and the refusal option is off; " +
		"(R04.6) max-keys is clamped from the query; marker / continuation-token / start-after feed page.Marker. (R04.6) start-after feeds the marker only where no continuation token is present; (R04.7) the page after a marker inside a common prefix does not report that prefix again. (R04.8) the iterator wrapper reports a failed Seek to the following Next. (paging elements) the continuation markers are serialised under the element names the protocol defines."
	r.NotDecided = "completeness and strict ascent across pages as value statements, that a CommonPrefix is reported once across pages beyond the marker-group rule R04.7, termination as a whole-loop property"
	rule041(r)
	rule042(r)
	rule043(r)
	rule044(r)
	rule045(r)
	rule046(r)
	rule047(r)
	rule048(r)
	rulePagingElements(r, "R04.9", "ListBucketResultBase", "ListBucketResult", "ListBucketResultV2")
	rule035(r)
	rule038(r)
}

func rule041(r *core.Run) {
	r.Rule("R04.1", "in s3mem ListBucket every Add/AddPrefix is followed, before the next Add/AddPrefix, by the test counter+1 >= page.MaxKeys (only bypass: page.MaxKeys > 0 false), whose true arm lists nothing more")
	fn := mustFunc(r, "s3mem.(*Backend).ListBucket")
	if fn == nil {
		return
	}
	name := fname(r, fn)
	var adds []ssa.Instruction
	for _, s := range addSites(r) {
		if s.fn == fn {
			adds = append(adds, s.call)
		}
	}
	var bound, bypass *ssa.If
	var boundCond ssa.Value
	core.Instrs(fn, func(in ssa.Instruction) {
		iff, ok := in.(*ssa.If)
		if !ok {
			return
		}
		// the condition itself, or — for a test of a boolean merged from `a && b` / a named flag — the
		// operand the true outcome must have come from
		for _, ec := range expandGuard(iff, true) {
			if ec.merged || !ec.truth {
				continue
			}
			cd := core.CondOf(ec.cond)
			s := r.P.SliceOfMany([]ssa.Value{cd.X, cd.Y}, core.SliceOpts{Depth: -1})
			if !s.Has("field:gofakes3.ListBucketPage.MaxKeys") {
				continue
			}
			if k, isK := core.ConstInt(cd.Y); isK && k == 0 && cd.Op == token.GTR && !cd.Neg {
				if ec.cond == iff.Cond {
					bypass = iff
				}
			} else if cd.Op == token.GEQ || cd.Op == token.GTR || cd.Op == token.EQL {
				bound, boundCond = iff, ec.cond
			}
		}
	})
	if bound == nil || len(adds) < 2 {
		r.Violated("R04.1", key(name, "page bound"), r.P.Pos(fn.Pos()), "no test of the entry counter against page.MaxKeys (or no entries added): a page can exceed max-keys")
		return
	}
	cd := core.CondOf(boundCond)
	inc := false
	if b, ok := cd.X.(*ssa.BinOp); ok && b.Op == token.ADD {
		if k, isK := core.ConstInt(b.Y); isK && k == 1 {
			inc = true
		}
	}
	r.Check(cd.Op == token.GEQ && inc, "R04.1", key(name, "bound is cnt+1 >= MaxKeys"), pos(r, bound), "counter incremented for the entry just listed and compared with >=", "the page bound is not 'counter (incremented per entry) >= MaxKeys': a page can hold more entries than max-keys")
	avoid := func(in ssa.Instruction) bool {
		return in == ssa.Instruction(bound) || (bypass != nil && in == ssa.Instruction(bypass))
	}
	for i, a := range adds {
		bad := false
		for _, b := range adds {
			if core.ReachesAvoiding(a, b, avoid) {
				bad = true
			}
		}
		r.Check(!bad, "R04.1", key(name, "entry passes the bound test", sprintf("#%d", i)), pos(r, a), "bound tested after this entry", "after listing this entry another one can be listed without the page bound being tested (an entry kind that does not count towards max-keys)")
	}
	t := bound.Block().Succs[0]
	leaves := true
	if len(t.Instrs) > 0 {
		for _, a := range adds {
			if t.Instrs[0] == a || core.Reaches(t.Instrs[0], a) {
				leaves = false
			}
		}
	}
	r.Check(leaves, "R04.1", key(name, "bound leaves the loop"), pos(r, bound), "nothing listed after the bound is hit", "entries can still be listed after the page bound was hit")
	if bypass != nil {
		var guarded ssa.Instruction = bound
		if bi, ok := boundCond.(ssa.Instruction); ok && boundCond != bound.Cond {
			guarded = bi // the comparison sits behind the `MaxKeys > 0 &&` of a merged condition
		}
		r.Check(core.GuardedBy(guarded, bypass, true), "R04.1", key(name, "only bypass is MaxKeys <= 0"), pos(r, bypass), "MaxKeys > 0 guards the bound", "the page bound is skipped under a condition other than MaxKeys <= 0")
	}
}

func rule042(r *core.Run) {
	r.Rule("R04.2", "every store to ObjectList.IsTruncated of a non-false value is preceded on its path by a store of the last examined key to NextMarker; in the handler NextContinuationToken is set exactly on the objects.NextMarker != \"\" arm from it, V1 NextMarker from it on the delimiter arm, IsTruncated/Contents/CommonPrefixes are copied unchanged")
	fn := mustFunc(r, "s3mem.(*Backend).ListBucket")
	if fn != nil {
		name := fname(r, fn)
		n := 0
		for _, st := range r.P.FieldStores("gofakes3.ObjectList.IsTruncated") {
			if st.Parent() != fn {
				continue
			}
			if c, ok := st.Val.(*ssa.Const); ok && c.Value != nil && c.Value.String() == "false" {
				continue
			}
			n++
			ok := false
			for _, m := range r.P.FieldStores("gofakes3.ObjectList.NextMarker") {
				if m.Parent() != fn || !core.Dominates(m, st) {
					continue
				}
				s := r.P.SliceOf(m.Val, core.SliceOpts{Depth: -1})
				if s.Has("field:s3mem.bucketData.name") && s.Has("call:goskipiter.(*Iterator).Value") {
					ok = true
				}
			}
			r.Check(ok, "R04.2", key(name, "IsTruncated ⇒ NextMarker", sprintf("#%d", n)), pos(r, st), "NextMarker = key of the last examined item, stored first", "the listing can be marked truncated without NextMarker being the last examined key: the client cannot continue (or skips/repeats keys)")
			// the truncation flag is 'there is a next item'
			s := r.P.SliceOf(st.Val, core.SliceOpts{Depth: -1})
			r.Check(s.Has("call:goskipiter.(*Iterator).Next"), "R04.2", key(name, "IsTruncated = more items", sprintf("#%d", n)), pos(r, st), "truncated iff the iterator has another item", "IsTruncated is not derived from the iterator having another item")
		}
		if n == 0 {
			r.Violated("R04.2", key(name, "IsTruncated"), r.P.Pos(fn.Pos()), "the paginating backend never reports truncation")
		}
	}
	h := mustFunc(r, "gofakes3.(*GoFakeS3).listBucket")
	if h == nil {
		return
	}
	hn := fname(r, h)
	// token
	for _, st := range r.P.FieldStores("gofakes3.ListBucketResultV2.NextContinuationToken") {
		if st.Parent() != h {
			continue
		}
		s := r.P.SliceOf(st.Val, core.SliceOpts{Depth: -1})
		okArm := false
		for _, g := range core.GuardsOf(st) {
			gs := r.P.SliceOf(g.If.Cond, core.SliceOpts{Depth: -1, Control: true})
			cd := core.CondOf(g.If.Cond)
			if eq, ok := g.Equality(); gs.Has("field:gofakes3.ObjectList.NextMarker") && gs.Has("const:") && ok && !eq {
				_ = cd
				okArm = true
			}
		}
		r.Check(okArm && s.Has("field:gofakes3.ObjectList.NextMarker") && s.Has("call:(*encoding/base64.Encoding).EncodeToString"), "R04.2", key(hn, "NextContinuationToken from NextMarker"), pos(r, st),
			"token = base64(objects.NextMarker) when non-empty", "NextContinuationToken is not the encoded objects.NextMarker on the arm where it is non-empty")
	}
	for _, st := range r.P.FieldStores("gofakes3.ListBucketResult.NextMarker") {
		if st.Parent() != h {
			continue
		}
		s := r.P.SliceOf(st.Val, core.SliceOpts{Depth: -1})
		r.Check(s.Has("field:gofakes3.ObjectList.NextMarker") && !s.HasPrefix("op:") && !s.HasPrefix("call:strings.") && !s.HasPrefix("slice-expr"), "R04.2", key(hn, "V1 NextMarker from NextMarker"), pos(r, st), "V1 NextMarker = objects.NextMarker", "V1 NextMarker is not objects.NextMarker")
	}
	for f, src := range map[string]string{"IsTruncated": "field:gofakes3.ObjectList.IsTruncated", "Contents": "field:gofakes3.ObjectList.Contents", "CommonPrefixes": "field:gofakes3.ObjectList.CommonPrefixes"} {
		ok := false
		for _, st := range r.P.FieldStores("gofakes3.ListBucketResultBase." + f) {
			if st.Parent() != h {
				continue
			}
			s := r.P.SliceOf(st.Val, core.SliceOpts{Depth: -1})
			if s.Has(src) && !s.HasPrefix("op:") && !s.HasPrefix("slice-expr") {
				ok = true
			}
		}
		r.Check(ok, "R04.2", key(hn, "base."+f), r.P.Pos(h.Pos()), f+" copied from the backend's list", "the response's "+f+" is not the backend's "+f+" unchanged")
	}
}

func rule043(r *core.Run) {
	r.Rule("R04.3", "the continuation token is produced and consumed with the same *base64.Encoding (package-level value); the decoded bytes become page.Marker; a decode error returns ErrInvalidToken")
	h := mustFunc(r, "gofakes3.(*GoFakeS3).listBucket")
	pf := mustFunc(r, "gofakes3.listBucketPageFromQuery")
	if h == nil || pf == nil {
		return
	}
	enc := map[string]ssa.Instruction{}
	find := func(fn *ssa.Function, method string) {
		core.Instrs(fn, func(in ssa.Instruction) {
			c, ok := in.(*ssa.Call)
			if !ok || r.P.CalleeName(c) != "(*encoding/base64.Encoding)."+method {
				return
			}
			s := r.P.SliceOf(c.Call.Args[0], core.SliceOpts{Depth: -1})
			for _, l := range s.LeafList("global:") {
				enc[method+"|"+l] = c
			}
		})
	}
	find(h, "EncodeToString")
	find(pf, "DecodeString")
	var e, d string
	for k := range enc {
		if strings.HasPrefix(k, "EncodeToString|") {
			e = strings.TrimPrefix(k, "EncodeToString|")
		}
		if strings.HasPrefix(k, "DecodeString|") {
			d = strings.TrimPrefix(k, "DecodeString|")
		}
	}
	r.Check(e != "" && e == d, "R04.3", key("continuation token", "same alphabet"), r.P.Pos(pf.Pos()), "encoded and decoded with "+e, sprintf("the continuation token is encoded with %q but decoded with %q: the server cannot read its own tokens for keys whose encoding differs between the alphabets", e, d))
	// decode error → InvalidToken; decoded → Marker
	var dec *ssa.Call
	core.Instrs(pf, func(in ssa.Instruction) {
		if c, ok := in.(*ssa.Call); ok && r.P.CalleeName(c) == "(*encoding/base64.Encoding).DecodeString" {
			dec = c
		}
	})
	if dec == nil {
		r.Violated("R04.3", key(fname(r, pf), "decode"), r.P.Pos(pf.Pos()), "the continuation token is no longer decoded")
		return
	}
	qs := r.P.SliceOf(dec.Call.Args[1], core.SliceOpts{Depth: -1})
	r.Check(qs.Has("const:continuation-token"), "R04.3", key(fname(r, pf), "decodes continuation-token"), pos(r, dec), "query parameter continuation-token", "the decoded value is not the continuation-token query parameter")
	okErr := false
	for ret, ev := range returnedErrors(pf) {
		s := r.P.SliceOf(ev, core.SliceOpts{Depth: 2})
		if has(errCodes(s), "InvalidToken") && core.Reaches(dec, ret) && !core.CheckedBefore(dec, ret) {
			okErr = true
		}
	}
	r.Check(okErr, "R04.3", key(fname(r, pf), "decode error → InvalidToken"), pos(r, dec), "malformed token refused with InvalidToken", "a malformed continuation token is not answered with ErrInvalidToken")
	okMarker := false
	for _, st := range r.P.FieldStores("gofakes3.ListBucketPage.Marker") {
		if st.Parent() != pf {
			continue
		}
		s := r.P.SliceOf(st.Val, core.SliceOpts{Depth: -1})
		if s.HasValue(dec) && core.CheckedBefore(dec, st) {
			okMarker = true
		}
	}
	r.Check(okMarker, "R04.3", key(fname(r, pf), "decoded token → Marker"), pos(r, dec), "page.Marker = decoded token under a checked decode", "the decoded token does not become page.Marker (under a checked decode)")
}

func rule044(r *core.Run) {
	r.Rule("R04.4", "in s3mem ListBucket, on the page.Marker != \"\" arm the iterator seeks to the marker and advances once when the current key equals the marker, before the listing loop")
	fn := mustFunc(r, "s3mem.(*Backend).ListBucket")
	if fn == nil {
		return
	}
	name := fname(r, fn)
	var seek, skip *ssa.Call
	skipNotMarker := ""
	nSeek, otherSeek := 0, ""
	core.Instrs(fn, func(in ssa.Instruction) {
		c, ok := in.(*ssa.Call)
		if !ok {
			return
		}
		switch r.P.CalleeName(c) {
		case "goskipiter.(*Iterator).Seek":
			if seek == nil || isLoadOf(r, core.Forward(stripIface(c.Call.Args[1])), "gofakes3.ListBucketPage.Marker") {
				seek = c
			}
			nSeek++
			if !isLoadOf(r, core.Forward(stripIface(c.Call.Args[1])), "gofakes3.ListBucketPage.Marker") {
				otherSeek = pos(r, c)
			}
		case "goskipiter.(*Iterator).Next":
			// the skip: a Next call guarded by Key() == page.Marker
			for _, g := range core.GuardsOf(c) {
				gs := r.P.SliceOf(g.If.Cond, core.SliceOpts{Depth: -1, Control: true})
				cd := core.CondOf(g.If.Cond)
				if eq, ok := g.Equality(); gs.Has("call:goskipiter.(*Iterator).Key") && gs.Has("field:gofakes3.ListBucketPage.Marker") && ok && eq {
					skip = c
					// the key is compared with the marker itself — not with a start position that may also be the prefix
					other := cd.Y
					if c2, isCall := stripIface(cd.Y).(*ssa.Call); isCall && r.P.CalleeName(c2) == "goskipiter.(*Iterator).Key" {
						other = cd.X
					}
					if !isLoadOf(r, core.Forward(stripIface(other)), "gofakes3.ListBucketPage.Marker") {
						skipNotMarker = pos(r, g.If)
					}
				}
			}
		}
	})
	okSeek := false
	if seek != nil {
		s := r.P.SliceOf(seek.Call.Args[1], core.SliceOpts{Depth: -1})
		okSeek = s.Has("field:gofakes3.ListBucketPage.Marker")
	}
	p0 := r.P.Pos(fn.Pos())
	if seek != nil {
		p0 = pos(r, seek)
	}
	r.Check(okSeek, "R04.4", key(name, "Seek(page.Marker)"), p0, "iterator positioned at the marker", "the iterator is not positioned with Seek(page.Marker): a continued listing restarts from the beginning")
	if skip != nil && seek != nil {
		// the skip depends on nothing but the equality (beyond what already guards the seek)
		sg := core.GuardsOf(seek)
		for _, g := range core.GuardsOf(skip) {
			shared := false
			for _, h := range sg {
				if h == g {
					shared = true
				}
			}
			if shared {
				continue
			}
			gs := r.P.SliceOf(g.If.Cond, core.SliceOpts{Depth: -1, Control: true})
			cd := core.CondOf(g.If.Cond)
			if !(gs.Has("call:goskipiter.(*Iterator).Key") && gs.Has("field:gofakes3.ListBucketPage.Marker") && cd.Op == token.EQL) {
				skip = nil
				break
			}
		}
	}
	r.Check(skip != nil && seek != nil && core.Reaches(seek, skip), "R04.4", key(name, "marker entry skipped"), p0, "the entry equal to the marker is skipped once", "the entry equal to the marker is not skipped: the last key of a page is repeated on the next page")
	r.Check(otherSeek == "", "R04.4", key(name, "the iterator is repositioned only to the marker"), p0, sprintf("%d Seek call(s), each to page.Marker itself", nSeek),
		"the iterator is also repositioned to a computed position (Seek at "+otherSeek+"): keys between the position the loop had reached and the computed one are never examined — unless every one of them provably belongs to what is skipped, which no rule here can establish for a string successor")
	r.Check(skipNotMarker == "", "R04.4", key(name, "only the marker itself is skipped"), p0, "the skipped entry is compared with page.Marker",
		"the entry that is skipped after seeking is compared with a start position that is not the marker itself (at "+skipNotMarker+"): when the listing starts at the prefix, a live key equal to the prefix is dropped")
	// the listing loop uses the same iterator
	if seek != nil {
		same := false
		core.Instrs(fn, func(in ssa.Instruction) {
			if c, ok := in.(*ssa.Call); ok && r.P.CalleeName(c) == "goskipiter.(*Iterator).Value" && c.Call.Args[0] == seek.Call.Args[0] {
				same = true
			}
		})
		r.Check(same, "R04.4", key(name, "loop iterates the sought iterator"), p0, "same iterator listed", "the listing loop does not iterate the iterator that was positioned at the marker")
	}
}

func rule045(r *core.Run) {
	r.Rule("R04.5", "every ListBucket that can return ErrInternalPageNotImplemented does so on the !page.IsEmpty() arm before any call on its store; the handler retries with the zero ListBucketPage exactly when that error came back and failOnUnimplementedPage is off, and answers ErrNotImplemented when it is on")
	for _, impl := range backendImpls {
		fn := implMethod(r, impl, "ListBucket")
		if fn == nil {
			continue
		}
		var ret *ssa.Return
		for rt, ev := range returnedErrors(fn) {
			s := r.P.SliceOf(ev, core.SliceOpts{Depth: 1})
			if s.Has("interr:PaginationNotImplemented") {
				ret = rt
			}
		}
		if ret == nil {
			if impl == "s3mem.(*Backend)" {
				r.Held("R04.5", key(fname(r, fn), "paginates"), r.P.Pos(fn.Pos()), "paginating backend")
			} else {
				r.Violated("R04.5", key(fname(r, fn), "refuses pages"), r.P.Pos(fn.Pos()), "a non-paginating backend no longer refuses a non-empty page: it would silently return the complete listing as if it were a page")
			}
			continue
		}
		okArm := false
		for _, g := range core.GuardsOf(ret) {
			gs := r.P.SliceOf(g.If.Cond, core.SliceOpts{Depth: -1, Control: true})
			cd := core.CondOf(g.If.Cond)
			if gs.Has("call:gofakes3.(ListBucketPage).IsEmpty") && (g.Branch != cd.Neg) == false {
				okArm = true
			}
		}
		// before any store access: no lock / fs / bolt call reaches the return,
		// and every store access happens only with an empty page
		early := true
		core.Instrs(fn, func(in ssa.Instruction) {
			c, ok := in.(ssa.CallInstruction)
			if !ok {
				return
			}
			n := r.P.CalleeName(c)
			if !(strings.Contains(n, "sync.") || strings.Contains(n, "afero") || strings.Contains(n, "bbolt")) {
				return
			}
			if core.Reaches(in, ret) {
				early = false
			}
			emptyOnly := false
			for _, g := range core.GuardsOf(in) {
				cd := core.CondOf(g.If.Cond)
				if cc, ok := cd.X.(*ssa.Call); ok && r.P.CalleeName(cc) == "gofakes3.(ListBucketPage).IsEmpty" && (g.Branch != cd.Neg) {
					emptyOnly = true
				}
			}
			if !emptyOnly {
				early = false
			}
		})
		r.Check(okArm && early, "R04.5", key(fname(r, fn), "refuses a non-empty page first"), pos(r, ret), "PaginationNotImplemented on !page.IsEmpty(), before the store is touched", "the backend does not refuse a non-empty page up front (wrong arm, or after touching its store)")
	}
	h := mustFunc(r, "gofakes3.(*GoFakeS3).listBucket")
	if h == nil {
		return
	}
	var calls []*ssa.Call
	core.Instrs(h, func(in ssa.Instruction) {
		if c, ok := in.(*ssa.Call); ok && r.P.CalleeName(c) == "invoke:gofakes3.Backend.ListBucket" {
			calls = append(calls, c)
		}
	})
	if len(calls) != 2 {
		r.Violated("R04.5", key(fname(r, h), "retry"), r.P.Pos(h.Pos()), sprintf("expected the listing call and one retry, found %d ListBucket calls", len(calls)))
		return
	}
	first, retry := calls[0], calls[1]
	if core.Dominates(retry, first) {
		first, retry = retry, first
	}
	// retry with zero page
	zs := r.P.SliceOf(retry.Call.Args[2], core.SliceOpts{Depth: -1})
	zero := !zs.HasPrefix("call:") && !zs.HasPrefix("param:") && !zs.Has("field:gofakes3.ListBucketPage.Marker")
	sameArgs := retry.Call.Args[0] == first.Call.Args[0]
	errEq, optOff := false, false
	for _, g := range core.GuardsOf(retry) {
		gs := r.P.SliceOf(g.If.Cond, core.SliceOpts{Depth: -1, Control: true})
		cd := core.CondOf(g.If.Cond)
		truth := g.Branch != cd.Neg
		if eq, ok := g.Equality(); gs.Has("interr:PaginationNotImplemented") && ok && eq && gs.HasValue(first) {
			errEq = true
		}
		if gs.Has("field:gofakes3.GoFakeS3.failOnUnimplementedPage") && !truth {
			optOff = true
		}
	}
	r.Check(zero && sameArgs && errEq && optOff, "R04.5", key(fname(r, h), "retry protocol"), pos(r, retry), "retry with ListBucketPage{} iff err == PaginationNotImplemented and the refusal option is off",
		"the fallback retry is not: same bucket and prefix, zero page, taken exactly when the first call returned PaginationNotImplemented and failOnUnimplementedPage is off")
	// refusal arm
	okRef := false
	for ret, ev := range returnedErrors(h) {
		s := r.P.SliceOf(ev, core.SliceOpts{Depth: 1})
		if !has(errCodes(s), "NotImplemented") {
			continue
		}
		for _, g := range core.GuardsOf(ret) {
			gs := r.P.SliceOf(g.If.Cond, core.SliceOpts{Depth: -1, Control: true})
			cd := core.CondOf(g.If.Cond)
			if gs.Has("field:gofakes3.GoFakeS3.failOnUnimplementedPage") && g.Branch != cd.Neg {
				okRef = true
			}
		}
	}
	r.Check(okRef, "R04.5", key(fname(r, h), "refusal answers NotImplemented"), r.P.Pos(h.Pos()), "ErrNotImplemented when configured to refuse", "with the refusal option on, an unpaginated backend is not answered with ErrNotImplemented")
	// result of the retry is what gets encoded
	used := false
	for _, st := range r.P.FieldStores("gofakes3.ListBucketResultBase.Contents") {
		if st.Parent() == h {
			s := r.P.SliceOf(st.Val, core.SliceOpts{Depth: -1})
			if s.HasValue(retry) && s.HasValue(first) {
				used = true
			}
		}
	}
	r.Check(used, "R04.5", key(fname(r, h), "retry result used"), pos(r, retry), "the response is built from whichever call succeeded", "the retry's result does not reach the response")
}

func rule046(r *core.Run) {
	r.Rule("R04.6", "page.MaxKeys = parseClampedInt(query max-keys, DefaultMaxBucketKeys, 0, MaxBucketKeys); page.Marker comes from marker, else the decoded continuation-token, else start-after; the handler passes that page to the backend")
	pf := mustFunc(r, "gofakes3.listBucketPageFromQuery")
	if pf == nil {
		return
	}
	okMax := false
	for _, st := range r.P.FieldStores("gofakes3.ListBucketPage.MaxKeys") {
		if st.Parent() != pf {
			continue
		}
		s := r.P.SliceOf(st.Val, core.SliceOpts{Depth: -1})
		for c := range s.Calls {
			cc, ok := c.(*ssa.Call)
			if !ok || r.P.CalleeName(cc) != "gofakes3.parseClampedInt" {
				continue
			}
			qs := r.P.SliceOf(cc.Call.Args[0], core.SliceOpts{Depth: -1})
			mn, ok1 := core.ConstInt(cc.Call.Args[2])
			mx, ok2 := core.ConstInt(cc.Call.Args[3])
			df, ok3 := core.ConstInt(cc.Call.Args[1])
			if qs.Has("const:max-keys") && ok1 && mn == 0 && ok2 && mx == 1000 && ok3 && df == 1000 {
				okMax = true
			}
		}
	}
	r.Check(okMax, "R04.6", key(fname(r, pf), "max-keys clamped"), r.P.Pos(pf.Pos()), "parseClampedInt(max-keys, 1000, 0, 1000)", "page.MaxKeys is not parseClampedInt(query[\"max-keys\"], 1000, 0, 1000)")
	srcs := map[string]bool{}
	for _, st := range r.P.FieldStores("gofakes3.ListBucketPage.Marker") {
		if st.Parent() != pf {
			continue
		}
		s := r.P.SliceOf(st.Val, core.SliceOpts{Depth: -1})
		for _, q := range []string{"marker", "continuation-token", "start-after"} {
			if s.Has("const:" + q) {
				srcs[q] = true
			}
		}
	}
	// precedence: start-after only where the continuation token is absent (the SDK's
	// paginator sends both on every follow-up page; the token must win)
	nSA := 0
	for _, st := range r.P.FieldStores("gofakes3.ListBucketPage.Marker") {
		if st.Parent() != pf {
			continue
		}
		s := r.P.SliceOf(st.Val, core.SliceOpts{Depth: -1})
		if !s.Has("const:start-after") {
			continue
		}
		nSA++
		tokenAbsent := false
		for _, g := range core.GuardsOf(st) {
			cd := core.CondOf(g.If.Cond)
			// the tested value, looked through a store to a field just before the test
			// (`_, page.HasMarker = query["…"]; page.HasMarker`)
			tested := []ssa.Value{blockFieldLoad(cd.X)}
			if cd.Y != nil {
				tested = append(tested, blockFieldLoad(cd.Y))
			}
			gs := r.P.SliceOfMany(tested, core.SliceOpts{Depth: -1})
			if !gs.Has("const:continuation-token") || gs.Has("const:start-after") {
				continue
			}
			truth := g.Branch != cd.Neg
			// the test is a presence test (map lookup ok / != "" / len > 0): absent = its false outcome;
			// an emptiness test (== "") is absent on its true outcome
			absentOn := false
			if cd.Op == token.EQL {
				if k, ok := core.ConstString(cd.Y); ok && k == "" {
					absentOn = true
				}
				if k, ok := core.ConstInt(cd.Y); ok && k == 0 {
					absentOn = true
				}
			}
			if truth == absentOn {
				tokenAbsent = true
			}
		}
		r.Check(tokenAbsent, "R04.6", key(fname(r, pf), "start-after only without a token", sprintf("#%d", nSA)), pos(r, st), "start-after feeds the marker only where continuation-token is absent",
			"start-after can set the marker although a continuation-token is present: a V2 walk that carries both (the SDK paginator does) restarts from start-after on every page — keys repeat and the walk never ends")
	}
	r.Check(len(srcs) == 3, "R04.6", key(fname(r, pf), "marker sources"), r.P.Pos(pf.Pos()), "marker, continuation-token and start-after feed page.Marker", sprintf("page.Marker is fed by %d of the 3 query parameters (marker, continuation-token, start-after)", len(srcs)))
	if h := mustFunc(r, "gofakes3.(*GoFakeS3).listBucket"); h != nil {
		ok := false
		core.Instrs(h, func(in ssa.Instruction) {
			if c, okc := in.(*ssa.Call); okc && r.P.CalleeName(c) == "invoke:gofakes3.Backend.ListBucket" {
				s := r.P.SliceOf(c.Call.Args[2], core.SliceOpts{Depth: -1})
				if s.Has("call:gofakes3.listBucketPageFromQuery") {
					ok = true
				}
			}
		})
		r.Check(ok, "R04.6", key(fname(r, h), "page passed to the backend"), r.P.Pos(h.Pos()), "the parsed page reaches ListBucket", "the page parsed from the query is not what the backend receives")
	}
}

// blockFieldLoad resolves a load of a struct field to the value stored to that
// same field (same base, same field) by the nearest preceding store in the
// block, if no call lies between; otherwise v itself.
func blockFieldLoad(v ssa.Value) ssa.Value {
	ld, ok := v.(*ssa.UnOp)
	if !ok || ld.Op != token.MUL {
		return v
	}
	fa, ok := ld.X.(*ssa.FieldAddr)
	if !ok {
		return v
	}
	b := ld.Block()
	for i := core.InstrIndex(ld) - 1; i >= 0; i-- {
		switch x := b.Instrs[i].(type) {
		case *ssa.Store:
			if fa2, ok := x.Addr.(*ssa.FieldAddr); ok && fa2.X == fa.X && fa2.Field == fa.Field {
				return x.Val
			}
		case ssa.CallInstruction:
			return v
		}
	}
	return v
}

// rule047 — a page that starts inside a common prefix does not report it again.
func rule047(r *core.Run) {
	r.Rule("R04.7", "in s3mem ListBucket the value the loop compares with match.MatchedPart to suppress a repeated common prefix is, on the marker arm, seeded from Prefix.Match(page.Marker): the group the marker key belongs to was reported on the page the marker comes from")
	fn := mustFunc(r, "s3mem.(*Backend).ListBucket")
	if fn == nil {
		return
	}
	// the dedupe comparison: MatchedPart ==/!= <variable>
	var dedupe ssa.Value
	core.Instrs(fn, func(in ssa.Instruction) {
		b, ok := in.(*ssa.BinOp)
		if !ok || (b.Op != token.EQL && b.Op != token.NEQ) {
			return
		}
		switch {
		case isLoadOf(r, b.X, "gofakes3.PrefixMatch.MatchedPart") && !isLoadOf(r, b.Y, "gofakes3.PrefixMatch.MatchedPart"):
			dedupe = b.Y
		case isLoadOf(r, b.Y, "gofakes3.PrefixMatch.MatchedPart") && !isLoadOf(r, b.X, "gofakes3.PrefixMatch.MatchedPart"):
			dedupe = b.X
		}
	})
	if dedupe == nil {
		r.Unresolved("R04.7: the common-prefix dedupe comparison of s3mem ListBucket was not found")
		return
	}
	// a Match call on the marker
	var onMarker *ssa.Call
	core.Instrs(fn, func(in ssa.Instruction) {
		c, ok := in.(*ssa.Call)
		if !ok || r.P.CalleeName(c) != "gofakes3.(Prefix).Match" || len(c.Call.Args) < 2 {
			return
		}
		if isLoadOf(r, core.Forward(c.Call.Args[1]), "gofakes3.ListBucketPage.Marker") {
			onMarker = c
		}
	})
	seeded := false
	if onMarker != nil {
		// the dedupe variable can take a MatchedPart value stored after that call, before the loop
		ds := r.P.SliceOf(dedupe, core.SliceOpts{Depth: -1})
		for v := range ds.Values {
			ld, ok := v.(*ssa.UnOp)
			if !ok || !isLoadOf(r, ld, "gofakes3.PrefixMatch.MatchedPart") {
				continue
			}
			if core.Reaches(onMarker, ld) && core.CheckedOrGuardedBy(ld, onMarker) {
				seeded = true
			}
		}
	}
	p0 := r.P.Pos(fn.Pos())
	if onMarker != nil {
		p0 = pos(r, onMarker)
	}
	r.Check(seeded, "R04.7", key(fname(r, fn), "marker's common prefix remembered"), p0, "dedupe value seeded from Prefix.Match(page.Marker)",
		"a page that starts after a marker inside a common prefix reports that prefix again: with delimiter and a page boundary inside a group, the same CommonPrefix appears on consecutive pages")
	// … and only then: the seeding store lies on the side where the marker's match IS a common prefix
	// (a marker that is an ordinary key ending in the delimiter, a folder-marker object, was listed under
	// Contents; its name must not suppress the common prefix of the keys below it)
	if onMarker != nil && seeded {
		okCP := true
		n := 0
		core.Instrs(fn, func(in ssa.Instruction) {
			ld, ok := in.(*ssa.UnOp)
			if !ok || !isLoadOf(r, ld, "gofakes3.PrefixMatch.MatchedPart") || !core.Reaches(onMarker, ld) || !core.CheckedOrGuardedBy(ld, onMarker) {
				return
			}
			// is this load the one feeding the dedupe variable (not the loop's own comparison)?
			if !r.P.SliceOf(dedupe, core.SliceOpts{Depth: -1}).Values[ld] {
				return
			}
			n++
			cp := false
			for _, ec := range expandedConds(ld) {
				cd := core.CondOf(ec.cond)
				if isLoadOf(r, cd.X, "gofakes3.PrefixMatch.CommonPrefix") && (cd.Op == 0 || cd.Op == token.ILLEGAL) && ec.truth != cd.Neg {
					cp = true
				}
			}
			if !cp {
				okCP = false
			}
		})
		r.Check(okCP && n > 0, "R04.7", key(fname(r, fn), "remembered only when the marker lies inside a common prefix"), p0, "seeded under match.CommonPrefix",
			"the marker's matched part is remembered although the marker was not grouped under a common prefix: a folder-marker key ('docs/') at a page end suppresses the CommonPrefix of the keys below it on the next page")
	}
}

// stripIface peels interface conversions.
func stripIface(v ssa.Value) ssa.Value {
	for i := 0; i < 3; i++ {
		switch x := v.(type) {
		case *ssa.MakeInterface:
			v = x.X
		case *ssa.ChangeInterface:
			v = x.X
		default:
			return v
		}
	}
	return v
}

// rule048 — a failed Seek is not followed by an iteration from the list head.
func rule048(r *core.Run) {
	r.Rule("R04.8", "goskipiter.Iterator: Seek records unconditionally that it happened and stores the inner Seek's outcome; every return of Next that does not hand back the inner iterator's own Next() hands back that stored outcome — after a Seek beyond the last key (a marker after every key, or whose tail was deleted between two pages) the first Next reports 'nothing', it does not start again from the first key")
	sk := mustFunc(r, "goskipiter.(*Iterator).Seek")
	nx := mustFunc(r, "goskipiter.(*Iterator).Next")
	if sk == nil || nx == nil {
		return
	}
	var innerSeek *ssa.Call
	core.Instrs(sk, func(in ssa.Instruction) {
		if c, ok := in.(*ssa.Call); ok && c.Call.IsInvoke() && c.Call.Method.Name() == "Seek" {
			innerSeek = c
		}
	})
	outcomeField, flagField := "", ""
	flagUncond := false
	core.Instrs(sk, func(in ssa.Instruction) {
		st, ok := in.(*ssa.Store)
		if !ok {
			return
		}
		fa, ok := st.Addr.(*ssa.FieldAddr)
		if !ok {
			return
		}
		if innerSeek != nil && st.Val == ssa.Value(innerSeek) {
			outcomeField = r.P.FieldName(fa)
		}
		if k, ok := st.Val.(*ssa.Const); ok && k.Value != nil && k.Value.String() == "true" {
			flagField = r.P.FieldName(fa)
			flagUncond = true
			for _, ret := range core.Returns(sk) {
				if !core.Dominates(st, ret) {
					flagUncond = false
				}
			}
		}
	})
	r.Check(innerSeek != nil && outcomeField != "" && flagField != "" && flagUncond, "R04.8", key(fname(r, sk), "Seek records that it ran and what it found"), r.P.Pos(sk.Pos()), "flag = true always; outcome = inner.Seek(key)",
		"Seek no longer records unconditionally that it ran together with the inner Seek's outcome: a Seek that found nothing looks to Next as if no Seek had happened")
	okNext := outcomeField != ""
	n := 0
	for _, ret := range core.Returns(nx) {
		if len(ret.Results) != 1 {
			continue
		}
		n++
		// every alternative of the returned value: the inner Next(), the stored outcome, or a plain false
		for _, v := range altValues(core.BlockLocalLoad(ret.Results[0]), 0) {
			v = core.BlockLocalLoad(v)
			if c, ok := v.(*ssa.Call); ok && c.Call.IsInvoke() && c.Call.Method.Name() == "Next" {
				continue
			}
			if ld, ok := v.(*ssa.UnOp); ok && outcomeField != "" && isLoadOf(r, ld, outcomeField) {
				continue
			}
			if k, ok := v.(*ssa.Const); ok && k.Value != nil && k.Value.String() == "false" {
				continue
			}
			okNext = false
		}
	}
	r.Check(okNext && n >= 1, "R04.8", key(fname(r, nx), "Next after a Seek reports the Seek's outcome"), r.P.Pos(nx.Pos()), "returns inner.Next() or the stored outcome", "Next can return something other than the inner iterator's Next() or the outcome the last Seek stored (e.g. a constant true): after a Seek that found nothing the listing restarts from the first key")
}
