package rules

import (
	"go/token"
	"strings"

	"golang.org/x/tools/go/ssa"

	"gfs3check/internal/core"
	"gfs3check/internal/oblig"
)

func init() { Registry["C13"] = C13 }

// C13 — version listings show each version once, flag the true latest, page completely.
func C13(r *core.Run) {
	r.Explanation = "Structural necessary conditions of ListObjectVersions in the memory backend and its handler, on all paths: " +
		"(R13.1) whenever the result can be truncated, NextKeyMarker and NextVersionIdMarker are stored from the last listed version; " +
		"(R13.2) IsLatest is the identity test of the listed version with the object's current version; (R09.1n) the version iterator's nilable fields are guarded; " +
		"(R13.4) the handler substitutes 'null' for empty version ids on every entry and the backend masks ids only while the bucket was never versioned; " +
		"(R13.5) every appended entry passes the page counter and its bound test before the next one; (R13.6) the marker-combination guards precede the backend call; " +
		"(R13.7) listed Size/ETag/Key come from the listed version itself and delete markers are listed as such. (R05.7) a delete marker that becomes current has a generated id, so a page ending on it can be continued. (R05.5, shared) every stored version carries a fresh, non-empty id from the generator: the id is the page marker of version listings. (paging elements) the continuation markers are serialised under the element names the protocol defines. (R13.10) with markers given the iterators are positioned by Seek before they are advanced, the version-id-marker applies to the first key only, and both look-aheads reach IsTruncated."
	r.NotDecided = "exactly-once across pages, order of versions inside a key, prefix grouping semantics (Prefix.Match), that the markers returned make the next page start at the right entry"
	ctx := oblig.NewCtx(r.P)
	installNonNilHook(r, ctx)
	fn := mustFunc(r, "s3mem.(*Backend).ListBucketVersions")
	if fn == nil {
		return
	}
	rule131(r, ctx, fn)
	rule132(r, fn)
	reach := map[*ssa.Function]bool{}
	for _, f := range r.P.FuncsOfPkg("s3mem") {
		reach[f] = true
	}
	rule091nil(r, ctx, reach)
	rule134(r, fn)
	rule135(r, ctx, fn)
	rule057(r)
	rule055(r)
	rulePagingElements(r, "R13.9", "ListBucketVersionsResult")
	rule136(r)
	rule137(r, fn)
	rule138(r, fn)
	rule1310(r, fn)
	rule1311(r)
	rule1312(r)
}

func resultFieldStores(r *core.Run, fn *ssa.Function, field string) []*ssa.Store {
	var out []*ssa.Store
	for _, st := range r.P.FieldStores(field) {
		if st.Parent() == fn {
			out = append(out, st)
		}
	}
	return out
}

func rule131(r *core.Run, ctx *oblig.Ctx, fn *ssa.Function) {
	r.Rule("R13.1", "every store to ListBucketVersionsResult.IsTruncated of a value that is not the constant false is followed, on the IsTruncated arm, by stores to NextKeyMarker and NextVersionIDMarker whose values derive from the name and versionID of the last listed version")
	name := fname(r, fn)
	tr := resultFieldStores(r, fn, "gofakes3.ListBucketVersionsResult.IsTruncated")
	nk := resultFieldStores(r, fn, "gofakes3.ListBucketVersionsResult.NextKeyMarker")
	nv := resultFieldStores(r, fn, "gofakes3.ListBucketVersionsResult.NextVersionIDMarker")
	if len(tr) == 0 {
		r.Violated("R13.1", key(name, "IsTruncated"), r.P.Pos(fn.Pos()), "ListBucketVersions never sets IsTruncated")
		return
	}
	for i, st := range tr {
		if c, ok := st.Val.(*ssa.Const); ok && c.Value != nil && c.Value.String() == "false" {
			continue
		}
		okK, okV := false, false
		chk := func(stores []*ssa.Store, field string) bool {
			for _, m := range stores {
				if !core.Reaches(st, m) && !core.Dominates(m, st) {
					continue
				}
				s := r.P.SliceOf(m.Val, core.SliceOpts{Depth: -1})
				if !s.Has("field:s3mem.bucketData." + field) {
					continue
				}
				// guarded only by tests on IsTruncated / last != nil
				okG := true
				for _, g := range core.GuardsOf(m) {
					gs := r.P.SliceOf(g.If.Cond, core.SliceOpts{Depth: -1, Control: true})
					if gs.Has("field:gofakes3.ListBucketVersionsResult.IsTruncated") || gs.Has("const:nil") || gs.HasValue(st.Val) {
						continue // a test of the stored flag (through the field or the local it was stored from), or a nil test
					}
					if core.Dominates(g.If, st) {
						continue // a guard that also guards the IsTruncated store
					}
					okG = false
				}
				if okG {
					return true
				}
			}
			return false
		}
		okK = chk(nk, "name")
		okV = chk(nv, "versionID")
		r.Check(okK && okV, "R13.1", key(name, "truncation ⇒ markers", sprintf("#%d", i)), pos(r, st),
			"NextKeyMarker/NextVersionIdMarker stored from the last listed version when truncated", "the listing can be marked truncated without NextKeyMarker and NextVersionIdMarker being set from the last listed version: the client cannot continue")
	}
	// 'last' is the version appended last: the value flowing into the markers is assigned from the listed version after each append
	if len(nk) > 0 {
		s := r.P.SliceOf(nk[0].Val, core.SliceOpts{Depth: -1})
		r.Check(s.Has("call:s3mem.(*bucketObjectIterator).Value"), "R13.1", key(name, "markers from the listed version"), pos(r, nk[0]), "marker source is the iterated version", "the continuation markers do not derive from the iterated version")
	}
	// handler: result encoded as returned by the backend (fields untouched)
	if h := mustFunc(r, "gofakes3.(*GoFakeS3).listBucketVersions"); h != nil {
		bad := ""
		for _, f := range []string{"IsTruncated", "NextKeyMarker", "NextVersionIDMarker"} {
			for _, st := range r.P.FieldStores("gofakes3.ListBucketVersionsResult." + f) {
				if st.Parent() == h {
					bad = f
				}
			}
		}
		r.Check(bad == "", "R13.1", key(fname(r, h), "handler keeps markers"), r.P.Pos(h.Pos()), "handler does not rewrite truncation fields", "the handler overwrites "+bad+" of the backend's result")
	}
}

func rule132(r *core.Run, fn *ssa.Function) {
	r.Rule("R13.2", "every IsLatest stored for a listed version or delete marker is the comparison of that version with the current version (object.data) of the object being iterated")
	name := fname(r, fn)
	n := 0
	for _, field := range []string{"gofakes3.DeleteMarker.IsLatest", "gofakes3.Version.IsLatest"} {
		for _, st := range resultFieldStores(r, fn, field) {
			n++
			ok := false
			if b, isB := st.Val.(*ssa.BinOp); isB && b.Op == token.EQL {
				sx := r.P.SliceOf(b.X, core.SliceOpts{Depth: -1})
				sy := r.P.SliceOf(b.Y, core.SliceOpts{Depth: -1})
				verX := sx.Has("call:s3mem.(*bucketObjectIterator).Value") && !sx.Has("field:s3mem.bucketObject.data")
				verY := sy.Has("call:s3mem.(*bucketObjectIterator).Value") && !sy.Has("field:s3mem.bucketObject.data")
				curX := isLoadOf(r, b.X, "s3mem.bucketObject.data")
				curY := isLoadOf(r, b.Y, "s3mem.bucketObject.data")
				ok = (verX && curY) || (verY && curX)
			}
			r.Check(ok, "R13.2", key(name, "IsLatest", field, sprintf("#%d", n)), pos(r, st), "version == object.data", "IsLatest is not the identity of the listed version with the object's current version: the wrong entry (or several, or none) is flagged latest")
		}
	}
	if n < 2 {
		r.Unresolved("R13.2: %d IsLatest stores found in ListBucketVersions (expected 2)", n)
	}
	// the object whose data is compared is the one whose versions are iterated
	okObj := false
	core.Instrs(fn, func(in ssa.Instruction) {
		if c, ok := in.(*ssa.Call); ok && r.P.CalleeName(c) == "s3mem.(*bucketObject).Iterator" {
			s := r.P.SliceOf(c.Call.Args[0], core.SliceOpts{Depth: -1})
			if s.Has("call:goskipiter.(*Iterator).Value") {
				okObj = true
			}
		}
	})
	r.Check(okObj, "R13.2", key(name, "iterates the listed object's versions"), r.P.Pos(fn.Pos()), "versions come from the iterated object", "the versions iterator is not obtained from the object being listed")
	// the iterator yields the current version exactly once, after the archived ones
	if it := mustFunc(r, "s3mem.(*bucketObject).Iterator"); it != nil {
		var vals []ssa.Value
		for _, st := range r.P.FieldStores("s3mem.bucketObjectIterator.data") {
			if st.Parent() == it {
				vals = append(vals, st.Val)
			}
		}
		s := r.P.SliceOfMany(vals, core.SliceOpts{Depth: -1})
		r.Check(len(vals) == 1 && s.Has("field:s3mem.bucketObject.data"), "R13.2", key(fname(r, it), "iterator carries the current version"), r.P.Pos(it.Pos()), "iterator.data = object.data", "the version iterator is not seeded with the object's current version")
	}
	if nx := mustFunc(r, "s3mem.(*bucketObjectIterator).Next"); nx != nil {
		// after yielding data it is cleared (yielded once)
		cleared := false
		for _, st := range r.P.FieldStores("s3mem.bucketObjectIterator.data") {
			if st.Parent() == nx && core.IsNilConst(st.Val) {
				for _, cs := range r.P.FieldStores("s3mem.bucketObjectIterator.cur") {
					if cs.Parent() == nx && core.Reaches(cs, st) {
						ss := r.P.SliceOf(cs.Val, core.SliceOpts{Depth: -1})
						if ss.Has("field:s3mem.bucketObjectIterator.data") {
							cleared = true
						}
					}
				}
			}
		}
		r.Check(cleared, "R13.2", key(fname(r, nx), "current version yielded once"), r.P.Pos(nx.Pos()), "data is yielded then cleared", "the iterator can yield the current version more than once (or never)")
	}
}

func isLoadOf(r *core.Run, v ssa.Value, field string) bool {
	ld, ok := v.(*ssa.UnOp)
	if !ok || ld.Op != token.MUL {
		return false
	}
	fa, ok := ld.X.(*ssa.FieldAddr)
	return ok && r.P.FieldName(fa) == field
}

func rule134(r *core.Run, fn *ssa.Function) {
	r.Rule("R13.4", "the handler calls setVersionID(\"null\") for every entry of bucket.Versions whose id is empty; the backend stores a VersionID only under bucket.versioning != VersioningNone and from the listed version")
	h := mustFunc(r, "gofakes3.(*GoFakeS3).listBucketVersions")
	if h != nil {
		var set *ssa.Call
		core.Instrs(h, func(in ssa.Instruction) {
			if c, ok := in.(*ssa.Call); ok && c.Call.IsInvoke() && c.Call.Method.Name() == "setVersionID" {
				set = c
			}
		})
		if set == nil {
			r.Violated("R13.4", key(fname(r, h), "null substitution"), r.P.Pos(h.Pos()), "the handler no longer substitutes 'null' for empty version ids")
		} else {
			v, _ := core.ConstString(set.Call.Args[0])
			okRange := true
			okGuard := false
			extra := ""
			var loopIf *ssa.If
			for _, g := range core.GuardsOf(set) {
				cd := core.CondOf(g.If.Cond)
				// the loop the call is in: entered through the true edge of its index test; the innermost one
				if cd.Op == token.LSS && isLenCall(cd.Y) && g.Branch && (loopIf == nil || core.BlockDominates(loopIf.Block(), g.If.Block())) {
					loopIf = g.If
				}
			}
			for _, g := range core.GuardsOf(set) {
				if loopIf != nil && g.If != loopIf && core.BlockDominates(g.If.Block(), loopIf.Block()) {
					continue // a guard of the whole loop, not of one entry
				}
				gs := r.P.SliceOf(g.If.Cond, core.SliceOpts{Depth: -1, Control: true})
				cd := core.CondOf(g.If.Cond)
				if eq, ok := g.Equality(); ok && eq && gs.HasPrefix("call:invoke:gofakes3.VersionItem.GetVersionID") && gs.Has("const:") {
					okGuard = true
					continue
				}
				// the only other admissible guard is the range loop's own index test
				if cd.Op == token.LSS && isLenCall(cd.Y) {
					continue
				}
				if _, isNext := findNext(g.If.Cond); isNext {
					continue
				}
				okRange = false
				extra = "an additional condition at " + pos(r, g.If)
			}
			rs := r.P.SliceOf(set.Call.Value, core.SliceOpts{Depth: -1})
			r.Check(v == "null" && okRange && okGuard && loopIf != nil && rs.Has("field:gofakes3.ListBucketVersionsResult.Versions"), "R13.4", key(fname(r, h), "null substitution"), pos(r, set),
				"every entry with an empty id gets 'null'", "the 'null' substitution does not cover every entry of bucket.Versions with an empty id "+extra)
		}
	}
	n := 0
	for _, field := range []string{"gofakes3.DeleteMarker.VersionID", "gofakes3.Version.VersionID"} {
		for _, st := range resultFieldStores(r, fn, field) {
			n++
			s := r.P.SliceOf(st.Val, core.SliceOpts{Depth: -1})
			okG := false
			for _, g := range core.GuardsOf(st) {
				gs := r.P.SliceOf(g.If.Cond, core.SliceOpts{Depth: -1, Control: true})
				cd := core.CondOf(g.If.Cond)
				if gs.Has("field:s3mem.bucket.versioning") && gs.Has("const:") && ((cd.Op == token.NEQ) == (g.Branch != cd.Neg)) {
					okG = true
				}
			}
			r.Check(okG && s.Has("field:s3mem.bucketData.versionID") && s.Has("call:s3mem.(*bucketObjectIterator).Value"), "R13.4", key(fname(r, fn), "VersionID", field), pos(r, st),
				"the listed version's id, masked only for never-versioned buckets", "the listed VersionID is not the listed version's own id under versioning != None")
		}
	}
	if n < 2 {
		r.Unresolved("R13.4: %d VersionID stores in ListBucketVersions (expected 2)", n)
	}
}

func rule135(r *core.Run, ctx *oblig.Ctx, fn *ssa.Function) {
	r.Rule("R13.5", "in ListBucketVersions every append to result.Versions is followed, before the next append or loop iteration, by the increment of the page counter and the test counter >= page.MaxKeys whose true arm leaves the loops")
	name := fname(r, fn)
	var appends []*ssa.Store
	for _, st := range resultFieldStores(r, fn, "gofakes3.ListBucketVersionsResult.Versions") {
		appends = append(appends, st)
	}
	if len(appends) < 1 {
		r.Unresolved("R13.5: no append to result.Versions found")
		return
	}
	// the bound test
	var bound *ssa.If
	var boundCond ssa.Value
	core.Instrs(fn, func(in ssa.Instruction) {
		iff, ok := in.(*ssa.If)
		if !ok {
			return
		}
		// the condition itself, or — for a test of a boolean merged from `a && b` / a named flag — the
		// operand the true outcome must have come from
		for _, ec := range expandGuard(iff, true) {
			if ec.merged || !ec.truth {
				continue
			}
			cd := core.CondOf(ec.cond)
			if cd.Op != token.GEQ && cd.Op != token.GTR && cd.Op != token.EQL {
				continue
			}
			s := r.P.SliceOfMany([]ssa.Value{cd.X, cd.Y}, core.SliceOpts{Depth: -1})
			if s.Has("field:gofakes3.ListBucketVersionsPage.MaxKeys") && s.Has("const:1") {
				bound, boundCond = iff, ec.cond
			}
		}
	})
	if bound == nil {
		r.Violated("R13.5", key(name, "page bound"), r.P.Pos(fn.Pos()), "no test of the entry counter against page.MaxKeys: a page can hold more than max-keys entries")
		return
	}
	// "MaxKeys MUST be > 0, otherwise it is ignored" (backend.go): the only admissible bypass
	var bypass *ssa.If
	core.Instrs(fn, func(in ssa.Instruction) {
		iff, ok := in.(*ssa.If)
		if !ok || iff == bound {
			return
		}
		c2 := core.CondOf(iff.Cond)
		if k, isK := core.ConstInt(c2.Y); isK && k == 0 && c2.Op == token.GTR && !c2.Neg {
			s := r.P.SliceOf(c2.X, core.SliceOpts{Depth: -1})
			var guarded ssa.Instruction = bound
			if bi, ok := boundCond.(ssa.Instruction); ok && boundCond != bound.Cond {
				guarded = bi // the comparison sits behind the `MaxKeys > 0 &&` of a merged condition
			}
			if s.Has("field:gofakes3.ListBucketVersionsPage.MaxKeys") && core.GuardedBy(guarded, iff, true) {
				bypass = iff
			}
		}
	})
	cd := core.CondOf(boundCond)
	r.Check(cd.Op == token.GEQ, "R13.5", key(name, "bound is cnt >= MaxKeys"), pos(r, bound), "counter >= MaxKeys", "the page bound is not 'counter >= MaxKeys' (off by one lets a page exceed max-keys)")
	for i, ap := range appends {
		// from the append, every path to another append passes the bound test
		bad := false
		for _, other := range appends {
			if core.ReachesAvoiding(ap, other, func(in ssa.Instruction) bool { return in == ssa.Instruction(bound) || in == ssa.Instruction(bypass) }) {
				bad = true
			}
		}
		r.Check(!bad, "R13.5", key(name, "append passes the bound test", sprintf("#%d", i)), pos(r, ap), "bound tested after every listed entry", "after listing an entry the loop can list another one without testing the page bound")
	}
	// the counter is incremented by one per entry (phi + 1) and starts at 0; the bound's true edge leaves both loops (reaches no append)
	t := bound.Block().Succs[0]
	leaves := true
	if len(t.Instrs) > 0 {
		for _, ap := range appends {
			if t.Instrs[0] == ssa.Instruction(ap) || core.Reaches(t.Instrs[0], ap) {
				leaves = false
			}
		}
	}
	r.Check(leaves, "R13.5", key(name, "bound leaves the loops"), pos(r, bound), "no further entry after the bound is hit", "after the page bound is hit another entry can still be listed")
	// MaxKeys > 0 guard is the only other condition
	cnt := cd.X
	inc := false
	if ph, ok := cnt.(*ssa.BinOp); ok && ph.Op == token.ADD {
		if k, ok := core.ConstInt(ph.Y); ok && k == 1 {
			inc = true
		}
	}
	r.Check(inc, "R13.5", key(name, "counter incremented per entry"), pos(r, bound), "tested value is counter+1", "the tested counter is not incremented by one for the entry just listed")
}

func rule136(r *core.Run) {
	r.Rule("R13.6", "in the handler the S300004 marker guards (version-id-marker without key-marker, empty version-id-marker) return InvalidArgument before the backend is called, and the page passed is the parsed page")
	h := mustFunc(r, "gofakes3.(*GoFakeS3).listBucketVersions")
	if h == nil {
		return
	}
	var call *ssa.Call
	core.Instrs(h, func(in ssa.Instruction) {
		if c, ok := in.(*ssa.Call); ok && r.P.CalleeName(c) == "invoke:gofakes3.VersionedBackend.ListBucketVersions" {
			call = c
		}
	})
	if call == nil {
		r.Violated("R13.6", key(fname(r, h), "backend call"), r.P.Pos(h.Pos()), "handler no longer calls VersionedBackend.ListBucketVersions")
		return
	}
	n := 0
	for ret, ev := range returnedErrors(h) {
		s := r.P.SliceOf(ev, core.SliceOpts{Depth: 2})
		if !has(errCodes(s), "InvalidArgument") {
			continue
		}
		gs := 0
		for _, g := range core.GuardsOf(ret) {
			cs := r.P.SliceOf(g.If.Cond, core.SliceOpts{Depth: -1, Control: true})
			if cs.Has("field:gofakes3.ListBucketVersionsPage.HasVersionIDMarker") || cs.Has("field:gofakes3.ListBucketVersionsPage.HasKeyMarker") || cs.Has("field:gofakes3.ListBucketVersionsPage.VersionIDMarker") {
				gs++
			}
		}
		if gs > 0 {
			n++
			r.Check(!core.Reaches(call, ret), "R13.6", key(fname(r, h), "marker guard before backend", sprintf("#%d", n)), pos(r, ret), "rejected before the backend is consulted", "a marker-combination error is returned after the backend call")
		}
	}
	r.Check(n >= 2, "R13.6", key(fname(r, h), "both S300004 guards"), pos(r, call), "empty version-id-marker and version-id-marker without key-marker are rejected", sprintf("only %d of the 2 marker-combination guards remain", n))
	ps := r.P.SliceOf(call.Call.Args[2], core.SliceOpts{Depth: -1})
	r.Check(ps.Has("call:gofakes3.listBucketVersionsPageFromQuery"), "R13.6", key(fname(r, h), "page from query"), pos(r, call), "parsed page passed", "the page passed to the backend is not the one parsed from the query")
	bp := paramNamed(h, "bucketName")
	r.Check(call.Call.Args[0] == ssa.Value(bp), "R13.6", key(fname(r, h), "bucket passed"), pos(r, call), "addressed bucket", "the backend is not called with the addressed bucket")
	if pf := mustFunc(r, "gofakes3.listBucketVersionsPageFromQuery"); pf != nil {
		want := map[string]string{"KeyMarker": "key-marker", "VersionIDMarker": "version-id-marker", "MaxKeys": "max-keys"}
		for f, q := range want {
			ok := false
			for _, st := range r.P.FieldStores("gofakes3.ListBucketVersionsPage." + f) {
				if st.Parent() == pf {
					s := r.P.SliceOf(st.Val, core.SliceOpts{Depth: -1})
					if s.Has("const:" + q) {
						ok = true
					}
				}
			}
			r.Check(ok, "R13.6", key(fname(r, pf), f+" from "+q), r.P.Pos(pf.Pos()), "query parameter wired", "page."+f+" is not read from query parameter "+q)
		}
	}
}

// rule1312 — the page is reset only for an explicit empty key-marker.
func rule1312(r *core.Run) {
	r.Rule("R13.12", "in the listBucketVersions handler the parsed page (markers and max-keys) is replaced as a whole only on the side where the request carried a key-marker that is empty (HasKeyMarker true, KeyMarker == \"\" — S3 ignores the markers then): assuming HasKeyMarker is false, or assuming the key-marker non-empty, no store of a whole ListBucketVersionsPage over the parsed one is reachable after parsing — otherwise an ordinary first page loses its max-keys and a continued one its markers")
	h := mustFunc(r, "gofakes3.(*GoFakeS3).listBucketVersions")
	if h == nil {
		return
	}
	name := fname(r, h)
	var parse *ssa.Call
	var resets []*ssa.Store
	core.Instrs(h, func(in ssa.Instruction) {
		switch x := in.(type) {
		case *ssa.Call:
			if r.P.CalleeName(x) == "gofakes3.listBucketVersionsPageFromQuery" {
				parse = x
			}
		case *ssa.Store:
			if r.P.TypeShort(x.Val.Type()) == "gofakes3.ListBucketVersionsPage" || strings.HasSuffix(x.Val.Type().String(), "gofakes3.ListBucketVersionsPage") {
				resets = append(resets, x)
			}
		}
	})
	if parse == nil {
		r.Violated("R13.12", key(name, "page parsed"), r.P.Pos(h.Pos()), "the handler no longer parses the page with listBucketVersionsPageFromQuery")
		return
	}
	// whole-page stores that do not store the parsed page itself
	var over []*ssa.Store
	for _, st := range resets {
		if ex, ok := st.Val.(*ssa.Extract); ok && ex.Tuple == ssa.Value(parse) {
			continue
		}
		// the parsed page itself handed on (through a helper's parameter and result, a local copy)
		if vs := r.P.SliceOf(st.Val, core.SliceOpts{Depth: 0}); vs.HasCallTo("gofakes3.listBucketVersionsPageFromQuery") || vs.HasValue(parse) {
			continue
		}
		if core.Reaches(parse, st) {
			over = append(over, st)
		}
	}
	hasKM := map[ssa.Value]bool{}
	core.Instrs(h, func(in ssa.Instruction) {
		if ld, ok := in.(*ssa.UnOp); ok && isLoadOf(r, ld, "gofakes3.ListBucketVersionsPage.HasKeyMarker") {
			hasKM[ld] = false
		}
	})
	nonEmpty := nonEmptyTests(r, h, "gofakes3.ListBucketVersionsPage.KeyMarker")
	bad := ""
	for _, st := range over {
		if len(hasKM) > 0 && core.ReachableTrackingFlags(parse, st, hasKM, nil) {
			bad = "reachable for a request without key-marker (" + pos(r, st) + ")"
		}
		if len(nonEmpty) > 0 && core.ReachableTrackingFlags(parse, st, nonEmpty, nil) {
			bad = "reachable for a request with a non-empty key-marker (" + pos(r, st) + ")"
		}
		if len(hasKM) == 0 || len(nonEmpty) == 0 {
			bad = "not guarded by tests of HasKeyMarker and of the key-marker's emptiness (" + pos(r, st) + ")"
		}
	}
	r.Check(bad == "", "R13.12", key(name, "page reset only for an empty key-marker"), pos(r, parse), sprintf("%d whole-page store(s) after parsing, each only under HasKeyMarker && KeyMarker == \"\"", len(over)),
		"the parsed page is overwritten as a whole where the request did not carry an empty key-marker ("+bad+"): max-keys and the markers of an ordinary request are dropped — the first page is unbounded, or a continued listing starts over")
}

func rule137(r *core.Run, fn *ssa.Function) {
	r.Rule("R13.7", "Key/Size/ETag/LastModified of a listed Version and Key/LastModified of a DeleteMarker derive from the iterated version; entries are DeleteMarker exactly on the version.deleteMarker arm; entries are listed only for keys matching the prefix and not grouped under a common prefix")
	name := fname(r, fn)
	type fl struct{ field, src string }
	for _, x := range []fl{
		{"gofakes3.Version.Key", "field:s3mem.bucketData.name"},
		{"gofakes3.Version.Size", "field:s3mem.bucketData.body"},
		{"gofakes3.Version.ETag", "field:s3mem.bucketData.etag"},
		{"gofakes3.Version.LastModified", "field:s3mem.bucketData.lastModified"},
		{"gofakes3.DeleteMarker.Key", "field:s3mem.bucketData.name"},
		{"gofakes3.DeleteMarker.LastModified", "field:s3mem.bucketData.lastModified"},
	} {
		sts := resultFieldStores(r, fn, x.field)
		ok := len(sts) == 1
		if ok {
			s := r.P.SliceOf(sts[0].Val, core.SliceOpts{Depth: -1})
			ok = s.Has(x.src) && s.Has("call:s3mem.(*bucketObjectIterator).Value")
			if strings.HasSuffix(x.field, ".Size") {
				ok = ok && s.Has("call:builtin:len") && !s.HasPrefix("op:")
			}
		}
		p0 := r.P.Pos(fn.Pos())
		if len(sts) > 0 {
			p0 = pos(r, sts[0])
		}
		r.Check(ok, "R13.7", key(name, x.field), p0, "from the listed version", x.field+" does not derive from "+x.src+" of the listed version")
	}
	// marker vs version arm
	for _, field := range []string{"gofakes3.DeleteMarker.Key", "gofakes3.Version.Key"} {
		for _, st := range resultFieldStores(r, fn, field) {
			wantMarker := strings.Contains(field, "DeleteMarker")
			okArm := false
			for _, g := range core.GuardsOf(st) {
				gs := r.P.SliceOf(g.If.Cond, core.SliceOpts{Depth: -1, Control: true})
				if gs.Has("field:s3mem.bucketData.deleteMarker") && gs.Has("call:s3mem.(*bucketObjectIterator).Value") {
					cd := core.CondOf(g.If.Cond)
					truth := g.Branch != cd.Neg
					if truth == wantMarker {
						okArm = true
					}
				}
			}
			r.Check(okArm, "R13.7", key(name, field, "arm"), pos(r, st), "built on the matching deleteMarker arm", "a "+field[:strings.LastIndex(field, ".")]+" entry is built on the wrong arm of version.deleteMarker")
		}
	}
	// prefix guard
	for i, st := range resultFieldStores(r, fn, "gofakes3.ListBucketVersionsResult.Versions") {
		matchOK, notCommon := false, false
		for _, g := range core.GuardsOf(st) {
			gs := r.P.SliceOf(g.If.Cond, core.SliceOpts{Depth: -1, Control: true})
			cd := core.CondOf(g.If.Cond)
			truth := g.Branch != cd.Neg
			if gs.Has("call:gofakes3.(Prefix).Match") && gs.Has("field:s3mem.bucketObject.name") && truth {
				matchOK = true
			}
			if gs.Has("field:gofakes3.PrefixMatch.CommonPrefix") && !truth {
				notCommon = true
			}
		}
		r.Check(matchOK && notCommon, "R13.7", key(name, "entry guarded by prefix match", sprintf("#%d", i)), pos(r, st), "listed only when the key matches and is not grouped", "a version is listed without the key having matched the prefix (or although it belongs under a common prefix)")
	}
}

// rule138 — no matching key is silently skipped.
func rule138(r *core.Run, fn *ssa.Function) {
	r.Rule("R13.8", "in the key loop of ListBucketVersions the only ways to go on to the next key without iterating the object's versions are the prefix not matching and the key being grouped under a common prefix (AddPrefix): no other condition hides a key's versions")
	name := fname(r, fn)
	var head *ssa.If
	var iterCall ssa.Instruction
	core.Instrs(fn, func(in ssa.Instruction) {
		if c, ok := in.(*ssa.Call); ok && r.P.CalleeName(c) == "s3mem.(*bucketObject).Iterator" {
			iterCall = c
		}
	})
	if iterCall == nil {
		r.Violated("R13.8", key(name, "versions iterated"), r.P.Pos(fn.Pos()), "the versions of a listed key are no longer iterated")
		return
	}
	// the outer loop head: the If on iter.Next() that guards the Iterator call
	for _, g := range core.GuardsOf(iterCall) {
		if c, ok := core.CondOf(g.If.Cond).X.(*ssa.Call); ok && r.P.CalleeName(c) == "goskipiter.(*Iterator).Next" && g.Branch {
			head = g.If
		}
	}
	if head == nil {
		r.Unresolved("R13.8: outer key loop of ListBucketVersions not recognised")
		return
	}
	body := head.Block().Succs[0]
	// the loop head block re-evaluates iter.Next(): find the block that computes it (the If's own block)
	skip, at := core.SilentSkip(body, head.Block(), func(in ssa.Instruction) bool {
		if in == iterCall {
			return true
		}
		if c, ok := in.(*ssa.Call); ok && r.P.CalleeName(c) == "gofakes3.(*ListBucketVersionsResult).AddPrefix" {
			return true
		}
		return false
	}, func(iff *ssa.If, branch bool) bool {
		cd := core.CondOf(iff.Cond)
		if c, ok := cd.X.(*ssa.Call); ok && r.P.CalleeName(c) == "gofakes3.(Prefix).Match" {
			truth := branch != cd.Neg
			return !truth // the not-matching edge
		}
		return false
	})
	p0 := pos(r, head)
	if at != nil {
		p0 = pos(r, at)
	}
	r.Check(!skip, "R13.8", key(name, "no silent skip of a matching key"), p0, "every matching, ungrouped key has its versions iterated", "a key that matches the prefix can be skipped without its versions being listed (a condition other than 'prefix does not match' / 'grouped under a common prefix' continues the loop)")
}

// nonEmptyTests collects the comparisons in fn that test the given string
// field for emptiness, mapped to the truth value that means "non-empty":
// `f != ""`, `f == ""`, `len(f) > 0`, `len(f) != 0`, `len(f) == 0`, ….
func nonEmptyTests(r *core.Run, fn *ssa.Function, field string) map[ssa.Value]bool {
	out := map[ssa.Value]bool{}
	isField := func(v ssa.Value) bool { return isLoadOf(r, core.Forward(v), field) }
	core.Instrs(fn, func(in ssa.Instruction) {
		b, ok := in.(*ssa.BinOp)
		if !ok {
			return
		}
		x, y, op := b.X, b.Y, b.Op
		if c, isC := x.(*ssa.Const); isC && c.Value != nil {
			// constant on the left: mirror
			x, y = y, x
			switch op {
			case token.LSS:
				op = token.GTR
			case token.GTR:
				op = token.LSS
			case token.LEQ:
				op = token.GEQ
			case token.GEQ:
				op = token.LEQ
			}
		}
		if c, isC := y.(*ssa.Const); isC && c.Value != nil && c.Value.ExactString() == `""` && isField(x) {
			switch op {
			case token.NEQ:
				out[b] = true
			case token.EQL:
				out[b] = false
			}
			return
		}
		if lc, isCall := x.(*ssa.Call); isCall && r.P.CalleeName(lc) == "builtin:len" && len(lc.Call.Args) == 1 && isField(lc.Call.Args[0]) {
			k, isK := core.ConstInt(y)
			if !isK {
				return
			}
			switch {
			case (op == token.GTR && k == 0) || (op == token.NEQ && k == 0) || (op == token.GEQ && k == 1):
				out[b] = true
			case (op == token.EQL && k == 0) || (op == token.LEQ && k == 0) || (op == token.LSS && k == 1):
				out[b] = false
			}
		}
	})
	return out
}

// rule1310 — a continued version listing resumes at the markers, and says
// "truncated" whenever versions or keys remain.
func rule1310(r *core.Run, fn *ssa.Function) {
	r.Rule("R13.10", "ListBucketVersions (s3mem): (a) with a non-empty key-marker the key iterator is positioned with Seek(page.KeyMarker) before the listing loop advances it; (b) with a non-empty version-id-marker the version iterator of the first listed key is positioned with Seek(page.VersionIDMarker) before it is advanced, and only that of the first key (the seek is not reachable again from itself); (c) the look-ahead made when the page is full — versions.Next() of the key being listed — and the look-ahead on the key iterator both flow into IsTruncated, and no path from the version look-ahead to the final IsTruncated store carries the constant false")
	name := fname(r, fn)
	p0 := r.P.Pos(fn.Pos())
	var seekK, seekV *ssa.Call
	var keyNexts, verNexts []*ssa.Call
	core.Instrs(fn, func(in ssa.Instruction) {
		c, ok := in.(*ssa.Call)
		if !ok {
			return
		}
		switch r.P.CalleeName(c) {
		case "goskipiter.(*Iterator).Seek":
			if len(c.Call.Args) > 1 && isLoadOf(r, core.Forward(stripIface(c.Call.Args[1])), "gofakes3.ListBucketVersionsPage.KeyMarker") {
				seekK = c
			}
		case "s3mem.(*bucketObjectIterator).Seek":
			if len(c.Call.Args) > 1 && isLoadOf(r, core.Forward(c.Call.Args[1]), "gofakes3.ListBucketVersionsPage.VersionIDMarker") {
				seekV = c
			}
		case "goskipiter.(*Iterator).Next":
			keyNexts = append(keyNexts, c)
		case "s3mem.(*bucketObjectIterator).Next":
			verNexts = append(verNexts, c)
		}
	})
	// (a)
	if seekK == nil {
		r.Violated("R13.10", key(name, "Seek(page.KeyMarker)"), p0, "the key iterator is never positioned at page.KeyMarker: a continued version listing restarts from the first key")
	} else {
		assume := nonEmptyTests(r, fn, "gofakes3.ListBucketVersionsPage.KeyMarker")
		bad := ""
		for _, nx := range keyNexts {
			if core.ReachableFromEntryAssumingAvoiding(nx, assume, func(y ssa.Instruction) bool { return y == ssa.Instruction(seekK) }) {
				bad = pos(r, nx)
				break
			}
		}
		// a key-marker inside the prefix reaches the seek
		am := map[ssa.Value]bool{}
		for k, v := range assume {
			am[k] = v
		}
		core.Instrs(fn, func(in ssa.Instruction) {
			if c, ok := in.(*ssa.Call); ok && r.P.CalleeName(c) == "gofakes3.(Prefix).Match" && core.Reaches(c, seekK) {
				am[c] = true
			}
		})
		r.Check(core.ReachableFromEntryAssuming(seekK, am), "R13.10", key(name, "matching key-marker reaches the seek"), pos(r, seekK), "a key-marker that matches the prefix is sought",
			"a key-marker that matches the prefix does not reach Seek(page.KeyMarker) (the rejection is on the wrong side of the match)")
		r.Check(len(assume) > 0 && bad == "", "R13.10", key(name, "Seek(page.KeyMarker)"), pos(r, seekK), sprintf("every way into the key loop with a non-empty key-marker passes the seek (%d emptiness test(s), %d Next call(s))", len(assume), len(keyNexts)),
			"with a non-empty key-marker the key loop (Next at "+bad+") can be entered without Seek(page.KeyMarker): the continued listing restarts from the first key")
	}
	// (b)
	if seekV == nil {
		r.Violated("R13.10", key(name, "Seek(page.VersionIDMarker)"), p0, "the version iterator is never positioned at page.VersionIDMarker: a page that ended inside a key's versions is continued from that key's newest version")
	} else {
		assume := nonEmptyTests(r, fn, "gofakes3.ListBucketVersionsPage.VersionIDMarker")
		n := len(assume)
		for k, v := range nonEmptyTests(r, fn, "gofakes3.ListBucketVersionsPage.KeyMarker") {
			assume[k] = v
		}
		bad := ""
		for _, nx := range verNexts {
			if nx.Call.Args[0] != seekV.Call.Args[0] && !sameValue(r, nx.Call.Args[0], seekV.Call.Args[0], 3) {
				continue
			}
			if core.ReachableTrackingFlags(nil, nx, assume, func(y ssa.Instruction) bool {
				if y == ssa.Instruction(seekV) {
					return true
				}
				// a version already listed: the path is past the first key
				if c, ok := y.(*ssa.Call); ok && r.P.CalleeName(c) == "s3mem.(*bucketObjectIterator).Next" {
					return c != nx
				}
				return false
			}) {
				bad = pos(r, nx)
				break
			}
		}
		r.Check(n > 0 && bad == "", "R13.10", key(name, "Seek(page.VersionIDMarker)"), pos(r, seekV), "the first key's versions are advanced only after the seek when a version-id-marker is given",
			"with a non-empty version-id-marker the first key's version iterator can be advanced (Next at "+bad+") without Seek(page.VersionIDMarker): versions already returned are listed again")
		// a successful seek goes on to list
		okOn := false
		for _, nx := range verNexts {
			if core.ReachableTrackingFlags(seekV, nx, map[ssa.Value]bool{seekV: true}, nil) {
				okOn = true
			}
		}
		r.Check(okOn, "R13.10", key(name, "successful version seek continues the listing"), pos(r, seekV), "the listing goes on when the seek found the marker",
			"when Seek(page.VersionIDMarker) finds the marker the listing does not go on to list (the failure return is on the wrong side of the seek's result)")
		again := core.ReachableTrackingFlags(seekV, seekV, map[ssa.Value]bool{}, nil)
		r.Check(!again, "R13.10", key(name, "version-id-marker applies to the first key only"), pos(r, seekV), "the seek cannot be reached a second time",
			"Seek(page.VersionIDMarker) can run again for a later key (the first-key flag is not cleared): the seek fails there and the listing answers an internal error, or skips that key's newer versions")
	}
	// (c)
	var final []*ssa.Store
	sts := resultFieldStores(r, fn, "gofakes3.ListBucketVersionsResult.IsTruncated")
	for _, st := range sts {
		last := true
		for _, o := range sts {
			if o != st && core.Reaches(st, o) {
				last = false
			}
		}
		if last {
			final = append(final, st)
		}
	}
	if len(final) == 0 {
		return // R13.1 reports it
	}
	var look *ssa.Call
	hasKeyLook := false
	for _, st := range final {
		for _, nx := range keyNexts {
			if flowsOrDecides(nx, st.Val) {
				hasKeyLook = true
			}
		}
	}
	for _, nx := range verNexts {
		// the look-ahead: a Next whose result is not (only) a loop condition but flows into the stored flag
		for _, st := range final {
			if flowsOrDecides(nx, st.Val) {
				look = nx
			}
		}
	}
	r.Check(hasKeyLook, "R13.10", key(name, "IsTruncated ⇐ keys remain"), pos(r, final[0]), "the key iterator's look-ahead flows into IsTruncated", "IsTruncated does not depend on whether keys remain after the page (no Next of the key iterator flows into it): a listing that stops between two keys is reported complete")
	if look == nil {
		r.Violated("R13.10", key(name, "IsTruncated ⇐ versions remain"), pos(r, final[0]), "IsTruncated does not depend on whether versions of the current key remain after the page (no look-ahead versions.Next() flows into it): a page that ends inside the last key's versions is reported complete and the remaining versions are never listed")
		return
	}
	bad := ""
	for _, st := range final {
		vals, ok := core.ValuesOnPaths(look, st, st.Val)
		if !ok {
			bad = "exploration cut off"
		}
		for _, v := range vals {
			if c, isC := v.(*ssa.Const); isC && c.Value != nil && c.Value.String() == "false" {
				bad = "constant false at " + pos(r, st)
			}
		}
	}
	r.Check(bad == "", "R13.10", key(name, "IsTruncated ⇐ versions remain"), pos(r, look), "on every path from the version look-ahead the stored flag is the look-ahead, the key look-ahead, or true", "after the version look-ahead the stored IsTruncated can be the constant false ("+bad+"): remaining versions or keys are not reported")
}

// valueFlowsTo: does v reach w through phi edges only?
func valueFlowsTo(v ssa.Value, w ssa.Value, depth int) bool {
	if v == w {
		return true
	}
	if depth == 0 {
		return false
	}
	if ph, ok := w.(*ssa.Phi); ok {
		for _, e := range ph.Edges {
			if e != w && valueFlowsTo(v, e, depth-1) {
				return true
			}
		}
	}
	return false
}

// flowsOrDecides: v reaches w through phi edges, or v (through phi edges,
// possibly negated) is the condition of the branch that selects a constant
// edge of a phi in w's closure — the shape of `a || b`, `a && b` and of
// `flag := false; if v { flag = true }`.
func flowsOrDecides(v ssa.Value, w ssa.Value) bool {
	if valueFlowsTo(v, w, 8) {
		return true
	}
	ph, ok := w.(*ssa.Phi)
	if !ok {
		return false
	}
	phis := []*ssa.Phi{ph}
	for _, x := range phiClosure(ph) {
		if q, isPhi := x.(*ssa.Phi); isPhi {
			phis = append(phis, q)
		}
	}
	for _, q := range phis {
		for i, e := range q.Edges {
			if _, isC := e.(*ssa.Const); !isC || i >= len(q.Block().Preds) {
				continue
			}
			// the branch that selects this edge: the last instruction of the predecessor, or of its single-predecessor chain
			b := q.Block().Preds[i]
			for hops := 0; hops < 3 && b != nil; hops++ {
				if iff, isIf := b.Instrs[len(b.Instrs)-1].(*ssa.If); isIf {
					c := iff.Cond
					for k := 0; k < 3; k++ {
						if u, isU := c.(*ssa.UnOp); isU && u.Op == token.NOT {
							c = u.X
						}
					}
					if valueFlowsTo(v, c, 8) {
						return true
					}
					break
				}
				if len(b.Preds) != 1 {
					break
				}
				b = b.Preds[0]
			}
		}
	}
	return false
}

// rule1311 — the version iterator's Seek finds exactly the marker.
func rule1311(r *core.Run) {
	r.Rule("R13.11", "bucketObjectIterator.Seek(key) — the resumption point of a version listing inside one key: assuming the archive iterator's Seek(key) succeeded, Seek answers true (a `return true` is reachable, no `return false` is); assuming it failed (or there is no archive) and the current version's id equals key, the same; assuming neither, no `return true` is reachable. The three assumptions are made on the SSA values of the archive Seek call and of the comparison of bucketData.versionID with the key parameter (the nil tests are assumed non-nil): a marker that names a listed version is found, an unknown marker is not")
	fn := mustFunc(r, "s3mem.(*bucketObjectIterator).Seek")
	if fn == nil {
		return
	}
	name := fname(r, fn)
	p0 := r.P.Pos(fn.Pos())
	kp := paramNamed(fn, "key")
	var seeks []ssa.Value
	var eqs []*ssa.BinOp
	nonNil := map[ssa.Value]bool{}
	core.Instrs(fn, func(in ssa.Instruction) {
		switch x := in.(type) {
		case *ssa.Call:
			if strings.HasSuffix(r.P.CalleeName(x), "skiplist.Iterator.Seek") {
				seeks = append(seeks, x)
			}
		case *ssa.BinOp:
			if x.Op != token.EQL && x.Op != token.NEQ {
				return
			}
			if core.IsNilConst(x.X) || core.IsNilConst(x.Y) {
				nonNil[x] = x.Op == token.NEQ
				return
			}
			a, b := core.Forward(x.X), core.Forward(x.Y)
			if (isLoadOf(r, a, "s3mem.bucketData.versionID") && b == ssa.Value(kp)) || (isLoadOf(r, b, "s3mem.bucketData.versionID") && a == ssa.Value(kp)) {
				eqs = append(eqs, x)
			}
		}
	})
	if len(seeks) == 0 || len(eqs) == 0 || kp == nil {
		r.Violated("R13.11", key(name, "anchors"), p0, sprintf("Seek no longer consults the archive iterator (%d Seek call(s)) and the current version's id (%d comparison(s) with key): a version-id-marker cannot be found", len(seeks), len(eqs)))
		return
	}
	type want struct {
		label        string
		seek, eq     bool
		mustT, noneF bool // a true return must be reachable / no false return may be
		noneT        bool
	}
	var rets []*ssa.Return
	for _, ret := range core.Returns(fn) {
		rets = append(rets, ret)
	}
	reach := func(assume map[ssa.Value]bool, val string) string {
		want := val == "true"
		for _, ret := range rets {
			if len(ret.Results) != 1 {
				continue
			}
			vals, ok := core.ValuesOnPathsAssuming(nil, ret, ret.Results[0], assume)
			if !ok {
				return pos(r, ret) + " (exploration cut off)"
			}
			for _, v := range vals {
				neg := false
				for k := 0; k < 3; k++ {
					if u, isU := v.(*ssa.UnOp); isU && u.Op == token.NOT {
						v, neg = u.X, !neg
					}
				}
				if c, isC := v.(*ssa.Const); isC && c.Value != nil {
					if (c.Value.String() == "true") != neg == want {
						return pos(r, ret)
					}
					continue
				}
				if t, has := assume[v]; has {
					if (t != neg) == want {
						return pos(r, ret)
					}
					continue
				}
				return pos(r, ret) + " (value not decided by the assumptions)"
			}
		}
		return ""
	}
	for _, w := range []want{
		{label: "archive seek found the marker", seek: true, eq: false, mustT: true, noneF: true},
		{label: "marker is the current version", seek: false, eq: true, mustT: true, noneF: true},
		{label: "marker unknown", seek: false, eq: false, noneT: true},
	} {
		assume := map[ssa.Value]bool{}
		for k, v := range nonNil {
			assume[k] = v
		}
		for _, s := range seeks {
			assume[s] = w.seek
		}
		for _, e := range eqs {
			assume[e] = w.eq == (e.Op == token.EQL)
		}
		bad := ""
		if w.mustT && reach(assume, "true") == "" {
			bad = "no `return true` is reachable"
		}
		if w.noneF {
			if at := reach(assume, "false"); at != "" {
				bad = "`return false` at " + at + " is reachable"
			}
		}
		if w.noneT {
			if at := reach(assume, "true"); at != "" {
				bad = "`return true` at " + at + " is reachable"
			}
		}
		if bad == "" && w.eq && !w.seek {
			// the current version is the last one of the key: when it is the marker, nothing of this
			// key remains — every return on this side comes after the iterator was marked exhausted
			// (done = true, or Close), with and without an archive iterator
			isDone := func(y ssa.Instruction) bool {
				switch x := y.(type) {
				case *ssa.Store:
					if fa, ok := x.Addr.(*ssa.FieldAddr); ok && r.P.FieldName(fa) == "s3mem.bucketObjectIterator.done" {
						if c, isC := x.Val.(*ssa.Const); isC && c.Value != nil && c.Value.String() == "true" {
							return true
						}
					}
				case ssa.CallInstruction:
					return r.P.CalleeName(x) == "s3mem.(*bucketObjectIterator).Close"
				}
				return false
			}
			for _, iterNil := range []bool{false, true} {
				as := map[ssa.Value]bool{}
				for k, v := range assume {
					as[k] = v
				}
				for k := range nonNil {
					b := k.(*ssa.BinOp)
					other := b.X
					if core.IsNilConst(b.X) {
						other = b.Y
					}
					if isLoadOf(r, core.Forward(other), "s3mem.bucketObjectIterator.iter") {
						as[k] = (b.Op == token.NEQ) != iterNil
					}
				}
				for _, ret := range rets {
					if core.ReachableTrackingFlags(nil, ret, as, isDone) {
						bad = sprintf("the return at %s is reached (archive iterator nil: %v) without the iterator having been marked exhausted: the next Next() yields the marker's own version again", pos(r, ret), iterNil)
					}
				}
			}
		}
		r.Check(bad == "", "R13.11", key(name, w.label), p0, "answer follows the two lookups",
			"when "+w.label+": "+bad+" — a continued version listing answers an internal error for a marker it handed out itself, or accepts a marker that names nothing")
	}
}
