package rules

import (
	"fmt"
	"go/token"
	"go/types"
	"os"
	"strings"

	"golang.org/x/tools/go/ssa"

	"gfs3check/internal/core"
	"gfs3check/internal/oblig"
)

func init() { Registry["C10"] = C10 }

// C10 — buckets and keys are independent namespaces; internals are not addressable.
func C10(r *core.Run) {
	r.Explanation = "Containment rules decided for every filesystem/bolt access of the persistent backends, on all paths: " +
		"(R10.1) every afero path built from an object key passes the containment sanitiser (checkObjectName, a Clean-fixpoint test) first; " +
		"(R10.2) every bolt bucket lookup/creation/deletion by a request-supplied name is dominated by a rejecting comparison with the internal bookkeeping bucket name; " +
		"(R10.3) every SingleBucketBackend method rejects other bucket names before touching the filesystem; (R10.4) every object-level method of MultiBucketBackend first establishes that the bucket directory exists; " +
		"(R10.5) the metadata file name contains a hash over the unmodified key (distinct keys ⇒ distinct metadata files); (R10.6) routing passes bucket and key to the handlers unchanged; " +
		"(R10.7) recursive removal (RemoveAll) is applied only to bucket-level paths, never to a path built from an object key; (R10.8) every bolt record operation is keyed by exactly the addressed name. (R10.9) a bolt write keyed by a key parameter goes to the bucket parameter paired with it; (R10.10) the multi-bucket backend validates bucket names before using them as paths and a listing prefix directory is contained; (R10.11) a file the fs backends name themselves is only ever created exclusively — no internal name shadows a key; (R10.12) the keys of a multi-object delete reach the backend exactly as the request body named them; (R01.6/R01.9) stored metadata maps of other objects are never written. (R16.3, shared) the host middlewares prepend the bucket to the path and change nothing else of it: no cleaning that lets a key leave its bucket. (R02.12/R02.9, shared) the fs delete path works on the addressed bucket/key path only. (R10.13) baseFs is read only in construction; an own-named scratch file is removed only after its exclusive create succeeded; an upload id is honoured only for its own bucket and key."
	r.NotDecided = "non-interference as a whole-store statement, percent-encoding, very long segments, what the OS does with odd names, keys that are path-prefixes of other keys on the fs backends (a/b vs a/b/c is refused by the OS, not by a rule)"
	ctx := oblig.NewCtx(r.P)
	rule101(r, ctx)
	rule102(r, ctx)
	rule103(r, ctx)
	rule104(r, ctx)
	rule105(r)
	rule106(r)
	rule107(r)
	rule108(r)
	rule109(r)
	rule1010(r)
	rule1011(r)
	rule1012(r)
	rule1013(r)
	rule163(r, hostMiddlewares(r))
	rule0212(r)
	rule029(r)
	rule016(r, "C10")
	rule019(r)
	rule0211(r)
	rule1014(r)
	rule1015(r)
	rule1016(r)
}

// fsCall: the call is a use of an afero filesystem (method of afero.Fs or an
// afero helper taking an Fs); returns the path-like string arguments.
func fsCallPaths(r *core.Run, c ssa.CallInstruction) (paths []ssa.Value, isFs bool) {
	cc := c.Common()
	name := r.P.CalleeName(c)
	if cc.IsInvoke() && r.P.TypeShort(cc.Value.Type()) == "github.com/spf13/afero.Fs" {
		isFs = true
	} else if cal := core.StaticCallee(c); cal != nil && cal.Pkg != nil && cal.Pkg.Pkg.Path() == "github.com/spf13/afero" {
		for _, a := range cc.Args {
			if r.P.TypeShort(a.Type()) == "github.com/spf13/afero.Fs" {
				isFs = true
			}
		}
	}
	if !isFs {
		return nil, false
	}
	_ = name
	for _, a := range cc.Args {
		if r.P.TypeShort(a.Type()) == "string" {
			paths = append(paths, a)
		}
	}
	return paths, true
}

func keyParams(fn *ssa.Function) []*ssa.Parameter {
	var out []*ssa.Parameter
	for _, p := range fn.Params {
		switch p.Name() {
		case "objectName", "object", "key", "srcKey", "dstKey", "objectPath":
			if p.Type().String() == "string" {
				out = append(out, p)
			}
		}
	}
	return out
}

func rule101(r *core.Run, ctx *oblig.Ctx) {
	r.Rule("R10.1", "in the fs backends every afero call whose path argument derives from an object-key parameter is dominated by a checked checkObjectName(key); checkObjectName is a containment test (path.Clean fixpoint on the rooted key) whose failing arm returns an error")
	// sanitisers: functions of s3afero with one string parameter and an error
	// result that implement the containment idiom
	isSanitiser := func(san *ssa.Function) bool {
		if len(san.Params) != 1 || san.Params[0].Type().String() != "string" || san.Signature.Results().Len() != 1 || !core.IsErrorType(san.Signature.Results().At(0).Type()) {
			return false
		}
		p0 := san.Params[0]
		okClean, okRet := false, false
		core.Instrs(san, func(in ssa.Instruction) {
			b, ok := in.(*ssa.BinOp)
			if !ok || (b.Op != token.NEQ && b.Op != token.EQL) {
				return
			}
			sx := r.P.SliceOf(b.X, core.SliceOpts{Depth: -1})
			sy := r.P.SliceOf(b.Y, core.SliceOpts{Depth: -1})
			cx := sx.Has("call:path.Clean") || sx.Has("call:path/filepath.Clean")
			cy := sy.Has("call:path.Clean") || sy.Has("call:path/filepath.Clean")
			if (cx && sx.HasValue(p0) && sy.HasValue(p0) && !cy) || (cy && sy.HasValue(p0) && sx.HasValue(p0) && !cx) {
				// the cleaned value is the ROOTED key ("/" + key, or Join("/", key)): cleaning a
				// relative path keeps leading ".." segments, so a fixpoint test on the bare key
				// accepts "../other-bucket/x"
				rooted := false
				for _, sl := range []*core.Slice{sx, sy} {
					for c := range sl.Calls {
						cn := r.P.CalleeName(c)
						if cn != "path.Clean" && cn != "path/filepath.Clean" || len(c.Common().Args) != 1 {
							continue
						}
						switch a := c.Common().Args[0].(type) {
						case *ssa.BinOp:
							if k, isK := core.ConstString(a.X); isK && a.Op == token.ADD && strings.HasPrefix(k, "/") {
								rooted = true
							}
						case *ssa.Call:
							if jn := r.P.CalleeName(a); (jn == "path.Join" || jn == "path/filepath.Join") && len(a.Call.Args) == 1 {
								for _, e := range packedElems(a.Call.Args[0]) {
									if k, isK := core.ConstString(e); isK && strings.HasPrefix(k, "/") {
										rooted = true
									}
									break
								}
							}
						}
					}
				}
				if rooted {
					okClean = true
				}
			}
		})
		// boolean library predicates
		core.Instrs(san, func(in ssa.Instruction) {
			if c, ok := in.(*ssa.Call); ok {
				n := r.P.CalleeName(c)
				if (n == "io/fs.ValidPath" || n == "path/filepath.IsLocal") && len(c.Call.Args) == 1 && c.Call.Args[0] == ssa.Value(p0) {
					okClean = true
				}
			}
		})
		for _, ev := range returnedErrors(san) {
			if !definitelyNil(r, ev) {
				okRet = true
			}
		}
		return okClean && okRet
	}
	sans := map[*ssa.Function]bool{}
	for _, fn := range r.P.FuncsOfPkg("s3afero") {
		if fn.Parent() == nil && isSanitiser(fn) {
			sans[fn] = true
			r.Held("R10.1", key(fname(r, fn), "containment idiom"), r.P.Pos(fn.Pos()), "compares the cleaned rooted key with the rooted key and returns an error when they differ")
		}
	}
	if len(sans) == 0 {
		r.Violated("R10.1", key("s3afero", "no containment sanitiser"), "", "the fs backends contain no key-containment test (a path.Clean fixpoint / ValidPath / IsLocal check with an error arm): '..', '.', empty segments in a key reach another key or bucket")
	}
	n := 0
	for _, fn := range r.P.FuncsOfPkg("s3afero") {
		name := fname(r, fn)
		if !strings.Contains(name, "BucketBackend)") {
			continue
		}
		kps := keyParams(fn)
		top := fn
		for top.Parent() != nil {
			top = top.Parent()
		}
		if fn.Parent() != nil {
			kps = append(kps, keyParams(top)...)
		}
		if len(kps) == 0 {
			continue
		}
		// listing helpers receive directory-entry names, not keys
		if strings.Contains(name, "getBucketWith") || strings.HasSuffix(name, "ensureMeta") {
			continue
		}
		f := fn
		core.Instrs(fn, func(in ssa.Instruction) {
			c, ok := in.(ssa.CallInstruction)
			if !ok {
				return
			}
			paths, isFs := fsCallPaths(r, c)
			if !isFs {
				return
			}
			for _, pth := range paths {
				s := r.P.SliceOf(pth, core.SliceOpts{Depth: -1})
				for _, kp := range kps {
					if !s.HasValue(kp) {
						continue
					}
					n++
					ok := false
					core.Instrs(f, func(x ssa.Instruction) {
						if sc, okc := x.(*ssa.Call); okc && sans[core.StaticCallee(sc)] && sc.Call.Args[0] == ssa.Value(kp) && core.CheckedBefore(sc, in) {
							ok = true
						}
					})
					if !ok {
						// an internal helper: the obligation is its callers' — each passes a value it has
						// checked, or is itself a helper / listing function whose callers did
						ok = keyCheckedByCallers(r, sans, top, kp, 0)
					}
					r.Check(ok, "R10.1", key(name, r.P.CalleeName(c), kp.Name(), sprintf("#%d", n)), pos(r, in),
						"dominated by a checked containment test of "+kp.Name(), "a filesystem path is built from the object key "+kp.Name()+" without the containment check: '..' segments reach another key or bucket")
				}
			}
		})
	}
	r.Floor("R10.1", 10, "key-derived filesystem paths")
}

func rule102(r *core.Run, ctx *oblig.Ctx) {
	r.Rule("R10.2", "every tx.Bucket/CreateBucket/CreateBucketIfNotExists/DeleteBucket in s3bolt whose name derives from a request-supplied bucket name is dominated (in the function or before the transaction closure is started) by a rejecting bytes.Equal comparison with db.metaBucketName")
	n := 0
	isMetaCmp := func(f oblig.Fact, param ssa.Value) bool {
		var a0, a1 ssa.Value
		if f.Bool != nil {
			x, y, eq, ok := byteCompare(r, f.Bool, f.Truth)
			if !ok || eq {
				return false
			}
			a0, a1 = x, y
		} else if f.If != nil {
			// comparison facts (bytes.Compare(a, b) != 0): re-read the guard
			matched := false
			for _, t := range []bool{true, false} {
				x, y, eq, ok := byteCompare(r, f.If.Cond, t)
				if ok && !eq && factTruth(f, t) {
					a0, a1, matched = x, y, true
				}
			}
			if !matched {
				return false
			}
		} else {
			return false
		}
		s0 := r.P.SliceOf(a0, core.SliceOpts{Depth: -1})
		s1 := r.P.SliceOf(a1, core.SliceOpts{Depth: -1})
		m0, m1 := s0.Has("field:s3bolt.Backend.metaBucketName"), s1.Has("field:s3bolt.Backend.metaBucketName")
		return (m1 && s0.HasValue(param)) || (m0 && s1.HasValue(param))
	}
	for _, fn := range r.P.FuncsOfPkg("s3bolt") {
		f := fn
		core.Instrs(fn, func(in ssa.Instruction) {
			c, ok := in.(*ssa.Call)
			if !ok {
				return
			}
			switch r.P.CalleeName(c) {
			case "(*go.etcd.io/bbolt.Tx).Bucket", "(*go.etcd.io/bbolt.Tx).CreateBucket", "(*go.etcd.io/bbolt.Tx).CreateBucketIfNotExists", "(*go.etcd.io/bbolt.Tx).DeleteBucket":
			default:
				return
			}
			nameArg := c.Call.Args[1]
			s := r.P.SliceOf(nameArg, core.SliceOpts{Depth: -1})
			// which string parameters (of f or its enclosing method) feed the name
			var params []ssa.Value
			for g := f; g != nil; g = g.Parent() {
				for _, p := range g.Params {
					if s.HasValue(p) && p.Type().String() == "string" {
						params = append(params, p)
					}
				}
			}
			if len(params) == 0 {
				if s.Has("field:s3bolt.Backend.metaBucketName") {
					r.Held("R10.2", key(fname(r, f), c.Common().Value.Name(), "internal"), pos(r, c), "the bookkeeping bucket itself")
				}
				return
			}
			n++
			ok2 := true
			for _, p := range params {
				guarded := false
				// in this function
				for _, ft := range ctx.FactsAt(c) {
					if isMetaCmp(ft, p) {
						guarded = true
					}
				}
				// before the enclosing transaction closure(s)
				for g := f; g.Parent() != nil && !guarded; g = g.Parent() {
					core.Instrs(g.Parent(), func(pi ssa.Instruction) {
						pc, ok := pi.(ssa.CallInstruction)
						if !ok {
							return
						}
						for _, a := range pc.Common().Args {
							if mc, ok := a.(*ssa.MakeClosure); ok && mc.Fn == ssa.Value(g) {
								for _, ft := range ctx.FactsAt(pi) {
									if isMetaCmp(ft, p) {
										guarded = true
									}
								}
							}
						}
					})
				}
				if !guarded {
					ok2 = false
				}
			}
			r.Check(ok2, "R10.2", key(fname(r, f), strings.TrimPrefix(r.P.CalleeName(c), "(*go.etcd.io/bbolt.Tx)."), sprintf("#%d", n)), pos(r, c),
				"request-supplied name compared with the bookkeeping bucket first", "a bolt bucket is looked up / created / deleted by a request-supplied name without excluding the internal bookkeeping bucket: '_meta' becomes addressable as an S3 bucket")
		})
	}
	r.Floor("R10.2", 6, "bolt bucket operations on request names")
	// ListBuckets skips the bookkeeping bucket
	if lb := mustFunc(r, "s3bolt.(*Backend).ListBuckets"); lb != nil {
		found := false
		for _, f := range core.Closures(lb) {
			core.Instrs(f, func(in ssa.Instruction) {
				if c, ok := in.(*ssa.Call); ok && (r.P.CalleeName(c) == "bytes.Equal" || r.P.CalleeName(c) == "bytes.Compare") {
					s := r.P.SliceOfMany(c.Call.Args, core.SliceOpts{Depth: -1})
					if s.Has("field:s3bolt.Backend.metaBucketName") {
						found = true
					}
				}
			})
		}
		r.Check(found, "R10.2", key(fname(r, lb), "skips bookkeeping bucket"), r.P.Pos(lb.Pos()), "ListBuckets filters the internal bucket", "ListBuckets no longer filters out the internal bookkeeping bucket")
	}
}

func rule103(r *core.Run, ctx *oblig.Ctx) {
	r.Rule("R10.3", "every SingleBucketBackend method with a bucket-name parameter performs filesystem / metadata-store calls only where the parameter was compared equal to db.name (the mismatching arm returns BucketNotFound)")
	n := 0
	for _, fn := range r.P.FuncsOfPkg("s3afero") {
		name := fname(r, fn)
		if !strings.HasPrefix(name, "s3afero.(*SingleBucketBackend).") || fn.Parent() != nil {
			continue
		}
		var bp *ssa.Parameter
		for _, p := range fn.Params {
			if p.Name() == "bucket" || p.Name() == "bucketName" || p.Name() == "name" {
				bp = p
			}
		}
		if bp == nil {
			continue
		}
		m := fn.Name()
		// exported Backend methods only: helpers are reached through them
		if !isExportedName(m) || m == "CreateBucket" || m == "DeleteBucket" || m == "CopyObject" || m == "BucketExists" {
			continue
		}
		// the guard
		guardOK := false
		var firstEffect ssa.Instruction
		core.Instrs(fn, func(in ssa.Instruction) {
			if firstEffect != nil {
				return
			}
			c, ok := in.(ssa.CallInstruction)
			if !ok {
				return
			}
			cn := r.P.CalleeName(c)
			_, isFs := fsCallPaths(r, c)
			if isFs || strings.HasPrefix(cn, "s3afero.(*metaStore).") || strings.HasPrefix(cn, "s3afero.(*SingleBucketBackend).") || cn == "gofakes3.MergeMetadata" || cn == "(*sync.Mutex).Lock" {
				firstEffect = in
			}
		})
		if firstEffect == nil {
			continue
		}
		n++
		for _, f := range ctx.FactsAt(firstEffect) {
			if f.Op != token.EQL {
				continue
			}
			sx := r.P.SliceOfMany([]ssa.Value{f.X, f.Y}, core.SliceOpts{Depth: -1})
			if sx.HasValue(bp) && sx.Has("field:s3afero.SingleBucketBackend.name") {
				guardOK = true
			}
		}
		codes := errCodes(errorSliceOf(r, fn, 2))
		r.Check(guardOK && has(codes, "NoSuchBucket"), "R10.3", key(name, "bucket name guard"), pos(r, firstEffect),
			"first effect is reached only with "+bp.Name()+" == db.name", "the method touches the filesystem/lock before comparing the bucket parameter with db.name (or no longer answers NoSuchBucket): another bucket name addresses this bucket's data")
	}
	r.Floor("R10.3", 7, "SingleBucketBackend methods")
}

func isExportedName(n string) bool { return n != "" && n[0] >= 'A' && n[0] <= 'Z' }

func rule104(r *core.Run, ctx *oblig.Ctx) {
	r.Rule("R10.4", "every object-level method of MultiBucketBackend performs object-path filesystem calls only after a checked afero.Exists(db.bucketFs, bucketName) with a true result (the false arm returns BucketNotFound)")
	for _, m := range []string{"HeadObject", "GetObject", "PutObject", "DeleteObject", "DeleteMulti"} {
		fn := implMethod(r, "s3afero.(*MultiBucketBackend)", m)
		if fn == nil {
			continue
		}
		bp := paramNamed(fn, "bucketName")
		var exists *ssa.Call
		core.Instrs(fn, func(in ssa.Instruction) {
			if c, ok := in.(*ssa.Call); ok && r.P.CalleeName(c) == "github.com/spf13/afero.Exists" && len(c.Call.Args) == 2 && c.Call.Args[1] == ssa.Value(bp) {
				exists = c
			}
		})
		if exists == nil {
			r.Violated("R10.4", key(fname(r, fn), "existence guard"), r.P.Pos(fn.Pos()), "the method no longer tests that the bucket directory exists")
			continue
		}
		var ex ssa.Value
		for _, ref := range *exists.Referrers() {
			if e, ok := ref.(*ssa.Extract); ok && e.Index == 0 {
				ex = e
			}
		}
		bad := ""
		nEff := 0
		core.Instrs(fn, func(in ssa.Instruction) {
			c, ok := in.(ssa.CallInstruction)
			if !ok || in == ssa.Instruction(exists) {
				return
			}
			cn := r.P.CalleeName(c)
			_, isFs := fsCallPaths(r, c)
			if !(isFs || cn == "s3afero.(*MultiBucketBackend).deleteObjectLocked" || strings.HasPrefix(cn, "s3afero.(*metaStore).")) {
				return
			}
			nEff++
			okG := false
			for _, f := range ctx.FactsAt(in) {
				if f.Bool != nil && f.Truth && valueAliasOf(f.Bool, ex) {
					okG = true
				}
			}
			if !okG || !core.CheckedBefore(exists, in) {
				bad = pos(r, in)
			}
		})
		r.Check(bad == "" && nEff > 0, "R10.4", key(fname(r, fn), "existence guard"), pos(r, exists),
			sprintf("%d filesystem effect(s) all after the bucket was found to exist", nEff), "a filesystem effect at "+bad+" is reachable without the bucket directory having been found to exist: an absent bucket is created implicitly or another path is touched")
	}
	r.Floor("R10.4", 5, "object-level methods of MultiBucketBackend")
}

// valueAliasOf: v is x, or a load of a variable that only ever holds x.
func valueAliasOf(v, x ssa.Value) bool {
	if v == x {
		return true
	}
	return oblig.ResolveLocal(v) == x
}

func rule105(r *core.Run) {
	r.Rule("R10.5", "metaStore.metaPath hashes the unmodified object key (no replacement on the hash input) and the returned file name contains that hash and the bucket; loadMeta/saveMeta/deleteMeta address files only through metaPath")
	fn := mustFunc(r, "s3afero.(*metaStore).metaPath")
	if fn == nil {
		return
	}
	op := paramNamed(fn, "object")
	bp := paramNamed(fn, "bucket")
	var wr *ssa.Call
	core.Instrs(fn, func(in ssa.Instruction) {
		if c, ok := in.(*ssa.Call); ok && strings.HasSuffix(r.P.CalleeName(c), ".Write") && c.Call.IsInvoke() {
			wr = c
		}
	})
	if wr == nil || op == nil {
		r.Violated("R10.5", key(fname(r, fn), "hash input"), r.P.Pos(fn.Pos()), "metaPath no longer feeds the key into a hash")
		return
	}
	s := r.P.SliceOf(wr.Call.Args[0], core.SliceOpts{Depth: -1})
	clean := s.HasValue(op) && !s.HasPrefix("call:") && !s.HasPrefix("via:") && !s.HasPrefix("op:") && !s.HasPrefix("slice-expr")
	r.Check(clean, "R10.5", key(fname(r, fn), "hash input is the unmodified key"), pos(r, wr), "hash over []byte(object)", "the hash input is a transformed key: distinct keys can share a metadata file")
	// result: object part contains Sum of that hasher, bucket part is the bucket param
	var rets []ssa.Value
	for _, ret := range core.Returns(fn) {
		rets = append(rets, ret.Results...)
	}
	rs := r.P.SliceOfMany(rets, core.SliceOpts{Depth: -1})
	r.Check(rs.Has("call:invoke:hash.Hash.Sum") && rs.Has("call:encoding/hex.EncodeToString") && bp != nil && rs.HasValue(bp), "R10.5", key(fname(r, fn), "name = f(bucket, key, hash)"), r.P.Pos(fn.Pos()),
		"file name contains the hash and the bucket", "the metadata path no longer contains the key hash and the bucket name")
	// separators flattened so the metadata Fs sees one path segment per key
	flat := 0
	core.Instrs(fn, func(in ssa.Instruction) {
		c, ok := in.(*ssa.Call)
		if !ok {
			return
		}
		switch r.P.CalleeName(c) {
		case "strings.Replace", "strings.ReplaceAll":
			if old, ok := core.ConstString(c.Call.Args[1]); ok && (old == "/" || old == "\\") {
				flat++
			}
		case "strings.NewReplacer":
			// old/new pairs in a variadic list: count the separators among the constants
			as := r.P.SliceOfMany(c.Call.Args, core.SliceOpts{Depth: -1})
			if as.Has("const:/") {
				flat++
			}
			if as.Has("const:\\") {
				flat++
			}
		case "strings.Map":
			flat += 2 // a character mapping; its function is covered by the provenance check above
		case "(*strings.Replacer).Replace":
			// a replacer kept in a package-level variable: look at how it was built
			if ld, ok := c.Call.Args[0].(*ssa.UnOp); ok {
				if g, ok := ld.X.(*ssa.Global); ok {
					for _, st := range r.P.GlobalStores(g) {
						as := r.P.SliceOf(st.Val, core.SliceOpts{Depth: -1})
						if as.Has("const:/") {
							flat++
						}
						if as.Has("const:\\") {
							flat++
						}
					}
				}
			}
		}
	})
	r.Check(flat >= 2, "R10.5", key(fname(r, fn), "separators flattened"), r.P.Pos(fn.Pos()), "'/' and '\\' replaced in the readable part", "path separators of the key are no longer flattened in the metadata file name: a key can address another key's metadata directory")
}

func rule106(r *core.Run) {
	r.Rule("R10.6", "routeBase derives bucket and object only from the split of r.URL.Path and passes them unchanged to the route functions, which pass them unchanged to the handlers")
	rb := mustFunc(r, "gofakes3.(*GoFakeS3).routeBase")
	if rb == nil {
		return
	}
	n := 0
	core.Instrs(rb, func(in ssa.Instruction) {
		c, ok := in.(*ssa.Call)
		if !ok {
			return
		}
		cal := core.StaticCallee(c)
		if cal == nil || !strings.HasPrefix(fname(r, cal), "gofakes3.(*GoFakeS3).route") {
			return
		}
		for i, p := range cal.Params {
			if p.Name() != "bucket" && p.Name() != "object" {
				continue
			}
			n++
			a := c.Call.Args[i]
			s := r.P.SliceOf(a, core.SliceOpts{Depth: -1})
			okp := s.Has("field:net/url.URL.Path")
			// the only transformation on the way is the strip of slashes and the split: no
			// cleaning, unescaping, case folding or replacement (any splitting idiom is fine)
			for cc := range s.Calls {
				switch cn := r.P.CalleeName(cc); cn {
				case "strings.Trim", "strings.TrimLeft", "strings.TrimRight", "strings.TrimPrefix", "strings.TrimSuffix":
				default:
					if pathTransformers[cn] {
						okp = false
					}
				}
			}
			// object may be the empty constant when the path has one segment
			r.Check(okp, "R10.6", key(fname(r, rb), "→"+cal.Name(), p.Name()), pos(r, c), "from the split URL path, untransformed", "the "+p.Name()+" passed to "+cal.Name()+" is not the untransformed segment of r.URL.Path")
		}
	})
	for _, rn := range routeFuncNames[1:] {
		fn := mustFunc(r, rn)
		if fn == nil {
			continue
		}
		core.Instrs(fn, func(in ssa.Instruction) {
			c, ok := in.(*ssa.Call)
			if !ok {
				return
			}
			cal := core.StaticCallee(c)
			if cal == nil || !r.P.IsRepo(cal) || !strings.HasPrefix(fname(r, cal), "gofakes3.(*GoFakeS3).") {
				return
			}
			for i, p := range cal.Params {
				if p.Name() != "bucket" && p.Name() != "object" && p.Name() != "bucketName" {
					continue
				}
				want := paramNamed(fn, "bucket")
				if p.Name() == "object" {
					want = paramNamed(fn, "object")
				}
				n++
				r.Check(want != nil && c.Call.Args[i] == ssa.Value(want), "R10.6", key(rn, "→"+cal.Name(), p.Name()), pos(r, c), "parameter passed through", "the route function does not pass its "+p.Name()+" parameter unchanged to "+cal.Name())
			}
		})
	}
	if n < 30 {
		r.Unresolved("R10.6: only %d name-passing sites found (expected >= 30)", n)
	}
}

func rule107(r *core.Run) {
	r.Rule("R10.7", "Fs.RemoveAll in the fs backends is applied only to bucket-level paths (a bucket name, a directory entry of the bucket root, or a constant): never to a path that derives from an object-key parameter — a key is one file, not a subtree")
	n := 0
	for _, fn := range r.P.FuncsOfPkg("s3afero") {
		f := fn
		core.Instrs(fn, func(in ssa.Instruction) {
			c, ok := in.(ssa.CallInstruction)
			if !ok || !strings.HasSuffix(r.P.CalleeName(c), "afero.Fs.RemoveAll") {
				return
			}
			n++
			pth := c.Common().Args[0]
			s := r.P.SliceOf(pth, core.SliceOpts{Depth: -1, BindParams: true})
			bad := ""
			for l := range s.Leaves {
				if !strings.HasPrefix(l, "param:") {
					continue
				}
				pn := l[strings.LastIndex(l, ".")+1:]
				switch pn {
				case "objectName", "object", "key", "objects", "objectPath", "srcKey", "dstKey":
					bad = l
				}
			}
			r.Check(bad == "", "R10.7", key(fname(r, f), "RemoveAll", sprintf("#%d", n)), pos(r, in),
				"recursive removal of a bucket-level path", "RemoveAll is applied to a path derived from an object key ("+bad+"): deleting a key that names a directory removes every object beneath it")
		})
	}
	// the object delete itself is non-recursive
	for _, impl := range []string{"s3afero.(*MultiBucketBackend)", "s3afero.(*SingleBucketBackend)"} {
		fn := mustFunc(r, impl+".deleteObjectLocked")
		if fn == nil {
			continue
		}
		rm := r.P.CallsIn(fn, false, core.NameIs("invoke:github.com/spf13/afero.Fs.Remove"))
		r.Check(len(rm) == 1, "R10.7", key(fname(r, fn), "object removed with Remove"), r.P.Pos(fn.Pos()), "single non-recursive Remove", "deleteObjectLocked does not remove the object with exactly one non-recursive Fs.Remove")
	}
	r.Floor("R10.7", 4, "RemoveAll sites + object deletes")
}

// rule108 — bolt operations are keyed by exactly the addressed name.
func rule108(r *core.Run) {
	r.Rule("R10.8", "in s3bolt every (*bolt.Bucket).Put/Get/Delete is keyed by exactly []byte(<object-key parameter>) or bucketMetaKey(<bucket parameter>) — never by a cursor-derived or prefix-matched key (sole exception: ForceDeleteBucket emptying the very bucket it deletes); bucketMetaKey is a constant prefix plus the unmodified name")
	n := 0
	for _, fn := range r.P.FuncsOfPkg("s3bolt") {
		f := fn
		core.Instrs(fn, func(in ssa.Instruction) {
			c, ok := in.(*ssa.Call)
			if !ok {
				return
			}
			cn := r.P.CalleeName(c)
			if cn != "(*go.etcd.io/bbolt.Bucket).Put" && cn != "(*go.etcd.io/bbolt.Bucket).Get" && cn != "(*go.etcd.io/bbolt.Bucket).Delete" {
				return
			}
			n++
			k := c.Call.Args[1]
			name := fname(r, f)
			okKey := false
			why := ""
			switch kv := k.(type) {
			case *ssa.Convert:
				// []byte(param) — param of f or of the enclosing method, or a range element of a []string parameter
				okKey = unmodifiedParamString(r, kv.X, 0)
				why = "the key is a transformed value, not the object key itself"
			case *ssa.Call:
				if r.P.CalleeName(kv) == "s3bolt.bucketMetaKey" {
					_, isParam := kv.Call.Args[0].(*ssa.Parameter)
					okKey = isParam
					why = "bucketMetaKey is not applied to the bucket parameter itself"
				}
			default:
				why = "the key comes from a cursor / computed value"
			}
			if !okKey && strings.HasPrefix(name, "s3bolt.(*Backend).ForceDeleteBucket") && cn == "(*go.etcd.io/bbolt.Bucket).Delete" {
				// reviewed: deletes every key of the bucket that is itself being deleted: receiver is tx.Bucket(nameBts) of the method's name parameter
				rs := r.P.SliceOf(c.Call.Args[0], core.SliceOpts{Depth: -1})
				ks := r.P.SliceOf(k, core.SliceOpts{Depth: -1})
				if rs.Has("call:(*go.etcd.io/bbolt.Tx).Bucket") && ks.Has("call:(*go.etcd.io/bbolt.Bucket).Cursor") {
					r.Held("R10.8", key(name, "empties the bucket being deleted"), pos(r, c), "reviewed: cursor over the bucket that is being force-deleted")
					return
				}
			}
			if why == "" {
				why = "unrecognised key shape"
			}
			r.Check(okKey, "R10.8", key(name, strings.TrimPrefix(cn, "(*go.etcd.io/bbolt.Bucket)."), sprintf("#%d", n)), pos(r, c),
				"keyed by exactly the addressed name", "a bolt record is addressed by something other than exactly the addressed name ("+why+"): an operation on one bucket/key can touch another's record")
		})
	}
	r.Floor("R10.8", 6, "bolt record operations")
	if fn := mustFunc(r, "s3bolt.bucketMetaKey"); fn != nil {
		ok := false
		for _, ret := range core.Returns(fn) {
			if cv, isC := ret.Results[0].(*ssa.Convert); isC {
				if b, isB := cv.X.(*ssa.BinOp); isB && b.Op == token.ADD {
					if pre, isS := core.ConstString(b.X); isS && pre != "" && b.Y == ssa.Value(fn.Params[0]) {
						ok = true
					}
				}
			}
		}
		r.Check(ok, "R10.8", key(fname(r, fn), "constant prefix + name"), r.P.Pos(fn.Pos()), "\"<prefix>\"+name", "bucketMetaKey is no longer a constant prefix followed by the unmodified bucket name (distinct buckets may share a record)")
	}
}

// unmodifiedParamString: v is a string parameter, or an element of a []string
// parameter, carried around without any operation on its value (captured
// variables and range indexing are followed; arithmetic, calls, slicing are not).
func unmodifiedParamString(r *core.Run, v ssa.Value, d int) bool {
	if d > 8 {
		return false
	}
	switch x := v.(type) {
	case *ssa.Parameter:
		return true
	case *ssa.FreeVar:
		fn := x.Parent()
		idx := -1
		for i, fv := range fn.FreeVars {
			if fv == x {
				idx = i
			}
		}
		ok := false
		if fn.Parent() != nil && idx >= 0 {
			core.Instrs(fn.Parent(), func(in ssa.Instruction) {
				if mc, isMC := in.(*ssa.MakeClosure); isMC && mc.Fn == ssa.Value(fn) && idx < len(mc.Bindings) {
					ok = unmodifiedParamString(r, mc.Bindings[idx], d+1)
				}
			})
		}
		return ok
	case *ssa.Alloc:
		// a parameter spilled because a closure captures it: single store of the parameter
		n, ok := 0, true
		for _, ref := range *x.Referrers() {
			if st, isSt := ref.(*ssa.Store); isSt && st.Addr == ssa.Value(x) {
				n++
				if !unmodifiedParamString(r, st.Val, d+1) {
					ok = false
				}
			}
		}
		return ok && n == 1
	case *ssa.UnOp:
		if x.Op != token.MUL {
			return false
		}
		if ia, isIA := x.X.(*ssa.IndexAddr); isIA {
			return unmodifiedParamString(r, ia.X, d+1)
		}
		if fa, isFA := x.X.(*ssa.FieldAddr); isFA {
			// a field of a record built in this operation (`obj := &T{Name: key, …}` … `obj.Name`): every
			// store into that field within the enclosing method and its closures stores the parameter
			top := func(f *ssa.Function) *ssa.Function {
				for f.Parent() != nil {
					f = f.Parent()
				}
				return f
			}
			here := top(x.Parent())
			n, ok := 0, true
			for _, st := range r.P.FieldStores(r.P.FieldName(fa)) {
				if top(st.Parent()) != here {
					continue
				}
				n++
				if !unmodifiedParamString(r, st.Val, d+1) {
					ok = false
				}
			}
			return ok && n > 0
		}
		return unmodifiedParamString(r, x.X, d+1)
	case *ssa.Index:
		return unmodifiedParamString(r, x.X, d+1)
	case *ssa.ChangeType:
		return unmodifiedParamString(r, x.X, d+1)
	}
	return false
}

// factTruth reports whether fact f (derived from f.If) corresponds to the guard's condition having truth t.
func factTruth(f oblig.Fact, t bool) bool {
	cd := core.CondOf(f.If.Cond)
	if cd.Op == 0 || cd.Op == token.ILLEGAL {
		return f.Truth == (t != cd.Neg)
	}
	// f.Op is cd.Op when the condition (after '!' peeling) is true, its negation otherwise
	condTrue := f.Op == cd.Op
	return condTrue == (t != cd.Neg)
}

// keyCheckedByCallers: fn is not an entry point (unexported, never stored as a
// value) and at every static call site the argument bound to its key parameter
// kp was checked with a containment sanitiser before the call, or the calling
// function is a listing helper (names come from directory entries), or the
// argument is the caller's own key parameter and the same holds for the caller.
func keyCheckedByCallers(r *core.Run, sans map[*ssa.Function]bool, fn *ssa.Function, kp *ssa.Parameter, depth int) bool {
	if depth > 3 || fn == nil || isExportedName(fn.Name()) {
		return false
	}
	idx := -1
	for i, p := range fn.Params {
		if p == kp {
			idx = i
		}
	}
	if idx < 0 {
		return false
	}
	callers := r.P.StaticCallers(fn)
	if len(callers) == 0 {
		return false
	}
	for _, c := range callers {
		caller := c.Parent()
		top := caller
		for top.Parent() != nil {
			top = top.Parent()
		}
		cn := fname(r, top)
		if strings.Contains(cn, "getBucketWith") || strings.HasSuffix(cn, "ensureMeta") {
			continue
		}
		args := c.Common().Args
		if idx >= len(args) {
			return false
		}
		arg := args[idx]
		okSite := false
		core.Instrs(caller, func(x ssa.Instruction) {
			if sc, okc := x.(*ssa.Call); okc && sans[core.StaticCallee(sc)] && sc.Call.Args[0] == arg && core.CheckedBefore(sc, c.(ssa.Instruction)) {
				okSite = true
			}
		})
		if !okSite {
			if p, isParam := arg.(*ssa.Parameter); isParam && keyCheckedByCallers(r, sans, top, p, depth+1) {
				okSite = true
			}
		}
		if !okSite {
			return false
		}
	}
	return true
}

// rule109 — a bolt write goes to the bucket that pairs with its key.
func rule109(r *core.Run) {
	r.Rule("R10.9", "in s3bolt every (*bolt.Bucket).Put/Delete whose key derives from an object-key parameter is issued on the bucket handle obtained (tx.Bucket / s3Bucket) for the bucket-name parameter that immediately precedes that key parameter in the method's signature — in a method with two (bucket, key) pairs a write keyed by the destination key cannot land in the source bucket")
	n := 0
	for _, fn := range r.P.FuncsOfPkg("s3bolt") {
		f := fn
		top := f
		for top.Parent() != nil {
			top = top.Parent()
		}
		// (bucket, key) pairs of the enclosing method: consecutive string parameters
		type pair struct{ b, k *ssa.Parameter }
		var pairs []pair
		ps := top.Params
		for i := 0; i+1 < len(ps); i++ {
			if ps[i].Type().String() == "string" && ps[i+1].Type().String() == "string" {
				bn, kn := strings.ToLower(ps[i].Name()), strings.ToLower(ps[i+1].Name())
				if strings.Contains(bn, "bucket") && (strings.Contains(kn, "key") || strings.Contains(kn, "object")) {
					pairs = append(pairs, pair{ps[i], ps[i+1]})
				}
			}
		}
		if len(pairs) == 0 {
			continue
		}
		core.Instrs(f, func(in ssa.Instruction) {
			c, ok := in.(*ssa.Call)
			if !ok {
				return
			}
			cn := r.P.CalleeName(c)
			if cn != "(*go.etcd.io/bbolt.Bucket).Put" && cn != "(*go.etcd.io/bbolt.Bucket).Delete" {
				return
			}
			ks := r.P.SliceOf(c.Call.Args[1], core.SliceOpts{Depth: 1})
			hs := r.P.SliceOf(c.Call.Args[0], core.SliceOpts{Depth: 2})
			for _, p := range pairs {
				if !ks.HasValue(p.k) {
					continue
				}
				n++
				okH := hs.HasValue(p.b)
				for _, q := range pairs {
					if q.b != p.b && hs.HasValue(q.b) && !hs.HasValue(p.b) {
						okH = false
					}
				}
				r.Check(okH, "R10.9", key(fname(r, f), strings.TrimPrefix(cn, "(*go.etcd.io/bbolt.Bucket)."), p.k.Name()), pos(r, c), "handle of bucket "+p.b.Name()+" for key "+p.k.Name(),
					"a record keyed by "+p.k.Name()+" is written through a bucket handle that does not come from "+p.b.Name()+": the write lands in another bucket (and can overwrite an unrelated key there)")
			}
		})
	}
	r.Floor("R10.9", 2, "bolt writes paired with their bucket")
}

// rule1010 — bucket names and listing prefixes cannot address the filesystem outside a bucket.
func rule1010(r *core.Run) {
	r.Rule("R10.10", "every exported MultiBucketBackend method with a bucket-name parameter performs filesystem / metadata-store calls whose path derives from that parameter only after a checked gofakes3.ValidateBucketName of it ('.', '..' or a path are directories, not buckets); in both fs backends the directory part of a listing prefix reaches getBucketWithFilePrefixLocked only when it is empty or passed the key-containment check")
	vf := mustFunc(r, "gofakes3.ValidateBucketName")
	if vf == nil {
		return
	}
	n := 0
	for _, fn := range r.P.FuncsOfPkg("s3afero") {
		name := fname(r, fn)
		if fn.Parent() != nil || !strings.HasPrefix(name, "s3afero.(*MultiBucketBackend).") || !isExportedName(fn.Name()) {
			continue
		}
		var bps []*ssa.Parameter
		for _, p := range fn.Params[1:] {
			pn := strings.ToLower(p.Name())
			if p.Type().String() == "string" && (pn == "name" || strings.Contains(pn, "bucket")) {
				bps = append(bps, p)
			}
		}
		if len(bps) == 0 || fn.Name() == "CopyObject" {
			continue // CopyObject delegates to GetObject/PutObject
		}
		f := fn
		for _, bp := range bps {
			var checks []*ssa.Call
			core.Instrs(f, func(in ssa.Instruction) {
				if c, ok := in.(*ssa.Call); ok && core.StaticCallee(c) == vf && c.Call.Args[0] == ssa.Value(bp) {
					checks = append(checks, c)
				}
			})
			// uses of the bucket name as (part of) a path, in this function and its closures
			for _, g := range core.Closures(f) {
				gg := g
				core.Instrs(gg, func(in ssa.Instruction) {
					c, ok := in.(ssa.CallInstruction)
					if !ok {
						return
					}
					paths, isFs := fsCallPaths(r, c)
					cn := r.P.CalleeName(c)
					if !isFs && !strings.HasPrefix(cn, "s3afero.(*metaStore).") {
						return
					}
					var vals []ssa.Value
					vals = append(vals, paths...)
					if !isFs {
						vals = c.Common().Args
					}
					uses := false
					for _, v := range vals {
						if r.P.SliceOf(v, core.SliceOpts{Depth: -1}).HasValue(bp) {
							uses = true
						}
					}
					if !uses {
						return
					}
					n++
					ok2 := false
					for _, ch := range checks {
						at := in
						if gg != f {
							// a closure of the method: the check must precede its creation
							at = nil
							core.Instrs(f, func(x ssa.Instruction) {
								if mc, isMC := x.(*ssa.MakeClosure); isMC && mc.Fn == ssa.Value(gg) {
									at = x
								}
							})
						}
						if at != nil && core.CheckedBefore(ch, at) {
							ok2 = true
						}
					}
					r.Check(ok2, "R10.10", key(name, "bucket name validated before use", cn, sprintf("#%d", n)), pos(r, in), "ValidateBucketName("+bp.Name()+") checked first",
						"the bucket name "+bp.Name()+" reaches the filesystem without having passed ValidateBucketName: '.' addresses the directory that holds all buckets (HEAD /. answers 200, a forced DELETE /. removes every bucket)")
				})
			}
		}
	}
	// listing prefix directory
	for _, impl := range []string{"s3afero.(*MultiBucketBackend)", "s3afero.(*SingleBucketBackend)"} {
		lb := implMethod(r, impl, "ListBucket")
		helper := optFunc(r, impl+".getBucketWithFilePrefixLocked")
		if lb == nil || helper == nil {
			continue
		}
		for _, c := range r.P.StaticCallers(helper) {
			if c.Parent() != lb {
				continue
			}
			n++
			pv := c.Common().Args[2]
			// the sanitiser call on that value and the emptiness comparison
			assume := map[ssa.Value]bool{}
			sanOK := false
			core.Instrs(lb, func(in ssa.Instruction) {
				switch x := in.(type) {
				case *ssa.Call:
					if sc := core.StaticCallee(x); sc != nil && fname(r, sc) == "s3afero.checkObjectName" && x.Call.Args[0] == pv {
						sanOK = true
						// its error compared with nil
						for _, ref := range *x.Referrers() {
							if b, ok := ref.(*ssa.BinOp); ok && (core.IsNilConst(b.X) || core.IsNilConst(b.Y)) {
								assume[b] = b.Op == token.NEQ // the check failed
							}
						}
					}
				case *ssa.BinOp:
					if (x.Op == token.NEQ || x.Op == token.EQL) && (x.X == pv || x.Y == pv) {
						if k, ok := core.ConstString(x.Y); ok && k == "" {
							assume[x] = x.Op == token.NEQ // the directory part is not empty
						}
					}
				}
			})
			reach := !sanOK || core.ReachableFromEntryAssuming(c.(ssa.Instruction), assume)
			r.Check(!reach, "R10.10", key(fname(r, lb), "prefix directory contained"), pos(r, c.(ssa.Instruction)), "non-empty prefix directory passes checkObjectName before it is read",
				"the directory part of a listing prefix is read below the bucket without the containment check: GET /a?prefix=../b/&delimiter=/ lists bucket b's directory")
		}
	}
	r.Floor("R10.10", 12, "bucket-name and prefix-directory uses")
}

// rule1011 — the backend owns no name in a namespace that holds objects.
func rule1011(r *core.Run) {
	r.Rule("R10.11", "every file the fs backends create or open for writing under a name of their own choosing (a path that derives from no key / bucket / path parameter of the function or of its callers) is created exclusively (O_CREATE|O_EXCL, no O_TRUNC; never Create): a fixed scratch name opened with truncation in a filesystem that holds objects — the single-bucket backend stores keys at the root of its filesystem — overwrites and then removes the object stored under that key")
	n := 0
	const oTRUNC, oCREATE, oEXCL, oWR = 0x200, 0x40, 0x80, 0x3
	for _, fn := range r.P.FuncsOfPkg("s3afero") {
		f := fn
		k := 0
		core.Instrs(f, func(in ssa.Instruction) {
			c, ok := in.(ssa.CallInstruction)
			if !ok || !c.Common().IsInvoke() {
				return
			}
			cn := r.P.CalleeName(c)
			if cn != "invoke:github.com/spf13/afero.Fs.OpenFile" && cn != "invoke:github.com/spf13/afero.Fs.Create" {
				return
			}
			k++
			args := c.Common().Args
			writing := cn == "invoke:github.com/spf13/afero.Fs.Create"
			excl := false
			if !writing {
				if fl, ok := core.ConstInt(args[1]); ok {
					writing = fl&(oWR|oCREATE|oTRUNC) != 0
					excl = fl&oEXCL != 0 && fl&oCREATE != 0 && fl&oTRUNC == 0
				} else {
					writing = true
				}
			}
			if !writing {
				return
			}
			n++
			ps := r.P.SliceOf(args[0], core.SliceOpts{Depth: -1, BindParams: true})
			fromCaller := false
			for _, l := range ps.LeafList("param:") {
				for _, v := range ps.LeafVals[l] {
					if b, ok := v.Type().Underlying().(*types.Basic); ok && b.Kind() == types.String {
						fromCaller = true
					}
					if strings.HasSuffix(v.Type().String(), "metaPath") || strings.Contains(v.Type().String(), "Metadata") {
						fromCaller = true
					}
				}
			}
			if ps.HasPrefix("field:s3afero.metaPath") || ps.HasPrefix("field:s3afero.Metadata") {
				fromCaller = true
			}
			r.Check(fromCaller || excl, "R10.11", key(fname(r, f), "own-named file created exclusively", strings.TrimPrefix(cn, "invoke:github.com/spf13/afero.Fs."), sprintf("#%d", k)), pos(r, in), "name from the caller, or O_EXCL without O_TRUNC",
				"the backend creates or truncates a file under a name of its own choosing without O_EXCL: in a filesystem that holds objects (the single-bucket backend keeps keys at the root) this is some key's file — the object stored there is emptied and, if the name is removed afterwards, deleted")
		})
	}
	r.Floor("R10.11", 3, "writing opens in the fs backends")
}

// rule1012 — the keys of a multi-object delete are the keys the body names.
func rule1012(r *core.Run) {
	r.Rule("R10.12", "in deleteMulti the keys (and version ids) handed to DeleteMulti / DeleteMultiVersions are the decoded request's own ObjectID values: nothing in package gofakes3 stores into ObjectID.Key or ObjectID.VersionID after decoding, and no string-transforming call (strings.*, path.*, url.*, concatenation) lies between the decoded key and the backend call — keys are opaque, a trimmed or cleaned key addresses a different object")
	fn := mustFunc(r, "gofakes3.(*GoFakeS3).deleteMulti")
	if fn == nil {
		return
	}
	name := fname(r, fn)
	// no rewriting of the decoded ids
	nSt := 0
	for _, fld := range []string{"gofakes3.ObjectID.Key", "gofakes3.ObjectID.VersionID"} {
		for _, st := range r.P.FieldStores(fld) {
			if r.P.PkgShort(st.Parent()) != "gofakes3" {
				continue
			}
			if baseRoot(st.Addr) != nil {
				continue // a fresh literal
			}
			nSt++
			r.Violated("R10.12", key(fname(r, st.Parent()), "decoded object id rewritten", strings.TrimPrefix(fld, "gofakes3.ObjectID.")), pos(r, st), "a decoded "+fld+" is overwritten before it reaches the backend: the delete addresses a different key than the request named")
		}
	}
	n := 0
	core.Instrs(fn, func(in ssa.Instruction) {
		c, ok := in.(*ssa.Call)
		if !ok {
			return
		}
		cn := r.P.CalleeName(c)
		if cn != "invoke:gofakes3.Backend.DeleteMulti" && cn != "invoke:gofakes3.VersionedBackend.DeleteMultiVersions" {
			return
		}
		n++
		args := c.Call.Args
		ks := r.P.SliceOf(args[len(args)-1], core.SliceOpts{Depth: -1, NoIndex: true})
		bad := ""
		for _, l := range ks.LeafList("call:") {
			for _, pfx := range []string{"call:strings.", "call:path.", "call:path/filepath.", "call:net/url.", "call:bytes.", "call:unicode"} {
				if strings.HasPrefix(l, pfx) {
					bad = strings.TrimPrefix(l, "call:")
				}
			}
		}
		if ks.Has("op:+") {
			bad = "string concatenation"
		}
		r.Check(bad == "" && (ks.Has("field:gofakes3.ObjectID.Key") || ks.Has("field:gofakes3.DeleteRequest.Objects")), "R10.12", key(name, "keys reach the backend unchanged", strings.TrimPrefix(cn, "invoke:gofakes3.")), pos(r, c), "the decoded keys themselves",
			"the keys of the multi-object delete are transformed ("+bad+") before the backend call: a key with a leading or trailing delimiter deletes its trimmed sibling instead")
	})
	if n < 2 {
		r.Unresolved("R10.12: %d multi-delete backend calls found in deleteMulti (expected 2)", n)
	}
	r.Held("R10.12", key(name, "no rewriting of decoded ids"), "", sprintf("%d stores into ObjectID fields outside literals", nSt))
}

// rule1013 — who may read which filesystem handle; scratch files are removed
// only after they were created; uploads are addressed by (bucket, key, id).
func rule1013(r *core.Run) {
	r.Rule("R10.13", "MultiBucketBackend.baseFs (the directory that holds the backend's own 'buckets' and 'metadata' directories) is read only while the backend is constructed: a bucket-level operation on it would treat the backend's own directory names as bucket names; every Remove of a path the fs backends chose themselves is reachable only after the exclusive create of that same path succeeded (a cleanup registered before the name was claimed removes somebody else's file); uploader.getUnlocked hands out an upload only on the path where both its bucket and its object were compared equal with the addressed ones")
	// baseFs
	n := 0
	for _, fn := range r.P.FuncsOfPkg("s3afero") {
		f := fn
		core.Instrs(f, func(in ssa.Instruction) {
			fa, ok := in.(*ssa.FieldAddr)
			if !ok || r.P.FieldName(fa) != "s3afero.MultiBucketBackend.baseFs" || fa.Referrers() == nil {
				return
			}
			for _, u := range *fa.Referrers() {
				if ld, ok := u.(*ssa.UnOp); ok && ld.Op == token.MUL {
					n++
					r.Check(isConstruction(r, f), "R10.13", key(fname(r, f), "baseFs read only in construction", sprintf("#%d", n)), pos(r, ld), "construction only",
						"the multi-bucket backend uses baseFs — the directory holding its own 'buckets' and 'metadata' directories — while serving: those names are then mistaken for buckets (or buckets are looked up in the wrong place)")
				}
			}
		})
	}
	r.Held("R10.13", key("s3afero.MultiBucketBackend", "baseFs reads enumerated"), "", sprintf("%d reads", n))
	// scratch removal after claim
	const oCREATE, oEXCL = 0x40, 0x80
	for _, fn := range r.P.FuncsOfPkg("s3afero") {
		f := fn
		core.Instrs(f, func(in ssa.Instruction) {
			c, ok := in.(ssa.CallInstruction)
			if !ok || !c.Common().IsInvoke() {
				return
			}
			cn := r.P.CalleeName(c)
			if cn != "invoke:github.com/spf13/afero.Fs.Remove" && cn != "invoke:github.com/spf13/afero.Fs.RemoveAll" {
				return
			}
			arg := c.Common().Args[0]
			if k, ok := core.ConstString(arg); ok && (k == "." || k == "/" || k == "") {
				return // the root of the filesystem itself (force-delete of the single bucket)
			}
			ps := r.P.SliceOf(arg, core.SliceOpts{Depth: -1, BindParams: true})
			for _, l := range ps.LeafList("param:") {
				for _, v := range ps.LeafVals[l] {
					if b, ok := v.Type().Underlying().(*types.Basic); ok && b.Kind() == types.String {
						return // a path the caller named
					}
				}
			}
			if ps.HasPrefix("field:s3afero.metaPath") || ps.HasPrefix("field:gofakes3.") {
				return
			}
			// own-chosen name: the claim must come first
			cell := func(v ssa.Value) ssa.Value {
				if u, ok := v.(*ssa.UnOp); ok && u.Op == token.MUL {
					return u.X
				}
				return v
			}
			claimed := false
			core.Instrs(f, func(x ssa.Instruction) {
				oc, ok := x.(*ssa.Call)
				if !ok || r.P.CalleeName(oc) != "invoke:github.com/spf13/afero.Fs.OpenFile" {
					return
				}
				fl, ok := core.ConstInt(oc.Call.Args[1])
				if !ok || fl&oEXCL == 0 || fl&oCREATE == 0 || cell(oc.Call.Args[0]) != cell(arg) {
					return
				}
				if core.CheckedBefore(oc, in) {
					claimed = true
				}
			})
			r.Check(claimed, "R10.13", key(fname(r, f), "own-named file removed only after it was claimed", strings.TrimPrefix(cn, "invoke:github.com/spf13/afero.Fs.")), pos(r, in), "Remove after a checked exclusive create of the same path",
				"a file under a name of the backend's own choosing is removed (or its removal deferred) before the backend created it exclusively: a file of that name that was already there — an object, in the single-bucket backend — is deleted")
		})
	}
	// getUnlocked
	if gu := mustFunc(r, "gofakes3.(*uploader).getUnlocked"); gu != nil {
		okAddr := uploadAddressedExactly(r, gu)
		r.Check(okAddr, "R10.13", key(fname(r, gu), "upload handed out only to its own bucket and key"), r.P.Pos(gu.Pos()), "success unreachable when Object (or Bucket) differs",
			"getUnlocked can succeed for an upload whose object (or bucket) differs from the addressed one: with another key's upload id a part, abort or complete lands on that other key's upload")
	}
}

// uploadAddressedExactly: in getUnlocked the upload's Object (and Bucket, when it
// is compared at all) is compared with the addressed one, and assuming such a
// comparison says "differs" no successful return is reachable — whatever the
// polarity and shape of the test.
func uploadAddressedExactly(r *core.Run, gu *ssa.Function) bool {
	bp, op := paramNamed(gu, "bucket"), paramNamed(gu, "object")
	var bt, ot []*ssa.BinOp
	core.Instrs(gu, func(in ssa.Instruction) {
		b, ok := in.(*ssa.BinOp)
		if !ok || (b.Op != token.EQL && b.Op != token.NEQ) {
			return
		}
		xs := r.P.SliceOfMany([]ssa.Value{b.X, b.Y}, core.SliceOpts{Depth: -1})
		if bp != nil && xs.HasValue(bp) && xs.Has("field:gofakes3.multipartUpload.Bucket") {
			bt = append(bt, b)
		}
		if op != nil && xs.HasValue(op) && xs.Has("field:gofakes3.multipartUpload.Object") {
			ot = append(ot, b)
		}
	})
	okAddr := len(ot) > 0
	for _, ret := range core.Returns(gu) {
		ev := returnedErrors(gu)[ret]
		if ev == nil || !definitelyNil(r, core.BlockLocalLoad(ev)) {
			continue
		}
		for _, tests := range [][]*ssa.BinOp{ot, bt} {
			if len(tests) == 0 {
				continue
			}
			assume := map[ssa.Value]bool{}
			for _, t := range tests {
				assume[t] = t.Op == token.NEQ
			}
			if core.ReachableFromEntryAssuming(ret, assume) {
				okAddr = false
			}
		}
	}
	return okAddr
}

// rule1014 — Fs.RemoveAll is never given a bucket name.
func rule1014(r *core.Run) {
	r.Rule("R10.14", "the fs backends call afero.Fs.RemoveAll only with the filesystem root (\".\") or with the path of a directory entry of a bucket that the same operation removes as a whole (a path built from a ReadDir/Walk entry name): the pinned afero MemMapFs implements RemoveAll as 'remove every path that starts with this string', so RemoveAll(\"data\") also removes bucket \"data-archive\" (table of dependency calls whose pinned implementation deviates from the documented contract — E5)")
	n, allowed := 0, 0
	for _, fn := range r.P.FuncsOfPkg("s3afero") {
		f := fn
		core.Instrs(f, func(in ssa.Instruction) {
			c, ok := in.(ssa.CallInstruction)
			if !ok || !strings.HasSuffix(r.P.CalleeName(c), "afero.Fs.RemoveAll") {
				return
			}
			args := c.Common().Args
			if len(args) == 0 {
				return
			}
			n++
			arg := args[len(args)-1]
			okArg := false
			if k, isK := core.ConstString(arg); isK && (k == "." || k == "/" || k == "") {
				okArg = true
			}
			s := r.P.SliceOf(arg, core.SliceOpts{Depth: -1})
			for _, l := range s.LeafList("") {
				if strings.HasSuffix(l, "FileInfo.Name") {
					okArg = true
				}
			}
			if okArg {
				allowed++
			}
			r.Check(okArg, "R10.14", key(fname(r, f), "RemoveAll argument", sprintf("#%d", n)), pos(r, in), "root, or a directory entry of the bucket being removed",
				"Fs.RemoveAll is given a bucket-level name: over afero's MemMapFs this removes every bucket (or metadata directory) whose name merely starts with the same characters — deleting bucket \"data\" destroys bucket \"data-archive\"")
		})
	}
	// positive control: the rule still sees the calls it allows
	if allowed < 1 {
		r.Unresolved("R10.14: no RemoveAll call of the fs backends recognised (expected the root removal of the single-bucket backend)")
	}
}

// rule1015 — bucket names and object keys are not handed over in each other's place.
func rule1015(r *core.Run) {
	r.Rule("R10.15", "where a repository function passes one of its own string parameters on to another repository function, a parameter that names the bucket (bucket, bucketName, srcBucket, dstBucket) is received by a bucket-named parameter and one that names the object (object, objectName, key, srcKey, dstKey) by an object-named one: both are plain strings, so the compiler accepts `f(objectName, bucketName)` for `f(bucketName, objectName)` — which addresses bucket <key> / key <bucket>")
	class := func(n string) string {
		switch strings.ToLower(n) {
		case "bucket", "bucketname", "srcbucket", "dstbucket", "bucketnm":
			return "bucket"
		case "object", "objectname", "key", "srckey", "dstkey", "objectkey":
			return "object"
		}
		return ""
	}
	paramOf := func(v ssa.Value) string {
		switch x := v.(type) {
		case *ssa.Parameter:
			return x.Name()
		case *ssa.UnOp:
			if x.Op == token.MUL {
				if fv, ok := x.X.(*ssa.FreeVar); ok {
					return fv.Name()
				}
			}
		}
		return ""
	}
	n := 0
	for _, fn := range r.P.RepoFuncs() {
		f := fn
		core.Instrs(f, func(in ssa.Instruction) {
			c, ok := in.(ssa.CallInstruction)
			if !ok {
				return
			}
			var sig *types.Signature
			off := 0
			if callee := core.StaticCallee(c); callee != nil && r.P.IsRepo(callee) {
				sig = callee.Signature
				if sig.Recv() != nil {
					off = 1
				}
			} else if c.Common().IsInvoke() && strings.HasPrefix(r.P.CalleeName(c), "invoke:gofakes3.") {
				sig, _ = c.Common().Method.Type().(*types.Signature)
			}
			if sig == nil {
				return
			}
			args := c.Common().Args
			for i := 0; i < sig.Params().Len() && i+off < len(args); i++ {
				to := class(sig.Params().At(i).Name())
				from := class(paramOf(args[i+off]))
				if to == "" || from == "" {
					continue
				}
				n++
				r.Check(to == from, "R10.15", key(fname(r, f), "role of argument", r.P.CalleeName(c), sprintf("#%d", i)), pos(r, in), from+" → "+to,
					"the caller's "+from+" parameter ("+paramOf(args[i+off])+") is passed where "+r.P.CalleeName(c)+" expects the "+to+" ("+sig.Params().At(i).Name()+"): bucket and key change places")
			}
		})
	}
	r.Floor("R10.15", 60, "bucket/object parameters handed on")
}

// rule1016 — the metadata store does not live inside the bucket namespace.
func rule1016(r *core.Run) {
	r.Rule("R10.16", "in the multi-bucket constructor the filesystem handed to newMetaStore does not derive from the \"buckets\" sub-filesystem (the one every top-level directory of which is a bucket): metadata kept below it would be listed, and addressable, as a bucket of its own")
	fn := mustFunc(r, "s3afero.MultiBucket")
	if fn == nil {
		return
	}
	n := 0
	core.Instrs(fn, func(in ssa.Instruction) {
		c, ok := in.(*ssa.Call)
		if !ok || r.P.CalleeName(c) != "s3afero.newMetaStore" || len(c.Call.Args) < 1 {
			return
		}
		n++
		// the alternatives the argument can be (merged values taken apart); one that is read back
		// from a field of the backend under construction is replaced by what this constructor
		// stores into that field (a value the caller configured stays out of the picture)
		var leaves []ssa.Value
		seenV := map[ssa.Value]bool{}
		var flat func(v ssa.Value, d int)
		flat = func(v ssa.Value, d int) {
			v = core.Forward(v)
			if seenV[v] || d > 5 {
				return
			}
			seenV[v] = true
			switch x := v.(type) {
			case *ssa.Phi:
				for _, e := range x.Edges {
					flat(e, d+1)
				}
				return
			case *ssa.UnOp:
				if fa, isFA := x.X.(*ssa.FieldAddr); isFA && x.Op == token.MUL {
					fldName := r.P.FieldName(fa)
					core.Instrs(fn, func(y ssa.Instruction) {
						if st, isSt := y.(*ssa.Store); isSt {
							if fa2, ok2 := st.Addr.(*ssa.FieldAddr); ok2 && r.P.FieldName(fa2) == fldName {
								flat(st.Val, d+1)
							}
						}
					})
					return
				}
			}
			leaves = append(leaves, v)
		}
		flat(c.Call.Args[0], 0)
		bad := false
		for _, v := range leaves {
			s := r.P.SliceOf(v, core.SliceOpts{Depth: 0}) // within the constructor: what the call sites are given
			if s.Has("const:buckets") || s.Has("field:s3afero.MultiBucketBackend.bucketFs") {
				bad = true
			}
			if os.Getenv("GFS3_DEBUG_R1016") != "" {
				fmt.Fprintf(os.Stderr, "R1016 %v: %v\n", v, s.LeafList(""))
			}
		}
		r.Check(!bad, "R10.16", key(fname(r, fn), "metadata fs outside the bucket namespace"), pos(r, c), "metadata filesystem built from the base filesystem",
			"the metadata store's filesystem derives from the bucket filesystem: the metadata directory shows up as a bucket, and a bucket of that name cannot be created")
	})
	if n == 0 {
		r.Unresolved("R10.16: newMetaStore call not found in s3afero.MultiBucket")
	}
}
