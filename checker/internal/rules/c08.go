package rules

import (
	"go/token"
	"strings"

	"golang.org/x/tools/go/ssa"

	"gfs3check/internal/core"
	"gfs3check/internal/oblig"
)

func init() { Registry["C08"] = C08 }

// C08 — corrupt or short uploads are rejected and never change stored state.
func C08(r *core.Run) {
	r.Explanation = "Ordering and wiring rules that make a rejected upload leave no trace, on all paths of the upload handlers and of every backend's PutObject: " +
		"(R08.1) no rejection can be returned by a handler after the storing call ran; (R08.2) every PutObject consumes and validates the whole input before its first mutation of stored state (or writes to a different path that is renamed into place) — today the two fs backends truncate the destination first (known findings F14); " +
		"(R08.3) the declared size reaches ReadAll or a comparison with the copied byte count whose mismatch arm fails — the fs backends ignore it (known findings F15); " +
		"(R08.4) the Content-MD5 digest is decoded, handed to the hashing reader that is the stream given to storage, compared at EOF, and a mismatch returns BadDigest, a malformed/empty one InvalidDigest; " +
		"(R08.5) metadata size, key length and Content-Length presence are checked before storage is called; (R08.6) a rejected part leaves its slot untouched. (R12.3, shared) nothing is wrapped between the request body / chunk decoder and the hashing reader: a length-limiting wrapper turns an over-long upload into an accepted, truncated one. (R06.9, shared) a refused complete has not modified the pending upload. (R01.12) error discipline in path form: no call's error reaches a return untested / not handed back, and no path that found it non-nil ends in success without passing it on or testing it further."
	r.NotDecided = "that 'unchanged' holds as values (listing, metadata equality), failure at byte k of a real connection, digest correctness as a value (MD5 arithmetic)"
	ctx := oblig.NewCtx(r.P)
	rule081(r)
	rule082(r)
	rule083(r, ctx)
	rule084(r)
	rule085(r, ctx)
	rule086(r)
	rule066(r, ctx)
	rule123(r, ctx)
	rule069(r)
	rule0112(r, "C08")
	rule0113(r)
}

// storingCall finds the call that hands the upload to storage in a handler.
func storingCalls(r *core.Run, fn *ssa.Function) []*ssa.Call {
	var out []*ssa.Call
	core.Instrs(fn, func(in ssa.Instruction) {
		c, ok := in.(*ssa.Call)
		if !ok {
			return
		}
		switch r.P.CalleeName(c) {
		case "invoke:gofakes3.Backend.PutObject", "invoke:gofakes3.Backend.CopyObject", "invoke:gofakes3.MultipartBackend.UploadPart":
			out = append(out, c)
		}
	})
	return out
}

func rule081(r *core.Run) {
	r.Rule("R08.1", "in createObject, createObjectBrowserUpload, copyObject and putMultipartUploadPart no return of a rejection (a non-nil error other than the storing call's own, or a bare 4xx WriteHeader) is reachable after the storing call")
	for _, hn := range []string{"gofakes3.(*GoFakeS3).createObject", "gofakes3.(*GoFakeS3).createObjectBrowserUpload", "gofakes3.(*GoFakeS3).copyObject", "gofakes3.(*GoFakeS3).putMultipartUploadPart"} {
		fn := mustFunc(r, hn)
		if fn == nil {
			continue
		}
		scs := storingCalls(r, fn)
		if len(scs) != 1 {
			r.Violated("R08.1", key(hn, "storing call"), r.P.Pos(fn.Pos()), sprintf("expected exactly one storing call, found %d", len(scs)))
			continue
		}
		sc := scs[0]
		own := core.ErrorResult(sc)
		n := 0
		for ret, ev := range returnedErrors(fn) {
			if !core.Reaches(sc, ret) {
				continue
			}
			n++
			if definitelyNil(r, ev) {
				continue
			}
			s := r.P.SliceOf(ev, core.SliceOpts{Depth: -1, StopAt: func(v ssa.Value) bool { return v == own }})
			// allowed: the storing call's own error; the XML encoder's error (copyObject)
			onlyOwn := true
			for l := range s.Leaves {
				if strings.HasPrefix(l, "errcode:") {
					onlyOwn = false
				}
			}
			if own != nil && s.HasValue(own) && onlyOwn {
				continue
			}
			if s.HasPrefix("call:(*encoding/xml.Encoder).Encode") && onlyOwn {
				continue
			}
			r.Violated("R08.1", key(hn, "rejection after store", sprintf("#%d", n)), pos(r, ret), "an error "+strings.Join(errCodes(s), ",")+" can be returned after the object/part was already stored: the client is told the upload failed although state changed")
		}
		// bare WriteHeader(4xx) after the store
		core.Instrs(fn, func(in ssa.Instruction) {
			c, ok := in.(*ssa.Call)
			if !ok || r.P.CalleeName(c) != "invoke:net/http.ResponseWriter.WriteHeader" {
				return
			}
			if k, isK := core.ConstInt(c.Call.Args[0]); isK && k >= 400 && core.Reaches(sc, c) {
				r.Violated("R08.1", key(hn, "error status after store"), pos(r, c), sprintf("status %d is written after the storing call", k))
			}
		})
		r.Held("R08.1", key(hn, "reject-before-store"), pos(r, sc), sprintf("%d return(s) after the storing call, none a rejection", n))
	}
	r.Floor("R08.1", 4, "upload handlers")
}

func rule082(r *core.Run) {
	r.Rule("R08.2", "in each PutObject the complete consumption of input (ReadAll, or io.Copy into something that is not the object's final path) is checked before the first mutation of stored state (write lock + bucket.put, bolt Update, creation/truncation of the object path); no use of input is reachable from that mutation")
	for _, impl := range backendImpls {
		fn := implMethod(r, impl, "PutObject")
		if fn == nil {
			continue
		}
		name := fname(r, fn)
		inp := paramNamed(fn, "input")
		// consumers of input
		var consumers []*ssa.Call
		core.Instrs(fn, func(in ssa.Instruction) {
			c, ok := in.(*ssa.Call)
			if !ok {
				return
			}
			for _, a := range core.Args(c) {
				if a == ssa.Value(inp) {
					consumers = append(consumers, c)
				}
			}
		})
		// first mutations
		var muts []ssa.Instruction
		for _, f := range core.Closures(fn)[:1] {
			core.Instrs(f, func(in ssa.Instruction) {
				c, ok := in.(ssa.CallInstruction)
				if !ok {
					return
				}
				n := r.P.CalleeName(c)
				switch {
				case n == "s3mem.(*bucket).put", n == "(*go.etcd.io/bbolt.DB).Update":
					muts = append(muts, in)
				case strings.HasSuffix(n, "afero.Fs.Create"), strings.HasSuffix(n, "afero.Fs.OpenFile"), strings.HasSuffix(n, "afero.Fs.Rename"), n == "github.com/spf13/afero.WriteFile", n == "s3afero.(*metaStore).saveMeta":
					muts = append(muts, in)
				}
			})
		}
		if len(consumers) == 0 || len(muts) == 0 {
			r.Violated("R08.2", key(name, "anchors"), r.P.Pos(fn.Pos()), "PutObject has no recognised consumer of input or no recognised mutation")
			continue
		}
		bad := ""
		for _, m := range muts {
			// a Create/OpenFile of a temporary path (later the source of a Rename) is not a mutation of stored state
			if c, ok := m.(*ssa.Call); ok && (strings.HasSuffix(r.P.CalleeName(c), "Fs.Create") || strings.HasSuffix(r.P.CalleeName(c), "Fs.OpenFile")) {
				if isRenameSource(r, fn, c.Call.Args[0]) {
					continue
				}
			}
			for _, cs := range consumers {
				if !core.CheckedBefore(cs, m) {
					bad = sprintf("%s at %s is reachable before the input was completely read and checked (consumer %s at %s)", r.P.CalleeName(m.(ssa.CallInstruction)), pos(r, m), r.P.CalleeName(cs), pos(r, cs))
				}
				if core.Reaches(m, cs) {
					bad = sprintf("input is consumed (%s at %s) after stored state was already modified by %s at %s", r.P.CalleeName(cs), pos(r, cs), r.P.CalleeName(m.(ssa.CallInstruction)), pos(r, m))
				}
				// whatever the error is, a failed read does not go on to the mutation: assuming every nil
				// test of the consumer's error says "non-nil", the mutation is unreachable from the consumer
				// (`switch err { case nil, io.EOF: … }` lets one kind of failure through)
				if assume := nonNilTestsOf(fn, core.ErrorResult(cs)); len(assume) > 0 && core.ReachableTrackingFlags(cs, m, assume, nil) {
					bad = sprintf("%s at %s is reachable although %s (at %s) reported an error (some error value is treated as success)", r.P.CalleeName(m.(ssa.CallInstruction)), pos(r, m), r.P.CalleeName(cs), pos(r, cs))
				}
			}
			if bad != "" {
				break
			}
		}
		r.Check(bad == "", "R08.2", key(name, "buffer-then-commit"), r.P.Pos(fn.Pos()), "input fully consumed and checked before the first mutation",
			"PutObject modifies stored state before the upload is known to be complete and valid: "+bad+" — a rejected or interrupted upload (bad digest, short body, killed connection) has already replaced or truncated the previous object")
	}
	r.Floor("R08.2", 4, "PutObject implementations")
}

// isRenameSource: the path value is later passed as the source of Fs.Rename.
func isRenameSource(r *core.Run, fn *ssa.Function, path ssa.Value) bool {
	found := false
	core.Instrs(fn, func(in ssa.Instruction) {
		if c, ok := in.(*ssa.Call); ok && strings.HasSuffix(r.P.CalleeName(c), "afero.Fs.Rename") {
			if c.Call.Args[0] == path {
				found = true
			}
		}
	})
	return found
}

func rule083(r *core.Run, ctx *oblig.Ctx) {
	r.Rule("R08.3", "the size parameter of every PutObject reaches argument 2 of gofakes3.ReadAll, or a comparison with the byte count of the copy whose unequal arm returns an error; ReadAll itself refuses short and long bodies")
	for _, impl := range backendImpls {
		fn := implMethod(r, impl, "PutObject")
		if fn == nil {
			continue
		}
		name := fname(r, fn)
		sz := paramNamed(fn, "size")
		ok := false
		core.Instrs(fn, func(in ssa.Instruction) {
			switch x := in.(type) {
			case *ssa.Call:
				if r.P.CalleeName(x) == "gofakes3.ReadAll" && x.Call.Args[1] == ssa.Value(sz) {
					ok = true
				}
			case *ssa.If:
				cd := core.CondOf(x.Cond)
				if cd.Op != token.NEQ && cd.Op != token.EQL {
					return
				}
				s := r.P.SliceOfMany([]ssa.Value{cd.X, cd.Y}, core.SliceOpts{Depth: -1})
				if s.HasValue(sz) && (s.Has("call:io.Copy") || s.Has("call:io.CopyN") || s.Has("call:builtin:len")) {
					// the unequal arm returns an error
					unequal := cd.Op == token.NEQ
					if cd.Neg {
						unequal = !unequal
					}
					if ret := edgeReturn(x, unequal); ret != nil {
						if ev, has := returnedErrors(fn)[ret]; has && !definitelyNil(r, ev) {
							ok = true
						}
					}
				}
			}
		})
		r.Check(ok, "R08.3", key(name, "declared size enforced"), r.P.Pos(fn.Pos()), "size is enforced against the bytes received",
			"PutObject never compares the declared size with the bytes it stores: a body shorter or longer than declared (truncated upload, wrong decoded length of a streaming upload) is stored and acknowledged")
	}
	r.Floor("R08.3", 4, "PutObject implementations")
	if ra := mustFunc(r, "gofakes3.ReadAll"); ra != nil {
		sz := paramNamed(ra, "size")
		// short: ErrUnexpectedEOF → IncompleteBody; n != size → IncompleteBody; extra bytes → IncompleteBody
		nInc := 0
		for ret, ev := range returnedErrors(ra) {
			s := r.P.SliceOf(ev, core.SliceOpts{Depth: -1})
			if has(errCodes(s), "IncompleteBody") {
				nInc++
				_ = ret
			}
		}
		extra := false
		core.Instrs(ra, func(in ssa.Instruction) {
			if iff, ok := in.(*ssa.If); ok {
				cd := core.CondOf(iff.Cond)
				if isLenCall(cd.X) && cd.Op == token.GTR {
					if k, isK := core.ConstInt(cd.Y); isK && k == 0 {
						s := r.P.SliceOf(cd.X, core.SliceOpts{Depth: -1})
						if s.Has("call:io/ioutil.ReadAll") || s.Has("call:io.ReadAll") {
							extra = true
						}
					}
				}
			}
		})
		reads := false
		core.Instrs(ra, func(in ssa.Instruction) {
			if c, ok := in.(*ssa.Call); ok && r.P.CalleeName(c) == "io.ReadFull" {
				s := r.P.SliceOf(c.Call.Args[1], core.SliceOpts{Depth: -1})
				if s.HasValue(sz) {
					reads = true
				}
			}
		})
		r.Check(nInc >= 3 && extra && reads, "R08.3", key(fname(r, ra), "short and long bodies refused"), r.P.Pos(ra.Pos()),
			"reads exactly size bytes, fails on fewer and on trailing bytes", "ReadAll no longer refuses bodies shorter than declared (ReadFull into a size-byte buffer) and longer than declared (trailing bytes)")
	}
}

func rule084(r *core.Run) {
	r.Rule("R08.4", "Content-MD5 wiring: under g.integrityCheck the header value is handed to newHashingReader, whose result is the stream given to storage; a present-but-empty header returns InvalidDigest; newHashingReader refuses undecodable/wrong-length digests; hashingReader.Read hashes exactly the bytes delivered and at EOF compares the sum with the expected digest, mismatch → BadDigest")
	for _, hn := range []string{"gofakes3.(*GoFakeS3).createObject", "gofakes3.(*GoFakeS3).putMultipartUploadPart"} {
		fn := mustFunc(r, hn)
		if fn == nil {
			continue
		}
		var nh *ssa.Call
		core.Instrs(fn, func(in ssa.Instruction) {
			if c, ok := in.(*ssa.Call); ok && r.P.CalleeName(c) == "gofakes3.newHashingReader" {
				nh = c
			}
		})
		if nh == nil {
			r.Violated("R08.4", key(hn, "hashing reader"), r.P.Pos(fn.Pos()), "the handler no longer wraps the body in a hashing reader")
			continue
		}
		s := r.P.SliceOf(nh.Call.Args[1], core.SliceOpts{Depth: -1})
		r.Check(s.Has("const:Content-MD5") && s.Has("call:(net/http.Header).Get"), "R08.4", key(hn, "expected digest from Content-MD5"), pos(r, nh), "digest argument is the Content-MD5 header", "newHashingReader does not receive the Content-MD5 header value")
		// the header is read under integrityCheck
		okGuard := false
		for v := range s.Values {
			c, ok := v.(*ssa.Call)
			if !ok || r.P.CalleeName(c) != "(net/http.Header).Get" {
				continue
			}
			if n, _ := core.ConstString(c.Call.Args[1]); n != "Content-MD5" {
				continue
			}
			for _, g := range core.GuardsOf(c) {
				gs := r.P.SliceOf(g.If.Cond, core.SliceOpts{Depth: -1, Control: true})
				if gs.Has("field:gofakes3.GoFakeS3.integrityCheck") && g.Branch {
					okGuard = true
				}
			}
		}
		r.Check(okGuard, "R08.4", key(hn, "only under integrityCheck"), pos(r, nh), "digest read on the integrityCheck arm", "the Content-MD5 header is not read under the integrityCheck option")
		// InvalidDigest on present-but-empty
		okEmpty := false
		for ret, ev := range returnedErrors(fn) {
			es := r.P.SliceOf(ev, core.SliceOpts{Depth: -1})
			if !has(errCodes(es), "InvalidDigest") {
				continue
			}
			for _, g := range core.GuardsOf(ret) {
				gs := r.P.SliceOf(g.If.Cond, core.SliceOpts{Depth: -1, Control: true})
				if gs.Has("const:Content-MD5") {
					okEmpty = true
				}
			}
		}
		r.Check(okEmpty, "R08.4", key(hn, "empty digest → InvalidDigest"), pos(r, nh), "present-but-empty Content-MD5 refused", "a present but empty Content-MD5 header is no longer answered with ErrInvalidDigest")
		// the reader reaches storage, checked
		scs := storingCalls(r, fn)
		okStore := false
		for _, sc := range scs {
			ss := r.P.SliceOfMany(sc.Call.Args, core.SliceOpts{Depth: -1})
			if ss.HasValue(nh) && (core.CheckedBefore(nh, sc) || core.CheckedOnPaths(nh, sc)) {
				okStore = true
			}
		}
		r.Check(okStore, "R08.4", key(hn, "hashing reader is what storage reads"), pos(r, nh), "storage consumes the hashing reader (constructor error checked)", "the stream handed to storage is not the hashing reader (or its constructor error is not checked): the digest is never verified")
	}
	if nh := mustFunc(r, "gofakes3.newHashingReader"); nh != nil {
		codes := errCodes(errorSliceOf(r, nh, -1))
		lenChk := false
		core.Instrs(nh, func(in ssa.Instruction) {
			if b, ok := in.(*ssa.BinOp); ok && b.Op == token.NEQ && isLenCall(b.X) {
				if k, isK := core.ConstInt(b.Y); isK && k == 16 {
					lenChk = true
				}
			}
		})
		dec := len(r.P.CallsIn(nh, false, core.NameIs("(*encoding/base64.Encoding).DecodeString"))) == 1
		expStored := false
		for _, st := range r.P.FieldStores("gofakes3.hashingReader.expected") {
			if st.Parent() == nh {
				s := r.P.SliceOf(st.Val, core.SliceOpts{Depth: -1})
				if s.Has("call:(*encoding/base64.Encoding).DecodeString") {
					expStored = true
				}
			}
		}
		r.Check(has(codes, "InvalidDigest") && lenChk && dec && expStored, "R08.4", key(fname(r, nh), "digest decoded and validated"), r.P.Pos(nh.Pos()),
			"base64-decoded, 16 bytes, stored as expected", "newHashingReader no longer decodes the digest, checks its length (16) and keeps it as the expected value")
	}
	if rd := mustFunc(r, "gofakes3.(*hashingReader).Read"); rd != nil {
		// hash.Write(p[:n]) with n from inner.Read(p)
		var inner, hw *ssa.Call
		core.Instrs(rd, func(in ssa.Instruction) {
			if c, ok := in.(*ssa.Call); ok {
				switch r.P.CalleeName(c) {
				case "invoke:io.Reader.Read":
					inner = c
				case "invoke:hash.Hash.Write":
					hw = c
				}
			}
		})
		okHash := false
		if inner != nil && hw != nil {
			if sl, ok := hw.Call.Args[0].(*ssa.Slice); ok && sl.Low == nil && sl.X == inner.Call.Args[0] {
				if ex, ok := sl.High.(*ssa.Extract); ok && ex.Tuple == ssa.Value(inner) && ex.Index == 0 {
					okHash = true
				}
			}
		}
		r.Check(okHash, "R08.4", key(fname(r, rd), "hashes exactly the delivered bytes"), r.P.Pos(rd.Pos()), "hash.Write(p[:n]) with n from inner.Read(p)", "the hashing reader does not hash exactly the bytes it delivers (p[:n] of the inner read)")
		// BadDigest on mismatch at EOF
		okCmp := false
		for ret, ev := range returnedErrors(rd) {
			es := r.P.SliceOf(ev, core.SliceOpts{Depth: -1})
			if !has(errCodes(es), "BadDigest") {
				continue
			}
			eof, neq := false, false
			extra := false
			for _, ec := range expandedConds(ret) {
				gs := r.P.SliceOf(ec.cond, core.SliceOpts{Depth: -1})
				cd := core.CondOf(ec.cond)
				truth := ec.truth != cd.Neg
				if a, b, eq, ok := byteCompare(r, ec.cond, ec.truth); ok {
					as := r.P.SliceOfMany([]ssa.Value{a, b}, core.SliceOpts{Depth: -1})
					if !eq && as.Has("field:gofakes3.hashingReader.expected") && (as.Has("field:gofakes3.hashingReader.sum") || as.Has("call:invoke:hash.Hash.Sum")) {
						neq = true
					}
					continue
				}
				switch {
				case gs.Has("global:io.EOF"):
					if (cd.Op == token.EQL && truth) || (cd.Op == token.NEQ && !truth) {
						eof = true
					}
				case (cd.Op == token.NEQ || cd.Op == token.EQL) && (core.IsNilConst(cd.Y) || core.IsNilConst(cd.X)) && (gs.Has("field:gofakes3.hashingReader.expected") || gs.HasValue(core.ErrorResult(inner)) || isErrTyped(cd.X) || isErrTyped(cd.Y)):
					// nil tests of the error or of the expected digest
				case ec.merged:
					// the flag that merges the tests above
				default:
					extra = true
				}
			}
			if eof && neq && !extra {
				okCmp = true
			}
		}
		r.Check(okCmp, "R08.4", key(fname(r, rd), "mismatch at EOF → BadDigest"), r.P.Pos(rd.Pos()), "sum compared with expected at EOF", "hashingReader.Read no longer returns ErrBadDigest when, at EOF, the computed sum differs from the expected digest")
		// the inner error (incl. EOF) is passed on: every non-nil inner error leads to a non-nil return
		r.Check(inner != nil && innerErrPropagates(r, rd, inner), "R08.4", key(fname(r, rd), "inner error propagates"), r.P.Pos(rd.Pos()), "the transport's error is returned", "an error of the wrapped reader can be swallowed")
	}
}

// innerErrPropagates: the error of the inner read cannot be swallowed — after the
// read, a return with a nil error is only reachable where that error is known
// to be nil, and some return hands the error itself on. (Shape-agnostic: nested
// `if err != nil { if err == io.EOF … }`, or `if err == io.EOF {…}; return n, err`.)
func innerErrPropagates(r *core.Run, fn *ssa.Function, inner *ssa.Call) bool {
	errv := core.ErrorResult(inner)
	if errv == nil {
		return false
	}
	carried := false
	for ret, ev := range returnedErrors(fn) {
		if !core.Reaches(inner, ret) {
			continue
		}
		es := r.P.SliceOf(ev, core.SliceOpts{Depth: -1})
		if es.HasValue(errv) {
			carried = true
		}
		if !definitelyNil(r, ev) {
			continue
		}
		knownNil := false
		for _, g := range core.GuardsOf(ret) {
			if isNil, known := core.ErrNilFact(g, errv); known && isNil {
				knownNil = true
			}
			// named-result variants: a nil test of a value that carries the inner error
			cd := core.CondOf(g.If.Cond)
			if (cd.Op == token.EQL || cd.Op == token.NEQ) && (core.IsNilConst(cd.Y) || core.IsNilConst(cd.X)) {
				x := cd.X
				if core.IsNilConst(x) {
					x = cd.Y
				}
				if eq, ok := g.Equality(); ok && eq && r.P.SliceOf(x, core.SliceOpts{Depth: -1}).HasValue(errv) {
					knownNil = true
				}
			}
		}
		if !knownNil {
			return false
		}
	}
	return carried
}

func rule085(r *core.Run, ctx *oblig.Ctx) {
	r.Rule("R08.5", "metadataHeaders returns ErrMetadataTooLarge when metadataSize(meta) exceeds the limit and all callers check it before storage; len(key) > KeySizeLimit is rejected before the storing call in the three object-creating handlers; a missing Content-Length is rejected with MissingContentLength; a negative or unparsable one is refused before storage")
	if mh := mustFunc(r, "gofakes3.metadataHeaders"); mh != nil {
		okLim := false
		lim := paramNamed(mh, "sizeLimit")
		for ret, ev := range returnedErrors(mh) {
			es := r.P.SliceOf(ev, core.SliceOpts{Depth: -1})
			if !has(errCodes(es), "MetadataTooLarge") {
				continue
			}
			for _, g := range core.GuardsOf(ret) {
				cd := core.CondOf(g.If.Cond)
				gs := r.P.SliceOfMany([]ssa.Value{cd.X, cd.Y}, core.SliceOpts{Depth: -1})
				if cd.Op == token.GTR && gs.Has("call:gofakes3.metadataSize") && cd.Y == ssa.Value(lim) && g.Branch != cd.Neg {
					okLim = true
				}
			}
		}
		r.Check(okLim, "R08.5", key(fname(r, mh), "metadataSize > limit → MetadataTooLarge"), r.P.Pos(mh.Pos()), "limit enforced", "metadataHeaders no longer returns ErrMetadataTooLarge when metadataSize(meta) > sizeLimit")
		// what is measured is what is stored: nothing is added to the map after it was measured
		late := ""
		core.Instrs(mh, func(in ssa.Instruction) {
			mu, ok := in.(*ssa.MapUpdate)
			if !ok {
				return
			}
			core.Instrs(mh, func(y ssa.Instruction) {
				if c, ok := y.(*ssa.Call); ok && r.P.CalleeName(c) == "gofakes3.metadataSize" && core.Reaches(c, mu) {
					late = pos(r, mu)
				}
			})
		})
		r.Check(late == "", "R08.5", key(fname(r, mh), "measured after the last entry is added"), r.P.Pos(mh.Pos()), "no entry is added after metadataSize was taken",
			"an entry is added to the metadata map (at "+late+") after its size was measured against the limit: the stored metadata can exceed the configured limit by the size of that entry")
		if ms := mustFunc(r, "gofakes3.metadataSize"); ms != nil {
			var rets []ssa.Value
			for _, ret := range core.Returns(ms) {
				rets = append(rets, ret.Results...)
			}
			s := r.P.SliceOfMany(rets, core.SliceOpts{Depth: -1})
			n := 0
			for v := range s.Values {
				if isLenCall(v) {
					n++
				}
			}
			r.Check(n >= 2, "R08.5", key(fname(r, ms), "counts keys and values"), r.P.Pos(ms.Pos()), "len(k)+len(v) summed", "metadataSize no longer sums the lengths of both keys and values")
		}
		for _, site := range r.P.StaticCallers(mh) {
			c, ok := site.(*ssa.Call)
			if !ok {
				continue
			}
			fn := c.Parent()
			okChk := true
			nSt := 0
			core.Instrs(fn, func(in ssa.Instruction) {
				cc, ok := in.(ssa.CallInstruction)
				if !ok {
					return
				}
				if _, isSt := storageCall(r, cc); isSt && cc.Common().Method != nil {
					m := cc.Common().Method.Name()
					if m == "PutObject" || m == "CopyObject" || m == "CreateMultipartUpload" {
						nSt++
						if !core.CheckedBefore(c, in) {
							okChk = false
						}
					}
				}
				if r.P.CalleeName(cc) == "gofakes3.(*GoFakeS3).copyObject" && !core.CheckedBefore(c, in) {
					okChk = false
				}
			})
			lims := r.P.SliceOf(c.Call.Args[2], core.SliceOpts{Depth: -1})
			r.Check(okChk && lims.Has("field:gofakes3.GoFakeS3.metadataSizeLimit"), "R08.5", key(fname(r, fn), "metadata limit checked before storage"), pos(r, c), "metadataHeaders error checked first; configured limit passed", "the metadata-size error is not checked before the storing call (or the configured limit is not passed)")
		}
	}
	// key length
	for _, hn := range []string{"gofakes3.(*GoFakeS3).createObject", "gofakes3.(*GoFakeS3).createObjectBrowserUpload", "gofakes3.(*GoFakeS3).copyObject"} {
		fn := mustFunc(r, hn)
		if fn == nil {
			continue
		}
		scs := storingCalls(r, fn)
		ok := len(scs) == 1
		if ok {
			keyArg := scs[0].Call.Args[1]
			if r.P.CalleeName(scs[0]) == "invoke:gofakes3.Backend.CopyObject" {
				keyArg = scs[0].Call.Args[3]
			}
			ok = false
			for _, f := range ctx.FactsAt(scs[0]) {
				if f.Op == token.LEQ && isLenOfVal(ctx, f.X, keyArg) {
					if k, isK := core.ConstInt(f.Y); isK && k == 1024 {
						ok = true
					}
				}
			}
		}
		r.Check(ok, "R08.5", key(hn, "key length limit before storage"), r.P.Pos(fn.Pos()), "len(key) <= 1024 established before the storing call", "the storing call is reachable with a key longer than KeySizeLimit (1024)")
	}
	// content-length
	if fn := mustFunc(r, "gofakes3.(*GoFakeS3).createObject"); fn != nil {
		codes := errCodes(errorSliceOf(r, fn, -1))
		scs := storingCalls(r, fn)
		okNeg := false
		if len(scs) == 1 {
			if lb, ok := ctx.LowerBound(scs[0].Call.Args[4], scs[0]); ok && lb >= 0 {
				okNeg = true
			}
		}
		r.Check(has(codes, "MissingContentLength") && okNeg, "R08.5", key(fname(r, fn), "Content-Length present and non-negative"), r.P.Pos(fn.Pos()), "missing → MissingContentLength; size >= 0 before storage", "a missing Content-Length is not refused, or a negative size can reach storage")
		// … and exactly non-negative: an empty body is an object like any other — every comparison of a
		// parsed length with a constant draws the line between -1 and 0
		nCmp := 0
		core.Instrs(fn, func(in ssa.Instruction) {
			b, ok := in.(*ssa.BinOp)
			if !ok {
				return
			}
			k, isK := core.ConstInt(b.Y)
			ex, isEx := b.X.(*ssa.Extract)
			if !isK || !isEx || ex.Index != 0 {
				return
			}
			pc, isCall := ex.Tuple.(*ssa.Call)
			if !isCall || r.P.CalleeName(pc) != "strconv.ParseInt" {
				return
			}
			nCmp++
			okForm := (b.Op == token.LSS && k == 0) || (b.Op == token.GEQ && k == 0) || (b.Op == token.LEQ && k == -1) || (b.Op == token.GTR && k == -1)
			r.Check(okForm, "R08.5", key(fname(r, fn), "a zero-length body is accepted", sprintf("#%d", nCmp)), pos(r, b), "parsed length refused only when negative",
				sprintf("a parsed length is compared with `%s %d`: a PUT of an empty object (length 0) is refused — or a negative length accepted — and an overwrite with an empty body leaves the old content in place", b.Op, k))
		})
		if nCmp < 2 {
			r.Unresolved("R08.5: %d sign tests of parsed lengths found in createObject (expected 2)", nCmp)
		}
	}
}

func isErrTyped(v ssa.Value) bool { return core.IsErrorType(v.Type()) }

// rule086 — ReadAll always drives the reader to its end.
func rule086(r *core.Run) {
	r.Rule("R08.6", "gofakes3.ReadAll returns success only after the trailing read that drains the reader to EOF (io/ioutil.ReadAll(r)): that read is what makes a hashing reader compare its digest and what notices bytes beyond the declared size — no fast path may skip it")
	fn := mustFunc(r, "gofakes3.ReadAll")
	if fn == nil {
		return
	}
	rp := fn.Params[0]
	var drains []ssa.Instruction
	core.Instrs(fn, func(in ssa.Instruction) {
		c, ok := in.(*ssa.Call)
		if !ok {
			return
		}
		n := r.P.CalleeName(c)
		if (n == "io/ioutil.ReadAll" || n == "io.ReadAll") && c.Call.Args[0] == ssa.Value(rp) {
			drains = append(drains, c)
		}
		if n == "io.Copy" && len(c.Call.Args) == 2 && c.Call.Args[1] == ssa.Value(rp) {
			drains = append(drains, c)
		}
	})
	if len(drains) == 0 {
		r.Violated("R08.6", key(fname(r, fn), "drains the reader"), r.P.Pos(fn.Pos()), "ReadAll no longer reads the input to EOF after the declared size: a digest carried by the reader is never verified and trailing bytes go unnoticed")
		return
	}
	n := 0
	for ret, ev := range returnedErrors(fn) {
		if !definitelyNil(r, ev) {
			continue
		}
		n++
		skipped := core.ReachableFromEntryAvoiding(ret, func(in ssa.Instruction) bool {
			for _, d := range drains {
				if in == d {
					return true
				}
			}
			return false
		})
		r.Check(!skipped, "R08.6", key(fname(r, fn), "success only after draining", sprintf("#%d", n)), pos(r, ret), "every successful path reads the input to EOF",
			"ReadAll can return success without reading the input to EOF (a fast path): with a hashing reader the Content-MD5 is then never compared, and bytes beyond the declared size are not noticed — a corrupt upload is accepted")
	}
	if n == 0 {
		r.Unresolved("R08.6: ReadAll has no success return")
	}
}

// nonNilTestsOf collects the comparisons of the error value ev (or of a load
// of the local it was stored in, before that local is assigned again) with
// nil, mapped to the truth value that means "non-nil".
func nonNilTestsOf(fn *ssa.Function, ev ssa.Value) map[ssa.Value]bool {
	out := map[ssa.Value]bool{}
	if ev == nil {
		return out
	}
	// the cells ev is stored into
	var stores []*ssa.Store
	if refs := ev.Referrers(); refs != nil {
		for _, u := range *refs {
			if st, ok := u.(*ssa.Store); ok && st.Val == ev {
				if _, isAlloc := st.Addr.(*ssa.Alloc); isAlloc {
					stores = append(stores, st)
				}
			}
		}
	}
	isSubject := func(v ssa.Value) bool {
		if v == ev {
			return true
		}
		ld, ok := v.(*ssa.UnOp)
		if !ok || ld.Op != token.MUL {
			return false
		}
		for _, s0 := range stores {
			if ld.X != s0.Addr || !core.Reaches(s0, ld) {
				continue
			}
			clobbered := false
			if refs := s0.Addr.Referrers(); refs != nil {
				for _, u := range *refs {
					if s1, ok := u.(*ssa.Store); ok && s1 != s0 && s1.Addr == s0.Addr && core.Reaches(s0, s1) && core.Reaches(s1, ld) {
						// a store of the value loaded back from the same cell changes nothing
						if l2, isLd := s1.Val.(*ssa.UnOp); isLd && l2.Op == token.MUL && l2.X == s0.Addr {
							continue
						}
						clobbered = true
					}
				}
			}
			if !clobbered {
				return true
			}
		}
		return false
	}
	core.Instrs(fn, func(in ssa.Instruction) {
		b, ok := in.(*ssa.BinOp)
		if !ok || (b.Op != token.EQL && b.Op != token.NEQ) {
			return
		}
		var other ssa.Value
		switch {
		case core.IsNilConst(b.Y):
			other = b.X
		case core.IsNilConst(b.X):
			other = b.Y
		default:
			return
		}
		if isSubject(other) {
			out[b] = b.Op == token.NEQ
		}
	})
	return out
}
