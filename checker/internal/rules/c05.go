package rules

import (
	"go/token"
	"go/types"
	"sort"
	"strings"

	"golang.org/x/tools/go/ssa"

	"gfs3check/internal/core"
	"gfs3check/internal/oblig"
)

func init() { Registry["C05"] = C05 }

const (
	skipSet    = "(*github.com/ryszard/goskiplist/skiplist.SkipList).Set"
	skipDelete = "(*github.com/ryszard/goskiplist/skiplist.SkipList).Delete"
	skipLen    = "(*github.com/ryszard/goskiplist/skiplist.SkipList).Len"
)

// C05 — versioning never loses history and always serves the newest remaining version.
func C05(r *core.Run) {
	r.Explanation = "Structural necessary conditions of version retention in the memory backend (the only versioned one) and its handlers, on all paths: " +
		"(R05.1) the versionId of GET/HEAD/DELETE reaches the versioned backend call and the response is built from that call's result; " +
		"(R05.2) with versioning enabled, the current version is archived under its own id before it is replaced; (R05.3/R09.1n) bucketObject.data is never nil while the key is in the bucket, nilable iterator fields are guarded; " +
		"(R05.4) archived versions are discarded only by rmVersion/promote with the addressed id, the current version only when its id was addressed, the key only when nothing remains, setVersioning touches nothing but the status; " +
		"(R05.5) every put draws a fresh id from the generator, whose counter is incremented under its mutex and is part of the id; " +
		"(R05.6) a current version is overwritten without archiving only when the bucket was never versioned; (R01.6) bytes and metadata maps of stored versions are never modified (an archived version keeps exactly its own metadata). (R05.7) a freshly built version that becomes current outside put carries an id from the generator. (R05.8) whether a handler uses the version-aware backend call depends on the backend being versioned and on the request, never on the bucket's current versioning status: version ids stay addressable while versioning is suspended. (R05.9) promote stores the newest archived entry as current and removes it from the archive before reporting success; a key is dropped only when nothing was left to promote. (R05.10) version-addressed delete and lookup in the memory backend are not gated by the versioning status."
	r.NotDecided = "that old versions keep their bytes (follows from R01.6 + immutability of bucketData, checked under C07), 'most recently created' order of remaining versions, multi-delete semantics, value-level uniqueness of ids beyond the counter"
	ctx := oblig.NewCtx(r.P)
	installNonNilHook(r, ctx)
	rule051(r)
	rule052(r, ctx)
	reachAll := map[*ssa.Function]bool{}
	for _, f := range r.P.RepoFuncs() {
		reachAll[f] = true
	}
	rule091nil(r, ctx, reachAll)
	rule054(r, ctx)
	rule055(r)
	rule056(r, ctx)
	rule057(r)
	rule058(r)
	rule059(r)
	rule0510(r)
	rule016(r, "C05")
	rule0214(r)
}

func rule051(r *core.Run) {
	r.Rule("R05.1", "in getObject, headObject and deleteObjectVersion a method of g.versioned is called with the handler's versionID parameter on the versionID != \"\" arm, and the response is built from that call's result; routeVersion/routeBase pass the id through unchanged")
	type h struct{ fn, method, pname string }
	for _, x := range []h{
		{"gofakes3.(*GoFakeS3).getObject", "GetObjectVersion", "versionID"},
		{"gofakes3.(*GoFakeS3).headObject", "HeadObjectVersion", "versionID"},
		{"gofakes3.(*GoFakeS3).deleteObjectVersion", "DeleteObjectVersion", "version"},
	} {
		fn := mustFunc(r, x.fn)
		if fn == nil {
			continue
		}
		vp := paramNamed(fn, x.pname)
		bp, op := paramNamed(fn, "bucket"), paramNamed(fn, "object")
		var call *ssa.Call
		core.Instrs(fn, func(in ssa.Instruction) {
			if c, ok := in.(*ssa.Call); ok && r.P.CalleeName(c) == "invoke:gofakes3.VersionedBackend."+x.method {
				call = c
			}
		})
		if call == nil || vp == nil {
			r.Violated("R05.1", key(x.fn, "versioned call"), r.P.Pos(fn.Pos()), "the handler never calls VersionedBackend."+x.method+": its versionId parameter is ignored and the current version is served")
			continue
		}
		a := call.Call.Args
		r.Check(len(a) >= 3 && a[0] == ssa.Value(bp) && a[1] == ssa.Value(op) && a[2] == ssa.Value(vp), "R05.1", key(x.fn, x.method+"(bucket, object, versionID)"), pos(r, call),
			"the addressed bucket, key and version are passed", "VersionedBackend."+x.method+" is not called with the handler's (bucket, object, versionID)")
		// on the versionID != "" arm (or unconditional)
		okArm := true
		for _, g := range core.GuardsOf(call) {
			cd := core.CondOf(g.If.Cond)
			if (cd.X == ssa.Value(vp) || cd.Y == ssa.Value(vp)) && (cd.Op == token.EQL || cd.Op == token.NEQ) {
				truth := g.Branch
				if cd.Neg {
					truth = !truth
				}
				isEmptyArm := (cd.Op == token.EQL && truth) || (cd.Op == token.NEQ && !truth)
				if isEmptyArm {
					okArm = false
				}
			}
		}
		r.Check(okArm, "R05.1", key(x.fn, "on the version arm"), pos(r, call), "called when a version id is given", "the versioned call is on the arm where versionID is empty")
		// and the unversioned storage call is NOT reachable when versionID != ""
		core.Instrs(fn, func(in ssa.Instruction) {
			c, ok := in.(*ssa.Call)
			if !ok || !strings.HasPrefix(r.P.CalleeName(c), "invoke:gofakes3.Backend.") {
				return
			}
			m := c.Common().Method.Name()
			if m != "GetObject" && m != "HeadObject" && m != "DeleteObject" {
				return
			}
			guarded := false
			for _, g := range core.GuardsOf(c) {
				cd := core.CondOf(g.If.Cond)
				if (cd.X == ssa.Value(vp) || cd.Y == ssa.Value(vp)) && (cd.Op == token.EQL || cd.Op == token.NEQ) {
					truth := g.Branch
					if cd.Neg {
						truth = !truth
					}
					if (cd.Op == token.EQL && truth) || (cd.Op == token.NEQ && !truth) {
						guarded = true
					}
				}
			}
			r.Check(guarded, "R05.1", key(x.fn, "unversioned "+m+" only when versionID is empty"), pos(r, c), "current-version read only without a version id", "the unversioned Backend."+m+" is reachable although a version id was given")
		})
		// response from that result
		if x.method != "DeleteObjectVersion" {
			resp := false
			core.Instrs(fn, func(in ssa.Instruction) {
				if c, ok := in.(*ssa.Call); ok && r.P.CalleeName(c) == "gofakes3.(*GoFakeS3).writeGetOrHeadObjectResponse" {
					s := r.P.SliceOf(c.Call.Args[1], core.SliceOpts{Depth: -1})
					if s.HasValue(call) {
						resp = true
					}
				}
			})
			r.Check(resp, "R05.1", key(x.fn, "response from the versioned result"), pos(r, call), "entity headers built from that object", "the response is not built from the object returned by the versioned call")
		}
	}
	// routeVersion passes its versionID
	if rv := mustFunc(r, "gofakes3.(*GoFakeS3).routeVersion"); rv != nil {
		vp := paramNamed(rv, "versionID")
		n := 0
		core.Instrs(rv, func(in ssa.Instruction) {
			c, ok := in.(*ssa.Call)
			if !ok {
				return
			}
			cal := core.StaticCallee(c)
			if cal == nil || !r.P.IsRepo(cal) {
				return
			}
			for i, p := range cal.Params {
				if p.Name() == "versionID" || p.Name() == "version" {
					n++
					r.Check(c.Call.Args[i] == ssa.Value(vp), "R05.1", key(fname(r, rv), "→"+cal.Name()), pos(r, c), "version id passed through", "routeVersion does not pass its versionID to "+cal.Name())
				}
			}
		})
		if n < 3 {
			r.Unresolved("R05.1: routeVersion dispatches to %d versioned handlers (expected 3)", n)
		}
	}
	if rb := mustFunc(r, "gofakes3.(*GoFakeS3).routeBase"); rb != nil {
		ok := false
		core.Instrs(rb, func(in ssa.Instruction) {
			if c, okc := in.(*ssa.Call); okc && r.P.CalleeName(c) == "gofakes3.(*GoFakeS3).routeVersion" {
				s := r.P.SliceOf(c.Call.Args[3], core.SliceOpts{Depth: -1})
				if s.Has("call:gofakes3.versionFromQuery") && s.Has("const:versionId") {
					ok = true
				}
			}
		})
		r.Check(ok, "R05.1", key(fname(r, rb), "versionId query → routeVersion"), r.P.Pos(rb.Pos()), "versionId query value routed", "routeBase does not route the versionId query value to routeVersion")
	}
	// the backend's versioned getters look the id up: objectVersion compares with the current version's id and Gets from versions
	for _, m := range []string{"GetObjectVersion", "HeadObjectVersion"} {
		fn := implMethod(r, "s3mem.(*Backend)", m)
		if fn == nil {
			continue
		}
		vp := paramNamed(fn, "versionID")
		ok := false
		core.Instrs(fn, func(in ssa.Instruction) {
			if c, okc := in.(*ssa.Call); okc && r.P.CalleeName(c) == "s3mem.(*bucket).objectVersion" && c.Call.Args[2] == ssa.Value(vp) {
				// result used to build the object
				for _, ret := range core.Returns(fn) {
					s := r.P.SliceOf(ret.Results[0], core.SliceOpts{Depth: -1})
					if s.HasValue(c) {
						ok = true
					}
				}
			}
		})
		r.Check(ok, "R05.1", key(fname(r, fn), "objectVersion(name, versionID)"), r.P.Pos(fn.Pos()), "looked up by the requested id", "the memory backend does not resolve the requested version id through objectVersion")
	}
	if ov := mustFunc(r, "s3mem.(*bucket).objectVersion"); ov != nil {
		vp := paramNamed(ov, "versionID")
		cmpCur, getArch := false, false
		core.Instrs(ov, func(in ssa.Instruction) {
			switch x := in.(type) {
			case *ssa.BinOp:
				if x.Op == token.EQL && (x.X == ssa.Value(vp) || x.Y == ssa.Value(vp)) {
					s := r.P.SliceOfMany([]ssa.Value{x.X, x.Y}, core.SliceOpts{Depth: -1})
					if s.Has("field:s3mem.bucketData.versionID") && s.Has("field:s3mem.bucketObject.data") {
						cmpCur = true
					}
				}
			case *ssa.Call:
				if strings.HasSuffix(r.P.CalleeName(x), "SkipList).Get") {
					if mi, ok := x.Call.Args[1].(*ssa.MakeInterface); ok && mi.X == ssa.Value(vp) {
						getArch = true
					}
				}
			}
		})
		codes := errCodes(errorSliceOf(r, ov, 2))
		r.Check(cmpCur && getArch && has(codes, "NoSuchVersion"), "R05.1", key(fname(r, ov), "lookup by id"), r.P.Pos(ov.Pos()), "current id compared, archive Get(versionID), NoSuchVersion otherwise", "objectVersion no longer compares the current version's id and looks the id up among archived versions (NoSuchVersion otherwise)")
	}
}

// putAnchors finds in bucket.put: the store object.data = item, the archive Set call.
func rule052(r *core.Run, ctx *oblig.Ctx) {
	r.Rule("R05.2", "in bucket.put, on the arm versioning == Enabled and object.data != nil, every path to the store object.data = item passes object.versions.Set(object.data.versionID, object.data)")
	fn := mustFunc(r, "s3mem.(*bucket).put")
	if fn == nil {
		return
	}
	name := fname(r, fn)
	var dataStore *ssa.Store
	for _, st := range r.P.FieldStores("s3mem.bucketObject.data") {
		if st.Parent() == fn {
			dataStore = st
		}
	}
	var set *ssa.Call
	for _, c := range r.P.CallsIn(fn, false, core.NameIs(skipSet)) {
		if cl := classOf(r, c.Common().Args[0]); cl != nil && cl.field == "s3mem.bucketObject.versions" {
			set = c.(*ssa.Call)
		}
	}
	if dataStore == nil {
		r.Violated("R05.2", key(name, "anchors"), r.P.Pos(fn.Pos()), "bucket.put no longer stores object.data")
		return
	}
	if set == nil {
		r.Violated("R05.2", key(name, "archive before replace"), pos(r, dataStore), "bucket.put never archives the current version into object.versions: every overwrite in a versioned bucket loses the previous version")
		return
	}
	// arguments: key = load(object.data).versionID, value = load(object.data)
	ks := r.P.SliceOf(set.Call.Args[1], core.SliceOpts{Depth: -1})
	vs := r.P.SliceOf(set.Call.Args[2], core.SliceOpts{Depth: -1})
	valIsData := false
	if mi, ok := set.Call.Args[2].(*ssa.MakeInterface); ok {
		if ld, ok := mi.X.(*ssa.UnOp); ok {
			if fa, ok := ld.X.(*ssa.FieldAddr); ok && r.P.FieldName(fa) == "s3mem.bucketObject.data" {
				valIsData = true
			}
		}
	}
	r.Check(valIsData && ks.Has("field:s3mem.bucketData.versionID") && ks.Has("field:s3mem.bucketObject.data") && !vs.HasPrefix("param:s3mem.(*bucket).put.item"), "R05.2", key(name, "Set(old.versionID, old)"), pos(r, set),
		"archives the previous current version under its own id", "the archive call does not store the previous object.data under object.data.versionID (e.g. it stores the new item or uses the new id)")
	// the two tests that select the archive arm, as values (whatever branch shape carries them)
	var nonNil, enabled *ssa.BinOp
	nonNilTruth, enabledTruth := true, true
	core.Instrs(fn, func(in ssa.Instruction) {
		b, ok := in.(*ssa.BinOp)
		if !ok || (b.Op != token.EQL && b.Op != token.NEQ) {
			return
		}
		s := r.P.SliceOfMany([]ssa.Value{b.X, b.Y}, core.SliceOpts{Depth: -1})
		if s.Has("field:s3mem.bucket.versioning") && s.Has("const:Enabled") {
			enabled, enabledTruth = b, b.Op == token.EQL
		}
		if (core.IsNilConst(b.Y) || core.IsNilConst(b.X)) && s.Has("field:s3mem.bucketObject.data") && !s.Has("field:s3mem.bucketObject.versions") {
			nonNil, nonNilTruth = b, b.Op == token.NEQ
		}
	})
	if enabled == nil || nonNil == nil {
		r.Violated("R05.2", key(name, "archive before replace"), pos(r, dataStore), "bucket.put lost the 'versioning == Enabled' / 'object.data != nil' tests that select the archive arm")
		return
	}
	// with versioning enabled and a current version present, no path reaches the replacement without the archive call
	skip := core.ReachableFromEntryAssumingAvoiding(dataStore, map[ssa.Value]bool{enabled: enabledTruth, nonNil: nonNilTruth},
		func(in ssa.Instruction) bool { return in == ssa.Instruction(set) })
	r.Check(!skip && core.Reaches(set, dataStore), "R05.2", key(name, "archive before replace"), pos(r, dataStore),
		"on the Enabled ∧ data != nil arm every path to the replacement passes the archive Set", "with versioning enabled and a current version present, object.data can be replaced without first archiving it: the previous version is lost")
}

func rule054(r *core.Run, ctx *oblig.Ctx) {
	r.Rule("R05.4", "archived versions are deleted only in rmVersion (key = the versionID parameter) and promote (key = the entry it just promoted); in rmVersion the current version is dropped only under object.data.versionID == versionID; keys leave the bucket only when nothing remains; setVersioning writes only bucket.versioning")
	n := 0
	for _, fn := range r.P.FuncsOfPkg("s3mem") {
		f := fn
		for _, c := range r.P.CallsIn(fn, false, core.NameIs(skipDelete)) {
			cl := classOf(r, c.Common().Args[0])
			if cl == nil {
				continue
			}
			n++
			name := fname(r, f)
			keyArg := c.Common().Args[1]
			switch cl.field {
			case "s3mem.bucketObject.versions":
				ok := false
				why := ""
				switch name {
				case "s3mem.(*bucket).rmVersion":
					vp := paramNamed(f, "versionID")
					if mi, isMI := keyArg.(*ssa.MakeInterface); isMI && mi.X == ssa.Value(vp) {
						ok = true
					}
					why = "the key is not the versionID parameter"
				case "s3mem.(*bucketObject).promote":
					ks := r.P.SliceOf(keyArg, core.SliceOpts{Depth: -1})
					ok = ks.Has("call:invoke:github.com/ryszard/goskiplist/skiplist.Iterator.Key") && ks.Has("call:"+strings.Replace(skipDelete, "Delete", "SeekToLast", 1))
					why = "the key is not the key of the entry that was promoted (SeekToLast)"
				default:
					why = "archived versions may be deleted only by rmVersion and promote"
				}
				r.Check(ok, "R05.4", key(name, "versions.Delete"), pos(r, c.(ssa.Instruction)), "deletes exactly the addressed / promoted version", "an archived version is discarded in "+name+": "+why)
			case "s3mem.bucket.objects":
				// key removal
				okDel := false
				why := "keys may be removed from the bucket only by rm / rmVersion"
				switch name {
				case "s3mem.(*bucket).rmVersion":
					// under data.versionID == versionID and promote() == false
					vp := paramNamed(f, "versionID")
					idEq, promoteFalse := false, false
					for _, ft := range ctx.FactsAt(c.(ssa.Instruction)) {
						if ft.Op == token.EQL && (ft.X == ssa.Value(vp) || ft.Y == ssa.Value(vp)) {
							idEq = true
						}
						if ft.Bool != nil && !ft.Truth {
							if pc, ok := ft.Bool.(*ssa.Call); ok && r.P.CalleeName(pc) == "s3mem.(*bucketObject).promote" {
								promoteFalse = true
							}
						}
					}
					okDel = idEq && promoteFalse
					why = "the key is removed although an archived version may remain or another version was addressed"
				case "s3mem.(*bucket).rm":
					// not reachable when the archive-emptiness test says "non-empty", nor under versioning == Enabled
					// (decided by assuming the comparison's value, whatever shape the branch has)
					okDel = true
					validLenTest := false
					core.Instrs(f, func(in ssa.Instruction) {
						b, ok := in.(*ssa.BinOp)
						if !ok {
							return
						}
						s := r.P.SliceOfMany([]ssa.Value{b.X, b.Y}, core.SliceOpts{Depth: -1})
						cd := core.CondOf(b)
						if lc, isCall := b.X.(*ssa.Call); isCall && r.P.CalleeName(lc) == skipLen {
							k, isK := core.ConstInt(cd.Y)
							if !isK {
								okDel = false
								return
							}
							// truth value of the comparison that means "archive non-empty"
							var nonEmpty, known bool
							switch {
							case (cd.Op == token.GTR && k == 0) || (cd.Op == token.NEQ && k == 0) || (cd.Op == token.GEQ && k == 1):
								nonEmpty, known = true, true
							case (cd.Op == token.EQL && k == 0) || (cd.Op == token.LEQ && k == 0) || (cd.Op == token.LSS && k == 1):
								nonEmpty, known = false, true
							}
							if !known {
								okDel = false // a Len() test that is not an emptiness test
								return
							}
							validLenTest = true
							if core.ReachesAssuming(b, c.(ssa.Instruction), map[ssa.Value]bool{b: nonEmpty}) {
								okDel = false
							}
						}
						if s.Has("field:s3mem.bucket.versioning") && s.Has("const:Enabled") && (cd.Op == token.EQL || cd.Op == token.NEQ) {
							if core.ReachesAssuming(b, c.(ssa.Instruction), map[ssa.Value]bool{b: cd.Op == token.EQL}) {
								okDel = false
							}
						}
					})
					okDel = okDel && validLenTest
					why = "a plain delete removes the key although archived versions remain (or versioning is enabled)"
				}
				r.Check(okDel, "R05.4", key(name, "objects.Delete"), pos(r, c.(ssa.Instruction)), "key removed only when nothing remains", why)
			}
		}
	}
	if n < 4 {
		r.Unresolved("R05.4: only %d skiplist Delete sites found in s3mem (expected >= 4)", n)
	}
	// rmVersion: promote only when the addressed id is the current one
	if fn := mustFunc(r, "s3mem.(*bucket).rmVersion"); fn != nil {
		vp := paramNamed(fn, "versionID")
		for _, c := range r.P.CallsIn(fn, false, core.NameIs("s3mem.(*bucketObject).promote")) {
			ok := false
			for _, ft := range ctx.FactsAt(c.(ssa.Instruction)) {
				if ft.Op == token.EQL && (ft.X == ssa.Value(vp) || ft.Y == ssa.Value(vp)) {
					s := r.P.SliceOfMany([]ssa.Value{ft.X, ft.Y}, core.SliceOpts{Depth: -1})
					if s.Has("field:s3mem.bucketData.versionID") && s.Has("field:s3mem.bucketObject.data") {
						ok = true
					}
				}
			}
			r.Check(ok, "R05.4", key(fname(r, fn), "current dropped only when addressed"), pos(r, c.(ssa.Instruction)), "guarded by object.data.versionID == versionID", "the current version is discarded although another version id was addressed")
		}
	}
	// setVersioning
	if fn := mustFunc(r, "s3mem.(*bucket).setVersioning"); fn != nil {
		bad := ""
		core.Instrs(fn, func(in ssa.Instruction) {
			switch x := in.(type) {
			case *ssa.Store:
				if fa, ok := x.Addr.(*ssa.FieldAddr); !ok || r.P.FieldName(fa) != "s3mem.bucket.versioning" {
					bad = "store at " + pos(r, x)
				}
			case ssa.CallInstruction:
				bad = "call " + r.P.CalleeName(x) + " at " + pos(r, in)
			}
		})
		r.Check(bad == "", "R05.4", key(fname(r, fn), "writes only the status"), r.P.Pos(fn.Pos()), "only bucket.versioning is written", "setVersioning does more than set the status ("+bad+")")
	}
	if fn := mustFunc(r, "s3mem.(*Backend).SetVersioningConfiguration"); fn != nil {
		bad := ""
		for _, f := range reachableCallbackAware(r, fn) {
			core.Instrs(f, func(in ssa.Instruction) {
				if c, ok := in.(ssa.CallInstruction); ok {
					n := r.P.CalleeName(c)
					if n == skipSet || n == skipDelete || n == "builtin:delete" {
						bad = n + " in " + fname(r, f)
					}
				}
			})
		}
		r.Check(bad == "", "R05.4", key(fname(r, fn), "no version is touched"), r.P.Pos(fn.Pos()), "changing the status mutates no object", "SetVersioningConfiguration can reach "+bad)
	}
}

// reachableCallbackAware: the repo functions reachable from fn where a call
// through a function-typed PARAMETER (a locking helper running the callback it
// was given) is taken to run the closures created by the functions already on
// the path — not every closure the helper is ever given by anybody (which is
// what a context-insensitive call graph says). Other dynamic calls follow the
// call graph.
func reachableCallbackAware(r *core.Run, fn *ssa.Function) []*ssa.Function {
	cg := r.P.CallGraph()
	seen := map[*ssa.Function]bool{}
	var out []*ssa.Function
	var work []*ssa.Function
	push := func(f *ssa.Function) {
		if f == nil || seen[f] {
			return
		}
		seen[f] = true
		work = append(work, f)
	}
	push(fn)
	for len(work) > 0 {
		f := work[len(work)-1]
		work = work[:len(work)-1]
		if !r.P.IsRepo(f) {
			if f.Synthetic != "" && r.P.PkgShort(f) != "" {
				if n := cg.Nodes[f]; n != nil {
					for _, e := range n.Out {
						push(e.Callee.Func)
					}
				}
			}
			continue
		}
		out = append(out, f)
		for _, a := range f.AnonFuncs {
			push(a)
		}
		core.Instrs(f, func(in ssa.Instruction) {
			c, ok := in.(ssa.CallInstruction)
			if !ok {
				return
			}
			if callee := c.Common().StaticCallee(); callee != nil {
				push(callee)
				return
			}
			if _, viaParam := c.Common().Value.(*ssa.Parameter); viaParam && !c.Common().IsInvoke() {
				return // runs a callback created by a function on the path (already included)
			}
			if n := cg.Nodes[f]; n != nil {
				for _, e := range n.Out {
					if e.Site == c {
						push(e.Callee.Func)
					}
				}
			}
		})
	}
	sort.Slice(out, func(i, j int) bool { return fname(r, out[i]) < fname(r, out[j]) })
	return out
}

func reachableList(r *core.Run, fn *ssa.Function) []*ssa.Function {
	m := reachableFrom(r, []*ssa.Function{fn})
	var out []*ssa.Function
	for f := range m {
		out = append(out, f)
	}
	sortFuncs(r, out)
	return out
}

func rule055(r *core.Run) {
	r.Rule("R05.5", "bucket.put assigns item.versionID from the bucket's generator unconditionally before the object is published; the generator increments its counter under its mutex and the id's provenance includes the counter; buckets get the backend's generator")
	fn := mustFunc(r, "s3mem.(*bucket).put")
	if fn == nil {
		return
	}
	var idStore *ssa.Store
	for _, st := range r.P.FieldStores("s3mem.bucketData.versionID") {
		if st.Parent() == fn {
			idStore = st
		}
	}
	var dataStore *ssa.Store
	for _, st := range r.P.FieldStores("s3mem.bucketObject.data") {
		if st.Parent() == fn {
			dataStore = st
		}
	}
	item := paramNamed(fn, "item")
	ok := false
	if idStore != nil && dataStore != nil {
		fa := idStore.Addr.(*ssa.FieldAddr)
		s := r.P.SliceOf(idStore.Val, core.SliceOpts{Depth: -1})
		ok = fa.X == ssa.Value(item) && s.Has("field:s3mem.bucket.versionGen") && s.Has("call:dyn") && core.Dominates(idStore, dataStore) && len(core.GuardsOf(idStore)) == 0
	}
	r.Check(ok, "R05.5", key(fname(r, fn), "fresh id before publish"), r.P.Pos(fn.Pos()), "item.versionID = b.versionGen() unconditionally, before object.data = item", "bucket.put does not unconditionally assign a freshly generated version id to the item before publishing it")
	if nx := mustFunc(r, "s3mem.(*versionGenerator).Next"); nx != nil {
		var rets []ssa.Value
		for _, ret := range core.Returns(nx) {
			rets = append(rets, ret.Results[0])
		}
		s := r.P.SliceOfMany(rets, core.SliceOpts{Depth: -1})
		inc := false
		core.Instrs(nx, func(in ssa.Instruction) {
			if c, ok := in.(*ssa.Call); ok && r.P.CalleeName(c) == "(*math/big.Int).Add" {
				a := r.P.SliceOfMany(c.Call.Args, core.SliceOpts{Depth: -1})
				if a.Has("field:s3mem.versionGenerator.next") && a.Has("global:s3mem.add1") {
					inc = true
				}
			}
		})
		r.Check(inc && s.Has("field:s3mem.versionGenerator.next"), "R05.5", key(fname(r, nx), "counter in the id"), r.P.Pos(nx.Pos()), "counter incremented and part of the returned id", "the version id no longer contains the per-generator counter (uniqueness would rest on the PRNG alone) or the counter is not incremented")
	}
	if cb := mustFunc(r, "s3mem.(*Backend).CreateBucket"); cb != nil {
		ok := false
		core.InstrsDeep(cb, func(_ *ssa.Function, in ssa.Instruction) {
			if c, okc := in.(*ssa.Call); okc && r.P.CalleeName(c) == "s3mem.newBucket" {
				s := r.P.SliceOf(c.Call.Args[2], core.SliceOpts{Depth: -1})
				if s.HasPrefix("closure:") || s.HasPrefix("func:") {
					for l := range s.Leaves {
						if strings.Contains(l, "nextVersion") {
							ok = true
						}
					}
				}
			}
		})
		r.Check(ok, "R05.5", key(fname(r, cb), "bucket uses the backend generator"), r.P.Pos(cb.Pos()), "newBucket(..., db.nextVersion)", "new buckets are not wired to the backend's version generator")
	}
}

// enumBlocked returns the CFG edges that are infeasible when the field has
// the given constant value (conditions `load(field) ==/!= const`).
func enumBlocked(r *core.Run, fn *ssa.Function, field, val string) map[core.Edge]bool {
	out := map[core.Edge]bool{}
	core.Instrs(fn, func(in ssa.Instruction) {
		iff, ok := in.(*ssa.If)
		if !ok {
			return
		}
		cd := core.CondOf(iff.Cond)
		if cd.Op != token.EQL && cd.Op != token.NEQ {
			return
		}
		var cv string
		var other ssa.Value
		if s, ok := core.ConstString(cd.Y); ok {
			cv, other = s, cd.X
		} else if s, ok := core.ConstString(cd.X); ok {
			cv, other = s, cd.Y
		} else {
			return
		}
		ld, ok := other.(*ssa.UnOp)
		if !ok {
			return
		}
		fa, ok := ld.X.(*ssa.FieldAddr)
		if !ok || r.P.FieldName(fa) != field {
			return
		}
		condTrue := (cd.Op == token.EQL) == (cv == val)
		if cd.Neg {
			condTrue = !condTrue
		}
		b := iff.Block()
		if condTrue {
			out[core.Edge{From: b.Index, To: b.Succs[1].Index}] = true
		} else {
			out[core.Edge{From: b.Index, To: b.Succs[0].Index}] = true
		}
	})
	return out
}

func rule056(r *core.Run, ctx *oblig.Ctx) {
	r.Rule("R05.6", "a store that replaces bucketObject.data without the archive Set on the path is reachable only when bucket.versioning is VersioningNone (never versioned): under Suspended the current version may be one created while versioning was enabled")
	for _, fnName := range []string{"s3mem.(*bucket).put", "s3mem.(*bucket).rm"} {
		fn := mustFunc(r, fnName)
		if fn == nil {
			continue
		}
		for _, st := range r.P.FieldStores("s3mem.bucketObject.data") {
			if st.Parent() != fn {
				continue
			}
			fa := st.Addr.(*ssa.FieldAddr)
			if _, fresh := fa.X.(*ssa.Alloc); fresh {
				continue
			}
			var sets []ssa.Instruction
			for _, c := range r.P.CallsIn(fn, false, core.NameIs(skipSet, "s3mem.(*bucket).put")) {
				sets = append(sets, c.(ssa.Instruction))
			}
			avoid := func(in ssa.Instruction) bool {
				for _, s := range sets {
					if in == s {
						return true
					}
				}
				return false
			}
			for _, val := range []string{"Suspended", "Enabled"} {
				blocked := enumBlocked(r, fn, "s3mem.bucket.versioning", val)
				// only paths on which there is something to lose: an existing
				// object with a non-nil current version
				for e := range nilBlocked(r, fn, fa.X) {
					blocked[e] = true
				}
				reach := core.ReachableFromEntryAvoidingEdges(st, avoid, blocked)
				k := key(fnName, "overwrite of object.data without archiving", "versioning="+val)
				if !reach {
					r.Held("R05.6", k, pos(r, st), "not reachable without archiving when versioning is "+val)
					continue
				}
				r.Violated("R05.6", k, pos(r, st), "with versioning "+val+" the current version can be replaced without being archived: a version created while versioning was enabled is discarded (GET ?versionId=<it> answers NoSuchVersion)")
			}
		}
	}
	r.Floor("R05.6", 4, "overwrite sites × enum values")
}

// nilBlocked: edges on which the object is fresh or its current version is nil
// (nothing is overwritten on those paths).
func nilBlocked(r *core.Run, fn *ssa.Function, base ssa.Value) map[core.Edge]bool {
	out := map[core.Edge]bool{}
	cands := map[ssa.Value]bool{base: true}
	if ph, ok := base.(*ssa.Phi); ok {
		for _, e := range ph.Edges {
			cands[e] = true
		}
	}
	core.Instrs(fn, func(in ssa.Instruction) {
		iff, ok := in.(*ssa.If)
		if !ok {
			return
		}
		cd := core.CondOf(iff.Cond)
		if cd.Op != token.EQL && cd.Op != token.NEQ {
			return
		}
		var v ssa.Value
		if core.IsNilConst(cd.Y) {
			v = cd.X
		} else if core.IsNilConst(cd.X) {
			v = cd.Y
		} else {
			return
		}
		isData := false
		if ld, ok := v.(*ssa.UnOp); ok {
			if fa, ok := ld.X.(*ssa.FieldAddr); ok && r.P.FieldName(fa) == "s3mem.bucketObject.data" {
				isData = true
			}
		}
		if !isData && !cands[v] {
			return
		}
		nilBranch := cd.Op == token.EQL
		if cd.Neg {
			nilBranch = !nilBranch
		}
		b := iff.Block()
		if nilBranch {
			out[core.Edge{From: b.Index, To: b.Succs[0].Index}] = true
		} else {
			out[core.Edge{From: b.Index, To: b.Succs[1].Index}] = true
		}
	})
	return out
}

// rule057 — a version that becomes current carries an id from the generator.
func rule057(r *core.Run) {
	r.Rule("R05.7", "every freshly built bucketData that is stored as an object's current version outside bucket.put (the delete marker a plain delete leaves behind while versions remain) has its versionID set from the bucket's generator before it is published: a current version with an empty id cannot be addressed, paged past or told from 'null'")
	n := 0
	for _, st := range r.P.FieldStores("s3mem.bucketObject.data") {
		a, ok := st.Val.(*ssa.Alloc)
		if !ok || !isNamed(r, a.Type(), "s3mem", "bucketData") {
			continue
		}
		n++
		fn := st.Parent()
		okID := false
		for _, ref := range *a.Referrers() {
			fa, isFA := ref.(*ssa.FieldAddr)
			if !isFA || r.P.FieldName(fa) != "s3mem.bucketData.versionID" {
				continue
			}
			for _, u := range *fa.Referrers() {
				ist, isSt := u.(*ssa.Store)
				if !isSt || ist.Addr != ssa.Value(fa) {
					continue
				}
				vs := r.P.SliceOf(ist.Val, core.SliceOpts{Depth: -1})
				if (vs.Has("field:s3mem.bucket.versionGen") || vs.HasCallTo("s3mem.(*Backend).nextVersion") || vs.HasCallTo("s3mem.(*versionGenerator).Next")) && core.Dominates(ist, st) {
					okID = true
				}
			}
		}
		r.Check(okID, "R05.7", key(fname(r, fn), "published version has a generated id", sprintf("#%d", n)), pos(r, st), "versionID = versionGen() before the store", "a freshly built version becomes the key's current version without an id from the generator: it is listed with an empty id (shown as 'null'), cannot be addressed by id and a page ending on it cannot be continued")
	}
	if n == 0 {
		r.Info("R05.7", "none", "", "no fresh bucketData is stored as current version outside put")
	}
}

// rule058 — version ids are honoured whatever the bucket's versioning status is.
func rule058(r *core.Run) {
	r.Rule("R05.8", "in the handlers of package gofakes3 no call on the Backend / VersionedBackend interfaces is guarded by a condition that derives from VersioningConfiguration(bucket): the choice between the plain and the version-aware call is made by `g.versioned == nil` and the request's version id alone (a Suspended bucket still addresses its versions by id; only the backend decides what a status means)")
	n := 0
	for _, fn := range r.P.FuncsOfPkg("gofakes3") {
		f := fn
		if !strings.Contains(fname(r, f), "GoFakeS3") {
			continue
		}
		core.Instrs(f, func(in ssa.Instruction) {
			c, ok := in.(*ssa.Call)
			if !ok || !c.Call.IsInvoke() {
				return
			}
			cn := r.P.CalleeName(c)
			if !strings.HasPrefix(cn, "invoke:gofakes3.Backend.") && !strings.HasPrefix(cn, "invoke:gofakes3.VersionedBackend.") {
				return
			}
			if strings.HasSuffix(cn, ".VersioningConfiguration") {
				return
			}
			n++
			bad := ""
			for _, g := range core.GuardsOf(c) {
				// the whole merged condition counts: a flag variable assigned from the configuration
				gs := r.P.SliceOf(g.If.Cond, core.SliceOpts{Depth: -1, Control: true})
				for cc := range gs.Calls {
					if strings.HasSuffix(r.P.CalleeName(cc), "VersionedBackend.VersioningConfiguration") {
						// the error result of the configuration call may be checked; its value may not decide
						if isErrOf(g.If.Cond, cc) {
							continue
						}
						bad = pos(r, g.If)
					}
				}
			}
			r.Check(bad == "", "R05.8", key(fname(r, f), "API choice independent of the versioning status", strings.TrimPrefix(cn, "invoke:gofakes3."), sprintf("#%d", n)), pos(r, c), "not guarded by the bucket's versioning status",
				"the call is made only for some values of the bucket's versioning configuration (test at "+bad+"): with versioning suspended the request's version ids are ignored or a different operation runs")
		})
	}
	if n < 20 {
		r.Unresolved("R05.8: only %d backend calls found in the handlers", n)
	}
}

// isErrOf: cond is a nil test of the error result of call c.
func isErrOf(cond ssa.Value, c ssa.CallInstruction) bool {
	cd := core.CondOf(cond)
	for _, v := range []ssa.Value{cd.X, cd.Y} {
		if ex, ok := v.(*ssa.Extract); ok && ex.Tuple == c.Value() && ex.Index == c.Value().Type().(*types.Tuple).Len()-1 {
			return true
		}
	}
	return false
}

// rule059 — deleting the current version uncovers the newest remaining one.
func rule059(r *core.Run) {
	r.Rule("R05.9", "bucketObject.promote returns true only after it stored, as the object's current version, the value of the entry SeekToLast found and deleted that same entry's key from the archive; in rmVersion the key is removed from the bucket (objects.Delete) only on the side where promote() returned false (nothing was left to promote): the newest remaining version becomes current, and a key with remaining versions is never dropped")
	pf := mustFunc(r, "s3mem.(*bucketObject).promote")
	if pf != nil {
		var last *ssa.Call
		var store *ssa.Store
		var del *ssa.Call
		core.Instrs(pf, func(in ssa.Instruction) {
			switch x := in.(type) {
			case *ssa.Call:
				cn := r.P.CalleeName(x)
				if strings.HasSuffix(cn, "SkipList).SeekToLast") {
					last = x
				}
				if strings.HasSuffix(cn, "SkipList).Delete") {
					del = x
				}
			case *ssa.Store:
				if fa, ok := x.Addr.(*ssa.FieldAddr); ok && r.P.FieldName(fa) == "s3mem.bucketObject.data" {
					store = x
				}
			}
		})
		okP := last != nil && store != nil && del != nil
		why := "promote no longer seeks the newest archived entry, stores it as current and deletes it from the archive"
		if okP {
			vs := r.P.SliceOf(store.Val, core.SliceOpts{Depth: -1})
			ks := r.P.SliceOf(del.Call.Args[1], core.SliceOpts{Depth: -1})
			if !vs.HasValue(last) || !ks.HasValue(last) {
				okP, why = false, "the promoted value or the deleted key does not come from the entry SeekToLast found"
			}
			for _, ret := range core.Returns(pf) {
				if len(ret.Results) == 1 {
					if k, ok := ret.Results[0].(*ssa.Const); ok && k.Value != nil && k.Value.String() == "true" {
						if !core.Dominates(store, ret) || !core.Dominates(del, ret) {
							okP, why = false, "promote can report success without having stored the promoted version / removed it from the archive"
						}
					}
				}
			}
		}
		r.Check(okP, "R05.9", key(fname(r, pf), "promotes the newest archived entry"), r.P.Pos(pf.Pos()), "data ← SeekToLast().Value(); versions.Delete(its key); then true", why)
	}
	rv := mustFunc(r, "s3mem.(*bucket).rmVersion")
	if rv == nil || pf == nil {
		return
	}
	n := 0
	core.Instrs(rv, func(in ssa.Instruction) {
		c, ok := in.(*ssa.Call)
		if !ok || !strings.HasSuffix(r.P.CalleeName(c), "SkipList).Delete") {
			return
		}
		rs := r.P.SliceOf(c.Call.Args[0], core.SliceOpts{Depth: -1})
		if !rs.Has("field:s3mem.bucket.objects") {
			return
		}
		n++
		okG := false
		for _, ec := range expandedConds(c) {
			cd := core.CondOf(ec.cond)
			pc, isCall := cd.X.(*ssa.Call)
			if !isCall || core.StaticCallee(pc) != pf || (cd.Op != 0 && cd.Op != token.ILLEGAL) {
				continue
			}
			val := ec.truth != cd.Neg // the value promote() had
			if !val {
				okG = true
			}
		}
		r.Check(okG, "R05.9", key(fname(r, rv), "key dropped only when nothing was left to promote", sprintf("#%d", n)), pos(r, c), "objects.Delete under !promote()", "the key is removed from the bucket on a path where promote() did not report 'nothing left': remaining versions of the key are lost")
	})
	if n == 0 {
		r.Unresolved("R05.9: rmVersion no longer removes emptied keys from bucket.objects")
	}
}

// rule0510 — in the memory backend, addressing a version by id does not depend
// on the bucket's versioning status.
func rule0510(r *core.Run) {
	r.Rule("R05.10", "in the memory backend no call of bucket.rmVersion or bucket.objectVersion (the version-addressed delete and lookup) is guarded by a test of bucket.versioning: version ids stay addressable while versioning is suspended (what the status changes is how NEW writes are recorded, R05.2/R05.6)")
	n := 0
	for _, fn := range r.P.FuncsOfPkg("s3mem") {
		f := fn
		core.Instrs(f, func(in ssa.Instruction) {
			c, ok := in.(*ssa.Call)
			if !ok {
				return
			}
			cn := r.P.CalleeName(c)
			if cn != "s3mem.(*bucket).rmVersion" && cn != "s3mem.(*bucket).objectVersion" {
				return
			}
			n++
			bad := ""
			for _, g := range core.GuardsOf(c) {
				gs := r.P.SliceOf(g.If.Cond, core.SliceOpts{Depth: -1, Control: true})
				if gs.Has("field:s3mem.bucket.versioning") {
					bad = pos(r, g.If)
				}
			}
			r.Check(bad == "", "R05.10", key(fname(r, f), "version addressed regardless of the versioning status", strings.TrimPrefix(cn, "s3mem.(*bucket)."), sprintf("#%d", n)), pos(r, c), "not guarded by bucket.versioning",
				"the version-addressed call is made only for some versioning states (test at "+bad+"): on a suspended bucket a request naming a version id takes the plain path — the named version survives and the current one is replaced or lost")
		})
	}
	if n < 4 {
		r.Unresolved("R05.10: %d version-addressed calls found in s3mem (expected at least 4)", n)
	}
}
