package inline

import (
	"fmt"
	"go/ast"
	"go/token"
	"go/types"
	"reflect"

	"golang.org/x/tools/go/ast/astutil"
)

// ---------------------------------------------------------------- transformation

func (st *pkgState) transformFunc(fi *funcInfo) {
	st.transformBlock(fi, fi.decl.Body)
	if len(fi.topDecls) > 0 {
		fi.decl.Body.List = append(fi.topDecls, fi.decl.Body.List...)
		fi.topDecls = nil
	}
}

// transformBlock rewrites the statement list of a block / clause in place.
func (st *pkgState) transformBlock(fi *funcInfo, n ast.Node) {
	switch x := n.(type) {
	case *ast.BlockStmt:
		if x != nil {
			x.List = st.transformList(fi, x.List)
		}
	case *ast.CaseClause:
		x.Body = st.transformList(fi, x.Body)
	case *ast.CommClause:
		x.Body = st.transformList(fi, x.Body)
	}
}

func (st *pkgState) transformList(fi *funcInfo, list []ast.Stmt) []ast.Stmt {
	// nested lists first (so that a following `if` that is duplicated into the
	// return sites of an inlined body is already in its final form)
	for _, s := range list {
		st.descend(fi, s)
	}
	var out []ast.Stmt
	for i := 0; i < len(list); i++ {
		s := list[i]
		var next ast.Stmt
		if i+1 < len(list) {
			next = list[i+1]
		}
		repl, usedNext := st.inlineAt(fi, s, next)
		out = append(out, repl...)
		if usedNext {
			i++
		}
	}
	return out
}

// descend transforms the nested statement lists and function literals of s.
func (st *pkgState) descend(fi *funcInfo, s ast.Stmt) {
	ast.Inspect(s, func(n ast.Node) bool {
		switch x := n.(type) {
		case *ast.BlockStmt:
			st.transformBlock(fi, x)
			return false
		case *ast.CaseClause:
			for _, e := range x.List {
				st.descendExpr(fi, e)
			}
			st.transformBlock(fi, x)
			return false
		case *ast.CommClause:
			st.transformBlock(fi, x)
			return false
		case *ast.FuncLit:
			st.transformBlock(fi, x.Body)
			return false
		}
		return true
	})
}

func (st *pkgState) descendExpr(fi *funcInfo, e ast.Expr) {
	ast.Inspect(e, func(n ast.Node) bool {
		if fl, ok := n.(*ast.FuncLit); ok {
			st.transformBlock(fi, fl.Body)
			return false
		}
		return true
	})
}

// inlineAt inlines the call evaluated first in statement s, repeatedly; next is
// the statement following s in its list (a candidate for duplication into the
// return sites). It returns the replacement of s and whether next was consumed.
func (st *pkgState) inlineAt(fi *funcInfo, s, next ast.Stmt) ([]ast.Stmt, bool) {
	repl, usedNext, ok := st.inlineOnce(fi, s, next)
	if !ok {
		return []ast.Stmt{s}, false
	}
	if usedNext {
		return repl, true
	}
	// the last statement of repl is the rewritten s; it may start with another inlinable call
	last := repl[len(repl)-1]
	if _, isEmpty := last.(*ast.EmptyStmt); isEmpty {
		return repl, false
	}
	if _, isBlock := last.(*ast.BlockStmt); isBlock {
		return repl, false
	}
	rest, used := st.inlineAt(fi, last, next)
	return append(repl[:len(repl)-1], rest...), used
}

// terminatingCheck reports whether is is `if COND { …; return/panic }` without
// init and else, whose body contains no break/continue/goto/fallthrough that
// could bind differently when the statement is moved into a loop.
func terminatingCheck(is *ast.IfStmt) bool {
	if is == nil || is.Init != nil || is.Else != nil || is.Body == nil || len(is.Body.List) == 0 {
		return false
	}
	switch l := is.Body.List[len(is.Body.List)-1].(type) {
	case *ast.ReturnStmt:
	case *ast.ExprStmt:
		c, ok := l.X.(*ast.CallExpr)
		if !ok {
			return false
		}
		if id, ok := c.Fun.(*ast.Ident); !ok || id.Name != "panic" {
			return false
		}
	default:
		return false
	}
	bad := false
	ast.Inspect(is, func(n ast.Node) bool {
		switch n.(type) {
		case *ast.FuncLit:
			return false
		case *ast.BranchStmt, *ast.LabeledStmt:
			bad = true
		}
		return !bad
	})
	return !bad
}

// sink says where the results of an inlined call go.
type sink struct {
	keepReturns bool            // `return h(...)`: the callee's returns become the caller's
	lhs         []ast.Expr      // else: assigned at every return site (identifiers or `_`)
	tail        *ast.IfStmt     // optional check duplicated after the assignment at every return site
	defs        map[string]bool // names the statement itself defines (hoisted before the inlined block)
}

// definedNames lists the identifiers a `:=` statement introduces.
func (st *pkgState) definedNames(as *ast.AssignStmt) map[string]bool {
	if as.Tok != token.DEFINE {
		return nil
	}
	m := map[string]bool{}
	for _, e := range as.Lhs {
		if id, ok := e.(*ast.Ident); ok && id.Name != "_" && st.defOf(id) != nil {
			m[id.Name] = true
		}
	}
	return m
}

// takePre returns (and clears) the declarations an expansion needs ahead of
// the hoisted variables.
func (st *pkgState) takePre() []ast.Stmt { return nil }

func (st *pkgState) inlineOnce(fi *funcInfo, s, next ast.Stmt) (repl []ast.Stmt, usedNext, ok bool) {
	pos := s.Pos()
	blank := func() ast.Expr { return &ast.Ident{NamePos: pos, Name: "_"} }
	// a helper call nested in the arguments (or receiver) of the statement's call is evaluated first:
	// it is hoisted first, the statement is revisited afterwards
	nested := false
	{
		var top *ast.CallExpr
		switch x := s.(type) {
		case *ast.ExprStmt:
			top, _ = x.X.(*ast.CallExpr)
		case *ast.ReturnStmt:
			if len(x.Results) == 1 {
				top, _ = x.Results[0].(*ast.CallExpr)
			}
		case *ast.AssignStmt:
			if len(x.Rhs) == 1 {
				top, _ = x.Rhs[0].(*ast.CallExpr)
			}
		}
		if top != nil {
			if fc := st.firstCall(s); fc != nil && fc != top && st.numResults(fc) == 1 {
				nested = true
			}
		}
	}
	// --- statements that are exactly one call, possibly with an assignment
	switch x := s.(type) {
	case nil:
	case *ast.ExprStmt:
		if nested {
			break
		}
		if call, ok := x.X.(*ast.CallExpr); ok && st.inlinable(call) {
			n := st.numResults(call)
			var lhs []ast.Expr
			for i := 0; i < n; i++ {
				lhs = append(lhs, blank())
			}
			if body, ok := st.expand(fi, call, sink{lhs: lhs}); ok {
				return append(body, &ast.EmptyStmt{Semicolon: pos, Implicit: true}), false, true
			}
			return nil, false, false
		}
	case *ast.ReturnStmt:
		if len(x.Results) == 1 && !nested {
			if call, ok := x.Results[0].(*ast.CallExpr); ok && st.inlinable(call) && st.sameResults(fi, call) && !st.hasDefers(call) {
				if body, ok := st.expand(fi, call, sink{keepReturns: true}); ok {
					return append(body, &ast.EmptyStmt{Semicolon: pos, Implicit: true}), false, true
				}
				return nil, false, false
			}
			if call, ok := x.Results[0].(*ast.CallExpr); ok && st.inlinable(call) && st.numResults(call) > 1 {
				// results through fresh variables
				st.n++
				var pre []ast.Stmt
				var lhs, rets []ast.Expr
				for i := 0; i < st.numResults(call); i++ {
					nm := fmt.Sprintf("_inl%d_r%d", st.n, i)
					d, ok := st.resultVarDecl(call, i, nm, pos)
					if !ok {
						return nil, false, false
					}
					pre = append(pre, d)
					lhs = append(lhs, &ast.Ident{NamePos: pos, Name: nm})
					rets = append(rets, &ast.Ident{NamePos: pos, Name: nm})
				}
				if body, ok := st.expand(fi, call, sink{lhs: lhs}); ok {
					x.Results = rets
					out := append(pre, body...)
					return append(out, x, &ast.EmptyStmt{Semicolon: pos, Implicit: true}), false, true
				}
				return nil, false, false
			}
		}
	case *ast.AssignStmt:
		if len(x.Rhs) == 1 && !nested {
			if call, ok := x.Rhs[0].(*ast.CallExpr); ok && st.inlinable(call) && (x.Tok == token.DEFINE || x.Tok == token.ASSIGN) && simpleLHS(x.Lhs) && len(x.Lhs) == st.numResults(call) {
				pre := st.hoistDefs(x, call)
				sk := sink{lhs: x.Lhs, defs: st.definedNames(x)}
				if is, ok := next.(*ast.IfStmt); ok && terminatingCheck(is) {
					sk.tail = is
				}
				if body, ok := st.expand(fi, call, sk); ok {
					out := append(append(st.takePre(), pre...), body...)
					return append(out, &ast.EmptyStmt{Semicolon: pos, Implicit: true}), sk.tail != nil, true
				}
				return nil, false, false
			}
		}
	case *ast.DeferStmt:
		// `defer h(args)()`: h runs now, what it returns is deferred
		if inner, ok := x.Call.Fun.(*ast.CallExpr); ok && st.inlinable(inner) && st.numResults(inner) == 1 && st.firstCall(&ast.ExprStmt{X: inner}) == inner {
			st.n++
			tmp := fmt.Sprintf("_inl%d_d", st.n)
			decl, okT := st.resultVarDecl(inner, 0, tmp, pos)
			if !okT {
				return nil, false, false
			}
			body, ok := st.expand(fi, inner, sink{lhs: []ast.Expr{&ast.Ident{NamePos: pos, Name: tmp}}})
			if !ok {
				return nil, false, false
			}
			x.Call.Fun = &ast.Ident{NamePos: inner.Pos(), Name: tmp}
			out := append([]ast.Stmt{decl}, body...)
			return append(out, x, &ast.EmptyStmt{Semicolon: pos, Implicit: true}), false, true
		}
	case *ast.IfStmt:
		if as, ok := x.Init.(*ast.AssignStmt); ok && len(as.Rhs) == 1 {
			if call, ok := as.Rhs[0].(*ast.CallExpr); ok && st.inlinable(call) && (as.Tok == token.DEFINE || as.Tok == token.ASSIGN) && simpleLHS(as.Lhs) && len(as.Lhs) == st.numResults(call) {
				pre := st.hoistDefs(as, call)
				rest := &ast.IfStmt{If: x.If, Cond: x.Cond, Body: x.Body, Else: x.Else}
				sk := sink{lhs: as.Lhs, defs: st.definedNames(as)}
				if terminatingCheck(rest) {
					sk.tail = rest
				}
				if body, ok := st.expand(fi, call, sk); ok {
					list := append(append(st.takePre(), pre...), body...)
					if sk.tail == nil {
						list = append(list, rest)
					}
					return []ast.Stmt{&ast.BlockStmt{Lbrace: pos, List: list, Rbrace: s.End()}}, false, true
				}
				return nil, false, false
			}
		}
	}
	// --- a call nested in the statement's expressions, evaluated first: hoist into a fresh variable
	var root ast.Node
	switch x := s.(type) {
	case *ast.ExprStmt, *ast.AssignStmt, *ast.ReturnStmt, *ast.DeclStmt, *ast.SendStmt, *ast.IncDecStmt:
		root = s
	case *ast.IfStmt:
		if x.Init == nil {
			root = x.Cond
		} else {
			root = x.Init
		}
	case *ast.SwitchStmt:
		if x.Init == nil && x.Tag != nil {
			root = x.Tag
		}
	case *ast.RangeStmt:
		root = x.X
	}
	if root == nil {
		return nil, false, false
	}
	call := st.firstCall(root)
	if call == nil || st.numResults(call) != 1 {
		return nil, false, false
	}
	if is, ok := s.(*ast.IfStmt); ok && is.Init != nil {
		// hoisting out of an init statement needs the wrapping block
		st.n++
		tmp := fmt.Sprintf("_inl%d_v", st.n)
		decl, okT := st.resultVarDecl(call, 0, tmp, pos)
		if !okT {
			return nil, false, false
		}
		body, ok := st.expand(fi, call, sink{lhs: []ast.Expr{&ast.Ident{NamePos: pos, Name: tmp}}})
		if !ok {
			return nil, false, false
		}
		if !replaceExpr(is.Init, call, &ast.Ident{NamePos: call.Pos(), Name: tmp}) {
			return nil, false, false
		}
		list := append([]ast.Stmt{decl}, body...)
		list = append(list, s)
		return []ast.Stmt{&ast.BlockStmt{Lbrace: pos, List: list, Rbrace: s.End()}}, false, true
	}
	st.n++
	tmp := fmt.Sprintf("_inl%d_v", st.n)
	decl, okT := st.resultVarDecl(call, 0, tmp, pos)
	if !okT {
		return nil, false, false
	}
	body, ok2 := st.expand(fi, call, sink{lhs: []ast.Expr{&ast.Ident{NamePos: pos, Name: tmp}}})
	if !ok2 {
		return nil, false, false
	}
	if !replaceExpr(s, call, &ast.Ident{NamePos: call.Pos(), Name: tmp}) {
		return nil, false, false
	}
	out := append([]ast.Stmt{decl}, body...)
	return append(out, s), false, true
}

func simpleLHS(lhs []ast.Expr) bool {
	for _, e := range lhs {
		if _, ok := e.(*ast.Ident); !ok {
			return false
		}
	}
	return true
}

func (st *pkgState) inlinable(call *ast.CallExpr) bool {
	callee := st.staticCallee(call)
	if callee == nil {
		return false
	}
	ci := st.cand[callee]
	return ci != nil && ci.ok
}

func (st *pkgState) numResults(call *ast.CallExpr) int {
	callee := st.staticCallee(call)
	if callee == nil {
		return -1
	}
	return callee.Type().(*types.Signature).Results().Len()
}

// sameResults: the callee's result types are identical to the caller's, so a
// `return e` of the callee means the same in the caller.
func (st *pkgState) sameResults(fi *funcInfo, call *ast.CallExpr) bool {
	callee := st.staticCallee(call)
	if callee == nil {
		return false
	}
	ci := st.cand[callee]
	// named results would need the bare-return treatment
	if ci.decl.Type.Results != nil {
		for _, f := range ci.decl.Type.Results.List {
			if len(f.Names) > 0 {
				return false
			}
		}
	}
	// the return statement must belong to the function itself, not a closure
	a := callee.Type().(*types.Signature).Results()
	b := fi.obj.Type().(*types.Signature).Results()
	if a.Len() != b.Len() {
		return false
	}
	for i := 0; i < a.Len(); i++ {
		if !types.Identical(a.At(i).Type(), b.At(i).Type()) {
			return false
		}
	}
	return !st.insideFuncLit(fi, call)
}

// insideFuncLit reports whether n lies inside a function literal of fi.
func (st *pkgState) insideFuncLit(fi *funcInfo, n ast.Node) bool {
	inside := false
	ast.Inspect(fi.decl.Body, func(x ast.Node) bool {
		if fl, ok := x.(*ast.FuncLit); ok {
			ast.Inspect(fl.Body, func(y ast.Node) bool {
				if y == n {
					inside = true
				}
				return !inside
			})
		}
		return !inside
	})
	return inside
}

// resultTypeExpr returns a copy of the type expression of result i of the callee.
func (st *pkgState) resultTypeExpr(call *ast.CallExpr, i int) ast.Expr {
	ci := st.cand[st.staticCallee(call)]
	k := 0
	for _, f := range ci.decl.Type.Results.List {
		n := len(f.Names)
		if n == 0 {
			n = 1
		}
		if i < k+n {
			return st.clone(f.Type).(ast.Expr)
		}
		k += n
	}
	return nil
}

func (st *pkgState) resultVarDecl(call *ast.CallExpr, i int, name string, pos token.Pos) (ast.Stmt, bool) {
	t := st.resultTypeExpr(call, i)
	if t == nil {
		return nil, false
	}
	vs := &ast.ValueSpec{Names: []*ast.Ident{{NamePos: pos, Name: name}}, Type: t}
	return &ast.DeclStmt{Decl: &ast.GenDecl{TokPos: pos, Tok: token.VAR, Specs: []ast.Spec{vs}}}, true
}

// hoistDefs declares, before the inlined block, the variables that the define
// statement as introduces (`x, err := h()`), typed by the callee's results, and
// turns as into a plain assignment for the purposes of the sink.
func (st *pkgState) hoistDefs(as *ast.AssignStmt, call *ast.CallExpr) []ast.Stmt {
	if as.Tok != token.DEFINE {
		return nil
	}
	var pre []ast.Stmt
	for i, e := range as.Lhs {
		id := e.(*ast.Ident)
		if id.Name == "_" {
			continue
		}
		if st.defOf(id) == nil {
			continue // redeclared: plain assignment to the existing variable
		}
		if t := st.resultTypeExpr(call, i); t != nil {
			vs := &ast.ValueSpec{Names: []*ast.Ident{st.alias(id)}, Type: t}
			d := &ast.DeclStmt{Decl: &ast.GenDecl{TokPos: id.Pos(), Tok: token.VAR, Specs: []ast.Spec{vs}}}
			pre = append(pre, d, &ast.AssignStmt{Lhs: []ast.Expr{&ast.Ident{NamePos: id.Pos(), Name: "_"}}, TokPos: id.Pos(), Tok: token.ASSIGN, Rhs: []ast.Expr{st.alias(id)}})
		}
	}
	return pre
}

// firstCall returns the call evaluated first in root if it is a call to an
// inlinable candidate in an unconditional position.
func (st *pkgState) firstCall(root ast.Node) *ast.CallExpr {
	var first *ast.CallExpr
	stop := false
	var walk func(n ast.Node, conditional bool)
	walk = func(n ast.Node, conditional bool) {
		if n == nil || stop || reflect.ValueOf(n).IsNil() {
			return
		}
		switch x := n.(type) {
		case *ast.FuncLit:
			return
		case *ast.BinaryExpr:
			walk(x.X, conditional)
			if x.Op == token.LAND || x.Op == token.LOR {
				walk(x.Y, true)
			} else {
				walk(x.Y, conditional)
			}
			return
		case *ast.CallExpr:
			walk(x.Fun, conditional)
			for _, a := range x.Args {
				walk(a, conditional)
			}
			if stop {
				return
			}
			if st.isRealCall(x) {
				stop = true
				if !conditional && st.inlinable(x) {
					first = x
				}
			}
			return
		case *ast.UnaryExpr:
			if x.Op == token.ARROW {
				walk(x.X, conditional)
				stop = true // a receive is an evaluation event
				return
			}
		}
		children(n, func(c ast.Node) { walk(c, conditional) })
	}
	walk(root, false)
	return first
}

// children calls f for the direct child nodes of n in source order.
func children(n ast.Node, f func(ast.Node)) {
	first := true
	ast.Inspect(n, func(c ast.Node) bool {
		if c == nil {
			return false
		}
		if first {
			first = false
			return true
		}
		f(c)
		return false
	})
}

// isRealCall: not a conversion and not a builtin without side effects.
func (st *pkgState) isRealCall(c *ast.CallExpr) bool {
	oc, ok := st.o(c).(*ast.CallExpr)
	if !ok {
		return true
	}
	if tv, ok := st.info.Types[oc.Fun]; ok {
		if tv.IsType() {
			return false
		}
		if tv.IsBuiltin() {
			if id, ok := oc.Fun.(*ast.Ident); ok {
				switch id.Name {
				case "len", "cap", "new", "make", "min", "max", "real", "imag", "complex":
					return false
				}
			}
			return true
		}
	}
	return true
}

// replaceExpr replaces the expression old by new somewhere below root.
func replaceExpr(root ast.Node, old, new ast.Expr) bool {
	done := false
	astutil.Apply(root, func(c *astutil.Cursor) bool {
		if done {
			return false
		}
		if c.Node() == ast.Node(old) {
			c.Replace(new)
			done = true
			return false
		}
		if _, ok := c.Node().(*ast.FuncLit); ok {
			return false
		}
		return true
	}, nil)
	return done
}

// expand builds the statements that execute call by the callee's body.
func (st *pkgState) expand(fi *funcInfo, call *ast.CallExpr, sk sink) ([]ast.Stmt, bool) {
	callee := st.staticCallee(call)
	ci := st.cand[callee]
	st.preDecls = nil
	if ci == nil || !ci.ok {
		return nil, false
	}
	decline := func(why string) ([]ast.Stmt, bool) {
		st.preDecls = nil
		st.res.Declined = append(st.res.Declined, fmt.Sprintf("%s at %s: %s", callee.FullName(), fi.obj.FullName(), why))
		return nil, false
	}
	if ci.obj == fi.obj {
		return decline("self call")
	}
	fd := ci.decl
	type param struct {
		id  *ast.Ident // nil: unnamed
		typ ast.Expr
	}
	var params []param
	if fd.Type.Params != nil {
		for _, f := range fd.Type.Params.List {
			if len(f.Names) == 0 {
				params = append(params, param{nil, f.Type})
			}
			for _, nm := range f.Names {
				params = append(params, param{nm, f.Type})
			}
		}
	}
	if len(params) != len(call.Args) || call.Ellipsis.IsValid() {
		return decline("argument count / spread")
	}
	ocall, isOrig := st.o(call).(*ast.CallExpr)
	if !isOrig || ocall == nil {
		return decline("call site not in original code")
	}
	callPos := ocall.Pos()
	scope := st.pkg.Types.Scope().Innermost(callPos)
	if scope == nil {
		return decline("no scope at call site")
	}
	file := fi.file
	// ---- capture check: identifiers of the callee that denote package-level or
	// universe objects (or imported packages) must denote the same at the call site
	captureErr := ""
	shadowedTypes := map[*types.TypeName]*ast.Ident{}
	var topScope *types.Scope
	var topPos token.Pos
	if ofd, ok := st.o(fi.decl).(*ast.FuncDecl); ok && ofd.Body != nil {
		topPos = ofd.Body.Lbrace + 1
		topScope = st.pkg.Types.Scope().Innermost(topPos)
	}
	needImport := map[string]string{}
	check := func(n ast.Node) {
		if n == nil || reflect.ValueOf(n).IsNil() {
			return
		}
		ast.Inspect(n, func(x ast.Node) bool {
			id, ok := x.(*ast.Ident)
			if !ok || captureErr != "" {
				return true
			}
			obj := st.useOf(id)
			if obj == nil {
				return true
			}
			switch ob := obj.(type) {
			case *types.PkgName:
				_, found := scope.LookupParent(id.Name, callPos)
				if found == nil {
					if st.pkg.Types.Scope().Lookup(id.Name) != nil {
						captureErr = "package name " + id.Name + " collides with a package-level declaration"
						return true
					}
					if !fileImports(file, id.Name, ob.Imported().Path()) {
						needImport[id.Name] = ob.Imported().Path()
					}
					return true
				}
				if pn, ok := found.(*types.PkgName); !ok || pn.Imported().Path() != ob.Imported().Path() {
					captureErr = "identifier " + id.Name + " means something else at the call site"
				}
			default:
				par := obj.Parent()
				if par == nil {
					return true // field or method
				}
				if par != st.pkg.Types.Scope() && par != types.Universe {
					return true // local of the callee (renamed below)
				}
				_, found := scope.LookupParent(id.Name, callPos)
				if found != obj || sk.defs[id.Name] {
					// shadowed at the call site (or about to be, by a variable the replaced statement
					// defines). A type can still be reached through an alias declared at the top of
					// the calling function, where the name has its package-level meaning.
					tn, isType := obj.(*types.TypeName)
					if isType && topScope != nil {
						if _, atTop := topScope.LookupParent(id.Name, topPos); atTop == obj {
							if _, seen := shadowedTypes[tn]; !seen {
								if oi, ok := st.o(id).(*ast.Ident); ok {
									shadowedTypes[tn] = oi
								}
							}
							return true
						}
					}
					captureErr = "identifier " + id.Name + " means something else at the call site"
				}
			}
			return true
		})
	}
	check(fd.Type)
	check(fd.Recv)
	check(fd.Body)
	if captureErr != "" {
		return decline(captureErr)
	}
	st.n++
	k := st.n
	suffix := fmt.Sprintf("_inl%d", k)
	pos := call.Pos()
	ident := func(name string) *ast.Ident { return &ast.Ident{NamePos: pos, Name: name} }
	// ---- a private copy of the declaration, alpha-renamed: every object declared
	// by the callee (receiver, parameters, results, locals, local types, labels)
	// gets a name that exists nowhere else
	cp := st.clone(fd).(*ast.FuncDecl)
	isLocal := func(obj types.Object) bool {
		if obj == nil || obj.Pkg() != st.pkg.Types {
			return false
		}
		par := obj.Parent()
		if par == nil || par == st.pkg.Types.Scope() || par == types.Universe {
			return false
		}
		switch obj.(type) {
		case *types.Var, *types.Const, *types.TypeName, *types.Func:
			return true
		}
		return false
	}
	labels := map[string]bool{}
	ast.Inspect(cp.Body, func(x ast.Node) bool {
		if ls, ok := x.(*ast.LabeledStmt); ok {
			labels[ls.Label.Name] = true
		}
		return true
	})
	labelIdents := map[*ast.Ident]bool{}
	ast.Inspect(cp.Body, func(x ast.Node) bool {
		switch y := x.(type) {
		case *ast.LabeledStmt:
			labelIdents[y.Label] = true
		case *ast.BranchStmt:
			if y.Label != nil {
				labelIdents[y.Label] = true
			}
		}
		return true
	})
	ast.Inspect(cp, func(x ast.Node) bool {
		id, ok := x.(*ast.Ident)
		if !ok || id.Name == "_" {
			return true
		}
		if labelIdents[id] {
			if labels[id.Name] {
				id.Name += suffix
			}
			return true
		}
		obj := st.defOf(id)
		if obj == nil {
			obj = st.useOf(id)
		}
		if isLocal(obj) {
			id.Name += suffix
		} else if tn, ok := obj.(*types.TypeName); ok && shadowedTypes[tn] != nil {
			id.Name += "_t" + suffix
			delete(st.orig, id)
		}
		return true
	})
	for tn, oi := range shadowedTypes {
		rhs := ident(tn.Name())
		st.orig[rhs] = oi // so that a further expansion of this body sees what the name means
		ts := &ast.TypeSpec{Name: ident(tn.Name() + "_t" + suffix), Assign: pos, Type: rhs}
		st.preDecls = append(st.preDecls, &ast.DeclStmt{Decl: &ast.GenDecl{TokPos: pos, Tok: token.TYPE, Specs: []ast.Spec{ts}}})
	}
	// re-read the renamed signature
	var rparams []param
	if cp.Type.Params != nil {
		for _, f := range cp.Type.Params.List {
			if len(f.Names) == 0 {
				rparams = append(rparams, param{nil, f.Type})
			}
			for _, nm := range f.Names {
				rparams = append(rparams, param{nm, f.Type})
			}
		}
	}
	type result struct {
		name string
		typ  ast.Expr
		id   *ast.Ident
	}
	var results []result
	if cp.Type.Results != nil {
		for _, f := range cp.Type.Results.List {
			if len(f.Names) == 0 {
				results = append(results, result{"", f.Type, nil})
			}
			for _, nm := range f.Names {
				results = append(results, result{nm.Name, f.Type, nm})
			}
		}
	}
	if !sk.keepReturns && len(sk.lhs) != len(results) {
		return decline("result count")
	}
	varDecl := func(name string, typ ast.Expr, val ast.Expr) ast.Stmt {
		vs := &ast.ValueSpec{Names: []*ast.Ident{ident(name)}, Type: typ}
		if val != nil {
			vs.Values = []ast.Expr{val}
		}
		return &ast.DeclStmt{Decl: &ast.GenDecl{TokPos: pos, Tok: token.VAR, Specs: []ast.Spec{vs}}}
	}
	var inner []ast.Stmt
	// declarations reuse the (renamed) identifier nodes of the copied signature,
	// so that they are renamed together with their uses if this body is inlined again
	bind := func(id *ast.Ident, typ ast.Expr, val ast.Expr) {
		if id == nil || id.Name == "_" {
			inner = append(inner, varDecl("_", typ, val))
			return
		}
		vs := &ast.ValueSpec{Names: []*ast.Ident{id}, Type: typ}
		if val != nil {
			vs.Values = []ast.Expr{val}
		}
		inner = append(inner, &ast.DeclStmt{Decl: &ast.GenDecl{TokPos: pos, Tok: token.VAR, Specs: []ast.Spec{vs}}})
		inner = append(inner, &ast.AssignStmt{Lhs: []ast.Expr{ident("_")}, TokPos: pos, Tok: token.ASSIGN, Rhs: []ast.Expr{st.alias(id)}})
	}
	// ---- receiver and arguments, evaluated in order
	if cp.Recv != nil && len(cp.Recv.List) == 1 {
		sel, ok := call.Fun.(*ast.SelectorExpr)
		if !ok {
			return decline("method called without selector")
		}
		recvType := cp.Recv.List[0].Type
		var rv ast.Expr = sel.X
		_, recvIsPtr := recvType.(*ast.StarExpr)
		xt := st.typeOf(sel.X)
		if xt == nil {
			return decline("receiver type unknown")
		}
		// a method promoted from an embedded field: spell the path to the field out
		if osel, ok := st.o(sel).(*ast.SelectorExpr); ok {
			if selection := st.info.Selections[osel]; selection != nil && len(selection.Index()) > 1 {
				t := xt
				for _, idx := range selection.Index()[:len(selection.Index())-1] {
					if pt, ok := t.Underlying().(*types.Pointer); ok {
						t = pt.Elem()
					}
					stt, ok := t.Underlying().(*types.Struct)
					if !ok || idx >= stt.NumFields() {
						return decline("promoted method through a non-struct")
					}
					f := stt.Field(idx)
					if !f.Exported() && f.Pkg() != st.pkg.Types {
						return decline("promoted through an unexported field of another package")
					}
					rv = &ast.SelectorExpr{X: rv, Sel: ident(f.Name())}
					t = f.Type()
				}
				xt = t
			}
		}
		_, xIsPtr := xt.Underlying().(*types.Pointer)
		switch {
		case recvIsPtr && !xIsPtr:
			rv = &ast.UnaryExpr{OpPos: pos, Op: token.AND, X: rv}
		case !recvIsPtr && xIsPtr:
			rv = &ast.StarExpr{Star: pos, X: rv}
		}
		var rid *ast.Ident
		if len(cp.Recv.List[0].Names) == 1 {
			rid = cp.Recv.List[0].Names[0]
		}
		bind(rid, recvType, rv)
	}
	for i, p := range rparams {
		bind(p.id, st.clone(p.typ).(ast.Expr), call.Args[i])
	}
	named := false
	if cp.Type.Results != nil {
		for _, f := range cp.Type.Results.List {
			for _, nm := range f.Names {
				if nm.Name != "_" {
					named = true
					bind(nm, st.clone(f.Type).(ast.Expr), nil)
				}
			}
		}
	}
	// deferred calls of the callee (only the modelled kind reaches this point): each runs at the
	// return sites that lie after its defer statement (deferredAt[i] = the calls registered
	// before top-level statement i of the remaining body)
	var deferredAt [][]*ast.CallExpr
	anyDefer := false
	{
		var keep []ast.Stmt
		var cur []*ast.CallExpr
		for _, s := range cp.Body.List {
			if d, ok := s.(*ast.DeferStmt); ok {
				cur = append(append([]*ast.CallExpr(nil), cur...), d.Call)
				anyDefer = true
				continue
			}
			keep = append(keep, s)
			deferredAt = append(deferredAt, cur)
		}
		deferredAt = append(deferredAt, cur) // falling off the end
		cp.Body.List = keep
	}
	if sk.keepReturns && anyDefer {
		return decline("deferred calls in tail position")
	}
	var deferred []*ast.CallExpr // the set in force for the statement being rewritten
	if sk.keepReturns {
		if named {
			return decline("named results in tail position")
		}
		inner = append(inner, cp.Body.List...)
		if len(needImport) > 0 {
			st.noteImports(file, needImport)
		}
		st.noteInlined(callee, fi, call)
		fi.topDecls = append(fi.topDecls, st.preDecls...)
		st.preDecls = nil
		fi.topDecls = append(fi.topDecls, st.preDecls...)
		st.preDecls = nil
		return []ast.Stmt{&ast.BlockStmt{Lbrace: pos, List: inner, Rbrace: pos}}, true
	}
	// ---- body with every return turned into: assign; [check]; leave
	label := "_L" + suffix
	body := cp.Body
	assignTo := func(at token.Pos, rhs []ast.Expr) ast.Stmt {
		var lhs []ast.Expr
		for _, e := range sk.lhs {
			lhs = append(lhs, st.clone(e).(ast.Expr))
		}
		return &ast.AssignStmt{Lhs: lhs, TokPos: at, Tok: token.ASSIGN, Rhs: rhs}
	}
	leave := func(at token.Pos, rhs []ast.Expr) *ast.BlockStmt {
		var ss []ast.Stmt
		if len(results) > 0 && rhs != nil {
			allBlank := true
			for _, e := range sk.lhs {
				if id, ok := e.(*ast.Ident); !ok || id.Name != "_" {
					allBlank = false
				}
			}
			if allBlank && len(rhs) != len(sk.lhs) {
				// `_, _ = f()` keeps the evaluation
				ss = append(ss, assignTo(at, rhs))
			} else {
				ss = append(ss, assignTo(at, rhs))
			}
		}
		for i := len(deferred) - 1; i >= 0; i-- {
			dc := st.clone(deferred[i]).(*ast.CallExpr)
			if st.res.DeferSites == nil {
				st.res.DeferSites = map[token.Pos]bool{}
			}
			st.res.DeferSites[dc.Lparen] = true
			ss = append(ss, &ast.ExprStmt{X: dc})
		}
		if sk.tail != nil {
			ss = append(ss, st.clone(sk.tail).(*ast.IfStmt))
		}
		ss = append(ss, &ast.BranchStmt{TokPos: at, Tok: token.BREAK, Label: ident(label)})
		return &ast.BlockStmt{Lbrace: at, List: ss, Rbrace: at}
	}
	for si := range body.List {
		deferred = deferredAt[si]
		// a wrapper block gives every statement (also a top-level return) a parent to be replaced in
		wrap := &ast.BlockStmt{List: []ast.Stmt{body.List[si]}}
		astutil.Apply(wrap, func(c *astutil.Cursor) bool {
			switch x := c.Node().(type) {
			case *ast.FuncLit:
				return false
			case *ast.ReturnStmt:
				var rhs []ast.Expr
				switch {
				case len(results) == 0:
				case len(x.Results) == 0:
					for _, r := range results {
						if r.name == "" || r.name == "_" {
							rhs = nil
							break
						}
						rhs = append(rhs, st.alias(r.id))
					}
				default:
					rhs = x.Results
				}
				c.Replace(leave(x.Pos(), rhs))
				return false
			}
			return true
		}, nil)
		body.List[si] = wrap.List[0]
	}
	deferred = deferredAt[len(deferredAt)-1]
	if len(results) == 0 {
		body.List = append(body.List, leave(pos, nil).List...)
	} else {
		body.List = append(body.List, &ast.BranchStmt{TokPos: pos, Tok: token.BREAK, Label: ident(label)})
	}
	loop := &ast.LabeledStmt{Label: ident(label), Colon: pos, Stmt: &ast.ForStmt{For: pos, Body: body}}
	inner = append(inner, loop)
	if len(needImport) > 0 {
		st.noteImports(file, needImport)
	}
	st.noteInlined(callee, fi, call)
	fi.topDecls = append(fi.topDecls, st.preDecls...)
	st.preDecls = nil
	return []ast.Stmt{&ast.BlockStmt{Lbrace: pos, List: inner, Rbrace: pos}}, true
}

func (st *pkgState) noteImports(file *ast.File, m map[string]string) {
	if st.addImports[file] == nil {
		st.addImports[file] = map[string]string{}
	}
	for n, p := range m {
		st.addImports[file][n] = p
	}
}

func (st *pkgState) noteInlined(callee *types.Func, fi *funcInfo, call *ast.CallExpr) {
	if st.res.CallSites == nil {
		st.res.CallSites = map[token.Pos]string{}
	}
	st.res.CallSites[call.Lparen] = callee.FullName()
	st.changed = true
	st.inlinedSites[callee]++
	st.res.Inlined = append(st.res.Inlined, callee.FullName()+" into "+fi.obj.FullName())
}

// alias returns a new identifier standing for the same object as id (it is
// renamed together with id when the enclosing body is inlined elsewhere).
func (st *pkgState) alias(id *ast.Ident) *ast.Ident {
	n := &ast.Ident{NamePos: id.Pos(), Name: id.Name}
	st.orig[n] = st.o(id)
	return n
}

func (st *pkgState) hasDefers(call *ast.CallExpr) bool {
	ci := st.cand[st.staticCallee(call)]
	if ci == nil {
		return false
	}
	for _, s := range ci.decl.Body.List {
		if _, ok := s.(*ast.DeferStmt); ok {
			return true
		}
	}
	return false
}
