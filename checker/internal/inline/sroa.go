package inline

import (
	"fmt"
	"go/ast"
	"go/token"
	"go/types"
	"os"
	"sort"

	"golang.org/x/tools/go/ast/astutil"
)

// astReplace replaces every expression e below root for which f returns a
// non-nil expression by that expression (children of a replaced node are not
// visited).
func astReplace(root ast.Node, f func(ast.Expr) ast.Expr) {
	astutil.Apply(root, func(c *astutil.Cursor) bool {
		e, ok := c.Node().(ast.Expr)
		if !ok {
			return true
		}
		if n := f(e); n != nil {
			c.Replace(n)
			return false
		}
		return true
	}, nil)
}

// Scalar replacement of local struct variables, at source level, before the
// SSA form is built.
//
// A local variable of struct type whose every use is a field selection, a
// whole-value assignment from/to another such variable (or from any
// expression), or `&v` bound once to a pointer variable that is itself only
// used for field selections, is replaced by one variable per field. After the
// helper expansion of this package that is what a "parameter object" is
// (`req := putRequest{bucket: b, ...}; store(&req)`): the fields become plain
// locals again, go/ssa lifts them to registers with phis at the joins, and
// every rule that follows values sees the same program it would see had the
// values been passed one by one. Behaviour is unchanged: a struct variable
// whose address does not escape is exactly the tuple of its fields.

type sroaState struct {
	info  *types.Info
	orig  map[ast.Node]ast.Node // clone -> node known to info
	pkg   *types.Package
	names map[string]bool // identifiers used anywhere in the function (collision check)
	res   *Result
}

func (s *sroaState) o(n ast.Node) ast.Node {
	if x, ok := s.orig[n]; ok {
		return x
	}
	return n
}

func (s *sroaState) objOf(id *ast.Ident) types.Object {
	oi, ok := s.o(id).(*ast.Ident)
	if !ok {
		return nil
	}
	if ob := s.info.Uses[oi]; ob != nil {
		return ob
	}
	return s.info.Defs[oi]
}

func (s *sroaState) selection(se *ast.SelectorExpr) *types.Selection {
	if ose, ok := s.o(se).(*ast.SelectorExpr); ok {
		return s.info.Selections[ose]
	}
	return nil
}

func (s *sroaState) typeOf(e ast.Expr) types.Type {
	if oe, ok := s.o(e).(ast.Expr); ok {
		if tv, ok := s.info.Types[oe]; ok {
			return tv.Type
		}
	}
	return nil
}

// sroaFiles transforms the function bodies of the (already cloned) files in
// place and reports how many variables were replaced.
func sroaFiles(files []*ast.File, info *types.Info, orig map[ast.Node]ast.Node, pkg *types.Package, res *Result) int {
	n := 0
	for _, f := range files {
		for _, d := range f.Decls {
			fd, ok := d.(*ast.FuncDecl)
			if !ok || fd.Body == nil {
				continue
			}
			s := &sroaState{info: info, orig: orig, pkg: pkg, res: res}
			k := s.function(fd)
			if k > 0 {
				name := fd.Name.Name
				if ob, ok := s.objOf(fd.Name).(*types.Func); ok {
					name = ob.FullName()
				}
				res.Scalarised = append(res.Scalarised, fmt.Sprintf("%s: %d struct variable(s)", name, k))
			}
			n += k
		}
	}
	sort.Strings(res.Scalarised)
	return n
}

type sroaVar struct {
	obj    *types.Var
	st     *types.Struct
	fields []string          // field names in declaration order
	fname  map[string]string // field -> replacement variable name
	isPtr  bool              // alias: *T variable bound once to &root / another alias
	target *types.Var        // alias: what it is bound to (struct var or alias)
	bad    string
}

type useCtx struct {
	id      *ast.Ident
	parent  ast.Node
	gparent ast.Node
	list    *[]ast.Stmt // statement list holding the enclosing statement, when it is a direct element
	stmt    ast.Stmt    // that statement
}

func (s *sroaState) function(fd *ast.FuncDecl) int {
	// ---- parents, statement lists, names
	parent := map[ast.Node]ast.Node{}
	inList := map[ast.Stmt]bool{} // statements that are direct elements of a block / clause list
	s.names = map[string]bool{}
	var stack []ast.Node
	ast.Inspect(fd, func(n ast.Node) bool {
		if n == nil {
			stack = stack[:len(stack)-1]
			return true
		}
		if len(stack) > 0 {
			parent[n] = stack[len(stack)-1]
		}
		stack = append(stack, n)
		switch x := n.(type) {
		case *ast.Ident:
			s.names[x.Name] = true
		case *ast.BlockStmt:
			for _, st := range x.List {
				inList[st] = true
			}
		case *ast.CaseClause:
			for _, st := range x.Body {
				inList[st] = true
			}
		case *ast.CommClause:
			for _, st := range x.Body {
				inList[st] = true
			}
		}
		return true
	})
	// ---- candidates: local variables of struct type / pointer to struct, declared in this function's body
	vars := map[*types.Var]*sroaVar{}
	isParam := map[*types.Var]bool{}
	markParams := func(fl *ast.FieldList) {
		if fl == nil {
			return
		}
		for _, f := range fl.List {
			for _, nm := range f.Names {
				if v, ok := s.objOf(nm).(*types.Var); ok {
					isParam[v] = true
				}
			}
		}
	}
	markParams(fd.Recv)
	markParams(fd.Type.Params)
	markParams(fd.Type.Results)
	ast.Inspect(fd.Body, func(n ast.Node) bool {
		if fl, ok := n.(*ast.FuncLit); ok {
			markParams(fl.Type.Params)
			markParams(fl.Type.Results)
		}
		return true
	})
	structOf := func(t types.Type) *types.Struct {
		st, _ := t.Underlying().(*types.Struct)
		return st
	}
	ast.Inspect(fd.Body, func(n ast.Node) bool {
		id, ok := n.(*ast.Ident)
		if !ok {
			return true
		}
		oi, ok := s.o(id).(*ast.Ident)
		if !ok {
			return true
		}
		v, ok := s.info.Defs[oi].(*types.Var)
		if !ok || v.IsField() || isParam[v] || id.Name == "_" {
			return true
		}
		if st := structOf(v.Type()); st != nil && st.NumFields() > 0 {
			sv := &sroaVar{obj: v, st: st, fname: map[string]string{}}
			for i := 0; i < st.NumFields(); i++ {
				f := st.Field(i)
				if !f.Exported() && f.Pkg() != s.pkg {
					sv.bad = "unexported field of another package"
				}
				if f.Name() == "_" {
					sv.bad = "blank field"
				}
				sv.fields = append(sv.fields, f.Name())
			}
			vars[v] = sv
		} else if pt, ok := v.Type().Underlying().(*types.Pointer); ok {
			if st := structOf(pt.Elem()); st != nil && st.NumFields() > 0 {
				vars[v] = &sroaVar{obj: v, st: st, isPtr: true}
			}
		}
		return true
	})
	if len(vars) == 0 {
		return 0
	}
	// ---- classify every occurrence
	type occ struct {
		id *ast.Ident
		v  *sroaVar
	}
	var occs []occ
	ast.Inspect(fd.Body, func(n ast.Node) bool {
		id, ok := n.(*ast.Ident)
		if !ok {
			return true
		}
		if v, ok := s.objOf(id).(*types.Var); ok {
			if sv := vars[v]; sv != nil {
				occs = append(occs, occ{id, sv})
			}
		}
		return true
	})
	candidate := func(e ast.Expr) *sroaVar {
		if id, ok := e.(*ast.Ident); ok {
			if v, ok := s.objOf(id).(*types.Var); ok {
				if sv := vars[v]; sv != nil && sv.bad == "" {
					return sv
				}
			}
		}
		return nil
	}
	// position of e among the expressions of a 1:1 assignment / value spec: the counterpart on the other side
	counterpart := func(e ast.Expr, p ast.Node) (other ast.Expr, isLHS bool, stmt ast.Stmt, ok bool) {
		switch x := p.(type) {
		case *ast.AssignStmt:
			if x.Tok != token.ASSIGN && x.Tok != token.DEFINE {
				return nil, false, nil, false
			}
			for i, l := range x.Lhs {
				if l == e {
					if len(x.Lhs) == len(x.Rhs) {
						return x.Rhs[i], true, x, true
					}
					return nil, true, x, true // multi-value call
				}
			}
			for i, r := range x.Rhs {
				if r == e && len(x.Lhs) == len(x.Rhs) {
					return x.Lhs[i], false, x, true
				}
			}
		case *ast.ValueSpec:
			gd, _ := parent[x].(*ast.GenDecl)
			ds, _ := parent[gd].(*ast.DeclStmt)
			if gd == nil || ds == nil || gd.Tok != token.VAR || len(gd.Specs) != 1 {
				return nil, false, nil, false
			}
			for i, nm := range x.Names {
				if ast.Expr(nm) == e {
					switch {
					case len(x.Values) == 0:
						return nil, true, ds, true
					case len(x.Values) == len(x.Names):
						return x.Values[i], true, ds, true
					}
					return nil, true, ds, true
				}
			}
			for i, val := range x.Values {
				if val == e && len(x.Values) == len(x.Names) {
					return x.Names[i], false, ds, true
				}
			}
		}
		return nil, false, nil, false
	}
	defs := map[*sroaVar]int{} // alias: number of definitions/assignments
	for changed := true; changed; {
		changed = false
		for k := range defs {
			delete(defs, k)
		}
		for _, oc := range occs {
			sv := oc.v
			if sv.bad != "" {
				continue
			}
			fail := func(why string) {
				sv.bad = why
				changed = true
			}
			p := parent[oc.id]
			// field selection
			if se, ok := p.(*ast.SelectorExpr); ok && se.X == ast.Expr(oc.id) {
				sel := s.selection(se)
				if sel == nil || sel.Kind() != types.FieldVal || len(sel.Index()) != 1 {
					fail("method call or promoted field " + se.Sel.Name)
				}
				continue
			}
			if sv.isPtr {
				// alias: defined exactly once as &root / another alias; nothing else
				other, isLHS, stmt, ok := counterpart(oc.id, p)
				switch {
				case ok && isLHS:
					defs[sv]++
					if !inList[stmt] || other == nil {
						fail("alias defined in an unsupported position")
						continue
					}
					var tgt *sroaVar
					if ue, ok := other.(*ast.UnaryExpr); ok && ue.Op == token.AND {
						tgt = candidate(ue.X)
						if tgt != nil && tgt.isPtr {
							tgt = nil
						}
					} else if t := candidate(other); t != nil && t.isPtr {
						tgt = t
					}
					if tgt == nil {
						fail("alias bound to something else")
						continue
					}
					sv.target = tgt.obj
				case ok && !isLHS:
					// initialises another alias (or is discarded)
					if b, isB := other.(*ast.Ident); isB && b.Name == "_" {
						continue
					}
					if o := candidate(other); o == nil || !o.isPtr {
						fail("pointer copied somewhere")
					}
				default:
					if as, ok := p.(*ast.AssignStmt); ok && len(as.Lhs) == 1 && len(as.Rhs) == 1 && as.Rhs[0] == ast.Expr(oc.id) {
						if b, ok := as.Lhs[0].(*ast.Ident); ok && b.Name == "_" {
							continue
						}
					}
					fail("pointer used as a value")
				}
				continue
			}
			// struct variable
			if ue, ok := p.(*ast.UnaryExpr); ok && ue.Op == token.AND {
				other, isLHS, _, ok := counterpart(ue, parent[ue])
				if o := candidate(other); !ok || isLHS || o == nil || !o.isPtr {
					fail("address taken")
				}
				continue
			}
			other, isLHS, stmt, ok := counterpart(oc.id, p)
			switch {
			case ok && isLHS:
				if !inList[stmt] {
					fail("assigned in a statement header")
				}
				if as, isAs := stmt.(*ast.AssignStmt); isAs && as.Tok == token.DEFINE && other == nil {
					// `v, err := f()`: fine (copied out afterwards)
					_ = as
				}
			case ok && !isLHS:
				if b, isB := other.(*ast.Ident); isB && b.Name == "_" {
					continue
				}
				if o := candidate(other); o == nil || o.isPtr || !types.Identical(o.st, sv.st) {
					fail("whole value used")
				}
			default:
				fail("whole value used")
			}
		}
		for v, sv := range vars {
			_ = v
			if sv.bad == "" && sv.isPtr && defs[sv] != 1 {
				sv.bad = "alias not defined exactly once"
				changed = true
			}
		}
	}
	// resolve aliases to their roots
	root := func(sv *sroaVar) *sroaVar {
		for i := 0; i < 10 && sv != nil && sv.isPtr; i++ {
			if sv.target == nil {
				return nil
			}
			sv = vars[sv.target]
			if sv != nil && sv.bad != "" {
				return nil
			}
		}
		return sv
	}
	for changed := true; changed; {
		changed = false
		for _, sv := range vars {
			if sv.bad == "" && sv.isPtr && root(sv) == nil {
				sv.bad = "alias of a variable that is not replaced"
				changed = true
			}
		}
		// a struct whose address went to an alias that is not replaced is not replaced either: re-run the
		// address-taken test
		for _, oc := range occs {
			if oc.v.bad != "" || oc.v.isPtr {
				continue
			}
			if ue, ok := parent[oc.id].(*ast.UnaryExpr); ok && ue.Op == token.AND {
				other, _, _, _ := counterpart(ue, parent[ue])
				if o := candidate(other); o == nil {
					oc.v.bad = "address taken"
					changed = true
				}
			}
			if other, isLHS, _, ok := counterpart(oc.id, parent[oc.id]); ok && !isLHS {
				if b, isB := other.(*ast.Ident); isB && b.Name == "_" {
					continue
				}
				if o := candidate(other); o == nil {
					oc.v.bad = "whole value used"
					changed = true
				}
			}
		}
	}
	n := 0
	if os.Getenv("GFS3_DEBUG_SROA") != "" {
		for _, sv := range vars {
			if sv.bad != "" {
				fmt.Fprintf(os.Stderr, "sroa: %s.%s not replaced: %s\n", fd.Name.Name, sv.obj.Name(), sv.bad)
			}
		}
	}
	for _, sv := range vars {
		if sv.bad != "" || sv.isPtr {
			continue
		}
		n++
		for _, f := range sv.fields {
			nm := sv.obj.Name() + "__" + f
			for s.names[nm] {
				nm += "_"
			}
			s.names[nm] = true
			sv.fname[f] = nm
		}
	}
	if n == 0 {
		return 0
	}
	// ---- rewrite
	good := func(e ast.Expr) *sroaVar {
		sv := candidate(e)
		if sv == nil {
			return nil
		}
		if sv.isPtr {
			return nil
		}
		return sv
	}
	fieldIdent := func(sv *sroaVar, f string, pos token.Pos) *ast.Ident {
		return &ast.Ident{NamePos: pos, Name: sv.fname[f]}
	}
	// selections first (on the whole body)
	replaceSelectors := func(root ast.Node) {
		astReplace(root, func(e ast.Expr) ast.Expr {
			se, ok := e.(*ast.SelectorExpr)
			if !ok {
				return nil
			}
			sv := candidate(se.X)
			if sv == nil {
				return nil
			}
			if sv.isPtr {
				sv = root0(sv, vars)
				if sv == nil {
					return nil
				}
			}
			if _, ok := sv.fname[se.Sel.Name]; !ok {
				return nil
			}
			return fieldIdent(sv, se.Sel.Name, se.Pos())
		})
	}
	replaceSelectors(fd.Body)
	// per-field expressions of a right-hand side, or nil for the general path
	hasCall := func(e ast.Expr) bool {
		found := false
		ast.Inspect(e, func(n ast.Node) bool {
			if _, ok := n.(*ast.CallExpr); ok {
				found = true
			}
			if _, ok := n.(*ast.UnaryExpr); ok && n.(*ast.UnaryExpr).Op == token.ARROW {
				found = true
			}
			return !found
		})
		return found
	}
	fieldExprs := func(sv *sroaVar, rhs ast.Expr) (names []string, exprs []ast.Expr) {
		if rhs == nil {
			return nil, nil
		}
		if w := good(rhs); w != nil && types.Identical(w.st, sv.st) {
			for _, f := range sv.fields {
				names = append(names, f)
				exprs = append(exprs, fieldIdent(w, f, rhs.Pos()))
			}
			return
		}
		cl, ok := rhs.(*ast.CompositeLit)
		if !ok || cl.Type == nil {
			return nil, nil
		}
		if t := s.typeOf(cl); t == nil || !types.Identical(t, sv.obj.Type()) {
			return nil, nil
		}
		seen := map[string]bool{}
		keyed := len(cl.Elts) > 0
		for _, el := range cl.Elts {
			if _, ok := el.(*ast.KeyValueExpr); !ok {
				keyed = false
			}
		}
		switch {
		case keyed:
			for _, el := range cl.Elts {
				kv := el.(*ast.KeyValueExpr)
				k, ok := kv.Key.(*ast.Ident)
				if !ok || sv.fname[k.Name] == "" || seen[k.Name] {
					return nil, nil
				}
				seen[k.Name] = true
				names = append(names, k.Name)
				exprs = append(exprs, kv.Value)
			}
		case len(cl.Elts) == len(sv.fields):
			for i, el := range cl.Elts {
				seen[sv.fields[i]] = true
				names = append(names, sv.fields[i])
				exprs = append(exprs, el)
			}
		case len(cl.Elts) != 0:
			return nil, nil
		}
		for _, f := range sv.fields {
			if !seen[f] {
				// the zero value of the field, spelled through the literal's own type
				zero := &ast.SelectorExpr{X: &ast.ParenExpr{Lparen: rhs.Pos(), X: &ast.CompositeLit{Type: cl.Type, Lbrace: rhs.Pos(), Rbrace: rhs.Pos()}, Rparen: rhs.Pos()}, Sel: &ast.Ident{NamePos: rhs.Pos(), Name: f}}
				names = append(names, f)
				exprs = append(exprs, zero)
			}
		}
		return
	}
	_ = hasCall
	copyOut := func(sv *sroaVar, pos token.Pos, define bool) []ast.Stmt {
		// v__f1, v__f2 = v.f1, v.f2   (or the declaring form)
		var out []ast.Stmt
		if define {
			for _, f := range sv.fields {
				vs := &ast.ValueSpec{Names: []*ast.Ident{fieldIdent(sv, f, pos)}, Values: []ast.Expr{&ast.SelectorExpr{X: &ast.Ident{NamePos: pos, Name: sv.obj.Name()}, Sel: &ast.Ident{NamePos: pos, Name: f}}}}
				out = append(out, &ast.DeclStmt{Decl: &ast.GenDecl{TokPos: pos, Tok: token.VAR, Specs: []ast.Spec{vs}}})
				out = append(out, &ast.AssignStmt{Lhs: []ast.Expr{&ast.Ident{NamePos: pos, Name: "_"}}, TokPos: pos, Tok: token.ASSIGN, Rhs: []ast.Expr{fieldIdent(sv, f, pos)}})
			}
			return out
		}
		as := &ast.AssignStmt{TokPos: pos, Tok: token.ASSIGN}
		for _, f := range sv.fields {
			as.Lhs = append(as.Lhs, fieldIdent(sv, f, pos))
			as.Rhs = append(as.Rhs, &ast.SelectorExpr{X: &ast.Ident{NamePos: pos, Name: sv.obj.Name()}, Sel: &ast.Ident{NamePos: pos, Name: f}})
		}
		return []ast.Stmt{as}
	}
	declares := func(id *ast.Ident, sv *sroaVar) bool {
		oi, ok := s.o(id).(*ast.Ident)
		return ok && s.info.Defs[oi] == types.Object(sv.obj)
	}
	var rewriteList func(list []ast.Stmt) []ast.Stmt
	rewriteStmt := func(st ast.Stmt) []ast.Stmt {
		switch x := st.(type) {
		case *ast.DeclStmt:
			gd, ok := x.Decl.(*ast.GenDecl)
			if !ok || gd.Tok != token.VAR || len(gd.Specs) != 1 {
				return []ast.Stmt{st}
			}
			vs := gd.Specs[0].(*ast.ValueSpec)
			// alias declarations disappear
			if len(vs.Names) == 1 {
				if a := candidate(vs.Names[0]); a != nil && a.isPtr {
					return nil
				}
			}
			var after []ast.Stmt
			touched := false
			for i, nm := range vs.Names {
				sv := good(nm)
				if sv == nil {
					continue
				}
				touched = true
				var val ast.Expr
				if len(vs.Values) == len(vs.Names) {
					val = vs.Values[i]
				}
				names, exprs := fieldExprs(sv, val)
				if val != nil && names != nil {
					// keep a typed, side-effect free declaration of the struct itself
					if cl, ok := val.(*ast.CompositeLit); ok {
						if vs.Type == nil {
							vs.Type = cl.Type
						}
						if len(vs.Names) == 1 {
							vs.Values = nil
						} else {
							vs.Values[i] = &ast.CompositeLit{Type: cl.Type, Lbrace: val.Pos(), Rbrace: val.Pos()}
						}
					}
					for j, f := range names {
						d := &ast.ValueSpec{Names: []*ast.Ident{fieldIdent(sv, f, nm.Pos())}, Values: []ast.Expr{exprs[j]}}
						after = append(after, &ast.DeclStmt{Decl: &ast.GenDecl{TokPos: nm.Pos(), Tok: token.VAR, Specs: []ast.Spec{d}}})
						after = append(after, &ast.AssignStmt{Lhs: []ast.Expr{&ast.Ident{NamePos: nm.Pos(), Name: "_"}}, TokPos: nm.Pos(), Tok: token.ASSIGN, Rhs: []ast.Expr{fieldIdent(sv, f, nm.Pos())}})
					}
					continue
				}
				after = append(after, copyOut(sv, nm.Pos(), true)...)
			}
			if !touched {
				return []ast.Stmt{st}
			}
			for _, nm := range vs.Names {
				if good(nm) != nil {
					after = append(after, &ast.AssignStmt{Lhs: []ast.Expr{&ast.Ident{NamePos: nm.Pos(), Name: "_"}}, TokPos: nm.Pos(), Tok: token.ASSIGN, Rhs: []ast.Expr{&ast.Ident{NamePos: nm.Pos(), Name: nm.Name}}})
				}
			}
			return append([]ast.Stmt{st}, after...)
		case *ast.AssignStmt:
			if x.Tok != token.ASSIGN && x.Tok != token.DEFINE {
				return []ast.Stmt{st}
			}
			// alias definitions disappear
			if len(x.Lhs) == 1 {
				if a := candidate(x.Lhs[0]); a != nil && a.isPtr {
					return nil
				}
			}
			// `_ = alias`
			if len(x.Lhs) == 1 && len(x.Rhs) == 1 {
				if b, ok := x.Lhs[0].(*ast.Ident); ok && b.Name == "_" {
					if a := candidate(x.Rhs[0]); a != nil && a.isPtr {
						return nil
					}
				}
			}
			any := false
			for _, l := range x.Lhs {
				if good(l) != nil {
					any = true
				}
			}
			if !any {
				return []ast.Stmt{st}
			}
			if len(x.Lhs) != len(x.Rhs) {
				// multi-value call: keep, then copy the fields out
				out := []ast.Stmt{st}
				for _, l := range x.Lhs {
					if sv := good(l); sv != nil {
						out = append(out, copyOut(sv, l.Pos(), x.Tok == token.DEFINE && declares(l.(*ast.Ident), sv))...)
					}
				}
				return out
			}
			// 1:1. Expand in place where every struct slot has per-field expressions and nothing is declared;
			// otherwise keep the statement and copy out.
			expandable := x.Tok == token.ASSIGN
			for i, l := range x.Lhs {
				if sv := good(l); sv != nil {
					if names, _ := fieldExprs(sv, x.Rhs[i]); names == nil {
						expandable = false
					}
				}
			}
			if expandable {
				na := &ast.AssignStmt{TokPos: x.TokPos, Tok: token.ASSIGN}
				for i, l := range x.Lhs {
					sv := good(l)
					if sv == nil {
						na.Lhs = append(na.Lhs, l)
						na.Rhs = append(na.Rhs, x.Rhs[i])
						continue
					}
					names, exprs := fieldExprs(sv, x.Rhs[i])
					for j, f := range names {
						na.Lhs = append(na.Lhs, fieldIdent(sv, f, l.Pos()))
						na.Rhs = append(na.Rhs, exprs[j])
					}
				}
				return []ast.Stmt{na}
			}
			if x.Tok == token.DEFINE {
				// `v := W` / `v := T{...}`: declare the fields from the per-field expressions when there are
				// some (the struct variable keeps a typed, side-effect free initialiser)
				out := []ast.Stmt{st}
				for i, l := range x.Lhs {
					sv := good(l)
					if sv == nil {
						continue
					}
					id := l.(*ast.Ident)
					names, exprs := fieldExprs(sv, x.Rhs[i])
					isDecl := declares(id, sv)
					if names != nil && isDecl {
						if cl, ok := x.Rhs[i].(*ast.CompositeLit); ok {
							x.Rhs[i] = &ast.CompositeLit{Type: cl.Type, Lbrace: cl.Pos(), Rbrace: cl.Pos()}
						}
						out = append(out, &ast.AssignStmt{Lhs: []ast.Expr{&ast.Ident{NamePos: id.Pos(), Name: "_"}}, TokPos: id.Pos(), Tok: token.ASSIGN, Rhs: []ast.Expr{&ast.Ident{NamePos: id.Pos(), Name: id.Name}}})
						for j, f := range names {
							d := &ast.ValueSpec{Names: []*ast.Ident{fieldIdent(sv, f, id.Pos())}, Values: []ast.Expr{exprs[j]}}
							out = append(out, &ast.DeclStmt{Decl: &ast.GenDecl{TokPos: id.Pos(), Tok: token.VAR, Specs: []ast.Spec{d}}})
							out = append(out, &ast.AssignStmt{Lhs: []ast.Expr{&ast.Ident{NamePos: id.Pos(), Name: "_"}}, TokPos: id.Pos(), Tok: token.ASSIGN, Rhs: []ast.Expr{fieldIdent(sv, f, id.Pos())}})
						}
						continue
					}
					out = append(out, copyOut(sv, id.Pos(), isDecl)...)
				}
				return out
			}
			out := []ast.Stmt{st}
			for _, l := range x.Lhs {
				if sv := good(l); sv != nil {
					out = append(out, copyOut(sv, l.Pos(), false)...)
				}
			}
			return out
		}
		return []ast.Stmt{st}
	}
	rewriteList = func(list []ast.Stmt) []ast.Stmt {
		var out []ast.Stmt
		for _, st := range list {
			out = append(out, rewriteStmt(st)...)
		}
		return out
	}
	ast.Inspect(fd.Body, func(n ast.Node) bool {
		switch x := n.(type) {
		case *ast.BlockStmt:
			x.List = rewriteList(x.List)
		case *ast.CaseClause:
			x.Body = rewriteList(x.Body)
		case *ast.CommClause:
			x.Body = rewriteList(x.Body)
		}
		return true
	})
	return n
}

func root0(sv *sroaVar, vars map[*types.Var]*sroaVar) *sroaVar {
	for i := 0; i < 10 && sv != nil && sv.isPtr; i++ {
		if sv.target == nil {
			return nil
		}
		sv = vars[sv.target]
	}
	if sv == nil || sv.bad != "" {
		return nil
	}
	return sv
}

// normalizePtrLits rewrites `p := &T{...}` (T a struct type, p a new
// variable) into `p__s := T{...}; p := &p__s` in statement lists. Every
// execution of the pair declares a fresh p__s, exactly as every execution of
// the original allocates a fresh T, so nothing changes; afterwards p is an
// ordinary pointer to a local struct variable and the scalar replacement can
// consider both. Returns the number of rewrites.
func normalizePtrLits(files []*ast.File, info *types.Info, orig map[ast.Node]ast.Node) int {
	o := func(n ast.Node) ast.Node {
		if x, ok := orig[n]; ok {
			return x
		}
		return n
	}
	isStructLit := func(e ast.Expr) *ast.CompositeLit {
		ue, ok := e.(*ast.UnaryExpr)
		if !ok || ue.Op != token.AND {
			return nil
		}
		cl, ok := ue.X.(*ast.CompositeLit)
		if !ok || cl.Type == nil {
			return nil
		}
		oe, ok := o(cl).(ast.Expr)
		if !ok {
			return nil
		}
		tv, ok := info.Types[oe]
		if !ok || tv.Type == nil {
			return nil
		}
		if _, isStruct := tv.Type.Underlying().(*types.Struct); !isStruct {
			return nil
		}
		return cl
	}
	n := 0
	for _, f := range files {
		for _, d := range f.Decls {
			fd, ok := d.(*ast.FuncDecl)
			if !ok || fd.Body == nil {
				continue
			}
			names := map[string]bool{}
			ast.Inspect(fd, func(x ast.Node) bool {
				if id, ok := x.(*ast.Ident); ok {
					names[id.Name] = true
				}
				return true
			})
			rewrite := func(list []ast.Stmt) []ast.Stmt {
				var out []ast.Stmt
				for _, st := range list {
					as, ok := st.(*ast.AssignStmt)
					if !ok || as.Tok != token.DEFINE || len(as.Lhs) != 1 || len(as.Rhs) != 1 {
						out = append(out, st)
						continue
					}
					id, ok := as.Lhs[0].(*ast.Ident)
					cl := isStructLit(as.Rhs[0])
					if !ok || cl == nil || id.Name == "_" {
						out = append(out, st)
						continue
					}
					// the variable must be new (not a redeclaration)
					if oi, ok := o(id).(*ast.Ident); !ok || info.Defs[oi] == nil {
						out = append(out, st)
						continue
					}
					nm := id.Name + "__s"
					for names[nm] {
						nm += "_"
					}
					names[nm] = true
					n++
					pos := as.Pos()
					out = append(out,
						&ast.AssignStmt{Lhs: []ast.Expr{&ast.Ident{NamePos: pos, Name: nm}}, TokPos: pos, Tok: token.DEFINE, Rhs: []ast.Expr{cl}},
						&ast.AssignStmt{Lhs: []ast.Expr{id}, TokPos: as.TokPos, Tok: token.DEFINE, Rhs: []ast.Expr{&ast.UnaryExpr{OpPos: pos, Op: token.AND, X: &ast.Ident{NamePos: pos, Name: nm}}}})
				}
				return out
			}
			ast.Inspect(fd.Body, func(x ast.Node) bool {
				switch y := x.(type) {
				case *ast.BlockStmt:
					y.List = rewrite(y.List)
				case *ast.CaseClause:
					y.Body = rewrite(y.Body)
				case *ast.CommClause:
					y.Body = rewrite(y.Body)
				}
				return true
			})
		}
	}
	return n
}
